(* C08 — every signed artifact verifies against the published keys and tells the truth.
   Statements only; proofs are in Proofs/C08Proofs.v.  The model is Model/Artifacts.v (symbolic
   keys and hashes); the same builders are evaluated by the correspondence cases of suite c08
   (Corr/C08.v) against what the real provider emitted, whose signatures and hash claims the
   harness judges on real bytes with crypto/rsa, crypto/ecdsa and crypto/sha* directly.
   "published cfg a j": j's header algorithm is a, and public_jwks cfg contains a key with j's
   kid, registered for a, without private members, under which j's signature verifies. *)
From Verif Require Import Base Scope Types Prog Pop Token Authorize Artifacts ArtifactsX C08Proofs C08XProofs.
Local Open Scope N_scope.

(* joseutil.Sign, for every key set, algorithm and claim set: whatever is signed with an asymmetric
   algorithm verifies under a key of the published set that is registered for that algorithm. *)
Theorem signed_verifies_under_published_key : forall (C : Type) cfg (cl : C) a typ j,
  is_asym a = true -> sign cfg cl a typ = Some j -> published cfg a j /\ j_claims j = cl.
Proof. exact @sign_published. Qed.
Print Assumptions signed_verifies_under_published_key.

(* ID tokens, all configurations / clients / values: signed with the client's algorithm (else the
   default) by a published key; and the claims are exactly id_token_claims. *)
Theorem id_token_signed_by_published_key : forall cfg c o now art j,
  make_id_token cfg c o now = Some art -> art_body art = Signed j -> is_asym (idt_alg cfg c) = true ->
  published cfg (idt_alg cfg c) j /\ j_claims j = id_token_claims cfg c o (idt_alg cfg c) now.
Proof. exact id_token_signed_truthful. Qed.
Print Assumptions id_token_signed_by_published_key.

(* iss = issuer, aud = the client, exp = iat + IDTokenLifetimeSecs, sub after the pairwise
   transformation, nonce echoed, each hash claim present iff its sibling value is non-empty and then
   equal to half_hash(alg, sibling). *)
Theorem id_token_claims_truthful : forall cfg c o a now,
  let cl := id_token_claims cfg c o a now in
  ic_iss cl = ac_host cfg /\
  ic_aud cl = opt_str (acl_id c) /\
  ic_iat cl = now /\ ic_exp cl = (ic_iat cl + ac_idt_lifetime cfg)%Z /\
  ic_sub cl = exportable_subject cfg c (io_sub o) /\
  ic_nonce cl = opt_str (io_nonce o) /\
  ic_at_hash cl = hash_of_id a (io_at o) /\
  ic_c_hash cl = hash_of_id a (io_code o) /\
  ic_s_hash cl = hash_of_str a (io_state o).
Proof. exact C08Proofs.id_token_claims_truthful. Qed.
Print Assumptions id_token_claims_truthful.

Theorem nonce_echoed : forall cfg c o a now nonce,
  io_nonce o = nonce -> nonce <> "" -> ic_nonce (id_token_claims cfg c o a now) = Some nonce.
Proof. exact C08Proofs.nonce_echoed. Qed.
Print Assumptions nonce_echoed.

(* The authorization endpoint (all response types, modes, JARM or not): the ID token delivered in a
   response hashes exactly the access token, code and state delivered in that same response, with the
   hash of the token's own algorithm. *)
Theorem authz_hash_claims_match_delivered_siblings : forall cfg n now c fo s r i,
  finish_flow cfg n now c fo s = Some r -> rp_id_token (params_of r) = Some i ->
  exists a, body_claims (art_body i) =
            id_token_claims cfg c (mkIdtOpts (ai_sub s) (ai_nonce_claim s) (delivered_at (params_of r))
                                     (rp_code (params_of r)) (rp_state (params_of r)) 0 0) a now /\
            (match art_body i with Signed j => a = idt_alg cfg c /\ j_alg j = a | Unsigned _ => a = AlgNone end).
Proof. exact finish_flow_hashes. Qed.
Print Assumptions authz_hash_claims_match_delivered_siblings.

Theorem half_hash_injective : forall a b v w, half_hash a v = half_hash b w -> hash_alg a = hash_alg b /\ v = w.
Proof. exact half_hash_inj. Qed.
Print Assumptions half_hash_injective.

(* JWT access tokens: published key, the algorithm of the token options, typ at+jwt, iss, client_id,
   sub, scope, exp = iat + lifetime, cnf. *)
Theorem jwt_access_token_truthful : forall cfg n now g o t,
  is_asym (to_alg o) = true -> make_jwt_token cfg n now g o = Some t ->
  exists j, tk_value t = TokJwt j /\ published cfg (to_alg o) j /\ j_typ j = "at+jwt" /\
    tc_iss (j_claims j) = ac_host cfg /\ tc_client_id (j_claims j) = opt_str (gi_client g) /\
    tc_sub (j_claims j) = gi_sub g /\ tc_scope (j_claims j) = gi_scopes g /\
    tc_iat (j_claims j) = now /\ tc_exp (j_claims j) = (tc_iat (j_claims j) + to_lifetime o)%Z /\
    tk_lifetime t = to_lifetime o /\ tc_jti (j_claims j) = tk_id t /\
    tc_jkt (j_claims j) = gi_jkt g /\ tc_x5t (j_claims j) = gi_x5t g.
Proof. exact C08Proofs.jwt_token_truthful. Qed.
Print Assumptions jwt_access_token_truthful.

(* token endpoint: expires_in is the configured lifetime, and exp = iat + expires_in for JWT tokens *)
Theorem expires_in_matches : forall cfg n now g c fo r nonce,
  token_endpoint_response cfg n now g c fo nonce = Some r ->
  trs_expires_in r = to_lifetime fo /\
  match tk_value (trs_at r) with
  | TokJwt j => tc_exp (j_claims j) = (tc_iat (j_claims j) + trs_expires_in r)%Z
  | TokOpaque _ => True end.
Proof. exact make_expires_in. Qed.
Print Assumptions expires_in_matches.

(* JARM response objects *)
Theorem jarm_response_truthful : forall cfg c p now art,
  is_asym (jarm_alg cfg c) = true -> jarm_response cfg c p now = Some art ->
  exists j, art_body art = Signed j /\ published cfg (jarm_alg cfg c) j /\
    jc_iss (j_claims j) = ac_host cfg /\ jc_aud (j_claims j) = acl_id c /\
    jc_iat (j_claims j) = now /\ jc_exp (j_claims j) = (jc_iat (j_claims j) + ac_jarm_lifetime cfg)%Z /\
    jc_params (j_claims j) = p.
Proof. exact jarm_truthful. Qed.
Print Assumptions jarm_response_truthful.

(* userinfo: sub after the pairwise transformation; when signed: iss, aud, published key *)
Theorem userinfo_response_truthful : forall cfg c sub r,
  userinfo_response cfg c sub = Some r ->
  ui_sub r = exportable_subject cfg c sub /\
  match r with
  | UiJson _ => acl_ui_alg c = None
  | UiJwt a => uc_iss (body_claims (art_body a)) = ac_host cfg /\ uc_aud (body_claims (art_body a)) = acl_id c /\
               match art_body a with
               | Signed j => is_asym (ui_alg cfg c) = true -> published cfg (ui_alg cfg c) j
               | Unsigned _ => acl_ui_alg c = Some AlgNone end
  end.
Proof. exact userinfo_truthful. Qed.
Print Assumptions userinfo_response_truthful.

(* one grant: sub(id_token) = sub(userinfo) = export(sub, client) *)
Theorem id_token_and_userinfo_subject_agree : forall cfg c o now art sub r,
  make_id_token cfg c o now = Some art -> io_sub o = sub -> userinfo_response cfg c sub = Some r ->
  ic_sub (body_claims (art_body art)) = ui_sub r /\ ui_sub r = exportable_subject cfg c sub.
Proof. exact sub_agreement. Qed.
Print Assumptions id_token_and_userinfo_subject_agree.

(* ---- widened inputs (Model/ArtifactsX.v): path prefix, delegated signing ---- *)

(* Whatever prefix the provider is mounted under (and however its keys are handled), the issuer
   named by every artifact - ID token, JWT access token, JARM response object, signed userinfo
   response, the iss response parameter - is the issuer of the discovery document, never the base
   URL of the endpoints. *)
Theorem artifacts_name_the_discovery_issuer : forall cfg kh,
  (forall c o a now, ic_iss (id_token_claims cfg c o a now) = discovery_issuer cfg kh) /\
  (forall n now g o t j, make_jwt_token cfg n now g o = Some t -> tk_value t = TokJwt j ->
                         tc_iss (j_claims j) = discovery_issuer cfg kh) /\
  (forall c p now art, jarm_response cfg c p now = Some art ->
                       jc_iss (body_claims (art_body art)) = discovery_issuer cfg kh) /\
  (forall c sub a, userinfo_response cfg c sub = Some (UiJwt a) ->
                   uc_iss (body_claims (art_body a)) = discovery_issuer cfg kh) /\
  (forall c prm p now r, ac_issuer_param cfg = true -> redirect_response cfg c prm p now = Some r ->
                         rp_iss (params_of r) = discovery_issuer cfg kh).
Proof. exact issuer_independent_of_mount. Qed.
Print Assumptions artifacts_name_the_discovery_issuer.

(* ... while the keys are fetched from the mounted location. *)
Theorem jwks_uri_is_under_the_prefix : forall cfg kh,
  discovery_jwks_uri cfg kh = (discovery_issuer cfg kh ++ (kh_prefix kh ++ "/jwks"))%string.
Proof. exact jwks_uri_under_prefix. Qed.
Print Assumptions jwks_uri_is_under_the_prefix.

(* joseutil.Sign with a SignerFunc (provider.WithSignFunc): provided the embedder's key set lists
   the keys its signer uses (public halves suffice), whatever is signed verifies under a key
   published for that algorithm; without a SignerFunc this is signed_verifies_under_published_key. *)
Theorem delegated_signature_verifies_under_published_key : forall (C : Type) cfg kh (cl : C) a typ j,
  is_asym a = true -> signer_consistent cfg kh -> sign_x cfg kh cl a typ = Some j ->
  published cfg a j /\ j_claims j = cl.
Proof. exact @sign_x_published. Qed.
Print Assumptions delegated_signature_verifies_under_published_key.

(* ---- the nonce of the MERGED authorization request (Model/C08Nonce.v, suite c08nonce) ---- *)
From Verif Require Import C08Nonce C08NonceProofs.
From Verif Require Jar Monitors C08NonceSys C08NonceMon.
From Verif.Corr Require C08NonceCorr.

(* A flow f: how the request travelled (plain / PAR / JAR / PAR carrying a request object), the INNER
   parameters (pushed, or inside the signed object), the OUTER ones (the query of /authorize), the
   profile.  effective_params is authnSession's choice, stated with the system model's merge function
   (Authorize.merge_params): the query itself for a plain request; merge_params inner outer for PAR and
   JAR under the OpenID profile; inner alone under the FAPI profiles.  For ALL parameter records,
   profiles, artifact configurations, clients and token options: every ID token the flow delivers - in
   its authorization response (plain parameters or a JARM response object) and in its token responses
   (authorization_code and refresh_token grants) - carries as nonce claim exactly the nonce of the
   effective parameters: present and equal when that is non-empty, absent when it is empty. *)
Theorem nonce_echoed_merged : forall cfg n now c fo f,
  (forall r i, flow_authz_response cfg n now c fo f = Some r -> authz_id_token r = Some i ->
               idt_nonce i = opt_str (p_nonce (effective_params (fl_profile f) (fl_form f) (fl_inner f) (fl_outer f)))) /\
  (forall gt r i, flow_token_response cfg n now c fo f gt = Some r -> trs_id_token r = Some i ->
               idt_nonce i = opt_str (p_nonce (effective_params (fl_profile f) (fl_form f) (fl_inner f) (fl_outer f)))).
Proof. exact C08NonceProofs.nonce_echoed_merged. Qed.
Print Assumptions nonce_echoed_merged.

(* the nonce of the effective parameters, as a rule on the two nonce values alone (what the monitor
   of suite c08nonce and its Go-side oracle compute) *)
Theorem merged_nonce_is_inner_else_outer : forall prof form i o,
  p_nonce (effective_params prof form i o) = merged_nonce_rule prof form (p_nonce i) (p_nonce o).
Proof. exact effective_nonce_rule. Qed.
Print Assumptions merged_nonce_is_inner_else_outer.

(* OpenID profile, PAR / JAR: a nonce that is missing inside is completed by the query's - the ID
   tokens echo the OUTER nonce (the seeded regression of round 68 breaks exactly this) *)
Theorem nonce_outer_completes : forall cfg n now c fo f i,
  fl_profile f = POpenID -> fl_form f <> FPlain -> p_nonce (fl_inner f) = "" ->
  id_token_of_flow cfg n now c fo f i -> idt_nonce i = opt_str (p_nonce (fl_outer f)).
Proof. exact C08NonceProofs.nonce_outer_completes. Qed.
Print Assumptions nonce_outer_completes.

(* PAR / JAR, every profile: a nonce inside wins over whatever the query says *)
Theorem nonce_inner_wins : forall cfg n now c fo f i,
  fl_form f <> FPlain -> p_nonce (fl_inner f) <> "" ->
  id_token_of_flow cfg n now c fo f i -> idt_nonce i = Some (p_nonce (fl_inner f)).
Proof. exact C08NonceProofs.nonce_inner_wins. Qed.
Print Assumptions nonce_inner_wins.

(* FAPI profiles, PAR / JAR: only the inner nonce is ever echoed; the query's never leaks in *)
Theorem nonce_fapi_inner_only : forall cfg n now c fo f i,
  is_fapi (fl_profile f) = true -> fl_form f <> FPlain ->
  id_token_of_flow cfg n now c fo f i -> idt_nonce i = opt_str (p_nonce (fl_inner f)).
Proof. exact C08NonceProofs.nonce_fapi_inner_only. Qed.
Print Assumptions nonce_fapi_inner_only.

(* a plain request echoes its own nonce *)
Theorem nonce_plain_request : forall cfg n now c fo f i,
  fl_form f = FPlain -> id_token_of_flow cfg n now c fo f i -> idt_nonce i = opt_str (p_nonce (fl_outer f)).
Proof. exact C08NonceProofs.nonce_plain_request. Qed.
Print Assumptions nonce_plain_request.

(* Links with the SYSTEM model.  JAR (Jar.jar_session = validateRequestWithJAR + authnSessionWithJAR):
   whenever a request object is accepted, the session is built from exactly effective_params. *)
Theorem jar_session_built_from_effective_params : forall cfg c outer jin j p,
  Jar.jar_session cfg c outer jin j = inr p ->
  p = effective_params (cf_profile cfg) FJar (Jar.jr_params j) outer.
Proof. exact C08NonceSys.jar_session_effective. Qed.
Print Assumptions jar_session_built_from_effective_params.

(* PAR (Authorize.init_auth on a request_uri), for every store and request: when the authorization
   starts (a page or a successful redirection), the pushed session s was found and every session the
   store then holds under its id has a_params = effective_params profile FPar (pushed) (query) and, as
   its nonce claim (AdditionalIDTokenClaims["nonce"]), the nonce of those merged parameters. *)
Theorem par_session_carries_merged_nonce : forall w n now r st,
  cf_par_enabled (w_cfg w) = true -> is_nil (p_request_uri (ar_params r)) = false ->
  Monitors.started (snd (run_seq (init_auth w n now r) st)) = true ->
  exists s, find (fun s => ideq (a_par s) (p_request_uri (ar_params r))) (st_asess st) = Some s /\
            C08NonceSys.resaved (st_asess st) (st_asess (fst (run_seq (init_auth w n now r) st))) (a_id s)
              (fun x => a_params x = effective_params (cf_profile (w_cfg w)) FPar (a_params s) (ar_params r) /\
                        a_nonce_claim x = p_nonce (effective_params (cf_profile (w_cfg w)) FPar (a_params s) (ar_params r))).
Proof. exact C08NonceSys.init_auth_par_nonce. Qed.
Print Assumptions par_session_carries_merged_nonce.

(* the monitor of suite c08nonce never alarms on ID tokens of the model's flow ... *)
Theorem nonce_monitor_accepts_model : forall cfg n now c fo f l k,
  (forall o, In o l -> exists site i, o = C08NonceCorr.obs_of site i /\ id_token_of_flow cfg n now c fo f i) ->
  C08NonceCorr.first_bad_nonce k (merged_nonce_rule (fl_profile f) (fl_form f) (p_nonce (fl_inner f)) (p_nonce (fl_outer f))) l = 0.
Proof. exact C08NonceMon.monitor_accepts_model. Qed.
Print Assumptions nonce_monitor_accepts_model.

(* ... and when it is silent, every observed ID token carries exactly the merged request's nonce *)
Theorem nonce_monitor_silent_means_echo : forall prof form i o l k x,
  C08NonceCorr.first_bad_nonce k (merged_nonce_rule prof form (p_nonce i) (p_nonce o)) l = 0 -> In x l ->
  let e := p_nonce (effective_params prof form i o) in
  if is_empty e then C08NonceCorr.no_present x = false
  else C08NonceCorr.no_present x = true /\ C08NonceCorr.no_nonce x = e.
Proof. exact C08NonceMon.monitor_silent_means_echo. Qed.
Print Assumptions nonce_monitor_silent_means_echo.
