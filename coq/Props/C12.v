(* C12 — dynamic client registrations are protected by their token and reported faithfully.
   Statements only; proofs are in Proofs/C12Proofs.v.  All theorems are about the executable model
   Model/Dcr.v (dstep / drun), which the correspondence suite c12 also runs against the real provider.
   Quantifiers: every server feature set cfg, every history ops of create / read / update / delete /
   use-of-secret operations, every request document (key/value list, incl. unknown members and members
   named like the response's own), every presented token, every scripted embedder hook. *)
From Verif Require Import Base Scope Types Config Discovery Routes Dcr DcrUse DcrUri C12Proofs C12UseProofs C12UriProofs.
Local Open Scope N_scope.

(* In every reachable state, a read, update or delete is accepted only when it presents, as a bearer
   token, the registration token stored (as a hash) on the very client it addresses — and that token
   is stored on no other client. *)
Theorem dcr_guard : forall cfg ops o cid t,
  let s := fst (drun cfg ops) in
  op_target o = Some (cid, t) ->
  dcr_accepted (snd (dstep cfg s (List.length ops) o)) = true ->
  exists c, dfind cid s = Some c /\ t = PTok (dc_htoken c) /\ dc_htoken c <> 0
            /\ forall c', In c' s -> dc_htoken c' = dc_htoken c -> c' = c.
Proof. exact guard_all_histories. Qed.
Print Assumptions dcr_guard.

(* The guard is not vacuous: in every reachable state the stored token of a client opens its read
   (answering the stored metadata) and its deletion. *)
Theorem dcr_guard_complete : forall cfg ops c,
  let s := fst (drun cfg ops) in
  In c s ->
  snd (dstep cfg s (List.length ops) (Read (dc_id c) (PTok (dc_htoken c))))
    = DDoc false (response_doc (dc_id c) nil_id nil_id (dc_meta c))
  /\ snd (dstep cfg s (List.length ops) (Delete (dc_id c) (PTok (dc_htoken c)))) = DDeleted.
Proof. exact current_token_works. Qed.
Print Assumptions dcr_guard_complete.

(* With token rotation: once an update presenting token t has been accepted, t is refused for every
   client, by every operation, after any further history. *)
Theorem dcr_rotation : forall cfg ops1 cid t b hk ops2 o cid',
  d_rotation cfg = true ->
  let s := fst (drun cfg ops1) in
  let n := List.length ops1 in
  dcr_accepted (snd (dstep cfg s n (Update cid (PTok t) b hk))) = true ->
  let s2 := fst (drun cfg (ops1 ++ Update cid (PTok t) b hk :: ops2)) in
  op_target o = Some (cid', PTok t) ->
  dcr_accepted (snd (dstep cfg s2 (S n + List.length ops2) o)) = false.
Proof. exact rotation_all_histories. Qed.
Print Assumptions dcr_rotation.

(* The credential members of a registration response are the stored credentials' plaintexts, for
   every request document: client_id and registration_client_uri name the stored client,
   registration_access_token is the plaintext of the stored token hash, client_secret (if any) is the
   plaintext of the stored secret / secret hash, and no secret is stored when none is reported. *)
Theorem dcr_response_truthful_create : forall cfg ops b hk cr d,
  let s := fst (drun cfg ops) in
  let n := List.length ops in
  snd (dstep cfg s n (Create b hk)) = DDoc cr d ->
  exists c, dfind (mint n KClientId) (fst (dstep cfg s n (Create b hk))) = Some c
            /\ truthful d c true /\ dc_htoken c = mint n KRegToken.
Proof. intros. eapply create_truthful; eauto. Qed.
Print Assumptions dcr_response_truthful_create.

(* Same for an update; the registration token is reported exactly when it was rotated, and otherwise
   the stored one is unchanged (so the one reported earlier keeps working, by dcr_guard_complete). *)
Theorem dcr_response_truthful_update : forall cfg ops cid t b hk cr d,
  let s := fst (drun cfg ops) in
  let n := List.length ops in
  snd (dstep cfg s n (Update cid t b hk)) = DDoc cr d ->
  exists c0 c, dfind cid s = Some c0 /\
    dfind cid (fst (dstep cfg s n (Update cid t b hk))) = Some c /\
    truthful d c (d_rotation cfg) /\
    dc_htoken c = (if d_rotation cfg then mint n KRegToken else dc_htoken c0).
Proof.
  intros. eapply update_truthful; eauto.
  eapply inv_nonzero. apply inv_reachable.
Qed.
Print Assumptions dcr_response_truthful_update.

(* Every client stored in any reachable state passed the complete validation (all 35 validators,
   after the embedder hook), hence each capability field it asks for is among those the server enables
   (algorithms and authorization-detail types for the features that are switched on). *)
Theorem dcr_capabilities : forall cfg ops c,
  In c (fst (drun cfg ops)) ->
  validate cfg (dc_meta c) = true /\ caps_ok_b cfg (dc_meta c) = true.
Proof.
  intros cfg ops c I. split.
  - eapply (inv_valid _ _ _ (inv_reachable cfg ops)); eauto.
  - eapply capabilities_all_histories; eauto.
Qed.
Print Assumptions dcr_capabilities.

(* caps_ok_b spelled out for the fields the property names first *)
Theorem dcr_capabilities_meaning : forall cfg m, caps_ok_b cfg m = true ->
  (forall g, In g (glist "grant_types" m) -> In g (d_grants cfg)) /\
  (forall r, In r (glist "response_types" m) -> In r (d_resp_types cfg)) /\
  (forall a, gstr "token_endpoint_auth_method" m = JStr a -> a <> "" -> In a (d_auth_methods cfg)) /\
  (forall sc, In sc (split_with_spaces (v_str (gstr "scope" m))) -> In sc (d_scopes cfg)) /\
  (forall t, gstr "subject_type" m = JStr t -> t <> "" -> In t (d_sub_types cfg)) /\
  (has_ciba m = true -> exists md, gstr "backchannel_token_delivery_mode" m = JStr md /\ In md (d_ciba_modes cfg)).
Proof. exact caps_ok_meaning. Qed.
Print Assumptions dcr_capabilities_meaning.

(* What was registered or updated at operation n is what a later read gives back, whatever happens in
   between to other registrations: every member except the two secrets is reported identically, the
   secrets are not reported again, and the document read is the rendering of stored, validated metadata. *)
Theorem dcr_readback : forall cfg ops1 o ops2 cid cr d t cr' d',
  let s := fst (drun cfg ops1) in
  let n := List.length ops1 in
  writes n o cid ->
  snd (dstep cfg s n o) = DDoc cr d ->
  forallb (leaves_alone cid) ops2 = true ->
  let s2 := fst (drun cfg (ops1 ++ o :: ops2)) in
  snd (dstep cfg s2 (S n + List.length ops2) (Read cid t)) = DDoc cr' d' ->
  (forall k, ~ secret_key k -> dget k d' = dget k d) /\
  dget "client_secret" d' = None /\ dget "registration_access_token" d' = None /\
  exists c, dfind cid s2 = Some c /\ validate cfg (dc_meta c) = true
            /\ d' = response_doc cid nil_id nil_id (dc_meta c).
Proof. exact readback_all_histories. Qed.
Print Assumptions dcr_readback.

(* ---- the returned secret, USED (Model/DcrUse.v): token, introspection and revocation endpoints,
        client_secret_post / client_secret_basic / client_secret_jwt ---- *)

(* Histories may contain such uses anywhere: they never change the store, so every theorem above
   about the states of drun holds for the states of xrun (erase turns a use into a Dcr.UseSecret). *)
Theorem dcr_uses_change_nothing : forall cfg ops, fst (xrun cfg ops) = fst (drun cfg (map erase ops)).
Proof. exact xrun_state. Qed.
Print Assumptions dcr_uses_change_nothing.

(* The client_secret returned by the registration or update at index |ops1| is - after any further
   history that does not update or delete that registration - accepted at EVERY enabled endpoint by
   EVERY secret-based method in force there (the endpoint's own method, else the token endpoint's;
   for client_secret_jwt provided the client signs with an algorithm it registered / the server
   accepts: jwt_usable), and it is the ONLY secret any of these endpoints accepts, by any of the three
   methods.  Whenever such a method is in force somewhere, the response does carry the secret. *)
Theorem dcr_secret_works_everywhere : forall cfg ops1 o ops2 cid cr d,
  let s := fst (drun cfg ops1) in
  let n := List.length ops1 in
  writes n o cid ->
  snd (dstep cfg s n o) = DDoc cr d ->
  forallb (leaves_alone cid) ops2 = true ->
  let s2 := fst (drun cfg (ops1 ++ o :: ops2)) in
  exists c, dfind cid s2 = Some c /\
    forall ep sm, ep_enabled cfg ep = true ->
      secret_method (effective_method ep (dc_meta c)) = Some sm ->
      dget "client_secret" d = Some (JCred (mint n KSecret)) /\
      (jwt_usable cfg ep (dc_meta c) sm = true -> authenticates cfg c ep sm (mint n KSecret) = true) /\
      (forall sm' h', authenticates cfg c ep sm' h' = true -> sm' = sm /\ h' = mint n KSecret).
Proof. exact secret_works_all_histories. Qed.
Print Assumptions dcr_secret_works_everywhere.

(* A response without client_secret: nothing is stored, hashed or in clear, and no secret-based
   method is in force at any enabled endpoint. *)
Theorem dcr_no_secret_no_method : forall cfg ops o cid cr d,
  let s := fst (drun cfg ops) in
  let n := List.length ops in
  writes n o cid ->
  snd (dstep cfg s n o) = DDoc cr d ->
  dget "client_secret" d = None ->
  exists c, dfind cid (fst (dstep cfg s n o)) = Some c /\ dc_hsecret c = 0 /\ dc_secret c = 0 /\
    forall ep, ep_enabled cfg ep = true -> secret_method (effective_method ep (dc_meta c)) = None.
Proof. exact no_secret_no_method. Qed.
Print Assumptions dcr_no_secret_no_method.

(* Every client of every reachable state has ONE secret h: its hash is stored exactly when
   client_secret_basic / _post is in force at an enabled endpoint, the string itself exactly when
   client_secret_jwt is, both are h (never two different secrets), and h opens every enabled endpoint. *)
Theorem dcr_one_secret : forall cfg ops c,
  In c (fst (drun cfg ops)) ->
  exists h, sec_ok cfg c h /\
    forall ep sm, ep_enabled cfg ep = true -> secret_method (effective_method ep (dc_meta c)) = Some sm ->
      (jwt_usable cfg ep (dc_meta c) sm = true -> authenticates cfg c ep sm h = true) /\
      (forall sm' h', authenticates cfg c ep sm' h' = true -> sm' = sm /\ h' = h).
Proof. exact one_secret_all_histories. Qed.
Print Assumptions dcr_one_secret.

(* Capabilities, the members dcr_capabilities_meaning leaves out.  With authorization details switched
   on, ALL authorization-detail types of every stored registration are enabled on the server - not
   just one of them, wherever in the list they stand; the introspection / revocation methods a stored
   registration names are among those enabled for that endpoint. *)
Theorem dcr_capabilities_detail_types : forall cfg ops c,
  In c (fst (drun cfg ops)) -> d_auth_details cfg = true ->
  forall t, In t (glist "authorization_data_types" (dc_meta c)) -> In t (d_auth_detail_types cfg).
Proof. exact detail_types_all_histories. Qed.
Print Assumptions dcr_capabilities_detail_types.

Theorem dcr_detail_type_refused : forall cfg s n b hk m t,
  parse_body b = Some m -> hk = HkNone -> d_auth_details cfg = true ->
  In t (glist "authorization_data_types" m) -> ~ In t (d_auth_detail_types cfg) ->
  dstep cfg s n (Create b hk) = (s, DErr EInvalidClientMetadata).
Proof. exact detail_type_refused. Qed.
Print Assumptions dcr_detail_type_refused.

Theorem dcr_capabilities_endpoint_methods : forall cfg ops c,
  In c (fst (drun cfg ops)) ->
  (forall a, gstr "introspection_endpoint_auth_method" (dc_meta c) = JStr a -> a <> "" -> In a (d_intro_methods cfg)) /\
  (forall a, gstr "revocation_endpoint_auth_method" (dc_meta c) = JStr a -> a <> "" -> In a (d_revoc_methods cfg)).
Proof.
  intros cfg ops c I. apply caps_endpoint_methods.
  eapply (inv_valid _ _ _ (inv_reachable cfg ops)); eauto.
Qed.
Print Assumptions dcr_capabilities_endpoint_methods.

(* ---- the hypotheses are satisfiable: a concrete server and history ---- *)
Definition ex_cfg : dcfg :=
  mkDcfg true ["client_credentials"] [] ["client_secret_post"] false [] false [] ["openid"] false ["public"] false
         [] false false [] ["ES256"] false [] [] [] false [] [] false [] false [] [] false false [] [] [] [] [] false [].
Definition ex_doc : doc :=
  [("token_endpoint_auth_method", JStr "client_secret_post"); ("grant_types", JArr ["client_credentials"]);
   ("client_id", JStr "chosen-by-the-client"); ("client_secret", JStr "s3cret"); ("software_id", JStr "v1")].
Definition ex_ops : list dcr_op := [Create (Some ex_doc) HkNone; Create (Some ex_doc) HkNone].
Definition ex_id : id := mint 0 KClientId.
Definition ex_tok : id := mint 0 KRegToken.

Example ex_rotating_update_accepted :
  dcr_accepted (snd (dstep ex_cfg (fst (drun ex_cfg ex_ops)) 2 (Update ex_id (PTok ex_tok) (Some ex_doc) HkNone))) = true.
Proof. vm_compute. reflexivity. Qed.
Example ex_old_token_then_refused :
  snd (drun ex_cfg (ex_ops ++ [Update ex_id (PTok ex_tok) (Some ex_doc) HkNone; Read ex_id (PTok ex_tok);
                               Read ex_id (PTok (mint 2 KRegToken)); UseSecret ex_id (mint 2 KSecret) false;
                               UseSecret ex_id (mint 0 KSecret) false; Read ex_id (PTok (mint 1 KRegToken))]))
  = match snd (drun ex_cfg (ex_ops ++ [Update ex_id (PTok ex_tok) (Some ex_doc) HkNone])) with
    | [a; b; c] => [a; b; c; DErr EAccessDenied;
                    DDoc false (response_doc ex_id nil_id nil_id (mkMeta
                       [("grant_types", JArr ["client_credentials"]); ("token_endpoint_auth_method", JStr "client_secret_post")]
                       [("software_id", JStr "v1"); ("client_secret", JStr "s3cret"); ("client_id", JStr "chosen-by-the-client")]));
                    DTok true; DTok false; DErr EAccessDenied]
    | _ => [] end.
Proof. vm_compute. reflexivity. Qed.
Example ex_response_reports_server_values :
  match snd (dstep ex_cfg [] 0 (Create (Some ex_doc) HkNone)) with
  | DDoc true d => dget "client_id" d = Some (JCred ex_id) /\ dget "client_secret" d = Some (JCred (mint 0 KSecret))
                   /\ dget "software_id" d = Some (JStr "v1")
  | _ => False end.
Proof. vm_compute. auto. Qed.
Example ex_capability_refused :
  snd (dstep ex_cfg [] 0 (Create (Some [("grant_types", JArr ["authorization_code"])]) HkNone)) = DErr EInvalidClientMetadata.
Proof. vm_compute. reflexivity. Qed.

(* a server with introspection (client_secret_jwt) and revocation (client_secret_basic), a client that
   mixes the three secret-based methods over the three endpoints: one secret, accepted everywhere *)
Definition ex_cfg_mixed : dcfg :=
  mkDcfg false ["client_credentials"] [] ["client_secret_post"] true ["client_secret_jwt"] true ["client_secret_basic"]
         ["openid"] false ["public"] false
         [] false false [] ["ES256"] false [] [] [] false [] [] false [] false [] [] false false [] [] [] [] ["HS256"] true ["payment"].
Definition ex_doc_mixed : doc :=
  [("token_endpoint_auth_method", JStr "client_secret_post"); ("introspection_endpoint_auth_method", JStr "client_secret_jwt");
   ("revocation_endpoint_auth_method", JStr "client_secret_basic"); ("grant_types", JArr ["client_credentials"]);
   ("authorization_data_types", JArr ["payment"])].
Example ex_mixed_secret_works :
  snd (xrun ex_cfg_mixed [XBase (Create (Some ex_doc_mixed) HkNone);
                          XUse EpToken SmPost ex_id (mint 0 KSecret); XUse EpIntrospect SmJwt ex_id (mint 0 KSecret);
                          XUse EpRevoke SmBasic ex_id (mint 0 KSecret); XUse EpToken SmBasic ex_id (mint 0 KSecret);
                          XUse EpIntrospect SmPost ex_id (mint 0 KSecret); XUse EpRevoke SmBasic ex_id (mint 0 KRegToken)])
  = match snd (xrun ex_cfg_mixed [XBase (Create (Some ex_doc_mixed) HkNone)]) with
    | [a] => [a; DTok true; DTok true; DTok true; DTok false; DTok false; DTok false] | _ => [] end.
Proof. vm_compute. reflexivity. Qed.
Example ex_mixed_detail_types_refused :
  snd (dstep ex_cfg_mixed [] 0 (Create (Some (dput "authorization_data_types" (JArr ["payment"; "account"]) ex_doc_mixed)) HkNone))
    = DErr EInvalidClientMetadata /\
  snd (dstep ex_cfg_mixed [] 0 (Create (Some (dput "authorization_data_types" (JArr ["account"; "payment"]) ex_doc_mixed)) HkNone))
    = DErr EInvalidClientMetadata.
Proof. vm_compute. auto. Qed.

(* ---- the registration URI, as a string, FOLLOWED (Model/DcrUri.v over Model/Routes.v): path prefix
        (WithPathPrefix) and registration endpoint override (WithDCREndpoint) are inputs ---- *)

(* For every configuration record with dynamic registration on whose patterns do not overlap, every
   client id that is one non-empty path segment and each of GET / PUT / DELETE: the request a client
   makes by using registrationURI's string literally (host ++ prefix ++ EndpointDCR ++ "/" ++ id) is
   dispatched by the route table of Provider.Handler() to the registered-client handlers, with
   {client_id} bound to that very id. *)
Theorem dcr_registration_uri_served : forall host pc cid m,
  cf_dcr (pc_cfg pc) = true -> routes_ok pc = true -> sub_roots_apart pc = true ->
  is_empty cid = false -> no_slash cid = true -> In m [MGet; MPut; MDelete] ->
  follow host pc m (registration_uri host pc cid) = Some EpDcrClient /\
  follow_client host pc m (registration_uri host pc cid) = Some cid.
Proof. exact registration_uri_followed. Qed.
Print Assumptions dcr_registration_uri_served.

(* ... and it is the only such URL: whatever URL reaches the registered-client handlers with
   {client_id} = w IS the registration URI of w (any configuration, any method). *)
Theorem dcr_registration_uri_unique : forall host pc m url w,
  follow_client host pc m url = Some w -> url = registration_uri host pc w.
Proof. exact follow_client_unique. Qed.
Print Assumptions dcr_registration_uri_unique.

(* The registration URI returned by a registration or update is exactly the one that works afterwards.
   For every option list provider.New accepts (path prefix, endpoint overrides, feature options) with
   dynamic registration on and non-overlapping patterns, every DCR feature set, every history and
   every request document: the registration_client_uri member of the response of a registration or
   update, rendered as the string the server sends (name: the strings minted for the handles, each
   one non-empty path segment), is
   - the discovery document's registration_endpoint ++ "/" ++ the client_id member of the same response,
   - dispatched, under GET, PUT and DELETE, to the registered-client handlers addressing that client,
   - the only URL that addresses that client,
   and with the registration token in force after the operation (the one the response reports, when it
   reports one) the GET at that URL answers the client's document - carrying the same URI and
   client_id - and the DELETE deletes it. *)
Theorem dcr_registration_uri_works : forall host mtls p opts pc (name : id -> string) resolve cfg ops o cid cr d,
  build3 p opts = Some pc -> cf_dcr (pc_cfg pc) = true ->
  routes_ok pc = true -> sub_roots_apart pc = true ->
  (forall h, is_empty (name h) = false /\ no_slash (name h) = true) ->
  (forall h, resolve (name h) = Some h) ->
  let s := fst (drun cfg ops) in
  let n := List.length ops in
  writes n o cid ->
  snd (dstep cfg s n o) = DDoc cr d ->
  let s' := fst (dstep cfg s n o) in
  let uri := registration_uri host pc (name cid) in
  rendered_uri host pc name d = Some uri /\
  dget "client_id" d = Some (JCred cid) /\
  (exists e, member3 host mtls pc MRegistrationEndpoint = Some (DStr e) /\ uri = (e ++ "/" ++ name cid)%string) /\
  (forall m, In m [MGet; MPut; MDelete] ->
     follow host pc m uri = Some EpDcrClient /\ follow_client host pc m uri = Some (name cid)) /\
  (forall m url, follow_client host pc m url = Some (name cid) -> url = uri) /\
  exists c, dfind cid s' = Some c /\
    (forall t, dget "registration_access_token" d = Some (JCred t) -> t = dc_htoken c) /\
    (exists rd, url_op host pc resolve MGet uri (PTok (dc_htoken c)) None HkNone = Some rd /\
       exists d', snd (dstep cfg s' (S n) rd) = DDoc false d' /\
                  rendered_uri host pc name d' = Some uri /\ dget "client_id" d' = Some (JCred cid)) /\
    (exists dl, url_op host pc resolve MDelete uri (PTok (dc_htoken c)) None HkNone = Some dl /\
       snd (dstep cfg s' (S n) dl) = DDeleted).
Proof. exact registration_uri_works_all_histories. Qed.
Print Assumptions dcr_registration_uri_works.

(* the hypotheses are satisfiable: a provider under /auth whose registration endpoint is /clients *)
Definition ex_uri_opts : list popt := [PO WithDCR; WithDCREndpoint "/clients"; PO WithDCRTokenRotation; PO (WithPathPrefix "/auth")].
Definition ex_uri_pc : pcfg := match build3 POpenID ex_uri_opts with Some pc => pc | None => mkPcfg (base_config POpenID) no_paths end.
Example ex_uri_hypotheses :
  build3 POpenID ex_uri_opts = Some ex_uri_pc /\ cf_dcr (pc_cfg ex_uri_pc) = true /\
  routes_ok ex_uri_pc = true /\ sub_roots_apart ex_uri_pc = true.
Proof. vm_compute. auto. Qed.
Example ex_uri_value :
  registration_uri "https://as.example" ex_uri_pc "dc-1" = "https://as.example/auth/clients/dc-1"%string /\
  member3 "https://as.example" "" ex_uri_pc MRegistrationEndpoint = Some (DStr "https://as.example/auth/clients") /\
  follow_client "https://as.example" ex_uri_pc MPut "https://as.example/auth/clients/dc-1" = Some "dc-1"%string.
Proof. vm_compute. auto. Qed.
(* a URI built from the host without the prefix (ctx.Host + EndpointDCR + "/" + id), or at the default
   path, reaches no handler at all *)
Example ex_uri_without_prefix_not_served :
  follow "https://as.example" ex_uri_pc MGet "https://as.example/clients/dc-1" = None /\
  follow "https://as.example" ex_uri_pc MGet "https://as.example/auth/register/dc-1" = None /\
  follow "https://as.example" ex_uri_pc MGet "https://as.example/auth/clients/dc-1/x" = Some EpDcrClient /\
  follow_client "https://as.example" ex_uri_pc MGet "https://as.example/auth/clients/dc-1/x" = None.
Proof. vm_compute. auto. Qed.
