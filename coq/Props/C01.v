(* C01 — client authentication is sound on every client-authenticated endpoint.
   Statements only; proofs are in Proofs/C01Proofs.v.  Model: Model/Authn.v (clientutil.Authenticated,
   transcribed), Model/AuthnSpec.v (what a valid credential is, declaratively), Model/AuthnLink.v
   (how the abstract credential of Token.v / Authorize.v sits on top), Model/Token.v, Model/Authorize.v. *)
From Verif Require Import Base Scope Types Prog Pop Token Authorize Authn AuthnSpec AuthnLink C01Proofs JwtBearerProofs.
From Verif Require Import AuthnWire AuthnEntry C01WireProofs.
Local Open Scope N_scope.

(* SOUNDNESS.  For every configuration, every authentication context (token / introspection /
   revocation, hence all nine entry points), every list of registered clients and every request
   record: if clientutil.Authenticated returns a client, that client is the one the server knows
   under that id and the request identifies exactly it and carries a valid credential of the method
   registered for (client, context), verifying under the client's registered material with a
   permitted algorithm.  (ca_id c <> 0: the client's id is not the empty string.) *)
Theorem authn_sound : forall g x cls rq c,
  authenticated g x cls rq = Some c -> ca_id c <> 0 ->
  registered cls c /\ valid_credential g x c rq.
Proof. exact authn_sound_l. Qed.
Print Assumptions authn_sound.

(* COMPLETENESS.  A request that identifies exactly client c and carries a genuinely valid
   credential of the method registered for (c, context) is accepted, provided the registration does
   not make the request's key reference ambiguous (two registered keys with the kid / alg the
   assertion names, or with the thumbprint of the presented certificate). *)
Theorem authn_complete : forall g x cls rq c,
  registered cls c -> valid_credential g x c rq -> unambiguous c rq ->
  authenticated g x cls rq = Some c.
Proof. exact authn_complete_l. Qed.
Print Assumptions authn_complete.

(* whoever is authenticated is the one client every identification in the request names *)
Theorem authn_needs_identification : forall g x cls rq c,
  authenticated g x cls rq = Some c -> extract_id g rq = IdOk (ca_id c).
Proof. exact authn_needs_identification_l. Qed.
Print Assumptions authn_needs_identification.

(* the executable form of the specification, which the monitor evaluates on the requests sent to
   the real provider, decides the specification *)
Theorem valid_credential_decided : forall g x c rq,
  valid_credential_b g x c rq = true <-> valid_credential g x c rq.
Proof. exact valid_credential_b_iff. Qed.
Print Assumptions valid_credential_decided.

(* INERTNESS.  For each handler of a client-authenticated endpoint in Model/Token.v and
   Model/Authorize.v, for every world, store, clock, operation index and request: when the request
   is not authenticated (nobody named / unknown client / confidential client without a valid
   credential) the handler answers an error, the store after the run is the store before it, the
   only storage calls made are reads of the client store, and -- when the guards the handler
   evaluates before authenticating pass (grant type enabled, code / refresh token present, endpoint
   enabled) -- the error is invalid_client.  (The jwt-bearer grant, the one endpoint with an exception,
   is the subject of jwt_bearer_anonymous_only_when_allowed below.) *)
Theorem unauthenticated_inert : forall w n now st,
  (forall r, unauthenticated w st (t_cred r) -> refused_inert (code_grant w n now r) st (pre_code w r)) /\
  (forall r, unauthenticated w st (t_cred r) -> refused_inert (refresh_grant w n now r) st (pre_refresh w r)) /\
  (forall r, unauthenticated w st (t_cred r) -> refused_inert (cc_grant w n now r) st (pre_cc w)) /\
  (forall r, unauthenticated w st (t_cred r) -> refused_inert (ciba_grant w n now r) st (pre_ciba w)) /\
  (forall r, unauthenticated w st (pr_cred r) -> refused_inert (push_auth w n now r) st (cf_par_enabled (w_cfg w))) /\
  (forall r, unauthenticated w st (br_cred r) -> refused_inert (init_back_auth w n now r) st (cf_ciba_enabled (w_cfg w))) /\
  (forall r, unauthenticated w st (q_cred r) -> refused_inert (introspect w now r) st (cf_introspection (w_cfg w))) /\
  (forall r, unauthenticated w st (q_cred r) -> refused_inert (revoke w now r) st (cf_revocation (w_cfg w))).
Proof. exact unauthenticated_inert_l. Qed.
Print Assumptions unauthenticated_inert.

(* THE EXCEPTION: the jwt-bearer grant (Token.jwt_bearer_grant).  For every world, store, clock,
   operation index and request:
   - a request yields tokens without an authenticated client ONLY IF it carries no client identification
     at all (no client_id, no basic user, no client_assertion: cr_id = 0) and the embedder did not set
     WithJWTBearerGrantClientAuthnRequired; the grant is then issued to the anonymous client (empty id)
     and carries no refresh token;
   - a request that is not authenticated and names somebody (unknown client, known client with a bad
     credential), or meets a server that requires client authentication for the grant, is refused as
     on every other endpoint: an error - invalid_client once the grant type is enabled -, the store
     unchanged, no storage call but reads of the client store. *)
Theorem jwt_bearer_anonymous_only_when_allowed : forall w n now r st,
  ((exists t, snd (run_seq (jwt_bearer_grant w n now r) st) = OTokens t) ->
   snd (run_seq (Token.authenticated w (t_cred r)) st) = None ->
   cr_id (t_cred r) = 0 /\ cf_jwt_bearer_authn_required (w_cfg w) = false /\
   forall g, st_gsess (fst (run_seq (jwt_bearer_grant w n now r) st)) = put_gsess g (st_gsess st) ->
             g_refresh g = 0 /\ g_client g = 0) /\
  (unauthenticated w st (t_cred r) ->
   cr_id (t_cred r) <> 0 \/ cf_jwt_bearer_authn_required (w_cfg w) = true ->
   refused_inert (jwt_bearer_grant w n now r) st (has_grant GJwtBearer (cf_grants (w_cfg w)))).
Proof.
  intros w n now r st. split.
  - intros [t T0] A. assert (T : Monitors.is_tokens (snd (run_seq (jwt_bearer_grant w n now r) st)) = true) by (rewrite T0; reflexivity).
    destruct (jwt_bearer_anonymous_needs w n now r st T A) as [Z F]. split; [exact Z|]. split; [exact F|].
    intros g S. exact (anonymous_no_refresh w n now r st g T A S).
  - exact (inert_jwt_bearer w n now r st).
Qed.
Print Assumptions jwt_bearer_anonymous_only_when_allowed.

(* the hypotheses are satisfiable: an anonymous request that yields tokens; a request naming a known
   client with a wrong credential that is refused with invalid_client *)
Example jwt_bearer_exception_nonvacuous :
  (exists t, snd (run_seq (jwt_bearer_grant (ex_jb_world false) 0 0%Z (ex_jb_req (mkCred 0 false) "openid" (AsOk "bob"))) empty_store) = OTokens t) /\
  snd (run_seq (Token.authenticated (ex_jb_world false) (mkCred 0 false)) empty_store) = None /\
  unauthenticated (ex_jb_world false) empty_store (mkCred 1 false) /\
  snd (run_seq (jwt_bearer_grant (ex_jb_world false) 0 0%Z (ex_jb_req (mkCred 1 false) "openid" (AsOk "bob"))) empty_store) = OErr EInvalidClient.
Proof.
  destruct ex_jb_post_antecedent as (A & B & C & D). split; [|auto].
  destruct (snd (run_seq (jwt_bearer_grant (ex_jb_world false) 0 0%Z (ex_jb_req (mkCred 0 false) "openid" (AsOk "bob"))) empty_store)); try discriminate.
  eexists; reflexivity.
Qed.

(* refused_inert in terms of the sequential interpreter the other properties use *)
Theorem refused_inert_run_seq : forall p st pre,
  refused_inert p st pre -> exists e, run_seq p st = (st, OErr e) /\ (pre = true -> e = EInvalidClient).
Proof. exact refused_inert_seq. Qed.
Print Assumptions refused_inert_run_seq.

(* the two layers fit: when clientutil.Authenticated (Authn.v) answers None, the abstract credential
   the request amounts to is an unauthenticated one for the handlers, whatever the store holds, as
   long as both layers describe the same registered clients *)
Theorem authn_none_is_unauthenticated : forall g x cls rq w st,
  agrees x cls w st -> authenticated g x cls rq = None -> unauthenticated w st (cred_of g x cls rq).
Proof. exact authn_none_unauthenticated. Qed.
Print Assumptions authn_none_is_unauthenticated.

(* ======== PLACEMENT: where each member of the credential travels (Model/AuthnWire.v) ========
   A wire request `wreq` carries every form-carried member (client_id, client_secret, client_assertion,
   client_assertion_type) with its value in the BODY and its value in the QUERY STRING of the request
   URI; entry_outcome g e required cls w is what entry point e (one of the nine: /token for each of
   the five grants, /par, /bc-authorize, /introspect, /revoke) makes of it: act for a client, act for
   the anonymous client, or refuse - paired with whether the client's jwks_uri is fetched. *)

(* the query string is ignored: two requests that differ in their query strings only get the same
   outcome, at every entry point, for every configuration and registration *)
Theorem query_string_ignored : forall g e required cls w w',
  same_but_query w w' -> entry_outcome g e required cls w = entry_outcome g e required cls w'.
Proof. exact query_string_ignored_l. Qed.
Print Assumptions query_string_ignored.

(* soundness and completeness over wire requests: the credential that counts is the one carried in
   the places it must be in (body_view: form members from the body, the Basic pair from the header,
   the certificate from the TLS layer) *)
Theorem authn_wire_sound : forall g e required cls w c,
  fst (entry_outcome g e required cls w) = OutClient c -> ca_id c <> 0 ->
  registered cls c /\ valid_credential g (entry_ctx e) c (body_view w).
Proof. exact authn_wire_sound_l. Qed.
Print Assumptions authn_wire_sound.

Theorem authn_wire_complete : forall g e required cls w c,
  registered cls c -> valid_credential g (entry_ctx e) c (body_view w) -> unambiguous c (body_view w) ->
  fst (entry_outcome g e required cls w) = OutClient c.
Proof. exact authn_wire_complete_l. Qed.
Print Assumptions authn_wire_complete.

(* whenever an entry point acts for client c, the members of the credential of the method registered
   for (c, entry point) sit where that method reads them: client_id + client_secret in the body
   (client_secret_post), the Basic pair in the Authorization header (client_secret_basic), the
   assertion and its type in the body (the two assertion methods), client_id in the body and a
   certificate (the two TLS methods) *)
Theorem credential_placement : forall g e required cls w c,
  fst (entry_outcome g e required cls w) = OutClient c -> ca_id c <> 0 -> placement (entry_ctx e) c w.
Proof. exact credential_placement_l. Qed.
Print Assumptions credential_placement.

(* a client_secret outside the body is ignored: without a (non-empty) client_secret in the body no
   client whose method at this entry point is client_secret_post is authenticated - whatever the
   query string (in_query (wq_secret w)) and the Authorization header carry *)
Theorem secret_post_query_ignored : forall g e required cls w c,
  authn_method c (entry_ctx e) = MSecretPost ->
  (in_body (wq_secret w) = None \/ in_body (wq_secret w) = Some 0) ->
  fst (entry_outcome g e required cls w) <> OutClient c.
Proof. exact secret_post_query_ignored_l. Qed.
Print Assumptions secret_post_query_ignored.

(* ... and the request is refused when its body names a registered client_secret_post client *)
Theorem misplaced_secret_refused : forall g e required cls w c,
  registered cls c -> ca_id c <> 0 -> authn_method c (entry_ctx e) = MSecretPost ->
  in_body (wq_id w) = Some (ca_id c) ->
  (in_body (wq_secret w) = None \/ in_body (wq_secret w) = Some 0) ->
  fst (entry_outcome g e required cls w) = OutRefused.
Proof. exact misplaced_secret_refused_l. Qed.
Print Assumptions misplaced_secret_refused.

(* a secret in the form (body or query string) does not authenticate a client_secret_basic client *)
Theorem secret_basic_needs_header : forall g e required cls w c,
  authn_method c (entry_ctx e) = MSecretBasic -> wq_basic w = None ->
  fst (entry_outcome g e required cls w) <> OutClient c.
Proof. exact secret_basic_needs_header_l. Qed.
Print Assumptions secret_basic_needs_header.

(* an assertion (or its type) outside the body does not authenticate a private_key_jwt /
   client_secret_jwt client *)
Theorem assertion_query_ignored : forall g e required cls w c,
  authn_method c (entry_ctx e) = MPrivateKeyJWT \/ authn_method c (entry_ctx e) = MSecretJWT ->
  (in_body (wq_assertion w) = None \/ in_body (wq_assertion w) = Some ANone \/ in_body (wq_type w) <> Some true) ->
  fst (entry_outcome g e required cls w) <> OutClient c.
Proof. exact assertion_query_ignored_l. Qed.
Print Assumptions assertion_query_ignored.

(* ======== IDENTIFICATION: none / one id / conflict, and the one exception of the property ========
   extract_id answers IdNotIdentified (clientutil.ErrClientNotIdentified), IdOk i, or IdInvalid. *)

(* "not identified" means exactly: no client_id in the body, no Basic user, no client_assertion *)
Theorem extract_id_unidentified : forall g w,
  extract_id g (request_of w) = IdNotIdentified <-> names_nobody w.
Proof. exact extract_id_unidentified_l. Qed.
Print Assumptions extract_id_unidentified.

(* two places of the request (Basic user / body client_id / assertion issuer) naming different
   clients is the conflict answer, never the "not identified" one *)
Theorem extract_id_conflict : forall g w p q i j,
  names g w p i -> names g w q j -> i <> j -> extract_id g (request_of w) = IdInvalid.
Proof. exact extract_id_conflict_l. Qed.
Print Assumptions extract_id_conflict.

(* THE EXCEPTION.  An entry point goes the anonymous way if and only if it is the jwt-bearer grant,
   the embedder does not require client authentication for it, and the request carries no client
   identification AT ALL *)
Theorem anonymous_only_without_identification : forall g e required cls w,
  fst (entry_outcome g e required cls w) = OutAnonymous <->
  e = EpJwtBearer /\ required = false /\ names_nobody w.
Proof. exact anonymous_iff_l. Qed.
Print Assumptions anonymous_only_without_identification.

(* conflicting identification is refused at every entry point - by the jwt-bearer grant too, whether
   or not it requires client authentication - and the client's jwks_uri is not fetched *)
Theorem id_conflict_refused : forall g e required cls w p q i j,
  names g w p i -> names g w q j -> i <> j ->
  entry_outcome g e required cls w = (OutRefused, false).
Proof. exact id_conflict_refused_l. Qed.
Print Assumptions id_conflict_refused.

(* REFUSED MEANS INERT, at all nine entry points: when the outcome is OutRefused, the handler of the
   entry point run on the abstract credential the wire request amounts to answers an error
   (invalid_client once its own earlier guards pass), leaves the store as it was and makes no storage
   call but client reads.  For the jwt-bearer grant the handler is the head of generateJWTBearerGrant
   (Model/AuthnEntry.v) followed by an ARBITRARY rest k: a refused request never reaches it. *)
Theorem refused_outcome_inert : forall g e required cls wq w n now st,
  agrees (entry_ctx e) cls w st ->
  fst (entry_outcome g e required cls wq) = OutRefused ->
  refused_at g e required cls wq w n now st.
Proof. exact refused_outcome_inert_l. Qed.
Print Assumptions refused_outcome_inert.

(* ---- the hypotheses are satisfiable (ex_cfg, ex_client, ex_request ... are defined in Proofs/C01Proofs.v) ---- *)
Example authn_sound_nonvacuous :
  authenticated ex_cfg CtxToken [ex_client] ex_request = Some ex_client /\ ca_id ex_client <> 0.
Proof. exact authn_sound_nonvacuous_l. Qed.

Example authn_complete_nonvacuous :
  registered [ex_client] ex_client /\ valid_credential ex_cfg CtxToken ex_client ex_request /\
  unambiguous ex_client ex_request.
Proof. exact authn_complete_nonvacuous_l. Qed.

Example unauthenticated_nonvacuous :
  let rq := mkRequest 0 0 None (AJws (mkAssertion (SPriv 999) ES256 11 (Some 1) 1 [AudTokenURL] (Some 60%Z) None None true))
              true None true None in
  let w := mkWorld (Config.base_config POpenID) [] in
  let st := mkStore [mkClient 1 false [GClientCredentials] [] [] "" CibaNone false false false false false false false 0 false None] [] [] in
  authenticated ex_cfg CtxToken [ex_client] rq = None /\
  agrees CtxToken [ex_client] w st /\
  unauthenticated w st (cred_of ex_cfg CtxToken [ex_client] rq).
Proof. exact unauthenticated_nonvacuous_l. Qed.


(* the reader matters: were client_secret read with Request.FormValue (body, then query string), a
   secret travelling in the request URI only would authenticate; read as the code reads it, the same
   request is refused *)
Example form_value_reader_unsound :
  authenticated ex_cfg CtxToken [ex_post_client]
    (request_with (mkReaders SrcPostForm SrcForm SrcPostForm SrcPostForm) ex_query_secret) = Some ex_post_client /\
  entry_outcome ex_cfg EpClientCredentials true [ex_post_client] ex_query_secret = (OutRefused, false).
Proof. exact form_value_reader_unsound_l. Qed.

Example id_conflict_nonvacuous :
  names ex_cfg ex_two_ids PlHeader 1 /\ names ex_cfg ex_two_ids PlBody 2 /\
  entry_outcome ex_cfg EpJwtBearer false [ex_post_client] ex_two_ids = (OutRefused, false).
Proof. exact conflict_nonvacuous_l. Qed.

(* client_id in the query string only names nobody: the anonymous path, when allowed *)
Example anonymous_nonvacuous :
  names_nobody ex_nobody /\ entry_outcome ex_cfg EpJwtBearer false [ex_post_client] ex_nobody = (OutAnonymous, false).
Proof. exact anonymous_nonvacuous_l. Qed.

Example placement_nonvacuous :
  let w := mkWreq (mkPlaced (Some 1) None) (mkPlaced (Some 1001) (Some 7)) (mkPlaced None None) (mkPlaced None None)
                  None None true None in
  fst (entry_outcome ex_cfg EpRevoke true [ex_post_client] w) = OutClient ex_post_client /\ ca_id ex_post_client <> 0.
Proof. exact placement_nonvacuous_l. Qed.
