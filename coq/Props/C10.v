(* C10 — refresh tokens are client-bound, never widen or extend the grant, and rotate. *)
From Verif Require Import Base Scope Types Prog Pop Token Authorize System Config Run Monitors Fresh FreshHandlers OneShot HistProps C04Resources C04Details.
Local Open Scope N_scope.

(* For every store and refresh request that yields tokens: the presented token indexes a stored
   grant of the authenticated client, the grant's absolute expiry has not passed and IS NOT MOVED,
   the requested scopes are contained in the originally granted ones which stay as they were (so
   a later refresh may return to the full grant), the same grant id is re-saved, and with rotation
   the response carries the replacement, which is the only refresh token the grant then holds. *)
Theorem refresh_bound : forall w n now r st t,
  snd (run_seq (refresh_grant w n now r) st) = OTokens t ->
  exists g c g',
    is_nil (t_refresh r) = false /\
    find (fun g => ideq (g_refresh g) (t_refresh r)) (st_gsess st) = Some g /\
    snd (run_seq (authenticated w (t_cred r)) st) = Some c /\
    g_client g = c_id c /\
    geb now (g_expires g) = false /\
    contains_all_scopes (g_granted g) (t_scope r) = true /\
    st_gsess (fst (run_seq (refresh_grant w n now r) st)) = put_gsess g' (st_gsess st) /\
    st_asess (fst (run_seq (refresh_grant w n now r) st)) = st_asess st /\
    g_id g' = g_id g /\ g_expires g' = g_expires g /\ g_granted g' = g_granted g /\
    g_client g' = g_client g /\ g_subject g' = g_subject g /\
    g_refresh g' = (if cf_refresh_rotation (w_cfg w) then mint n KRefresh else g_refresh g) /\
    tr_rt t = (if cf_refresh_rotation (w_cfg w) then mint n KRefresh else 0) /\
    (* resource indicators: the requested resources are among the granted ones, which stay as they were;
       the refreshed token is for the requested resources, or for all granted ones when none is named *)
    validate_resources (w_cfg w) (g_granted_res g) (t_resources r) = true /\
    g_granted_res g' = g_granted_res g /\
    g_active_res g' = (if cf_resource_enabled (w_cfg w)
                       then (if no_res (t_resources r) then g_granted_res g else t_resources r)
                       else g_active_res g).
Proof. exact refresh_grant_post. Qed.
Print Assumptions refresh_bound.

(* A refresh can narrow but never widen the resources: for every store and refresh request that yields
   tokens, the granted resources of the re-saved grant are those of the grant presented, and the
   resources of the new token lie within them whenever those of the old one did (which holds in every
   reachable state: Props/C04.v, resources_within_grant) - so a later refresh may return to the full grant
   but never beyond it, along chains of any length. *)
Theorem refresh_never_widens_resources : forall w n now r st t,
  snd (run_seq (refresh_grant w n now r) st) = OTokens t ->
  exists g g',
    find (fun g => ideq (g_refresh g) (t_refresh r)) (st_gsess st) = Some g /\
    st_gsess (fst (run_seq (refresh_grant w n now r) st)) = put_gsess g' (st_gsess st) /\
    g_id g' = g_id g /\ g_granted_res g' = g_granted_res g /\
    ((forall x, In x (g_active_res g) -> In x (g_granted_res g)) ->
     forall x, In x (g_active_res g') -> In x (g_granted_res g')).
Proof. exact C04Resources.refresh_never_widens_resources. Qed.
Print Assumptions refresh_never_widens_resources.

(* A refresh can narrow but never widen the authorization details (RFC 9396): for every store and refresh
   request that yields tokens, the granted details of the re-saved grant are those of the grant
   presented (so a later refresh may return to the full grant, never beyond it); with the
   subset-by-equality compare function the details of the new token lie within the granted ones whenever
   those of the old one did (which holds in every reachable state: Props/C04.v, details_within_grant);
   whatever the compare function, every detail of the new token has a type the server supports or is one
   of the granted details, whenever that held before (every reachable state: details_supported_or_granted);
   and the response (authorization_details member, claim of a JWT access token) reports nothing but the
   details of the new token. *)
Theorem refresh_never_widens_details : forall w n now r st t,
  snd (run_seq (refresh_grant w n now r) st) = OTokens t ->
  exists g g',
    find (fun g => ideq (g_refresh g) (t_refresh r)) (st_gsess st) = Some g /\
    st_gsess (fst (run_seq (refresh_grant w n now r) st)) = put_gsess g' (st_gsess st) /\
    g_id g' = g_id g /\ g_granted_details g' = g_granted_details g /\
    (cf_details_cmp (w_cfg w) = CmpSubset ->
     (forall d, In d (g_active_details g) -> In d (g_granted_details g)) ->
     forall d, In d (g_active_details g') -> In d (g_granted_details g')) /\
    ((forall d, In d (g_active_details g) -> In (ad_type d) (cf_auth_detail_types (w_cfg w)) \/ In d (g_granted_details g)) ->
     forall d, In d (g_active_details g') -> In (ad_type d) (cf_auth_detail_types (w_cfg w)) \/ In d (g_granted_details g')) /\
    (forall d, In d (tr_details t) \/ In d (tr_jwt_details t) -> In d (g_active_details g')).
Proof. exact refresh_never_widens_details_all. Qed.
Print Assumptions refresh_never_widens_details.

(* Over every history: with rotation enabled, a refresh token through which a refresh succeeded is
   never accepted again (chains of any length, any interleaving with other operations). *)
Theorem rotation_one_shot : forall w dyn ops,
  once_from cons_rt acc_rt (w_cfg w) [] 0 ops (run w dyn ops) = 0.
Proof. exact rotation_one_shot_all. Qed.
Print Assumptions rotation_one_shot.

(* an expired refresh token is refused and its grant is removed *)
Theorem expired_refresh_removed : forall w n now r st g c,
  has_grant GRefreshToken (cf_grants (w_cfg w)) = true -> is_nil (t_refresh r) = false ->
  snd (run_seq (authenticated w (t_cred r)) st) = Some c ->
  find (fun g => ideq (g_refresh g) (t_refresh r)) (st_gsess st) = Some g ->
  has_grant GRefreshToken (c_grants c) = true -> c_id c = g_client g ->
  geb now (g_expires g) = true ->
  is_tokens (snd (run_seq (refresh_grant w n now r) st)) = false /\
  st_gsess (fst (run_seq (refresh_grant w n now r) st)) = del_gsess (g_id g) (st_gsess st).
Proof. exact refresh_expired_removed. Qed.
Print Assumptions expired_refresh_removed.

(* in every reachable state a refresh token identifies at most one grant *)
Theorem refresh_index_unique : forall w dyn (ops : list op) g1 g2,
  let st := s_store (fst (run_from w (init_state dyn) 0 ops)) in
  In g1 (st_gsess st) -> In g2 (st_gsess st) -> g_refresh g1 = g_refresh g2 -> g_refresh g1 <> 0 -> g_id g1 = g_id g2.
Proof.
  intros w dyn ops g1 g2 st H1 H2 E NZ.
  destruct (fresh_all_histories w dyn ops) as [_ [_ U]]. exact (U g1 g2 FRefresh H1 H2 E NZ).
Qed.
Print Assumptions refresh_index_unique.

(* Rotation does not depend on the embedder's issue-refresh-token function: the refresh handler is the same
   program under every ShouldIssueRefreshTokenFunc the model knows (never / always / only while
   offline_access is active / only for the authorization_code grant), so rotation_one_shot and
   refresh_bound hold when the function would answer "no" for the refreshed grant info
   (grant type refresh_token, narrowed scopes) too. *)
Theorem rotation_independent_of_issue_policy : forall w f n now r,
  refresh_grant (mkWorld (w_cfg w <| cf_issue_refresh := f |>) (w_static w)) n now r = refresh_grant w n now r.
Proof. exact refresh_ignores_issue_policy. Qed.
Print Assumptions rotation_independent_of_issue_policy.
(* the non-constant policies do answer "no" on refreshed grant infos *)
Example issue_policy_not_constant :
  issue_policy IssueIfOffline GAuthorizationCode "openid offline_access" = true /\
  issue_policy IssueIfOffline GRefreshToken "openid" = false /\
  issue_policy IssueCodeOnly GRefreshToken "openid offline_access" = false.
Proof. repeat split; reflexivity. Qed.
