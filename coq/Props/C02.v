(* C02 — the authorization endpoint never redirects to an unvalidated URI. *)
From Verif Require Import Base Scope Types Prog Pop Token Authorize System Config Run Monitors OneShot C02Proofs C02Handlers.
Local Open Scope N_scope.

(* GET/POST /authorize, for every store and request (plain, or redeeming a pushed request): whatever
   it sends as a navigation - success, policy failure, validation error - targets a URI that is
   registered for the requesting client, or is the redirect URI stored in the pushed session this very
   request redeems (possible only under a FAPI profile, where the pushed parameters are used as they
   are, or where unregistered redirect URIs are permitted for PAR). *)
Theorem nav_target_authorize : forall w n now r st u,
  nav_target (snd (run_seq (init_auth w n now r) st)) = Some u ->
  exists c, snd (run_seq (get_client w (ar_client r)) st) = Some c /\
    (redirect_allowed c u = true \/
     exists s, find (fun s => ideq (a_par s) (p_request_uri (ar_params r))) (st_asess st) = Some s /\
               a_client s = ar_client r /\ u = p_redirect (a_params s) /\
               (is_fapi (cf_profile (w_cfg w)) = true \/ cf_par_unregistered (w_cfg w) = true)).
Proof. exact init_auth_target. Qed.
Print Assumptions nav_target_authorize.

(* /authorize/{callback}: every navigation targets the redirect URI of the stored session the
   callback id indexes ... *)
Theorem nav_target_callback : forall w n now r st u,
  nav_target (snd (run_seq (continue_auth w n now r) st)) = Some u ->
  exists s, find (fun s => ideq (a_cb s) (cb_id r)) (st_asess st) = Some s /\ u = p_redirect (a_params s).
Proof. exact continue_auth_target. Qed.
Print Assumptions nav_target_callback.

(* ... and in every reachable state of every history (any configuration, any clients) the redirect
   URI of every stored session is registered for that session's client - or unregistered URIs are
   permitted for PAR - and sessions that are past the PAR stage have one; moreover NO operation ever
   changes the registered clients (hence their redirect URIs): st_clients is the initial list. *)
Theorem stored_redirects_validated_clients_untouched : forall w dyn ops,
  let st := s_store (fst (run_from w (init_state dyn) 0 ops)) in
  st_clients st = dyn /\
  forall s, In s (st_asess st) ->
    (is_empty (p_redirect (a_params s)) = true \/ cf_par_unregistered (w_cfg w) = true \/
     exists c, client_of w dyn (a_client s) = Some c /\ redirect_allowed c (p_redirect (a_params s)) = true) /\
    (needs_redirect w s -> is_empty (p_redirect (a_params s)) = false).
Proof. intros w dyn ops. exact (sinv_all_histories w dyn ops). Qed.
Print Assumptions stored_redirects_validated_clients_untouched.

(* the validators: no validation error is ever redirected unless the redirect URI it would go to
   was validated first (non-empty and allowed for the client) *)
Theorem redirected_errors_have_validated_uri : forall cfg p c e p',
  validate_params cfg p c = Some (ARedirect e p') ->
  p' = p /\ is_empty (p_redirect p) = false /\ redirect_allowed c (p_redirect p) = true.
Proof. exact validate_params_redirect_err. Qed.
Print Assumptions redirected_errors_have_validated_uri.
Theorem redirected_errors_have_validated_uri_par : forall cfg i o c e p',
  validate_in_out cfg i o c = Some (ARedirect e p') ->
  p' = merge_params i o /\ is_empty (p_redirect p') = false /\ redirect_allowed c (p_redirect p') = true.
Proof. exact validate_in_out_redirect_err. Qed.
Print Assumptions redirected_errors_have_validated_uri_par.

(* when the redirect URI of a plain request is absent or not registered the error is local: no
   navigation, hence no code, token, state or error parameter leaves the server *)
Theorem invalid_redirect_local : forall w n now r st c,
  snd (run_seq (get_client w (ar_client r)) st) = Some c ->
  should_use_par (w_cfg w) (ar_params r) c = false ->
  redirect_allowed c (p_redirect (ar_params r)) = false ->
  nav_target (snd (run_seq (init_auth w n now r) st)) = None.
Proof.
  intros w n now r st c EC EP NA.
  destruct (nav_target (snd (run_seq (init_auth w n now r) st))) as [u|] eqn:E; auto.
  destruct (init_auth_target w n now r st u E) as [c' [EC' [AL|[s [_ [_ [_ _]]]]]]].
  - exfalso. rewrite EC in EC'. injection EC' as <-.
    (* every navigation of a plain request goes to the request's own redirect_uri *)
    revert E. unfold init_auth. destruct (is_nil (ar_client r)); [cbn; discriminate|].
    rewrite run_get_client, EC. destruct (negb _); [cbn; discriminate|]. rewrite EP.
    destruct (validate_params (w_cfg w) (ar_params r) c) as [e|] eqn:EV.
    + destruct e as [x|x p]; cbn; [discriminate|]. apply validate_params_redirect_err in EV as [-> [_ AL']]. congruence.
    + apply validate_params_redirect in EV as [_ AL']. congruence.
  - exfalso. revert E. unfold init_auth. destruct (is_nil (ar_client r)); [cbn; discriminate|].
    rewrite run_get_client, EC. destruct (negb _); [cbn; discriminate|]. rewrite EP.
    destruct (validate_params (w_cfg w) (ar_params r) c) as [e|] eqn:EV.
    + destruct e as [x|x p]; cbn; [discriminate|]. apply validate_params_redirect_err in EV as [-> [_ AL']]. congruence.
    + apply validate_params_redirect in EV as [_ AL']. congruence.
Qed.
Print Assumptions invalid_redirect_local.
