#!/bin/sh
# regenerates _CoqProject from the files present (coqdep orders them)
cd "$(dirname "$0")"
{ echo "-Q . Verif"; find Model Corr Proofs Props -name '*.v' | sort; } > _CoqProject.new
if ! cmp -s _CoqProject.new _CoqProject; then mv _CoqProject.new _CoqProject; coq_makefile -f _CoqProject -o Makefile >/dev/null; else rm _CoqProject.new; fi
[ -f Makefile ] || coq_makefile -f _CoqProject -o Makefile >/dev/null
