(* Corr/C11Eff.v — the C11 monitor on EFFECTIVE parameters.
   Corr/C11.v's clause_C11 judges a direct authorization request by its own parameters.  Here the same
   clauses are evaluated (a) for a request that redeems a request_uri, on the parameters the session is
   built from - the pushed ones, completed by the outer ones outside FAPI (Monitors.eff_params) - so that
   a mechanism missing from BOTH the pushed and the outer parameters is flagged; (b) at the token
   endpoint, for the redemption of a code: when PKCE is required (server, or enabled and public client)
   tokens are obtained only with a verifier that matches the recorded challenge under an ENABLED method
   (clause 12: the downgrade to a method that is not enabled, e.g. a challenge sent without
   code_challenge_method and redeemed with the challenge string itself when only S256 is enabled, and
   verification skipped altogether). *)
From Verif Require Import Base Scope Types Prog Pop Token Authorize System Config Required Run Monitors.
From Verif.Corr Require Import C11.
Local Open Scope N_scope.

Definition pkce_needed (cfg : config) (cl : list client) (i : id) : bool :=
  orb (cf_pkce_required cfg) (andb (cf_pkce_enabled cfg) (cflag cl i c_public)).
(* the (challenge, verifier) pair is an exchange under SOME enabled method (which of the enabled methods
   applies to a request that leaves the method out is C03's matter, not a bypass) *)
Definition pkce_enabled_match (cfg : config) (p : params) (v : pk) : bool :=
  andb (negb (pk_is_empty v)) (andb (pk_len_ok v)
       (existsb (fun m => is_pkce_valid v (p_challenge p) m) (cf_pkce_methods cfg))).

Definition clause_C11e (cl : list client) (cfg : config) (f : flowst) (o : op) (x : obs) : N :=
  if negb (obs_obtains x) then 0 else
  match o with
  | OpAuthorize r =>
      (* whatever form the request took: an access token handed out by the authorization endpoint is
         DPoP-bound where DPoP (server or client) or some binding is required - read off the response *)
      if andb (match x with Out (ONav _ _ nv) => andb (negb (is_nil (n_at nv))) (negb (n_dpop nv)) | _ => false end)
              (orb (cf_dpop_required cfg) (orb (andb (cf_dpop_enabled cfg) (cflag cl (ar_client r) c_dpop_required)) (cf_binding_required cfg)))
      then (if cf_binding_required cfg then 9 else 7) else
      if direct r then 0 else
      match eff_params cfg f r with
      | Some p =>
          (* the pushed request judged as the direct request it stands for: PAR / JAR were used or
             refused at /par; a key bound at /par does not show in the parameters *)
          let p' := p <| p_request_uri := 0 |> <| p_dpop_jkt := (if is_nil (p_dpop_jkt p) then 1 else p_dpop_jkt p) |> in
          clause_C11 (cfg <| cf_par_enabled := false |> <| cf_jar_enabled := false |>) cl
                     (OpAuthorize (mkAReq (ar_client r) p' (ar_policy_available r) (ar_pol r))) x
      | None => 0 end
  | OpToken GAuthorizationCode r =>
      match lookup (t_code r) (f_codes f) with
      | Some (i, p) =>
          if andb (pkce_needed cfg cl i) (negb (pkce_enabled_match cfg p (t_verifier r))) then 12 else 0
      | None => 0 end
  | _ => 0
  end.

Definition mon_C11e (c : syscase) : N :=
  match mon_C11 c with
  | 0 => run_flow_monitor (clause_C11e (sc_static c ++ sc_dyn c)) c
  | k => k end.
