(* Corr/C15.v — what the case files of suite c15 call.
   The harness puts k real HTTP requests presenting one credential in flight against the real
   provider and imposes a schedule on their storage calls through the storage decorator's gate;
   per schedule it records which requests succeeded and every request's storage-call sequence.
   check_race_group evaluates the model (Prog.run_il through Race.outcomes / Race.race_logs) on the
   same schedules and compares.  Result per schedule:
     0  agreement
     1  the number of successful requests differs
     3  same number, but not the same requests
     2  some request's storage-call sequence differs (e.g. save before delete)
     4  the harness's count of "lookups scheduled before the first consume" (from which it derives
        the overlap / no-overlap part of a finding's signature) is not Race.race_window_count
     5  the scenario is not live in the model (prefix refused, or the request fails when served alone)
     6  (first case of a group marked exhaustive) the schedules are not exactly Race.race_schedules,
        i.e. not every interleaving of the model's call counts
     7  the scenario the harness ran (printed from its inputs) does not behave like the scenario the
        theorems of Props/C15.v are about, on this schedule
     8  (groups with follow-ups, check_race_group_x) END TO END: after the race every code / callback id handed
        out by the racing /authorize requests was redeemed / continued on the real provider; which of them
        ended in a token response differs from the model (RaceStrict.e2e_outcomes)
   check_race_group_x is check_race_group over a storage semantics (RaceStrict.sem_of: the lenient storage
   of Prog.exec, or the STRICT one whose Delete of something absent is an error) plus the follow-ups.
   check_mixed_group (Model/RaceMixed.v): racing CIBA polls with a verdict of the embedder's validation PER POLL, followed
   by an approved poll; mo_tok = per racing poll, then the follow-up: answered with tokens.  Codes 1 / 3 (token responses),
   2 (call sequences), 5, 6 (schedules = RaceMixed.mx_schedules), 7 as above.
     2^30  the option list does not build *)
From Verif Require Import Base Scope Types Prog Pop Token Authorize System Config Race RaceUri RaceStrict RaceMixed.
Local Open Scope N_scope.

Record raceobs := mkRaceObs {
  ro_sched : list N;
  ro_ok : list bool;               (* per request: did it obtain tokens / start an authorization *)
  ro_logs : list (list N);         (* per request: ckind_ix of its storage calls, in order *)
  ro_window : N                    (* harness: lookups scheduled before the first consume *)
}.
Record racegroup := mkRaceGroup {
  rg_named : racescn;              (* the scenario of Props/C15.v this group instantiates *)
  rg_scn : racescn;                (* the scenario as printed from the harness's actual inputs *)
  rg_k : N;
  rg_exhaustive : bool;            (* the group claims to contain every schedule *)
  rg_obs : list raceobs
}.

Fixpoint list_eqb {A} (f : A -> A -> bool) (a b : list A) : bool :=
  match a, b with [] , [] => true | x :: a', y :: b' => andb (f x y) (list_eqb f a' b') | _, _ => false end.
Definition count_true (l : list bool) : nat := List.length (filter (fun b => b) l).
Definition logs_N (l : list (list ckind)) : list (list N) := map (map ckind_ix) l.

Definition live (su : racesetup) : bool :=
  andb (is_success (snd (run_seq (race_prog su 0) (su_store su)))) (Nat.ltb (lookup_pos su) (consume_pos su)).

Definition check_race_obs (su named : racesetup) (k : nat) (o : raceobs) : N :=
  let sched := map N.to_nat (ro_sched o) in
  let m_ok := outcomes su k sched in
  let m_logs := logs_N (race_logs su k sched) in
  if negb (live su) then 5
  else if negb (Nat.eqb (count_true m_ok) (count_true (ro_ok o))) then 1
  else if negb (list_eqb Bool.eqb m_ok (ro_ok o)) then 3
  else if negb (list_eqb (list_eqb N.eqb) m_logs (ro_logs o)) then 2
  else if negb (N.eqb (N.of_nat (race_window_count su k sched)) (ro_window o)) then 4
  else if negb (andb (list_eqb Bool.eqb (outcomes named k sched) m_ok)
                     (list_eqb (list_eqb N.eqb) (logs_N (race_logs named k sched)) m_logs)) then 7
  else 0.

Definition check_race_group (g : racegroup) : list N :=
  match setup (rg_scn g), setup (rg_named g) with
  | Some su, Some named =>
      let k := N.to_nat (rg_k g) in
      let res := map (check_race_obs su named k) (rg_obs g) in
      let scheds := map (fun o => map N.to_nat (ro_sched o)) (rg_obs g) in
      if andb (rg_exhaustive g) (negb (list_eqb (list_eqb Nat.eqb) scheds (race_schedules su k)))
      then match res with [] => [] | _ :: r => 6 :: r end
      else res
  | _, _ => map (fun _ => 2 ^ 30) (rg_obs g)
  end.

(* for debugging a disagreement: what the model says on a schedule *)
Definition model_race (s : racescn) (k : N) (sched : list N) :=
  match setup s with
  | Some su => let sc := map N.to_nat sched in
               Some (outcomes su (N.to_nat k) sc, logs_N (race_logs su (N.to_nat k) sc),
                     race_window_count su (N.to_nat k) sc, solo_log su)
  | None => None
  end.

(* ---------------------------------------------------------------------------------- *)
(* the same over a storage semantics (lenient / strict deletes), with the end-to-end follow-ups *)
Record raceobsx := mkRaceObsX {
  rx_sched : list N;
  rx_ok : list bool;
  rx_logs : list (list N);
  rx_window : N;
  rx_rev : bool;                   (* the follow-ups were made in reverse request order *)
  rx_e2e : list bool               (* per racing request: its code / callback id ended in a token response *)
}.
Record racegroupx := mkRaceGroupX {
  gx_named : racescn;
  gx_scn : racescn;
  gx_k : N;
  gx_exhaustive : bool;
  gx_strict : bool;                (* the storage reports an error for a Delete / DeleteByX of something absent *)
  gx_follow : bool;                (* follow-ups were performed (racing /authorize requests) *)
  gx_obs : list raceobsx
}.

Definition check_race_obs_x (ex : storage_sem) (follow : bool) (su named : racesetup) (k : nat) (o : raceobsx) : N :=
  let sched := map N.to_nat (rx_sched o) in
  let m_ok := outcomes_x ex su k sched in
  let m_logs := logs_N (race_logs_x ex su k sched) in
  if negb (live su) then 5
  else if negb (Nat.eqb (count_true m_ok) (count_true (rx_ok o))) then 1
  else if negb (list_eqb Bool.eqb m_ok (rx_ok o)) then 3
  else if negb (list_eqb (list_eqb N.eqb) m_logs (rx_logs o)) then 2
  else if negb (N.eqb (N.of_nat (race_window_count su k sched)) (rx_window o)) then 4
  else if negb (andb (list_eqb Bool.eqb (outcomes_x ex named k sched) m_ok)
                     (list_eqb (list_eqb N.eqb) (logs_N (race_logs_x ex named k sched)) m_logs)) then 7
  else if andb follow (negb (list_eqb Bool.eqb (e2e_outcomes ex (rx_rev o) su k sched) (rx_e2e o))) then 8
  else 0.

Definition check_race_group_x (g : racegroupx) : list N :=
  match setup (gx_scn g), setup (gx_named g) with
  | Some su, Some named =>
      let k := N.to_nat (gx_k g) in
      let res := map (check_race_obs_x (sem_of (gx_strict g)) (gx_follow g) su named k) (gx_obs g) in
      let scheds := map (fun o => map N.to_nat (rx_sched o)) (gx_obs g) in
      if andb (gx_exhaustive g) (negb (list_eqb (list_eqb Nat.eqb) scheds (race_schedules su k)))
      then match res with [] => [] | _ :: r => 6 :: r end
      else res
  | _, _ => map (fun _ => 2 ^ 30) (gx_obs g)
  end.

Definition model_race_x (strict : bool) (s : racescn) (k : N) (sched : list N) (rev_order : bool) :=
  match setup s with
  | Some su => let sc := map N.to_nat sched in let ex := sem_of strict in
               Some (outcomes_x ex su (N.to_nat k) sc, logs_N (race_logs_x ex su (N.to_nat k) sc),
                     race_window_count su (N.to_nat k) sc, e2e_outcomes ex rev_order su (N.to_nat k) sc)
  | None => None
  end.

(* ---------------------------------------------------------------------------------- *)
(* racing CIBA polls with mixed verdicts + an approved follow-up poll (Model/RaceMixed.v) *)
Record mixedobs := mkMixedObs {
  mo_sched : list N;
  mo_tok : list bool;              (* per racing poll, then the follow-up poll: answered with tokens *)
  mo_logs : list (list N)          (* per racing poll: ckind_ix of its storage calls, in order *)
}.
Record mixedgroup := mkMixedGroup {
  mg_named : racescn;
  mg_scn : racescn;
  mg_verdicts : list ba_reply;     (* the embedder's answer to poll i *)
  mg_exhaustive : bool;
  mg_strict : bool;
  mg_obs : list mixedobs
}.

Definition check_mixed_obs (ex : storage_sem) (su named : racesetup) (vs : list ba_reply) (o : mixedobs) : N :=
  let sched := map N.to_nat (mo_sched o) in
  let m_tok := mx_outcomes ex su vs sched in
  let m_logs := logs_N (mx_logs ex su vs sched) in
  if negb (live su) then 5
  else if negb (Nat.eqb (count_true m_tok) (count_true (mo_tok o))) then 1
  else if negb (list_eqb Bool.eqb m_tok (mo_tok o)) then 3
  else if negb (list_eqb (list_eqb N.eqb) m_logs (mo_logs o)) then 2
  else if negb (andb (list_eqb Bool.eqb (mx_outcomes ex named vs sched) m_tok)
                     (list_eqb (list_eqb N.eqb) (logs_N (mx_logs ex named vs sched)) m_logs)) then 7
  else 0.

Definition check_mixed_group (g : mixedgroup) : list N :=
  match setup (mg_scn g), setup (mg_named g) with
  | Some su, Some named =>
      let vs := mg_verdicts g in
      let res := map (check_mixed_obs (sem_of (mg_strict g)) su named vs) (mg_obs g) in
      let scheds := map (fun o => map N.to_nat (mo_sched o)) (mg_obs g) in
      if andb (mg_exhaustive g) (negb (list_eqb (list_eqb Nat.eqb) scheds (mx_schedules su vs)))
      then match res with [] => [] | _ :: r => 6 :: r end
      else res
  | _, _ => map (fun _ => 2 ^ 30) (mg_obs g)
  end.

Definition model_mixed (strict : bool) (s : racescn) (vs : list ba_reply) (sched : list N) :=
  match setup s with
  | Some su => let sc := map N.to_nat sched in let ex := sem_of strict in
               Some (mx_outcomes ex su vs sc, logs_N (mx_logs ex su vs sc), mx_counts su vs)
  | None => None
  end.
