(* Corr/C08.v — what the c08 case files call.  The harness describes each response of the real
   provider (after decrypting, verifying every signature with the Go standard library under the
   keys fetched from /jwks, and recomputing the half hashes with SHA-2) as a flat list of atoms;
   the model's response for the same configuration, client and inputs is flattened the same way
   and the two lists are compared.  corr = 0: equal; k: the k-th atom (1-based) differs.
   Times are compared as differences (exp - iat) only. *)
From Verif Require Import Base Scope Types Prog Pop Token Authorize Artifacts ArtifactsX.
Local Open Scope N_scope.

Inductive atom := AN (n : N) | AS (s : string) | AZ (z : Z).
Definition atom_eqb (a b : atom) : bool :=
  match a, b with AN x, AN y => N.eqb x y | AS x, AS y => seqb x y | AZ x, AZ y => Z.eqb x y | _, _ => false end.

Fixpoint first_atom_diff (k : N) (m i : list atom) : N :=
  match m, i with
  | [], [] => 0
  | x :: m', y :: i' => if atom_eqb x y then first_atom_diff (k + 1) m' i' else k
  | _, _ => k
  end.

(* ---- flattening ---- *)
Definition f_sig {C} (j : jws C) : list atom := [AN (j_signer j); AN (sigalg_ix (j_alg j)); AS (j_kid j); AS (j_typ j)].
Definition f_body {C} (b : sbody C) : list atom := match b with Signed j => AN 1 :: f_sig j | Unsigned _ => [AN 0] end.
Definition f_enc (e : option N) : atom := match e with Some k => AN k | None => AN 0 end.
Definition f_optstr (o : option string) : list atom := match o with Some s => [AN 1; AS s] | None => [AN 0; AS ""] end.
Definition hsize_n (h : hsize) : N := match h with H256 => 256 | H384 => 384 | H512 => 512 end.
(* which delivered sibling a hashed value is: 1 access token, 2 code, 3 state, 4 refresh token, 9 none of them *)
Record siblings := mkSib { sb_at : id; sb_code : id; sb_state : string; sb_rt : id }.
Definition vclass (sb : siblings) (v : hvalue) : N :=
  match v with
  | VId h => if andb (negb (is_nil h)) (ideq h (sb_at sb)) then 1
             else if andb (negb (is_nil h)) (ideq h (sb_code sb)) then 2
             else if andb (negb (is_nil h)) (ideq h (sb_rt sb)) then 4 else 9
  | VStr s => if andb (negb (is_empty s)) (seqb s (sb_state sb)) then 3 else 9
  end.
Definition f_hash (sb : siblings) (o : option hhandle) : list atom :=
  match o with Some (HalfHash h v) => [AN (hsize_n h); AN (vclass sb v)] | None => [AN 0; AN 0] end.

Definition f_idt (sb : siblings) (a : artifact idt_claims) : list atom :=
  let c := body_claims (art_body a) in
  (f_enc (art_enc a) :: f_body (art_body a)) ++ [AS (ic_sub c); AS (ic_iss c); AZ (ic_exp c - ic_iat c)] ++
  f_optstr (ic_aud c) ++ f_hash sb (ic_at_hash c) ++ f_hash sb (ic_c_hash c) ++ f_hash sb (ic_s_hash c) ++
  f_hash sb (ic_rt_hash c) ++ f_hash sb (ic_auth_req_id c) ++ f_optstr (ic_nonce c).
Definition f_oidt (sb : siblings) (o : option (artifact idt_claims)) : list atom :=
  match o with Some a => AN 1 :: f_idt sb a | None => [AN 0] end.

Definition f_token (t : token) : list atom :=
  match tk_value t with
  | TokOpaque _ => [AN 1]
  | TokJwt j => let c := j_claims j in
      (AN 2 :: f_sig j) ++ [AS (tc_iss c); AS (tc_sub c); AS (tc_scope c); AZ (tc_exp c - tc_iat c)] ++
      f_optstr (tc_client_id c) ++ [AN (if is_nil (tc_jkt c) then 0 else 1)]
  end.
Definition f_otoken (o : option token) : list atom := match o with Some t => f_token t | None => [AN 0] end.

Definition transport (m : string) : string :=
  if orb (seqb m "fragment") (seqb m "fragment.jwt") then "fragment"
  else if orb (seqb m "form_post") (seqb m "form_post.jwt") then "form_post" else "query".

Definition f_params (p : authz_params) : list atom :=
  let sb := mkSib (match rp_at p with Some t => token_value_id t | None => 0 end) (rp_code p) (rp_state p) 0 in
  [AS (rp_iss p)] ++ f_otoken (rp_at p) ++ f_oidt sb (rp_id_token p) ++
  [AN (if is_nil (rp_code p) then 0 else 1); AS (rp_state p); AN (match rp_error p with Some _ => 1 | None => 0 end)].

Definition f_authz (r : authz_response) : list atom :=
  match r with
  | PlainParams m p => [AS (transport m); AN 0] ++ f_params p
  | JarmResponse m a =>
      let c := body_claims (art_body a) in
      [AS (transport m); AN 1; f_enc (art_enc a)] ++ f_body (art_body a) ++
      [AS (jc_iss c); AS (jc_aud c); AZ (jc_exp c - jc_iat c)] ++ f_params (jc_params c)
  end.

Definition f_token_response (r : token_response) : list atom :=
  let sb := mkSib (token_value_id (trs_at r)) 0 "" 0 in
  f_token (trs_at r) ++ [AZ (trs_expires_in r)] ++ f_oidt sb (trs_id_token r).

Definition f_userinfo (r : ui_response) : list atom :=
  match r with
  | UiJson s => [AN 0; AS s]
  | UiJwt a => let c := body_claims (art_body a) in
      (AN 1 :: f_enc (art_enc a) :: f_body (art_body a)) ++ [AS (uc_sub c); AS (uc_iss c); AS (uc_aud c)]
  end.

(* ---- cases ---- *)
Inductive c08case :=
  | CAuthz (cfg : acfg) (c : aclient) (fo : tokopts) (s : authz_in) (observed : list atom)
  | CToken (cfg : acfg) (c : aclient) (fo : tokopts) (g : ginfo) (nonce : string) (observed : list atom)
  | CUserInfo (cfg : acfg) (c : aclient) (sub : string) (observed : list atom)
  (* what a relying party starts from: discovery's issuer and jwks_uri, and the key set served there
     (kid, alg, key pair recognised from the public material, any private member present) *)
  | CMeta (cfg : acfg) (kh : keyhandling) (observed : list atom).

Definition f_jwk (k : jwk) : list atom :=
  [AS (k_kid k); AN (kalg_ix (k_alg k)); AN (k_pair k); AN (if k_priv k then 1 else 0)].
Definition f_meta (cfg : acfg) (kh : keyhandling) : list atom :=
  [AS (discovery_issuer cfg kh); AS (discovery_jwks_uri cfg kh)] ++ flat_map f_jwk (public_jwks_x cfg kh).

Definition failed : list atom := [AS "the model refuses to build this artifact"].

Definition model_atoms (k : c08case) : list atom :=
  match k with
  | CAuthz cfg c fo s _ => match finish_flow cfg 0 0%Z c fo s with Some r => f_authz r | None => failed end
  | CToken cfg c fo g nonce _ =>
      match token_endpoint_response cfg 0 0%Z g c fo nonce with Some r => f_token_response r | None => failed end
  | CUserInfo cfg c sub _ => match userinfo_response cfg c sub with Some r => f_userinfo r | None => failed end
  | CMeta cfg kh _ => f_meta cfg kh
  end.
Definition observed_atoms (k : c08case) : list atom :=
  match k with CAuthz _ _ _ _ o | CToken _ _ _ _ _ o | CUserInfo _ _ _ o | CMeta _ _ o => o end.

Definition check_c08 (k : c08case) : N := first_atom_diff 1 (model_atoms k) (observed_atoms k).
