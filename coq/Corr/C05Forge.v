(* C05, suite c05forge: the functions the generated case files call.
   A case = the configuration of the tenant a string was presented to, the abstract record of the string
   (harness/suite_c05_forge.go c05fAbstract: decoded from the bytes, signer found by verifying the
   signature under every key of the universe), what the harness read in the grant storage about the
   jti of the string, and the implementation's five answers
     [ /introspect active ; /userinfo 200 ; TokenInfo active ; TokenInfoFromRequest active ; token.ExtractID ok ]. *)
From Coq Require Import NArith ZArith List Bool.
Import ListNotations.
From Verif Require Import AtClaims.
Local Open Scope N_scope.

Record fcase := mkFCase {
  fc_cfg : at_cfg;
  fc_jwt : jwt;
  fc_kind : N;        (* 0 = the genuine token; 1..39 = a forgery kind the harness judges (never issued, or
                         dead); 40.. = minted by the holder of the signing key under the right issuer *)
  fc_live : bool;     (* the grant storage finds a grant by the jti and its token has not expired *)
  fc_openid : bool;   (* that grant's active scopes contain openid *)
  fc_obs : list bool }.

(* the model's five answers *)
Definition model_answers (k : fcase) : list bool :=
  let ok := match valid_claims (fc_cfg k) (fc_jwt k) with Some _ => true | None => false end in
  let acc := at_accepts (fc_cfg k) (fun _ => fc_live k) (fc_jwt k) in
  [acc; acc && fc_openid k; acc; acc; ok].

Fixpoint first_diff (i : N) (a b : list bool) : N :=
  match a, b with
  | [], [] => 0
  | x :: a', y :: b' => if Bool.eqb x y then first_diff (i + 1) a' b' else i
  | _, _ => i
  end.

(* 0 = the model and the implementation agree; otherwise the index (1..5) of the first answer that differs *)
Definition check_fcase (k : fcase) : N := first_diff 1 (model_answers k) (fc_obs k).

(* the clauses of Props/C05.v at_claims_issuer_bound, decided on the record alone (not through valid_claims) *)
Definition sig_okb (c : at_cfg) (j : jwt) : bool :=
  match j_kid j with
  | Some kid => match key_by_kid c kid with
                | Some k => is_sig k && match j_signer j with Some s => N.eqb s (k_ident k) | None => false end
                | None => false
                end
  | None => false
  end.
Definition iss_okb (c : at_cfg) (j : jwt) : bool :=
  match j_iss j with IssOne v => N.eqb v (ac_host c) | _ => false end.
Definition time_okb (c : at_cfg) (j : jwt) : bool :=
  nbf_ok (ac_leeway c) (j_nbf j) && exp_ok (ac_leeway c) (j_exp j) && iat_ok (ac_leeway c) (j_iat j).
Definition may_be_live_token (k : fcase) : bool :=
  sig_okb (fc_cfg k) (fc_jwt k) && iss_okb (fc_cfg k) (fc_jwt k) && time_okb (fc_cfg k) (fc_jwt k) &&
  fc_live k && negb ((1 <=? fc_kind k) && (fc_kind k <? 40)).

Fixpoint first_true (i : N) (n : nat) (l : list bool) : N :=
  match n, l with
  | S n', x :: l' => if x then i else first_true (i + 1) n' l'
  | _, _ => 0
  end.

(* the monitor, on the implementation's answers alone: clause 4 = one of the FOUR acceptors reported a
   live access token although the string's signature does not verify under a signature key of the
   server named by its kid, or its iss is not exactly the configured issuer, or a time claim is outside
   its window, or its jti is not live, or the harness knows the string was never issued *)
Definition mon_C05F (k : fcase) : N :=
  if may_be_live_token k then 0
  else match first_true 1 4 (fc_obs k) with 0 => 0 | i => 4000 + i end.
