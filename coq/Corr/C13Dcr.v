(* Corr/C13Dcr.v — what the case files of suite c13dcr call.
   A case is a dynamic-registration history driven through the real provider (as in suite c12) plus,
   for every operation, one bit: did the deep rendering of the harness-owned stores (every stored
   client with its metadata, hashes and secret; sessions; grants) differ after the request from
   before it.
   check_frame_case: the model (Model/Dcr.v, Model/DcrUse.v) agrees with the provider on every answer, and one bit
     was recorded per operation; 0 = agreement.
   mon_dcr_frame: the frame clause read off the implementation alone: a request that was not
     accepted left the stores as they were; else 3000 + 1-based index of the operation. *)
From Verif Require Import Base Types Dcr DcrUse.
From Verif.Corr Require Import C12 C12Use.
Local Open Scope N_scope.

Record fcase := mkFCase { fk_case : xcase; fk_changed : list bool }.

Definition check_frame_case (c : fcase) : N :=
  match check_xcase (fk_case c) with
  | 0 => if Nat.eqb (List.length (fk_changed c)) (List.length (xk_obs (fk_case c))) then 0
         else N.of_nat (S (List.length (xk_obs (fk_case c))))
  | k => k
  end.

Fixpoint frame_go (k : nat) (obs : list dcr_obs) (ch : list bool) : N :=
  match obs, ch with
  | x :: obs', b :: ch' => if andb (negb (dcr_accepted x)) b then viol 3 k else frame_go (S k) obs' ch'
  | _, _ => 0
  end.
Definition mon_dcr_frame (c : fcase) : N := frame_go 0 (xk_obs (fk_case c)) (fk_changed c).

