(* Corr/C11.v — what the c11 (and c19) case files call: the correspondence through the handlers with
   the request-object decisions (Model/Required.v run_g), and the C11 monitor: the hypotheses of the
   theorems of Props/C11.v as an executable predicate over (configuration, clients, request, answer),
   evaluated on the answers of the real provider. *)
From Verif Require Import Base Scope Types Prog Pop Token Authorize System Config Required Run.
Local Open Scope N_scope.

Definition case_world_g (c : syscase) : option world := case_world c.

Definition check_case_g (strict : bool) (c : syscase) : N :=
  match case_world c with
  | None => 2 ^ 30
  | Some w => first_diff strict 1 (nows 0%Z (sc_ops c)) (run_g w (sc_dyn c) (sc_ops c)) (sc_obs c)
  end.
Definition model_trace_g (c : syscase) : list obs :=
  match case_world c with None => [] | Some w => run_g w (sc_dyn c) (sc_ops c) end.

Definition reg_client (cl : list client) (i : id) : option client := find (fun c => ideq (c_id c) i) cl.
Definition cflag (cl : list client) (i : id) (f : client -> bool) : bool :=
  match reg_client cl i with Some c => f c | None => false end.

Definition direct (r : areq) : bool := is_nil (p_request_uri (ar_params r)).
Definition no_proof (r : treq) : bool := match b_dpop (t_bind r) with None => true | Some _ => false end.
Definition no_cert (r : treq) : bool := is_nil (b_cert (t_bind r)).
Definition fresh_grant (g : grant_type) : bool := negb (gt_eqb g GRefreshToken).

(* clause numbers: 1 PAR, 2 JAR, 3 CIBA JAR, 4 PKCE, 5 openid, 6 resource indicators, 7 DPoP,
   8 certificate binding, 9 some binding, 10 profile rules.  0 = nothing bypassed. *)
Definition clause_C11 (cfg : config) (cl : list client) (o : op) (x : obs) : N :=
  if negb (obs_obtains x) then 0 else
  match o with
  | OpAuthorize r =>
      let p := ar_params r in
      let i := ar_client r in
      if negb (direct r) then 0 else
      if andb (cf_par_enabled cfg) (orb (cf_par_required cfg) (cflag cl i c_par_required)) then 1 else
      if andb (cf_jar_enabled cfg) (orb (cf_jar_required cfg) (cflag cl i c_jar_required)) then 2 else
      if andb (pk_is_empty (p_challenge p)) (orb (cf_pkce_required cfg) (andb (cf_pkce_enabled cfg) (cflag cl i c_public))) then 4 else
      if andb (cf_openid_required cfg) (negb (contains_openid (p_scopes p))) then 5 else
      if andb (cf_resource_required cfg) (no_res (p_resources p)) then 6 else
      if andb (rt_contains (p_resp_type p) "token") (is_nil (p_dpop_jkt p)) then
        (if orb (cf_dpop_required cfg) (andb (cf_dpop_enabled cfg) (cflag cl i c_dpop_required)) then 7 else
         if cf_binding_required cfg then 9 else 0)
      else
      match cf_profile cfg with
      | PFapi1 =>
          if negb (orb (seqb (p_resp_type p) "code") (seqb (p_resp_type p) "code id_token")) then 10 else
          if andb (seqb (p_resp_type p) "code") (negb (seqb (p_resp_mode p) "jwt")) then 10 else
          if andb (contains_openid (p_scopes p)) (is_empty (p_nonce p)) then 10 else 0
      | PFapi2 => if negb (seqb (p_resp_type p) "code") then 10 else 0
      | POpenID => 0
      end
  | OpPar r =>
      if andb (cf_jar_enabled cfg) (orb (cf_jar_required cfg) (cflag cl (cr_id (pr_cred r)) c_jar_required)) then 2 else 0
  | OpBcAuthorize r =>
      if andb (cf_ciba_jar_enabled cfg) (cf_ciba_jar_required cfg) then 3 else
      if andb (cf_openid_required cfg) (negb (contains_openid (p_scopes (br_params r)))) then 5 else 0
  | OpToken g r =>
      if negb (fresh_grant g) then 0 else
      let i := cr_id (t_cred r) in
      if andb (no_proof r) (andb (cf_dpop_enabled cfg) (orb (cf_dpop_required cfg) (cflag cl i c_dpop_required))) then 7 else
      if andb (no_cert r) (andb (cf_tls_binding_enabled cfg) (orb (cf_tls_binding_required cfg) (cflag cl i c_tls_required))) then 8 else
      if andb (cf_binding_required cfg) (andb (no_proof r) (no_cert r)) then 9 else
      (* whatever the request carried: under "binding required" the token just issued is bound (its cnf names a
         key or a certificate) - a proof or certificate of a mechanism that is not enabled binds nothing *)
      if andb (cf_binding_required cfg)
              (match x with Out (OTokens t) => andb (is_nil (tr_jkt t)) (is_nil (tr_x5t t)) | _ => false end) then 9 else 0
  | _ => 0
  end.

Fixpoint drive_C11 (cfg : config) (cl : list client) (k : nat) (ops : list op) (xs : list obs) : N :=
  match ops, xs with
  | o :: ops', x :: xs' =>
      match clause_C11 cfg cl o x with
      | 0 => drive_C11 cfg cl (S k) ops' xs'
      | c => c * 1000 + N.of_nat (S k)
      end
  | _, _ => 0
  end.

Definition mon_C11 (c : syscase) : N :=
  match build (sc_profile c) (sc_opts c) with
  | Some cfg => drive_C11 cfg (sc_static c ++ sc_dyn c) 0%nat (sc_ops c) (sc_obs c)
  | None => 0
  end.
