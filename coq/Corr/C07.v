(* Corr/C07.v — what the c07 case files call: histories over the JAR-aware operations
   (Model/Jar.v) mixed with the operations of Model/System.v, the comparison of the model's
   answers with the implementation's, and the property monitor of C07 evaluated on the
   implementation's observations. *)
From Verif Require Import Base Scope Types Prog Pop Token Authorize System Config Run Jar JarSpec.
Local Open Scope N_scope.

Inductive jop :=
  | JAuthorize (q : jareq)
  | JPar (r : preq) (o : option req_object)
  | JBc (r : breq) (o : option req_object)
  | JBase (o : op).

(* the response, and the client and parameters of the session the response refers to *)
Inductive jobs := JObs (x : obs) (eff : option (id * params)).

Definition jhandler (w : world) (jx : jworld) (n : nat) (now : Z) (o : jop) : prog obs :=
  let lift (p : prog out) := bind p (fun x => Ret (Out x)) in
  match o with
  | JAuthorize q => lift (init_auth_jar w jx n now q)
  | JPar r ob => lift (push_auth_jar w jx n now r ob)
  | JBc r ob => lift (init_back_auth_jar w jx n now r ob)
  | JBase o => handler w n now o
  end.

Definition jstep (w : world) (jx : jworld) (st : state) (n : nat) (o : jop) : state * obs :=
  match o with
  | JBase (OpTick d) => (mkState (s_store st) (s_now st + d)%Z, Out OOk)
  | _ => let '(sto, x) := run_seq (jhandler w jx n (s_now st) o) (s_store st) in (mkState sto (s_now st), x)
  end.

Definition peek (st : store) (x : obs) : option (id * params) :=
  let proj (o : option asession) := match o with Some s => Some (a_client s, a_params s) | None => None end in
  match x with
  | Out (OPage cb) => proj (find (fun s => ideq (a_cb s) cb) (st_asess st))
  | Out (ONav _ _ nv) =>
      if is_nil (n_code nv) then None else proj (find (fun s => ideq (a_code s) (n_code nv)) (st_asess st))
  | Out (OPar u) => proj (find (fun s => ideq (a_par s) u) (st_asess st))
  | Out (OCiba a _) => proj (find (fun s => ideq (a_ciba s) a) (st_asess st))
  | _ => None
  end.

Fixpoint jrun_from (w : world) (jx : jworld) (st : state) (n : nat) (ops : list jop) : list jobs :=
  match ops with
  | [] => []
  | o :: rest =>
      let '(st', x) := jstep w jx st n o in
      JObs x (peek (s_store st') x) :: jrun_from w jx st' (S n) rest
  end.

Record jarcase := mkJCase {
  jk_profile : profile;
  jk_opts : list opt;
  jk_jcfg : jcfg;
  jk_static : list client;
  jk_jclients : list (id * jclient);
  jk_ops : list jop;
  jk_obs : list jobs
}.

(* the members of the effective parameters the harness reads back from the stored session *)
Definition eff_match (a b : option (id * params)) : bool :=
  match a, b with
  | None, None => true
  | Some (c1, p), Some (c2, q) =>
      andb (ideq c1 c2) (andb (seqb (p_redirect p) (p_redirect q)) (andb (seqb (p_resp_mode p) (p_resp_mode q))
      (andb (seqb (p_resp_type p) (p_resp_type q)) (andb (seqb (p_scopes p) (p_scopes q)) (andb (seqb (p_state p) (p_state q))
      (andb (seqb (p_nonce p) (p_nonce q)) (andb (seqb (p_method p) (p_method q))
      (andb (seqb (p_login_hint p) (p_login_hint q)) (seqb (p_user_code p) (p_user_code q))))))))))
  | _, _ => false
  end.

Definition jobs_match (now : Z) (m i : jobs) : bool :=
  match m, i with JObs x e, JObs y f => andb (obs_match true now x y) (eff_match e f) end.

Fixpoint jnows (now : Z) (ops : list jop) : list Z :=
  match ops with
  | [] => []
  | JBase (OpTick d) :: r => now :: jnows (now + d)%Z r
  | _ :: r => now :: jnows now r
  end.

Fixpoint jfirst_diff (k : N) (ns : list Z) (m i : list jobs) : N :=
  match ns, m, i with
  | now :: ns', x :: m', y :: i' => if jobs_match now x y then jfirst_diff (k + 1) ns' m' i' else k
  | [], [], [] => 0
  | _, _, _ => k
  end.

Definition jcase_world (c : jarcase) : option (world * jworld) :=
  match build (jk_profile c) (jk_opts c) with
  | Some cfg => Some (mkWorld cfg (jk_static c), mkJWorld (jk_jcfg c) (jk_jclients c))
  | None => None
  end.

Definition jmodel_trace (c : jarcase) : list jobs :=
  match jcase_world c with
  | Some (w, jx) => jrun_from w jx (init_state []) 0%nat (jk_ops c)
  | None => []
  end.

(* 0 = agreement on every operation; k = first disagreement (1-based); 2^30 = options do not build *)
Definition check_jcase (c : jarcase) : N :=
  match jcase_world c with
  | None => 2 ^ 30
  | Some _ => jfirst_diff 1 (jnows 0%Z (jk_ops c)) (jmodel_trace c) (jk_obs c)
  end.

(* ---- the monitor: reads the inputs and the implementation's observations only ---- *)
Definition viol7 (clause : N) (k : nat) : N := clause * 1000 + N.of_nat (S k).

Definition is_success (x : obs) : bool :=
  match x with
  | Out (OPage _) | Out (OPar _) | Out (OCiba _ _) => true
  | Out (ONav _ _ nv) => match n_err nv with None => true | Some _ => false end
  | _ => false
  end.

(* what an observer learns about a pushed request: who pushed it, when, with which parameters *)
Record pushed := mkPushed { pu_uri : id; pu_client : id; pu_at : Z; pu_params : params; pu_used : bool }.
Fixpoint find_pushed (u : id) (l : list pushed) : option pushed :=
  match l with [] => None | p :: r => if ideq (pu_uri p) u then Some p else find_pushed u r end.
Definition mark_used (u : id) (l : list pushed) : list pushed :=
  map (fun p => if ideq (pu_uri p) u then mkPushed (pu_uri p) (pu_client p) (pu_at p) (pu_params p) true else p) l.

Definition find_static (i : id) (l : list client) : option client := find (fun c => ideq (c_id c) i) l.

(* the visible members of two parameter sets agree *)
Definition vis_eq (p q : params) : bool :=
  andb (seqb (p_redirect p) (p_redirect q)) (andb (seqb (p_resp_mode p) (p_resp_mode q))
  (andb (seqb (p_resp_type p) (p_resp_type q)) (andb (seqb (p_scopes p) (p_scopes q))
  (andb (seqb (p_state p) (p_state q)) (seqb (p_nonce p) (p_nonce q)))))).

(* clause numbers:
   1 parameters of an object that is not authentic for the client were used
   2 an unsigned object was used although 'none' is not enabled for the client
   3 a request_uri was honoured for a client that did not push it
   4 a request_uri was honoured after it expired
   5 a request_uri started a second authorization
   6 under a FAPI profile the session's parameters differ from the object's / the pushed ones
   7 a request without object was served although request objects are required
   8 a navigation (redirect or auto-submitted form, success or error) targeted a redirect_uri that is neither
     registered for the client nor the one of the pushed request being redeemed, or a session was started
     (interaction page served) that will navigate to such a URI (property C02's JAR half)
   Clauses 1 and 2 also fire when the answer is a redirected ERROR: the resolver refuses an object that is
   not authentic with a local error, so any navigation at all means its parameters (redirect_uri, state)
   were used. *)
Definition is_nav (x : obs) : bool := match x with Out (ONav _ _ _) => true | _ => false end.
Definition obj_clause (cfg : config) (jc : jcfg) (c : client) (jcl : jclient) (o : req_object) : N :=
  if jar_ok (cf_profile cfg) jc (c_id c) jcl o then 0
  else match ro_sig o with SigEmpty => 2 | _ => 1 end.

Definition clause_C07 (cfg : config) (jx : jworld) (static : list client) (pushed_ : list pushed) (now : Z)
    (o : jop) (x : jobs) : N :=
  match x with JObs y eff =>
  if negb (orb (is_success y) (match o with JAuthorize _ => is_nav y | _ => false end)) then 0 else
  match o with
  | JAuthorize q =>
      let r := jq_req q in
      match find_static (ar_client r) static with
      | None => 0
      | Some c =>
        let jcl := jclient_of (jx_clients jx) (c_id c) in
        if should_use_par cfg (ar_params r) c then
          if negb (is_success y) then 0 else
          match find_pushed (p_request_uri (ar_params r)) pushed_ with
          | None => 0
          | Some pu =>
              if negb (ideq (pu_client pu) (ar_client r)) then 3
              else if geb now (pu_at pu + cf_par_lifetime cfg)%Z then 4
              else if pu_used pu then 5
              else if is_fapi (cf_profile cfg) then
                match eff with Some (_, p) => if vis_eq p (pu_params pu) then 0 else 6 | None => 0 end
              else 0
          end
        else if should_use_jar cfg (ar_params r) c (jq_jar q) then
          match jq_jar q with
          | JValue ob | JRef _ (Some ob) =>
              match obj_clause cfg (jx_cfg jx) c jcl ob with
              | 0 => if negb (ideq (ro_client_id ob) (c_id c)) then 1
                     else if andb (is_success y) (is_fapi (cf_profile cfg)) then
                       match eff with Some (_, p) => if vis_eq p (ro_params ob) then 0 else 6 | None => 0 end
                     else 0
              | k => k
              end
          | _ => if is_success y then 7 else 0
          end
        else 0
      end
  | JPar r ob =>
      match find_static (cr_id (pr_cred r)) static with
      | None => 0
      | Some c =>
        let jcl := jclient_of (jx_clients jx) (c_id c) in
        if should_use_jar_par cfg c (match ob with Some _ => true | None => false end) then
          match ob with
          | Some o' => match obj_clause cfg (jx_cfg jx) c jcl o' with
                       | 0 => if negb (ideq (ro_client_id o') (c_id c)) then 1 else 0
                       | k => k end
          | None => 7
          end
        else 0
      end
  | JBc r ob =>
      match find_static (cr_id (br_cred r)) static with
      | None => 0
      | Some c =>
        let jcl := jclient_of (jx_clients jx) (c_id c) in
        if should_use_jar_ciba cfg jcl (match ob with Some _ => true | None => false end) then
          match ob with
          | Some o' => if ciba_jar_ok (jx_cfg jx) (c_id c) jcl o' then 0 else 1
          | None => 7
          end
        else 0
      end
  | JBase _ => 0
  end end.

(* clause 8: where a navigation may go.  The registered URIs of the client; where PAR admits unregistered
   URIs, also the redirect_uri of the pushed request this very request redeems, if this client pushed it. *)
Definition nav_target_ok (cfg : config) (c : client) (pushed_ : list pushed) (outer : params) (u : string) : bool :=
  orb (redirect_allowed c u)
      (andb (cf_par_unregistered cfg)
         (match find_pushed (p_request_uri outer) pushed_ with
          | Some pu => andb (negb (is_nil (p_request_uri outer)))
                         (andb (ideq (pu_client pu) (c_id c))
                            (andb (negb (is_empty u)) (seqb (p_redirect (pu_params pu)) u)))
          | None => false
          end)).

Definition nav_clause (cfg : config) (static : list client) (pushed_ : list pushed) (o : jop) (x : jobs) : N :=
  match x with
  | JObs (Out (ONav _ u _)) _ =>
      let chk (r : areq) :=
        match find_static (ar_client r) static with
        | Some c => if nav_target_ok cfg c pushed_ (ar_params r) u then 0 else 8
        | None => 8
        end in
      match o with
      | JAuthorize q => chk (jq_req q)
      | JBase (OpAuthorize r) => chk r
      | _ => 0
      end
  | JObs (Out (OPage _)) (Some (_, p)) =>
      (* the interaction page was served: the session in progress will navigate to its redirect_uri *)
      let chk (r : areq) :=
        match find_static (ar_client r) static with
        | Some c => if nav_target_ok cfg c pushed_ (ar_params r) (p_redirect p) then 0 else 8
        | None => 8
        end in
      match o with
      | JAuthorize q => chk (jq_req q)
      | JBase (OpAuthorize r) => chk r
      | _ => 0
      end
  | _ => 0
  end.

Definition learn7 (cfg : config) (static : list client) (pushed_ : list pushed) (now : Z) (o : jop) (x : jobs) : list pushed :=
  match x with JObs y _ =>
  match o, y with
  | JPar r ob, Out (OPar u) =>
      let c := find_static (cr_id (pr_cred r)) static in
      let used_jar := match c with Some c => should_use_jar_par cfg c (match ob with Some _ => true | None => false end) | None => false end in
      let p := match ob with Some o' => if used_jar then ro_params o' else pr_params r | None => pr_params r end in
      mkPushed u (cr_id (pr_cred r)) now p false :: pushed_
  | JBase (OpPar r), Out (OPar u) => mkPushed u (cr_id (pr_cred r)) now (pr_params r) false :: pushed_
  | JAuthorize q, _ =>
      if andb (is_success y) (negb (is_nil (p_request_uri (ar_params (jq_req q)))))
      then mark_used (p_request_uri (ar_params (jq_req q))) pushed_ else pushed_
  | _, _ => pushed_
  end end.

Fixpoint drive7 (cfg : config) (jx : jworld) (static : list client) (pushed_ : list pushed) (k : nat) (now : Z)
    (ops : list jop) (xs : list jobs) : N :=
  match ops, xs with
  | o :: ops', x :: xs' =>
      match nav_clause cfg static pushed_ o x with
      | 0 =>
        match clause_C07 cfg jx static pushed_ now o x with
        | 0 => drive7 cfg jx static (learn7 cfg static pushed_ now o x) (S k)
                 (match o with JBase (OpTick d) => (now + d)%Z | _ => now end) ops' xs'
        | c => viol7 c k
        end
      | c => viol7 c k
      end
  | _, _ => 0
  end.

Definition mon_C07 (c : jarcase) : N :=
  match build (jk_profile c) (jk_opts c) with
  | Some cfg => drive7 cfg (mkJWorld (jk_jcfg c) (jk_jclients c)) (jk_static c) [] 0%nat 0%Z (jk_ops c) (jk_obs c)
  | None => 0
  end.
