(* Corr/C19Dcr.v — what the c19dcr case files call.
   A case = the option list handed to provider.New (WithDCR and the list options, the lists all
   different from each other), the discovery document the real provider served, the minimal
   registration document every probe starts from (`kd_base`, as the record of Model/DcrGate.v), and
   the probes: real POSTs to the registration endpoint, each = the base + pre-settings (side
   conditions: the JWT-based method of an endpoint, the key algorithm next to a content algorithm,
   the CIBA grant ...) + ONE varied member, with the answer (1 = 201 Created, 0 = 400
   invalid_client_metadata, 2 = anything else); and the artifacts obtained by the clients registered
   that way (ID token, userinfo, JWT-secured authorization response; the xprobe of Corr/C19Lists.v).
   `check_c19d`: the document and artifacts against document2 / artifact_expected (check_c19l), every
   answer against DcrGate.dcr_validate on the same configuration.  `mon_c19d`: the property on the
   observations alone - accepted iff the value is in the list the SERVED document advertises for
   that member. *)
From Verif Require Import Base Scope Types Config Discovery Config2 Discovery2 DcrGate.
From Verif.Corr Require Import C19 C19Lists.
Local Open Scope N_scope.

Inductive dsetting := SetM (m : dmember) (v : string) | AddL (l : dlist) (v : string).
Definition apply_setting (s : dsetting) (r : reg) : reg :=
  match s with SetM m v => set_member m v r | AddL l v => add_value l v r end.

Record dprobe := mkDP { dp_pre : list dsetting; dp_var : dsetting; dp_ans : N }.
(* the registration that was sent *)
Definition probe_reg (b : reg) (p : dprobe) : reg :=
  apply_setting (dp_var p) (fold_left (fun r s => apply_setting s r) (dp_pre p) b).

Record c19dcase := mkC19D { kd_l : c19lcase; kd_base : reg; kd_probes : list dprobe }.

(* 0 agreement; the codes of check_c19l (document, artifacts); 50000+i: registration probe i *)
Definition check_c19d (k : c19dcase) : N :=
  match check_c19l (kd_l k) with
  | 0 =>
    match build2 (kl_profile (kd_l k)) (kl_opts (kd_l k)) with
    | None => 0
    | Some c2 =>
      match first_bad (fun p => N.eqb (if dcr_validate c2 (probe_reg (kd_base k) p) then 1 else 0) (dp_ans p))
                      1 (kd_probes k) with
      | 0 => 0
      | i => 50000 + i
      end
    end
  | v => v
  end.

(* ---------------- the monitor: the document, the registrations sent and the answers ---------------- *)
(* the member of the document that publishes the values of a registration member *)
Definition published_name (m : dmember) : string :=
  match dmember_source m with FromList lm => lmember_name lm | FromMember mm => member_name mm end.
Definition dlist_published_name (l : dlist) : string := member_name (dlist_source l).

(* NOT FLAGGED, REPORTED (conf/C19.py note): validation.go skips these validators when the feature is
   disabled (`if !ctx.XIsEnabled { return nil }`), so a registration asking for the member is
   accepted although the document publishes no list for it; the observable condition is the absence
   of the member below from the served document.  (JARM encryption is validated under JARMIsEnabled:
   its condition is the absence of authorization_signing_alg_values_supported.) *)
Definition skipped_when_absent (m : dmember) : option string :=
  match m with
  | DJarSig | DJarKey | DJarCenc | DIdtKey | DIdtCenc | DUiKey | DUiCenc | DCibaJarSig | DJarmSig => Some (published_name m)
  | DJarmKey | DJarmCenc => Some (published_name DJarmSig)
  | _ => None
  end.

(* the key-encryption member next to a content-encryption member *)
Definition key_of_cenc (m : dmember) : option dmember :=
  match m with DIdtCenc => Some DIdtKey | DUiCenc => Some DUiKey | DJarCenc => Some DJarKey | DJarmCenc => Some DJarmKey | _ => None end.

(* clause 13: accepted but not advertised; 14: advertised but refused; 15: neither 201 nor
   invalid_client_metadata *)
Definition verdict (adv : bool) (ans : N) : N :=
  if N.eqb ans 2 then 15 else
  if andb (N.eqb ans 1) (negb adv) then 13 else
  if andb (N.eqb ans 0) adv then 14 else 0.

Definition clause_dcr (d : list (string * dval)) (base : reg) (p : dprobe) : N :=
  let r := probe_reg base p in
  match dp_var p with
  | AddL l v => verdict (mem v (obs_set d (dlist_published_name l))) (dp_ans p)
  | SetM m v =>
      if is_empty v then (if N.eqb (dp_ans p) 1 then 0 else 15) else      (* the control: the base itself *)
      if match skipped_when_absent m with Some n => negb (obs_has d n) | None => false end then 0 else
      match m with
      | DAuthAlg e =>
          (* judged for a JWT-based method only: the part of <endpoint>_auth_signing_alg_values_supported
             that belongs to the method (HS* for client_secret_jwt), the method being advertised *)
          let meth := get_member (DMethod e) r in
          if is_jwt_method meth
          then verdict (andb (mem meth (obs_set d (methods_name e)))
                             (mem v (family meth (obs_set d (sig_algs_name e))))) (dp_ans p)
          else 0
      | DCibaMode => if has_ciba r then verdict (mem v (obs_set d (published_name m))) (dp_ans p) else 0
      | _ =>
          (* a content algorithm is judged next to an advertised key algorithm *)
          match key_of_cenc m with
          | Some km =>
              if mem (get_member km r) (obs_set d (published_name km))
              then verdict (mem v (obs_set d (published_name m))) (dp_ans p) else 0
          | None => verdict (mem v (obs_set d (published_name m))) (dp_ans p)
          end
      end
  end.

(* clause*1000 + index: registration probes are numbered from 1, artifact probes from 501.
   A refused control (probe 1) ends the evaluation: nothing else can be judged. *)
Definition mon_c19d (k : c19dcase) : N :=
  if negb (kl_built (kd_l k)) then 0 else
  let d := kl_doc (kd_l k) in
  match kd_probes k with
  | ctl :: _ => match clause_dcr d (kd_base k) ctl with
                | 0 => match first_clause (clause_dcr d (kd_base k)) 1 (kd_probes k) with
                       | 0 => first_clause (clause_art d) 501 (kl_art (kd_l k))
                       | v => v end
                | c => c * 1000 + 1 end
  | [] => 0
  end.
