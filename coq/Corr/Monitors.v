(* Corr/Monitors.v — executable property predicates evaluated on the implementation's traces
   (and, for the properties whose trace theorem is proved, on the model's: Props/*.v).
   A monitor reads only the inputs of a case and the observations the harness projected from the
   real provider; it returns 0 when no clause is violated, else clause*1000 + (1-based) index of
   the operation at which the clause failed. *)
From Verif Require Import Base Scope Types Prog Pop Token Authorize System Config Run.
Local Open Scope N_scope.

Definition viol (clause : N) (k : nat) : N := clause * 1000 + N.of_nat (S k).

(* association lists keyed by handles *)
Fixpoint lookup {A} (k : id) (l : list (id * A)) : option A :=
  match l with [] => None | (k', v) :: r => if ideq k k' then Some v else lookup k r end.

(* ---- what an observer of the trace knows about each credential ---- *)
Record ginfo := mkGI { gi_client : id; gi_sub : string; gi_granted : string; gi_origin : id (* code it came from *) }.

Record known := mkKnown {
  k_cbs : list (id * id);          (* callback id -> client *)
  k_codes : list (id * ginfo);
  k_ats : list (id * ginfo);
  k_rts : list (id * ginfo)
}.
Definition known0 : known := mkKnown [] [] [] [].

Definition cred_client (c : cred) : id := cr_id c.

(* learn from one (operation, observation) pair *)
Definition learn (kn : known) (o : op) (x : obs) : known :=
  match o, x with
  | OpAuthorize r, Out (OPage cb) => mkKnown ((cb, ar_client r) :: k_cbs kn) (k_codes kn) (k_ats kn) (k_rts kn)
  | OpAuthorize r, Out (ONav _ _ nv) =>
      match ar_pol r with
      | PolSuccess sub granted =>
          let gi := mkGI (ar_client r) sub granted (n_code nv) in
          mkKnown (k_cbs kn)
            (if is_nil (n_code nv) then k_codes kn else (n_code nv, gi) :: k_codes kn)
            (if is_nil (n_at nv) then k_ats kn else (n_at nv, gi) :: k_ats kn) (k_rts kn)
      | _ => kn
      end
  | OpCallback r, Out (ONav _ _ nv) =>
      match cb_pol r, lookup (cb_id r) (k_cbs kn) with
      | PolSuccess sub granted, Some cl =>
          let gi := mkGI cl sub granted (n_code nv) in
          mkKnown (k_cbs kn)
            (if is_nil (n_code nv) then k_codes kn else (n_code nv, gi) :: k_codes kn)
            (if is_nil (n_at nv) then k_ats kn else (n_at nv, gi) :: k_ats kn) (k_rts kn)
      | _, _ => kn
      end
  | OpToken GAuthorizationCode r, Out (OTokens t) =>
      match lookup (t_code r) (k_codes kn) with
      | Some gi => mkKnown (k_cbs kn) (k_codes kn) ((tr_at t, gi) :: k_ats kn)
                     (if is_nil (tr_rt t) then k_rts kn else (tr_rt t, gi) :: k_rts kn)
      | None => kn
      end
  | OpToken GRefreshToken r, Out (OTokens t) =>
      match lookup (t_refresh r) (k_rts kn) with
      | Some gi => mkKnown (k_cbs kn) (k_codes kn) ((tr_at t, gi) :: k_ats kn)
                     (if is_nil (tr_rt t) then k_rts kn else (tr_rt t, gi) :: k_rts kn)
      | None => kn
      end
  | OpToken GClientCredentials r, Out (OTokens t) =>
      mkKnown (k_cbs kn) (k_codes kn)
        ((tr_at t, mkGI (cr_id (t_cred r)) (cname (cr_id (t_cred r))) (t_scope r) 0) :: k_ats kn) (k_rts kn)
  | _, _ => kn
  end.

(* generic driver: clause function sees the knowledge BEFORE the operation *)
Section Driver.
  Variable clause : config -> known -> Z -> op -> obs -> N.   (* 0 = fine, else clause number *)
  Fixpoint drive (cfg : config) (kn : known) (k : nat) (now : Z) (ops : list op) (xs : list obs) : N :=
    match ops, xs with
    | o :: ops', x :: xs' =>
        match clause cfg kn now o x with
        | 0 => drive cfg (learn kn o x) (S k) (match o with OpTick d => (now + d)%Z | _ => now end) ops' xs'
        | c => viol c k
        end
    | _, _ => 0
    end.
End Driver.

Definition run_monitor clause (c : syscase) : N :=
  match build (sc_profile c) (sc_opts c) with
  | Some cfg => drive clause cfg known0 0%nat 0%Z (sc_ops c) (sc_obs c)
  | None => 0
  end.

Definition ptok_exact (p : ptok) : id := match p with PExact h => h | _ => 0 end.

(* ---- C04: reported scopes stay within what the resource owner granted (or, for
        client_credentials, what was requested), and identity is that of the grant ---- *)
Definition within_s (granted s : string) : bool := contains_all_scopes granted s.
Definition clause_C04 (cfg : config) (kn : known) (now : Z) (o : op) (x : obs) : N :=
  match o, x with
  | OpToken GAuthorizationCode r, Out (OTokens t) =>
      match lookup (t_code r) (k_codes kn) with
      | Some gi => if within_s (gi_granted gi) (tr_scope t) then 0 else 1
      | None => 0 end
  | OpToken GRefreshToken r, Out (OTokens t) =>
      match lookup (t_refresh r) (k_rts kn) with
      | Some gi => if within_s (gi_granted gi) (tr_scope t) then 0 else 1
      | None => 0 end
  | OpIntrospect r, Out (OIntro i) =>
      if negb (in_active i) then 0 else
      match lookup (ptok_exact (q_tok r)) (if in_refresh i then k_rts kn else k_ats kn) with
      | Some gi => if negb (within_s (gi_granted gi) (in_scope i)) then 1
                   else if negb (ideq (in_client i) (gi_client gi)) then 3
                   else 0
      | None => 0 end
  | _, _ => 0
  end.
Definition mon_C04 := run_monitor clause_C04.

(* function level: the code honoured a request that the whole-entry rule (Props/C04.v,
   scope_whole_entry) does not allow, or contains-all accepted a non-subset *)
Definition mon_scope_case (c : scopecase) : N :=
  if andb (fc_allowed c) (negb (are_scopes_allowed (fc_client c) (fc_avail c) (fc_req c))) then 1001
  else if andb (fc_contains c) (negb (contains_all_scopes (fc_granted c) (fc_req c))) then 1001 else 0.
