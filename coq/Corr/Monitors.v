(* Corr/Monitors.v — executable property predicates evaluated on the implementation's traces. *)
From Verif Require Import Base Scope Types Prog Pop Token Authorize System Config Run.
Local Open Scope N_scope.
