(* Corr/Monitors.v — executable property predicates evaluated on the implementation's traces
   (and, for the properties whose trace theorem is proved, on the model's: Props/*.v).
   A monitor reads only the inputs of a case and the observations the harness projected from the
   real provider; it returns 0 when no clause is violated, else clause*1000 + (1-based) index of
   the operation at which the clause failed. *)
From Verif Require Import Base Scope Types Prog Pop Token Authorize System Config Run.
Local Open Scope N_scope.

Definition viol (clause : N) (k : nat) : N := clause * 1000 + N.of_nat (S k).

(* association lists keyed by handles *)
Fixpoint lookup {A} (k : id) (l : list (id * A)) : option A :=
  match l with [] => None | (k', v) :: r => if ideq k k' then Some v else lookup k r end.

(* ---- what an observer of the trace knows about each credential ---- *)
Record ginfo := mkGI { gi_client : id; gi_sub : string; gi_granted : string; gi_origin : id (* code it came from *);
                       gi_res : list string (* resources the owner granted; for owner-less grants: requested *);
                       gi_ownerless : bool }.
(* a CIBA poll whose validation callback narrowed the grant (BaNarrow): the grant the tokens come from is the narrowed one *)
Definition poll_gi (r : treq) (gi : ginfo) : ginfo :=
  match t_ba r with
  | BaNarrow => mkGI (gi_client gi) (gi_sub gi) narrowed_scopes (gi_origin gi) (gi_res gi) (gi_ownerless gi)
  | _ => gi end.

Record known := mkKnown {
  k_cbs : list (id * id);          (* callback id -> client *)
  k_codes : list (id * ginfo);
  k_ats : list (id * ginfo);
  k_rts : list (id * ginfo);
  k_cibas : list (id * ginfo)      (* auth_req_id -> what the embedder granted at /bc-authorize *)
}.
Definition known0 : known := mkKnown [] [] [] [] [].

Definition cred_client (c : cred) : id := cr_id c.

Definition add_tokens (kn : known) (gi : ginfo) (at_ rt : id) : known :=
  mkKnown (k_cbs kn) (k_codes kn) (if is_nil at_ then k_ats kn else (at_, gi) :: k_ats kn)
          (if is_nil rt then k_rts kn else (rt, gi) :: k_rts kn) (k_cibas kn).

Definition assertion_sub (a : assertion) : string := match a with AsOk s => s | _ => "" end.
Definition assertion_ok (a : assertion) : bool := match a with AsOk _ => true | _ => false end.

(* learn from one (operation, observation) pair *)
Definition learn (kn : known) (o : op) (x : obs) : known :=
  match o, x with
  | OpAuthorize r, Out (OPage cb) => mkKnown ((cb, ar_client r) :: k_cbs kn) (k_codes kn) (k_ats kn) (k_rts kn) (k_cibas kn)
  | OpAuthorize r, Out (ONav _ _ nv) =>
      match ar_pol r with
      | PolSuccess sub granted res _ =>
          (* the implicit token delivered alongside a code belongs to its own grant: origin 0 *)
          mkKnown (k_cbs kn)
            (if is_nil (n_code nv) then k_codes kn else (n_code nv, mkGI (ar_client r) sub granted (n_code nv) res false) :: k_codes kn)
            (if is_nil (n_at nv) then k_ats kn else (n_at nv, mkGI (ar_client r) sub granted 0 res false) :: k_ats kn) (k_rts kn)
            (k_cibas kn)
      | _ => kn
      end
  | OpCallback r, Out (ONav _ _ nv) =>
      match cb_pol r, lookup (cb_id r) (k_cbs kn) with
      | PolSuccess sub granted res _, Some cl =>
          mkKnown (k_cbs kn)
            (if is_nil (n_code nv) then k_codes kn else (n_code nv, mkGI cl sub granted (n_code nv) res false) :: k_codes kn)
            (if is_nil (n_at nv) then k_ats kn else (n_at nv, mkGI cl sub granted 0 res false) :: k_ats kn) (k_rts kn)
            (k_cibas kn)
      | _, _ => kn
      end
  | OpToken GAuthorizationCode r, Out (OTokens t) =>
      match lookup (t_code r) (k_codes kn) with
      | Some gi => add_tokens kn gi (tr_at t) (tr_rt t)
      | None => kn
      end
  | OpToken GRefreshToken r, Out (OTokens t) =>
      match lookup (t_refresh r) (k_rts kn) with
      | Some gi => add_tokens kn gi (tr_at t) (tr_rt t)
      | None => kn
      end
  | OpToken GClientCredentials r, Out (OTokens t) =>
      add_tokens kn (mkGI (cr_id (t_cred r)) (cname (cr_id (t_cred r))) (t_scope r) 0 (t_resources r) true) (tr_at t) 0
  (* jwt-bearer: no resource owner behind the request - the client is the one the request named (0: nobody,
     the anonymous client), the subject the one the embedder's assertion handler answered, granted =
     requested; bound like client_credentials by the client's registration and the configured resources *)
  | OpToken GJwtBearer r, Out (OTokens t) =>
      add_tokens kn (mkGI (cr_id (t_cred r)) (assertion_sub (t_assertion r)) (t_scope r) 0 (t_resources r) true) (tr_at t) (tr_rt t)
  | OpBcAuthorize r, Out (OCiba a _) =>
      mkKnown (k_cbs kn) (k_codes kn) (k_ats kn) (k_rts kn)
              ((a, mkGI (cr_id (br_cred r)) (br_sub r) (br_granted r) 0 (br_granted_res r) false) :: k_cibas kn)
  | OpToken GCiba r, Out (OTokens t) =>
      match lookup (t_auth_req r) (k_cibas kn) with
      | Some gi => add_tokens kn (poll_gi r gi) (tr_at t) (tr_rt t)
      | None => kn
      end
  | OpNotifyOk a _, Notified true (nf :: _) =>
      match lookup a (k_cibas kn) with
      | Some gi => add_tokens kn gi (nf_at nf) (nf_rt nf)
      | None => kn
      end
  | _, _ => kn
  end.

(* generic driver: clause function sees the knowledge BEFORE the operation *)
Section Driver.
  Variable clause : config -> known -> Z -> op -> obs -> N.   (* 0 = fine, else clause number *)
  Fixpoint drive (cfg : config) (kn : known) (k : nat) (now : Z) (ops : list op) (xs : list obs) : N :=
    match ops, xs with
    | o :: ops', x :: xs' =>
        match clause cfg kn now o x with
        | 0 => drive cfg (learn kn o x) (S k) (match o with OpTick d => (now + d)%Z | _ => now end) ops' xs'
        | c => viol c k
        end
    | _, _ => 0
    end.
End Driver.

Definition run_monitor clause (c : syscase) : N :=
  match build (sc_profile c) (sc_opts c) with
  | Some cfg => drive clause cfg known0 0%nat 0%Z (sc_ops c) (sc_obs c)
  | None => 0
  end.

Definition ptok_exact (p : ptok) : id := match p with PExact h => h | _ => 0 end.

(* ---- C04: reported scopes and resources (aud) stay within what the resource owner granted (or, for
        client_credentials, what was requested and the server's configured resources), and identity is
        that of the grant ---- *)
Definition within_s (granted s : string) : bool := contains_all_scopes granted s.
(* clause 4: the `resources` member of a token response, the aud claim of a JWT access token *)
Definition res_within (gi : ginfo) (t : tresp) : bool := andb (subset (tr_res t) (gi_res gi)) (subset (tr_aud t) (gi_res gi)).
Definition c04_tokens (gi : ginfo) (t : tresp) : N :=
  if negb (within_s (gi_granted gi) (tr_scope t)) then 1 else if negb (res_within gi t) then 4 else 0.
Definition c04_info (cfg : config) (kn : known) (p : ptok) (i : intro) : N :=
  if negb (in_active i) then 0 else
  match lookup (ptok_exact p) (if in_refresh i then k_rts kn else k_ats kn) with
  | Some gi => if negb (within_s (gi_granted gi) (in_scope i)) then 1
               else if negb (ideq (in_client i) (gi_client gi)) then 3
               (* owner-less grants: the subject is the client itself (client_credentials) / the one the
                  embedder's assertion handler answered (jwt-bearer) *)
               else if andb (gi_ownerless gi) (negb (seqb (in_sub i) (gi_sub gi))) then 3
               else if negb (subset (in_aud i) (gi_res gi)) then 4
               else if andb (gi_ownerless gi) (negb (subset (in_aud i) (cf_resources cfg))) then 4
               else 0
  | None => 0 end.
Definition clause_C04 (cfg : config) (kn : known) (now : Z) (o : op) (x : obs) : N :=
  match o, x with
  | OpToken GAuthorizationCode r, Out (OTokens t) =>
      match lookup (t_code r) (k_codes kn) with
      | Some gi => c04_tokens gi t
      | None => 0 end
  | OpToken GRefreshToken r, Out (OTokens t) =>
      match lookup (t_refresh r) (k_rts kn) with
      | Some gi => c04_tokens gi t
      | None => 0 end
  | OpToken GCiba r, Out (OTokens t) =>
      match lookup (t_auth_req r) (k_cibas kn) with
      | Some gi => c04_tokens (poll_gi r gi) t
      | None => 0 end
  | OpToken GClientCredentials r, Out (OTokens t) =>
      if andb (subset (tr_aud t) (cf_resources cfg)) (subset (tr_aud t) (t_resources r)) then 0 else 4
  | OpToken GJwtBearer r, Out (OTokens t) =>
      (* tokens only for an assertion the embedder's handler accepted; scope / resources members within
         what was requested, aud within the configured resources *)
      if negb (assertion_ok (t_assertion r)) then 3
      else if negb (within_s (t_scope r) (tr_scope t)) then 1
      else if andb (subset (tr_aud t) (cf_resources cfg)) (andb (subset (tr_aud t) (t_resources r)) (subset (tr_res t) (t_resources r))) then 0 else 4
  | OpIntrospect r, Out (OIntro i) => c04_info cfg kn (q_tok r) i
  | OpTokenInfo p, Out (OIntro i) => c04_info cfg kn p i
  | _, _ => 0
  end.
Definition mon_C04 := run_monitor clause_C04.

(* function level: the code honoured a request that the whole-entry rule (Props/C04.v,
   scope_whole_entry) does not allow, or contains-all accepted a non-subset *)
Definition mon_scope_case (c : scopecase) : N :=
  if andb (fc_allowed c) (negb (are_scopes_allowed (fc_client c) (fc_avail c) (fc_req c))) then 1001
  else if andb (fc_contains c) (negb (contains_all_scopes (fc_granted c) (fc_req c))) then 1001 else 0.

(* ================================================================================== *)
(* One-time credentials.  cons cfg o x = Some v: operation o, answered x, CONSUMED credential v;
   acc cfg o x = Some v: operation o was ACCEPTED on presentation of v.  Theorems: Proofs/OneShot.v *)
(* 0: no consumed credential was ever accepted again; k: operation k (1-based) accepted a dead one *)
Fixpoint once_from (cons acc : config -> op -> obs -> option id) (cfg : config) (used : list id) (k : nat) (ops : list op) (xs : list obs) : N :=
  match ops, xs with
  | o :: ops', x :: xs' =>
      if match acc cfg o x with Some v => andb (memN v used) (negb (is_nil v)) | None => false end
      then N.of_nat (S k)
      else once_from cons acc cfg (match cons cfg o x with Some v => v :: used | None => used end) (S k) ops' xs'
  | _, _ => 0
  end.

Definition is_tokens (o : out) : bool := match o with OTokens _ => true | _ => false end.

Definition cons_code (_ : config) (o : op) (x : obs) : option id :=
  match o, x with
  | OpToken GAuthorizationCode r, Out (OTokens _) => Some (t_code r)
  | _, _ => None
  end.

Definition has_tokens_notif (ns : list notif) : bool := existsb (fun nf => negb (is_nil (nf_at nf))) ns.

Definition cons_ciba (_ : config) (o : op) (x : obs) : option id :=
  match o, x with
  | OpToken GCiba r, Out (OTokens _) => Some (t_auth_req r)
  | OpNotifyOk a _, Notified true ns => if has_tokens_notif ns then Some a else None
  | _, _ => None
  end.

(* the embedder calls the Notify API with the auth_req_id of a request it was given *)
Definition wf_op (o : op) : Prop :=
  match o with OpNotifyOk a _ => a <> 0 | OpNotifyFail a => a <> 0 | _ => True end.

Definition started (o : out) : bool :=
  match o with
  | OPage _ => true
  | ONav _ _ nv => match n_err nv with None => true | Some _ => false end
  | _ => false
  end.

Definition cons_par (cfg : config) (o : op) (x : obs) : option id :=
  match o, x with
  | OpAuthorize r, Out out =>
      if andb (cf_par_enabled cfg) (andb (negb (is_nil (p_request_uri (ar_params r)))) (started out))
      then Some (p_request_uri (ar_params r)) else None
  | _, _ => None
  end.

Definition is_nav (o : out) : bool := match o with ONav _ _ _ => true | _ => false end.

Definition is_page (o : out) : bool := match o with OPage _ => true | _ => false end.

Definition cons_cb (_ : config) (o : op) (x : obs) : option id :=
  match o, x with
  | OpCallback r, Out out => if is_nav out then Some (cb_id r) else None
  | _, _ => None
  end.

Definition acc_cb (_ : config) (o : op) (x : obs) : option id :=
  match o, x with
  | OpCallback r, Out out => if orb (is_nav out) (is_page out) then Some (cb_id r) else None
  | _, _ => None
  end.

Definition cons_rt (cfg : config) (o : op) (x : obs) : option id :=
  match o, x with
  | OpToken GRefreshToken r, Out (OTokens _) => if cf_refresh_rotation cfg then Some (t_refresh r) else None
  | _, _ => None
  end.

(* accepted: any successful refresh *)
Definition acc_rt (_ : config) (o : op) (x : obs) : option id :=
  match o, x with
  | OpToken GRefreshToken r, Out (OTokens _) => Some (t_refresh r)
  | _, _ => None
  end.


(* ================================================================================== *)
(* C03 *)
Definition origin_replayed (kn : known) (replayed : list id) (refresh : bool) (h : id) : bool :=
  match lookup h (if refresh then k_rts kn else k_ats kn) with
  | Some gi => andb (negb (is_nil (gi_origin gi))) (memN (gi_origin gi) replayed)
  | None => false
  end.
Fixpoint c03_from (cfg : config) (kn : known) (redeemed replayed : list id) (born : list (id * Z)) (now : Z)
                  (k : nat) (ops : list op) (xs : list obs) : N :=
  match ops, xs with
  | o :: ops', x :: xs' =>
      let bad : N :=
        match o, x with
        | OpToken GAuthorizationCode r, Out (OTokens _) =>
            if memN (t_code r) redeemed then 1 else
            if match lookup (t_code r) born with Some b => Z.leb (b + 60 + 3) now | None => false end then 4 else
            match lookup (t_code r) (k_codes kn) with
            | Some gi => if ideq (gi_client gi) (cr_id (t_cred r)) then 0 else 2
            | None => 0 end
        | OpIntrospect r, Out (OIntro i) =>
            if andb (in_active i) (origin_replayed kn replayed (in_refresh i) (ptok_exact (q_tok r))) then 6 else 0
        | OpUserInfo r, Out (OUserInfo _) =>
            if origin_replayed kn replayed false (ptok_exact (u_tok r)) then 6 else 0
        | OpToken GRefreshToken r, Out (OTokens _) =>
            if origin_replayed kn replayed true (t_refresh r) then 6 else 0
        | _, _ => 0
        end in
      match bad with
      | 0 =>
        c03_from cfg (learn kn o x)
          (match cons_code cfg o x with Some v => v :: redeemed | None => redeemed end)
          (match o, x with
           | OpToken GAuthorizationCode r, Out (OErr EInvalidGrant) =>
               if memN (t_code r) redeemed then t_code r :: replayed else replayed
           | _, _ => replayed end)
          (match x with Out (ONav _ _ nv) => if is_nil (n_code nv) then born else (n_code nv, now) :: born | _ => born end)
          (match o with OpTick d => (now + d)%Z | _ => now end)
          (S k) ops' xs'
      | c => viol c k
      end
  | _, _ => 0
  end.
Definition with_cfg (f : config -> list op -> list obs -> N) (c : syscase) : N :=
  match build (sc_profile c) (sc_opts c) with Some cfg => f cfg (sc_ops c) (sc_obs c) | None => 0 end.
Definition mon_C03 := with_cfg (fun cfg ops xs => c03_from cfg known0 [] [] [] 0%Z 0 ops xs).

(* C10 *)
Definition clause_C10 (cfg : config) (kn : known) (now : Z) (o : op) (x : obs) : N :=
  match o, x with
  | OpToken GRefreshToken r, Out (OTokens t) =>
      match lookup (t_refresh r) (k_rts kn) with
      | Some gi =>
          if negb (ideq (gi_client gi) (cr_id (t_cred r))) then 2
          else if negb (contains_all_scopes (gi_granted gi) (t_scope r)) then 3
          else if andb (cf_refresh_rotation cfg) (orb (is_nil (tr_rt t)) (ideq (tr_rt t) (t_refresh r))) then 5
          else if negb (res_within gi t) then 7
          else 0
      | None => 0 end
  (* clause 9: "later refreshes may return to the full grant": a refresh of the owning client naming only
     resources of the original grant is never refused as invalid_target *)
  | OpToken GRefreshToken r, Out (OErr EInvalidTarget) =>
      match lookup (t_refresh r) (k_rts kn) with
      | Some gi =>
          if andb (ideq (gi_client gi) (cr_id (t_cred r))) (andb (cr_ok (t_cred r))
             (andb (cf_resource_enabled cfg) (andb (negb (no_res (t_resources r))) (subset (t_resources r) (gi_res gi)))))
          then 9 else 0
      | None => 0 end
  | OpIntrospect r, Out (OIntro i) =>
      if negb (in_active i) then 0 else
      if in_refresh i then
        match lookup (ptok_exact (q_tok r)) (k_rts kn) with
        | Some gi => if negb (contains_all_scopes (gi_granted gi) (in_scope i)) then 3
                     else if negb (subset (in_aud i) (gi_res gi)) then 7 else 0
        | None => 0 end
      else
        (* the audience of the current access token of a grant, after however many refreshes *)
        match lookup (ptok_exact (q_tok r)) (k_ats kn) with
        | Some gi => if subset (in_aud i) (gi_res gi) then 0 else 7
        | None => 0 end
  | _, _ => 0
  end.
Definition mon_C10 (c : syscase) : N :=
  match with_cfg (fun cfg ops xs => once_from cons_rt acc_rt cfg [] 0 ops xs) c with
  | 0 => run_monitor clause_C10 c
  | k => 1000 + k
  end.

(* C16 *)
Definition client_of (c : syscase) (i : id) : option client :=
  match find (fun cl => ideq (c_id cl) i) (sc_static c) with Some cl => Some cl | None => find (fun cl => ideq (c_id cl) i) (sc_dyn c) end.
Fixpoint c16_from (cs : syscase) (reqs : list (id * (id * id))) (ended : list id) (k : nat) (ops : list op) (xs : list obs) : N :=
  match ops, xs with
  | o :: ops', x :: xs' =>
      let bad : N :=
        match o, x with
        | OpToken GCiba r, Out (OTokens _) =>
            if negb (ba_approves (t_ba r)) then 3 else
            if memN (t_auth_req r) ended then 6 else
            match lookup (t_auth_req r) reqs with
            | Some (cl, _) =>
                if negb (ideq cl (cr_id (t_cred r))) then 2 else
                match client_of cs cl with Some c => (match c_ciba_mode c with CibaPush => 4 | _ => 0 end) | None => 0 end
            | None => 0 end
        | OpNotifyOk a _, Notified _ ns | OpNotifyFail a, Notified _ ns =>
            (* push delivery after the denial of that very request had been delivered: the denial ended it *)
            if andb (memN a ended) (existsb (fun nf => negb (is_nil (nf_at nf))) ns) then 6 else
            match lookup a reqs with
            | Some (cl, tok) =>
                match client_of cs cl with
                | Some c => if forallb (fun nf => andb (ideq (nf_ep nf) (c_notif_ep c)) (andb (ideq (nf_bearer nf) tok) (ideq (nf_auth_req nf) a))) ns then 0 else 5
                | None => 0 end
            | None => match ns with [] => 0 | _ => 5 end
            end
        | _, _ => 0
        end in
      match bad with
      | 0 => c16_from cs (match o, x with
                          | OpBcAuthorize r, Out (OCiba a _) => (a, (cr_id (br_cred r), p_notif_token (br_params r))) :: reqs
                          | _, _ => reqs end)
                         (* the embedder's validation gave a terminal answer: denial -> access_denied, failure -> internal_error *)
                         (match o, x with
                          | OpToken GCiba r, Out (OErr EAccessDenied) => (match t_ba r with BaDeny => t_auth_req r :: ended | _ => ended end)
                          | OpToken GCiba r, Out (OErr EInternalError) => (match t_ba r with BaFail => t_auth_req r :: ended | _ => ended end)
                          (* a failure notification that delivered the error to a push client *)
                          | OpNotifyFail a, Notified true ns => if existsb nf_err ns then a :: ended else ended
                          | _, _ => ended end) (S k) ops' xs'
      | c => viol c k
      end
  | _, _ => 0
  end.
(* C16 clauses 7 and 8: the request's lifetime and the retryable answers.
   7: no tokens (poll or push delivery) once the lifetime counted from /bc-authorize has elapsed, whatever the
      embedder's validation answers.
   8: a request that only ever got retryable answers (authorization_pending, slow_down) stays usable: an
      approving poll of the initiating poll/ping client, authenticated, with a granting HandleGrant, no
      narrowing and no binding involved, before the lifetime has elapsed, yields tokens.  `touched`: requests on
      which anything else happened (any other answer to a poll, any notification) - not judged. *)
Definition bind_is_none (b : bind_in) : bool := andb (match b_dpop b with None => true | Some _ => false end) (is_nil (b_cert b)).
Fixpoint c16life_from (cs : syscase) (cfg : config) (born : list (id * (id * Z))) (touched : list id)
                      (k : nat) (now : Z) (ops : list op) (xs : list obs) : N :=
  match ops, xs with
  | o :: ops', x :: xs' =>
      let now' := match o with OpTick d => (now + d)%Z | _ => now end in
      let expired (a : id) : bool :=
        match lookup a born with Some (_, t0) => Z.leb (t0 + cf_ciba_lifetime cfg + 3) now | None => false end in
      let bad : N :=
        match o, x with
        | OpToken GCiba r, Out (OTokens _) => if expired (t_auth_req r) then 7 else 0
        (* clause 9: reporting a denial never delivers tokens *)
        | OpNotifyFail a, Notified _ ns => if existsb (fun nf => negb (is_nil (nf_at nf))) ns then 9 else 0
        | OpNotifyOk a _, Notified _ ns => if andb (expired a) (existsb (fun nf => negb (is_nil (nf_at nf))) ns) then 7 else 0
        | OpToken GCiba r, Out (OErr _) =>
            match lookup (t_auth_req r) born with
            | Some (cl, t0) =>
                match client_of cs cl with
                | Some c =>
                    if andb (ideq cl (cr_id (t_cred r))) (andb (cr_ok (t_cred r))
                       (andb (match t_ba r with BaApprove => true | _ => false end)
                       (andb (match t_hg r with HgOk => true | _ => false end)
                       (andb (negb (memN (t_auth_req r) touched))
                       (andb (Z.ltb (now + 3) (t0 + cf_ciba_lifetime cfg))
                       (andb (has_grant GCiba (c_grants c))
                       (andb (match c_ciba_mode c with CibaPush => false | _ => true end)
                       (andb (bind_is_none (t_bind r))
                       (andb (match validate_binding cfg c (t_bind r) no_opts with None => true | Some _ => false end)
                       (andb (is_empty (t_scope r)) (andb (no_res (t_resources r))
                             (match t_auth_details r with None => true | Some _ => false end))))))))))))
                    then 8 else 0
                | None => 0 end
            | None => 0 end
        | _, _ => 0
        end in
      match bad with
      | 0 =>
          c16life_from cs cfg
            (match o, x with OpBcAuthorize r, Out (OCiba a _) => (a, (cr_id (br_cred r), now)) :: born | _, _ => born end)
            (match o, x with
             | OpToken GCiba r, Out (OErr EAuthPending) | OpToken GCiba r, Out (OErr ESlowDown) => touched
             | OpToken GCiba r, _ => t_auth_req r :: touched
             | OpNotifyOk a _, _ | OpNotifyFail a, _ =>
                 (* a notification changes the stored request only for a push client *)
                 match lookup a born with
                 | Some (cl, _) => match client_of cs cl with
                                   | Some c => match c_ciba_mode c with CibaPush => a :: touched | _ => touched end
                                   | None => a :: touched end
                 | None => touched end
             | _, _ => touched end)
            (S k) now' ops' xs'
      | c => viol c k
      end
  | _, _ => 0
  end.
Definition mon_C16 (c : syscase) : N :=
  match with_cfg (fun cfg ops xs => once_from cons_ciba cons_ciba cfg [] 0 ops xs) c with
  | 0 => match c16_from c [] [] 0 (sc_ops c) (sc_obs c) with
         | 0 => with_cfg (fun cfg ops xs => c16life_from c cfg [] [] 0 0%Z ops xs) c
         | k => k end
  | k => 1000 + k
  end.

(* C17, clause 3: the redirect URI and state of every navigation are those of the request's own session
   (the parameters of the request itself, or of the pushed request it redeems) *)
Definition own_nav (eff : params) (u : string) (nv : nav) : bool := andb (seqb u (p_redirect eff)) (seqb (n_state nv) (p_state eff)).
Fixpoint c17iso_from (cfg : config) (cbp parp : list (id * params)) (k : nat) (ops : list op) (xs : list obs) : N :=
  match ops, xs with
  | o :: ops', x :: xs' =>
      let eff_of (r : areq) : option params :=
        if andb (cf_par_enabled cfg) (negb (is_nil (p_request_uri (ar_params r)))) then
          match lookup (p_request_uri (ar_params r)) parp with
          | Some pp => Some (if is_fapi (cf_profile cfg) then pp else merge_params pp (ar_params r))
          | None => None end
        else Some (ar_params r) in
      match o, x with
      | OpAuthorize r, Out (ONav _ u nv) =>
          match eff_of r with
          | Some eff => if own_nav eff u nv then c17iso_from cfg cbp parp (S k) ops' xs' else viol 3 k
          | None => c17iso_from cfg cbp parp (S k) ops' xs' end
      | OpAuthorize r, Out (OPage cb) =>
          c17iso_from cfg (match eff_of r with Some eff => (cb, eff) :: cbp | None => cbp end) parp (S k) ops' xs'
      | OpCallback r, Out (ONav _ u nv) =>
          match lookup (cb_id r) cbp with
          | Some eff => if own_nav eff u nv then c17iso_from cfg cbp parp (S k) ops' xs' else viol 3 k
          | None => c17iso_from cfg cbp parp (S k) ops' xs' end
      | OpPar r, Out (OPar u) => c17iso_from cfg cbp ((u, pr_params r) :: parp) (S k) ops' xs'
      | _, _ => c17iso_from cfg cbp parp (S k) ops' xs'
      end
  | _, _ => 0
  end.

(* C17: a finished callback id / a redeemed request_uri is never accepted again *)
Definition mon_C17a (c : syscase) : N :=
  match with_cfg (fun cfg ops xs => once_from cons_cb acc_cb cfg [] 0 ops xs) c with
  | 0 => match with_cfg (fun cfg ops xs => once_from cons_par cons_par cfg [] 0 ops xs) c with 0 => 0 | k => 2000 + k end
  | k => 1000 + k
  end.

(* ================================================================================== *)
(* C05: an observer's view of which access tokens are live *)
Record c05st := mkC05 {
  m_gmap : list (id * N);                 (* token / refresh-token handle -> grant key *)
  m_cur : list (N * (id * Z));            (* grant key -> (current access token, its expiry) *)
  m_deadk : list N;                       (* grants revoked by their owner while live *)
  m_deadt : list id                       (* access tokens superseded by a refresh *)
}.
Fixpoint lookupN {A} (k : N) (l : list (N * A)) : option A :=
  match l with [] => None | (k', v) :: r => if N.eqb k k' then Some v else lookupN k r end.
Definition c05_new (cfg : config) (st : c05st) (key : N) (now : Z) (at_ rt : id) : c05st :=
  if is_nil at_ then st else
  mkC05 ((at_, key) :: (if is_nil rt then m_gmap st else (rt, key) :: m_gmap st))
        ((key, (at_, (now + cf_token_lifetime cfg)%Z)) :: m_cur st) (m_deadk st) (m_deadt st).
Definition c05_dead (st : c05st) (now : Z) (h : id) : bool :=
  match lookup h (m_gmap st) with
  | Some key =>
      orb (memN key (m_deadk st)) (orb (memN h (m_deadt st))
        (match lookupN key (m_cur st) with Some (_, e) => Z.leb (e + 3) now | None => false end))
  | None => false
  end.
Definition c05_revoked (st : c05st) (h : id) : bool :=
  match lookup h (m_gmap st) with Some key => memN key (m_deadk st) | None => false end.
Definition ptok_is_exact (p : ptok) : bool := match p with PExact _ => true | _ => false end.
Definition c05_intro (st : c05st) (now : Z) (p : ptok) (i : intro) : N :=
  if negb (in_active i) then 0
  else if negb (ptok_is_exact p) then 1
  else if in_refresh i then (if c05_revoked st (ptok_exact p) then 3 else 0)
  else if c05_dead st now (ptok_exact p) then 2 else 0.

(* codes: authorization code -> grant key of the grant its redemption created.  A later presentation of a
   redeemed code by an authenticated client is answered invalid_grant and invalidates that grant (and the
   tokens obtained from it, however often the grant was refreshed since). *)
Fixpoint c05_from (cfg : config) (st : c05st) (codes : list (id * N)) (k : nat) (now : Z) (ops : list op) (xs : list obs) : N :=
  match ops, xs with
  | o :: ops', x :: xs' =>
      let key := N.of_nat (S k) in
      let bad : N :=
        match o, x with
        | OpIntrospect r, Out (OIntro i) => c05_intro st now (q_tok r) i
        | OpTokenInfoReq r, Out (OIntro i) => c05_intro st now (u_tok r) i
        | OpTokenInfo p, Out (OIntro i) => c05_intro st now p i
        | OpUserInfo r, Out (OUserInfo _) =>
            if negb (ptok_is_exact (u_tok r)) then 1
            else if c05_dead st now (ptok_exact (u_tok r)) then 2 else 0
        | OpToken GRefreshToken r, Out (OTokens _) => if c05_revoked st (t_refresh r) then 3 else 0
        | _, _ => 0
        end in
      match bad with
      | 0 =>
        let st' :=
          match o, x with
          | OpToken GRefreshToken r, Out (OTokens t) =>
              match lookup (t_refresh r) (m_gmap st) with
              | Some gk =>
                  mkC05 ((tr_at t, gk) :: (if is_nil (tr_rt t) then m_gmap st else (tr_rt t, gk) :: m_gmap st))
                        ((gk, (tr_at t, (now + cf_token_lifetime cfg)%Z)) :: m_cur st) (m_deadk st)
                        (match lookupN gk (m_cur st) with Some (old, _) => old :: m_deadt st | None => m_deadt st end)
              | None => c05_new cfg st key now (tr_at t) (tr_rt t)
              end
          | OpToken GAuthorizationCode r, Out (OErr EInvalidGrant) =>
              match lookup (t_code r) codes with
              | Some gk => mkC05 (m_gmap st) (m_cur st) (gk :: m_deadk st) (m_deadt st)
              | None => st end
          | OpToken _ r, Out (OTokens t) => c05_new cfg st key now (tr_at t) (tr_rt t)
          | OpAuthorize _, Out (ONav _ _ nv) | OpCallback _, Out (ONav _ _ nv) => c05_new cfg st key now (n_at nv) 0
          | OpNotifyOk _ _, Notified true (nf :: _) => c05_new cfg st key now (nf_at nf) (nf_rt nf)
          | OpRevoke r, Out OOk =>
              match q_tok r with
              | PExact h =>
                  match lookup h (m_gmap st) with
                  | Some gk =>
                      (* only a token that was live when revoked: the current, unexpired access token *)
                      match lookupN gk (m_cur st) with
                      | Some (cur, e) => if andb (ideq cur h) (Z.ltb (now + 3) e)
                                         then mkC05 (m_gmap st) (m_cur st) (gk :: m_deadk st) (m_deadt st) else st
                      | None => st end
                  | None => st end
              | _ => st end
          | _, _ => st
          end in
        let codes' := match o, x with
                      | OpToken GAuthorizationCode r, Out (OTokens t) => if is_nil (tr_at t) then codes else (t_code r, key) :: codes
                      | _, _ => codes end in
        c05_from cfg st' codes' (S k) (match o with OpTick d => (now + d)%Z | _ => now end) ops' xs'
      | c => viol c k
      end
  | _, _ => 0
  end.
Definition mon_C05 := with_cfg (fun cfg ops xs => c05_from cfg (mkC05 [] [] [] []) [] 0 0%Z ops xs).

(* C10, clauses 4 and 6: the absolute expiry of a grant, as introspection of its refresh token reports
   it, never moves - across refreshes and rotations; no refresh succeeds after the lifetime fixed when
   the grant was created *)
Fixpoint c10exp_from (cfg : config) (lin : list (id * N)) (exps born : list (N * Z)) (k : nat) (now : Z) (ops : list op) (xs : list obs) : N :=
  match ops, xs with
  | o :: ops', x :: xs' =>
      let key := N.of_nat (S k) in
      let now' := match o with OpTick d => (now + d)%Z | _ => now end in
      match o, x with
      | OpToken GRefreshToken r, Out (OTokens t) =>
          match lookup (t_refresh r) lin with
          | Some gk =>
              if match lookupN gk born with Some b => Z.leb (b + cf_refresh_lifetime cfg + 3) now | None => false end
              then viol 6 k
              else c10exp_from cfg (if is_nil (tr_rt t) then lin else (tr_rt t, gk) :: lin) exps born (S k) now' ops' xs'
          | None => c10exp_from cfg (if is_nil (tr_rt t) then lin else (tr_rt t, key) :: lin) exps born (S k) now' ops' xs'
          end
      | OpToken _ r, Out (OTokens t) =>
          c10exp_from cfg (if is_nil (tr_rt t) then lin else (tr_rt t, key) :: lin) exps
            (if is_nil (tr_rt t) then born else (key, now) :: born) (S k) now' ops' xs'
      | OpNotifyOk _ _, Notified true (nf :: _) =>
          c10exp_from cfg (if is_nil (nf_rt nf) then lin else (nf_rt nf, key) :: lin) exps
            (if is_nil (nf_rt nf) then born else (key, now) :: born) (S k) now' ops' xs'
      | OpIntrospect r, Out (OIntro i) =>
          if andb (in_active i) (in_refresh i) then
            match lookup (ptok_exact (q_tok r)) lin with
            | Some gk =>
                match lookupN gk exps with
                | Some e => if andb (Z.leb (e - 4) (now + in_exp i)) (Z.leb (now + in_exp i) (e + 4))
                            then c10exp_from cfg lin exps born (S k) now' ops' xs' else viol 4 k
                | None => c10exp_from cfg lin ((gk, (now + in_exp i)%Z) :: exps) born (S k) now' ops' xs'
                end
            | None => c10exp_from cfg lin exps born (S k) now' ops' xs'
            end
          else c10exp_from cfg lin exps born (S k) now' ops' xs'
      | _, _ => c10exp_from cfg lin exps born (S k) now' ops' xs'
      end
  | _, _ => 0
  end.
(* C10 clause 8: "an expired refresh token is refused and its grant is removed": once the owning client's
   refresh was refused past the absolute expiry, no access token issued under that grant is reported live
   (its own lifetime may well reach beyond the grant's). *)
Fixpoint c10gone_from (cfg : config) (ats lin : list (id * N)) (born : list (N * (id * Z))) (gone : list N)
                      (k : nat) (now : Z) (ops : list op) (xs : list obs) : N :=
  match ops, xs with
  | o :: ops', x :: xs' =>
      let key := N.of_nat (S k) in
      let now' := match o with OpTick d => (now + d)%Z | _ => now end in
      let live_at (p : ptok) : bool :=
        match p with PExact h => match lookup h ats with Some gk => memN gk gone | None => false end | _ => false end in
      let bad : bool :=
        match o, x with
        | OpIntrospect r, Out (OIntro i) => andb (in_active i) (andb (negb (in_refresh i)) (live_at (q_tok r)))
        | OpTokenInfo p, Out (OIntro i) => andb (in_active i) (andb (negb (in_refresh i)) (live_at p))
        | OpTokenInfoReq r, Out (OIntro i) => andb (in_active i) (andb (negb (in_refresh i)) (live_at (u_tok r)))
        | OpUserInfo r, Out (OUserInfo _) => live_at (u_tok r)
        | _, _ => false
        end in
      if bad then viol 8 k else
      match o, x with
      | OpToken GRefreshToken r, Out (OTokens t) =>
          match lookup (t_refresh r) lin with
          | Some gk => c10gone_from cfg ((tr_at t, gk) :: ats) (if is_nil (tr_rt t) then lin else (tr_rt t, gk) :: lin) born gone (S k) now' ops' xs'
          | None => c10gone_from cfg ats lin born gone (S k) now' ops' xs'
          end
      | OpToken GRefreshToken r, Out (OErr EUnauthorizedClient) =>
          match lookup (t_refresh r) lin with
          | Some gk =>
              match lookupN gk born with
              | Some (owner, b) =>
                  if andb (ideq owner (cr_id (t_cred r))) (andb (cr_ok (t_cred r)) (Z.leb (b + cf_refresh_lifetime cfg + 3) now))
                  then c10gone_from cfg ats lin born (gk :: gone) (S k) now' ops' xs'
                  else c10gone_from cfg ats lin born gone (S k) now' ops' xs'
              | None => c10gone_from cfg ats lin born gone (S k) now' ops' xs'
              end
          | None => c10gone_from cfg ats lin born gone (S k) now' ops' xs'
          end
      | OpToken _ r, Out (OTokens t) =>
          if is_nil (tr_rt t) then c10gone_from cfg ats lin born gone (S k) now' ops' xs'
          else c10gone_from cfg ((tr_at t, key) :: ats) ((tr_rt t, key) :: lin) ((key, (cr_id (t_cred r), now)) :: born) gone (S k) now' ops' xs'
      | _, _ => c10gone_from cfg ats lin born gone (S k) now' ops' xs'
      end
  | _, _ => 0
  end.
Definition mon_C10x (c : syscase) : N :=
  match mon_C10 c with
  | 0 => match with_cfg (fun cfg ops xs => c10exp_from cfg [] [] [] 0 0%Z ops xs) c with
         | 0 => with_cfg (fun cfg ops xs => c10gone_from cfg [] [] [] [] 0 0%Z ops xs) c
         | k => k end
  | k => k end.

(* C17 clause 4: a callback is served (next page, or a navigation back to the client) only before the
   session timeout, counted from the /authorize request that started the interaction - intermediate
   steps do not move the deadline.  3 s of slack for the real clock's granularity. *)
Fixpoint c17dl_from (cfg : config) (cbt : list (id * Z)) (k : nat) (now : Z) (ops : list op) (xs : list obs) : N :=
  match ops, xs with
  | o :: ops', x :: xs' =>
      let late (cb : id) : bool :=
        match lookup cb cbt with Some t0 => Z.leb (t0 + cf_session_timeout cfg + 3) now | None => false end in
      match o, x with
      | OpTick d, _ => c17dl_from cfg cbt (S k) (now + d)%Z ops' xs'
      | OpAuthorize r, Out (OPage cb) => c17dl_from cfg ((cb, now) :: cbt) (S k) now ops' xs'
      (* clause 5: an interaction is resumed only through an identifier that was handed to a policy *)
      | OpCallback r, Out (OPage _) =>
          match lookup (cb_id r) cbt with
          | None => viol 5 k
          | Some _ => if late (cb_id r) then viol 4 k else c17dl_from cfg cbt (S k) now ops' xs' end
      | OpCallback r, Out (ONav _ _ _) =>
          match lookup (cb_id r) cbt with
          | None => viol 5 k
          | Some _ => if late (cb_id r) then viol 4 k else c17dl_from cfg cbt (S k) now ops' xs' end
      | _, _ => c17dl_from cfg cbt (S k) now ops' xs'
      end
  | _, _ => 0
  end.

Definition mon_C17 (c : syscase) : N :=
  match mon_C17a c with
  | 0 => match with_cfg (fun cfg ops xs => c17iso_from cfg [] [] 0 ops xs) c with
         | 0 => with_cfg (fun cfg ops xs => c17dl_from cfg [] 0 0%Z ops xs) c
         | k => k end
  | k => k end.

(* ================================================================================== *)
(* C02: every navigation targets a URI registered for the client, or the URI of the PUSHED request this very
   request redeems (accepted by /par for this client where unregistered URIs are permitted for PAR / under
   FAPI); for a callback: of the request that started the interaction.  A URI that was pushed once is not
   thereby acceptable in a later plain request. *)
Fixpoint c02_from (cs : syscase) (cfg : config) (cbs : list (id * (id * string))) (pushed : list (id * (id * string)))
                  (k : nat) (ops : list op) (xs : list obs) : N :=
  match ops, xs with
  | o :: ops', x :: xs' =>
      let ok_target (cl : id) (extra u : string) : bool :=
        match client_of cs cl with
        | Some c => orb (redirect_allowed c u)
                      (andb (orb (cf_par_unregistered cfg) (is_fapi (cf_profile cfg)))
                            (andb (negb (is_empty extra)) (seqb extra u)))
        | None => false
        end in
      let extra_of (r : areq) : string :=
        match lookup (p_request_uri (ar_params r)) pushed with
        | Some (cl, u) => if ideq cl (ar_client r) then u else ""
        | None => "" end in
      let bad : bool :=
        match o, x with
        | OpAuthorize r, Out (ONav _ u _) => negb (ok_target (ar_client r) (extra_of r) u)
        | OpCallback r, Out (ONav _ u _) =>
            match lookup (cb_id r) cbs with Some (cl, extra) => negb (ok_target cl extra u) | None => true end
        | _, _ => false
        end in
      if bad then viol 1 k else
      c02_from cs cfg
        (match o, x with OpAuthorize r, Out (OPage cb) => (cb, (ar_client r, extra_of r)) :: cbs | _, _ => cbs end)
        (match o, x with OpPar r, Out (OPar u) => (u, (cr_id (pr_cred r), p_redirect (pr_params r))) :: pushed | _, _ => pushed end)
        (S k) ops' xs'
  | _, _ => 0
  end.
Definition mon_C02 (c : syscase) : N :=
  match build (sc_profile c) (sc_opts c) with
  | Some cfg => c02_from c cfg [] [] 0 (sc_ops c) (sc_obs c)
  | None => 0
  end.

(* ================================================================================== *)
(* What an authorization code stands for: the parameters of the request that obtained it - the
   request's own; for a request that redeems a request_uri the pushed ones (completed by the outer
   ones outside FAPI); for a code delivered by a callback those of the request that started the
   interaction - and the client it was issued to. *)
Record flowst := mkFlow {
  f_parp : list (id * (id * params));    (* request_uri -> (pushing client, pushed parameters) *)
  f_cbp : list (id * (id * params));     (* callback id -> (client, effective parameters) *)
  f_codes : list (id * (id * params))    (* code -> (client, effective parameters) *)
}.
Definition flow0 : flowst := mkFlow [] [] [].
Definition eff_params (cfg : config) (f : flowst) (r : areq) : option params :=
  if andb (cf_par_enabled cfg) (negb (is_nil (p_request_uri (ar_params r)))) then
    match lookup (p_request_uri (ar_params r)) (f_parp f) with
    | Some (_, pp) => Some (if is_fapi (cf_profile cfg) then pp else merge_params pp (ar_params r))
    | None => None end
  else Some (ar_params r).
Definition flow_learn (cfg : config) (f : flowst) (o : op) (x : obs) : flowst :=
  match o, x with
  | OpPar r, Out (OPar u) => mkFlow ((u, (cr_id (pr_cred r), pr_params r)) :: f_parp f) (f_cbp f) (f_codes f)
  | OpAuthorize r, Out (OPage cb) =>
      match eff_params cfg f r with
      | Some e => mkFlow (f_parp f) ((cb, (ar_client r, e)) :: f_cbp f) (f_codes f)
      | None => f end
  | OpAuthorize r, Out (ONav _ _ nv) =>
      if is_nil (n_code nv) then f else
      match eff_params cfg f r with
      | Some e => mkFlow (f_parp f) (f_cbp f) ((n_code nv, (ar_client r, e)) :: f_codes f)
      | None => f end
  | OpCallback r, Out (ONav _ _ nv) =>
      if is_nil (n_code nv) then f else
      match lookup (cb_id r) (f_cbp f) with
      | Some ce => mkFlow (f_parp f) (f_cbp f) ((n_code nv, ce) :: f_codes f)
      | None => f end
  | _, _ => f
  end.
Section FlowDriver.
  Variable clause : config -> flowst -> op -> obs -> N.   (* sees the flow state BEFORE the operation *)
  Fixpoint drive_flow (cfg : config) (f : flowst) (k : nat) (ops : list op) (xs : list obs) : N :=
    match ops, xs with
    | o :: ops', x :: xs' =>
        match clause cfg f o x with
        | 0 => drive_flow cfg (flow_learn cfg f o x) (S k) ops' xs'
        | c => viol c k
        end
    | _, _ => 0
    end.
End FlowDriver.
Definition run_flow_monitor clause (c : syscase) : N :=
  with_cfg (fun cfg ops xs => drive_flow clause cfg flow0 0 ops xs) c.

(* PKCE.  The method a recorded challenge is verified under: the one the authorization request
   named, else the server's default (Go: PKCEDefaultChallengeMethod). *)
Definition pkce_effective_method (cfg : config) (p : params) : string :=
  if is_empty (p_method p) then cf_pkce_default cfg else p_method p.
(* the verifier presented with the code matches the recorded challenge under the effective method *)
Definition pkce_matches (cfg : config) (p : params) (v : pk) : bool :=
  andb (negb (pk_is_empty v)) (andb (pk_len_ok v) (is_pkce_valid v (p_challenge p) (pkce_effective_method cfg p))).

(* C03, clauses 3 and 5: a code yields tokens only with the redirect_uri of its authorization request
   and, when PKCE is enabled and a challenge was recorded, with the matching verifier (whether the
   request named the method or left it to the server's default) *)
Definition clause_C03b (cfg : config) (f : flowst) (o : op) (x : obs) : N :=
  match o, x with
  | OpToken GAuthorizationCode r, Out (OTokens _) =>
      match lookup (t_code r) (f_codes f) with
      | Some (_, p) =>
          if negb (seqb (p_redirect p) (t_redirect r)) then 3 else
          if andb (cf_pkce_enabled cfg) (andb (negb (pk_is_empty (p_challenge p))) (negb (pkce_matches cfg p (t_verifier r))))
          then 5 else 0
      (* tokens for a code this server never handed out: the empty string, an unknown one *)
      | None => 6 end
  | _, _ => 0
  end.
Definition mon_C03x (c : syscase) : N :=
  match mon_C03 c with 0 => run_flow_monitor clause_C03b c | k => k end.

(* C04, clause 2: a grant type or response type is served only to a client registered for it - a code
   only to a client registered for authorization_code, an access token or ID token from the
   authorization endpoint only to one registered for implicit, any artifact only for a response type
   the client registered; tokens from the token endpoint only for a grant type of the client *)
Definition nav_grants_ok (c : client) (nv : nav) : bool :=
  andb (orb (is_nil (n_code nv)) (has_grant GAuthorizationCode (c_grants c)))
       (orb (andb (is_nil (n_at nv)) (negb (n_idt nv))) (has_grant GImplicit (c_grants c))).
Definition nav_artifact (nv : nav) : bool := orb (negb (is_nil (n_code nv))) (orb (negb (is_nil (n_at nv))) (n_idt nv)).
Definition clause_C04b (cs : syscase) (cfg : config) (f : flowst) (o : op) (x : obs) : N :=
  match o, x with
  | OpAuthorize r, Out (ONav _ _ nv) =>
      if negb (nav_artifact nv) then 0 else
      match client_of cs (ar_client r) with
      | Some c =>
          if negb (nav_grants_ok c nv) then 2 else
          match eff_params cfg f r with
          | Some p => if mem (p_resp_type p) (c_resp_types c) then 0 else 2
          | None => 0 end
      | None => 2 end
  | OpCallback r, Out (ONav _ _ nv) =>
      if negb (nav_artifact nv) then 0 else
      match lookup (cb_id r) (f_cbp f) with
      | Some (cl, p) =>
          match client_of cs cl with
          | Some c => if andb (nav_grants_ok c nv) (mem (p_resp_type p) (c_resp_types c)) then 0 else 2
          | None => 2 end
      | None => 0 end
  | OpToken g r, Out (OTokens t) =>
      (* owner-less grants: what is granted is what was requested, which must be within the client's
         registration by the whole-entry rule (clause 1); a refresh token only for a client registered
         for refresh_token (clause 2) *)
      let ownerless_ok (c : client) : N :=
        match g with
        | GClientCredentials | GJwtBearer =>
            if negb (are_scopes_allowed (c_scopes c) (cf_scopes cfg) (t_scope r)) then 1
            else if andb (negb (is_nil (tr_rt t))) (negb (has_grant GRefreshToken (c_grants c))) then 2 else 0
        | _ => 0 end in
      match client_of cs (cr_id (t_cred r)) with
      | Some c => if andb (has_grant g (c_grants c)) (has_grant g (cf_grants cfg)) then ownerless_ok c else 2
      | None =>
          (* nobody named: only jwt-bearer, only where the embedder allows anonymous use; the anonymous
             client is registered for jwt-bearer alone, for the ids of the server's scopes *)
          match g with
          | GJwtBearer =>
              if andb (is_nil (cr_id (t_cred r))) (andb (negb (cf_jwt_bearer_authn_required cfg)) (has_grant g (cf_grants cfg)))
              then ownerless_ok (anonymous_client cfg) else 2
          | _ => 2 end
      end
  | _, _ => 0
  end.
Definition mon_C04x (c : syscase) : N :=
  match mon_C04 c with 0 => run_flow_monitor (clause_C04b c) c | k => k end.

(* ================================================================================== *)
(* RFC 9396 authorization details (C04 clauses 5 and 6, C10 clause 8).  Self-contained: its own
   knowledge of what the embedder granted to each code / auth_req_id / token, learnt from the inputs of
   the case and the observations.  Theorems: Props/C04.v details_types_supported, details_within_grant,
   details_decision; Props/C10.v refresh_never_widens_details. *)
Record dinfo := mkDI { di_granted : list adetail  (* what the embedder granted; owner-less grants: what was requested *) }.
Record dknown := mkDK {
  dk_codes : list (id * dinfo);
  dk_ats : list (id * dinfo);
  dk_rts : list (id * dinfo);
  dk_cibas : list (id * dinfo)
}.
Definition dknown0 : dknown := mkDK [] [] [] [].
Definition d_add_tokens (kn : dknown) (di : dinfo) (at_ rt : id) : dknown :=
  mkDK (dk_codes kn) (if is_nil at_ then dk_ats kn else (at_, di) :: dk_ats kn)
       (if is_nil rt then dk_rts kn else (rt, di) :: dk_rts kn) (dk_cibas kn).
Definition opt_list (d : opt_details) : list adetail := match d with Some l => l | None => [] end.
Definition d_learn_nav (kn : dknown) (pol : pol_reply) (nv : nav) : dknown :=
  match pol with
  | PolSuccess _ _ _ det =>
      mkDK (if is_nil (n_code nv) then dk_codes kn else (n_code nv, mkDI det) :: dk_codes kn)
           (if is_nil (n_at nv) then dk_ats kn else (n_at nv, mkDI det) :: dk_ats kn) (dk_rts kn) (dk_cibas kn)
  | _ => kn
  end.
Definition d_learn (kn : dknown) (o : op) (x : obs) : dknown :=
  match o, x with
  | OpAuthorize r, Out (ONav _ _ nv) => d_learn_nav kn (ar_pol r) nv
  | OpCallback r, Out (ONav _ _ nv) => d_learn_nav kn (cb_pol r) nv
  | OpToken GAuthorizationCode r, Out (OTokens t) =>
      match lookup (t_code r) (dk_codes kn) with Some di => d_add_tokens kn di (tr_at t) (tr_rt t) | None => kn end
  | OpToken GRefreshToken r, Out (OTokens t) =>
      match lookup (t_refresh r) (dk_rts kn) with Some di => d_add_tokens kn di (tr_at t) (tr_rt t) | None => kn end
  | OpToken GClientCredentials r, Out (OTokens t) => d_add_tokens kn (mkDI (opt_list (t_auth_details r))) (tr_at t) 0
  (* jwt-bearer records no authorization detail at all *)
  | OpToken GJwtBearer r, Out (OTokens t) => d_add_tokens kn (mkDI []) (tr_at t) (tr_rt t)
  | OpBcAuthorize r, Out (OCiba a _) =>
      mkDK (dk_codes kn) (dk_ats kn) (dk_rts kn) ((a, mkDI (br_granted_details r)) :: dk_cibas kn)
  | OpToken GCiba r, Out (OTokens t) =>
      match lookup (t_auth_req r) (dk_cibas kn) with Some di => d_add_tokens kn di (tr_at t) (tr_rt t) | None => kn end
  | OpNotifyOk a _, Notified true (nf :: _) =>
      match lookup a (dk_cibas kn) with Some di => d_add_tokens kn di (nf_at nf) (nf_rt nf) | None => kn end
  | _, _ => kn
  end.

Section DDriver.
  Variable clause : config -> dknown -> op -> obs -> N.
  Fixpoint d_drive (cfg : config) (kn : dknown) (k : nat) (ops : list op) (xs : list obs) : N :=
    match ops, xs with
    | o :: ops', x :: xs' =>
        match clause cfg kn o x with
        | 0 => d_drive cfg (d_learn kn o x) (S k) ops' xs'
        | c => viol c k
        end
    | _, _ => 0
    end.
End DDriver.
Definition run_details_monitor clause (c : syscase) : N :=
  match build (sc_profile c) (sc_opts c) with
  | Some cfg => d_drive clause cfg dknown0 0%nat (sc_ops c) (sc_obs c)
  | None => 0
  end.

(* every reported detail has a type the server supports (none at all when the feature is off) *)
Definition d_supported (cfg : config) (l : list adetail) : bool :=
  if cf_auth_details_enabled cfg then types_supported (cf_auth_detail_types cfg) l
  else match l with [] => true | _ => false end.
(* reported details stay within the grant, as far as the compare function the embedder installed
   promises: by equality (CmpSubset; CmpNone lets no request through), by type (CmpTypes), nothing
   (CmpAcceptAll: the embedder accepts whatever is asked) *)
Definition d_within (cfg : config) (di : dinfo) (l : list adetail) : bool :=
  match cf_details_cmp cfg with
  | CmpSubset | CmpNone => ad_subset l (di_granted di)
  | CmpTypes => subset (ad_types l) (ad_types (di_granted di))
  | CmpAcceptAll => true
  end.
Definition d_reported (t : tresp) : list adetail := (tr_details t ++ tr_jwt_details t)%list.
(* sup: clause number for an unsupported type, out: clause number for a detail outside the grant *)
Definition d_check (sup out : N) (cfg : config) (odi : option dinfo) (strict : bool) (l : list adetail) : N :=
  if negb (d_supported cfg l) then sup else
  match odi with
  | Some di => if (if strict then ad_subset l (di_granted di) else d_within cfg di l) then 0 else out
  | None => 0
  end.
Definition d_clause (sup out : N) (refresh_only : bool) (cfg : config) (kn : dknown) (o : op) (x : obs) : N :=
  match o, x with
  | OpToken GRefreshToken r, Out (OTokens t) => d_check sup out cfg (lookup (t_refresh r) (dk_rts kn)) false (d_reported t)
  | OpToken GAuthorizationCode r, Out (OTokens t) =>
      if refresh_only then 0 else d_check sup out cfg (lookup (t_code r) (dk_codes kn)) false (d_reported t)
  | OpToken GCiba r, Out (OTokens t) =>
      if refresh_only then 0 else d_check sup out cfg (lookup (t_auth_req r) (dk_cibas kn)) false (d_reported t)
  (* owner-less: exactly within what was requested, whatever the compare function *)
  | OpToken GClientCredentials r, Out (OTokens t) =>
      if refresh_only then 0 else d_check sup out cfg (Some (mkDI (opt_list (t_auth_details r)))) true (d_reported t)
  | OpToken GJwtBearer r, Out (OTokens t) =>
      if refresh_only then 0 else d_check sup out cfg (Some (mkDI [])) true (d_reported t)
  | OpNotifyOk a _, Notified _ ns =>
      if refresh_only then 0 else
      fold_left (fun acc nf => match acc with 0 => d_check sup out cfg (lookup a (dk_cibas kn)) false (nf_details nf) | v => v end) ns 0
  | OpIntrospect r, Out (OIntro i) =>
      if negb (in_active i) then 0 else
      d_check sup out cfg (lookup (ptok_exact (q_tok r)) (if in_refresh i then dk_rts kn else dk_ats kn)) false (in_details i)
  | OpTokenInfo p, Out (OIntro i) =>
      if negb (in_active i) then 0 else
      d_check sup out cfg (lookup (ptok_exact p) (if in_refresh i then dk_rts kn else dk_ats kn)) false (in_details i)
  | _, _ => 0
  end.
(* C04 clause 5: a reported authorization detail of a type the server does not support; clause 6: outside the grant *)
Definition mon_C04d : syscase -> N := run_details_monitor (d_clause 5 6 false).
(* C10 clause 10: a refresh (or what introspection reports afterwards) widened the authorization details *)
(* C10 clause 11: "later refreshes may return to the full grant" - a refresh that names no authorization
   details answers with all the granted ones *)
Definition d_clause_C10 (cfg : config) (kn : dknown) (o : op) (x : obs) : N :=
  match d_clause 10 10 true cfg kn o x with
  | 0 =>
      match o, x with
      | OpToken GRefreshToken r, Out (OTokens t) =>
          match t_auth_details r, lookup (t_refresh r) (dk_rts kn) with
          | None, Some di =>
              if andb (cf_auth_details_enabled cfg) (negb (ad_list_eqb (tr_details t) (di_granted di))) then 11 else 0
          | _, _ => 0
          end
      | _, _ => 0
      end
  | v => v
  end.
Definition mon_C10d : syscase -> N := run_details_monitor d_clause_C10.
Definition mon_C04xd (c : syscase) : N := match mon_C04x c with 0 => mon_C04d c | k => k end.
Definition mon_C10xd (c : syscase) : N := match mon_C10x c with 0 => mon_C10d c | k => k end.
