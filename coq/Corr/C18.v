(* Corr/C18.v — what the case files of suite c18 call.  One generated history is executed on the real
   provider four times ({JSON-copying store, the repository's pointer-keeping store} x {one provider
   instance, a fresh provider.New per request}); each execution's projected trace is compared with the
   model's trace under the interpreter that stands for its storage flavour: `run` (run_seq) for the
   copying store, `run_alias_trace` (run_alias) for the aliasing store.  (Props/C18.alias_copy_equiv
   proves the two model traces equal; evaluating both keeps the correspondence honest about which
   semantics the code was run under.) *)
From Verif Require Import Base Scope Types Prog Pop Token Authorize System Config Run.
Local Open Scope N_scope.

Definition check_case_alias (strict : bool) (c : syscase) : N :=
  match case_world c with
  | None => 2 ^ 30
  | Some w => first_diff strict 1 (nows 0%Z (sc_ops c)) (run_alias_trace w (sc_dyn c) (sc_ops c)) (sc_obs c)
  end.

Record c18case := mkC18 { k_alias : bool; k_fresh : bool; k_case : syscase }.

(* 0 = agreement, k = first disagreeing operation (1-based) *)
Definition check_c18 (k : c18case) : N :=
  if k_alias k then check_case_alias true (k_case k) else check_case true (k_case k).

