(* Corr/C08NonceCorr.v — what the case files of suite c08nonce call.

   The harness runs, against the real provider, one authorization flow per cell of the matrix
   profile x request form (plain, PAR, JAR by value, PAR carrying a request object) x nonce placement
   (inside only, outside only, both equal, both different, neither) x response type, and describes it
   as: the provider configuration and client (as the system model builds them: Config.build), the
   form, the INNER parameters (pushed / inside the signed object) and the OUTER ones (the query of
   /authorize), where the flow stopped (0 served, 1 refused at /par, 2 refused at /authorize) and,
   for every ID token delivered (after verifying its signature under the published keys and decoding
   it), where it was delivered and its nonce claim.

   check_c08n (corr): the model's verdict (Model/C08NonceReq.v: the system model's validators) and the
   nonce claims of the ID tokens the artifact model builds for the flow (Model/C08Nonce.v:
   flow_authz_response, flow_token_response over effective_params) against the observation.
   mon_c08n (mon): judges the observation ALONE - every ID token's nonce claim is the nonce of the
   merged request (merged_nonce_rule: inner wins, outer completes; FAPI: inner only), present iff
   that nonce is non-empty.  Clause 1 of conf/C08.py. *)
From Verif Require Import Base Scope Types Prog Pop Token Authorize Config Artifacts C08Nonce C08NonceReq.
Local Open Scope N_scope.

(* one ID token seen: site 1 = authorization response, 2 = token response of the authorization_code
   grant, 3 = token response of the refresh_token grant *)
Record nobs := mkNObs { no_site : N; no_present : bool; no_nonce : string }.

Record c08ncase := mkNCase {
  nc_cfg : option config;      (* Config.build profile options *)
  nc_client : client;
  nc_form : req_form;
  nc_inner : params;
  nc_outer : params;
  nc_sub : string;             (* the subject the policy sets; it grants the session's scopes *)
  nc_verdict : N;              (* observed: 0 served, 1 refused at /par, 2 refused at /authorize *)
  nc_obs : list nobs           (* observed: the ID tokens delivered, in order *)
}.

Definition nobs_eqb (a b : nobs) : bool :=
  andb (N.eqb (no_site a) (no_site b)) (andb (Bool.eqb (no_present a) (no_present b)) (seqb (no_nonce a) (no_nonce b))).

Fixpoint first_nobs_diff (k : N) (m i : list nobs) : N :=
  match m, i with
  | [], [] => 0
  | x :: m', y :: i' => if nobs_eqb x y then first_nobs_diff (k + 1) m' i' else k
  | _, _ => k
  end.

(* the artifact configuration of the suite's providers: one ES256 key; nothing else matters for
   the nonce claim (Props/C08.v nonce_echoed_merged holds for every acfg) *)
Definition corr_acfg : acfg :=
  mkACfg "https://as.example" [mkJwk "srv-es256" (ASig ES256) UseSig (KtyEC 256) 2 true]
         ES256 false 600%Z false ES256 false false false ES256 600%Z false false false true.
Definition corr_tokopts : tokopts := mkTokOpts false ES256 300%Z.

Definition flow_of (cfg : config) (k : c08ncase) : flow :=
  let p := effective_params (cf_profile cfg) (nc_form k) (nc_inner k) (nc_outer k) in
  mkFlow (cf_profile cfg) (nc_form k) (nc_inner k) (nc_outer k) (nc_sub k) (p_scopes p)
         (if rt_contains (p_resp_type p) "code" then mint 0 KCode else 0) 0.

Definition obs_of (site : N) (i : artifact idt_claims) : nobs :=
  match idt_nonce i with Some s => mkNObs site true s | None => mkNObs site false "" end.
Definition model_refuses (site : N) : nobs := mkNObs (900 + site) false "the model builds no response".

(* the ID tokens the model delivers for a served flow *)
Definition model_obs (cfg : config) (k : c08ncase) : list nobs :=
  let f := flow_of cfg k in
  let c := aclient_of (nc_client k) in
  let front :=
    match flow_authz_response corr_acfg 0 0%Z c corr_tokopts f with
    | Some r => match authz_id_token r with Some i => [obs_of 1 i] | None => [] end
    | None => [model_refuses 1]
    end in
  let back (gt : grant_type) (site : N) :=
    if rt_contains (p_resp_type (flow_params f)) "code" then
      match flow_token_response corr_acfg 0 0%Z c corr_tokopts f gt with
      | Some r => match trs_id_token r with Some i => [obs_of site i] | None => [] end
      | None => [model_refuses site]
      end
    else [] in
  front ++ back GAuthorizationCode 2 ++ back GRefreshToken 3.

(* corr: 0 = agreement; 100 + v = the model's verdict is v, the provider's another; 200 = ID tokens
   seen in a refused flow; k = the k-th ID token (1-based) differs or is missing / extra *)
Definition check_c08n (k : c08ncase) : N :=
  match nc_cfg k with
  | None => 999
  | Some cfg =>
    let v := flow_verdict cfg (nc_client k) (nc_form k) (nc_inner k) (nc_outer k) in
    if negb (N.eqb v (nc_verdict k)) then 100 + v else
    if negb (N.eqb v 0) then (match nc_obs k with [] => 0 | _ => 200 end) else
    first_nobs_diff 1 (model_obs cfg k) (nc_obs k)
  end.

(* mon: the observation alone against the merged-request rule *)
Definition nonce_ok (expected : string) (o : nobs) : bool :=
  if is_empty expected then negb (no_present o)
  else andb (no_present o) (seqb (no_nonce o) expected).

Fixpoint first_bad_nonce (k : N) (expected : string) (l : list nobs) : N :=
  match l with
  | [] => 0
  | o :: l' => if nonce_ok expected o then first_bad_nonce (k + 1) expected l' else 1000 + k
  end.

Definition mon_c08n (k : c08ncase) : N :=
  match nc_cfg k with
  | None => 0
  | Some cfg =>
    first_bad_nonce 1 (merged_nonce_rule (cf_profile cfg) (nc_form k) (p_nonce (nc_inner k)) (p_nonce (nc_outer k)))
                    (nc_obs k)
  end.
