(* Corr/C09.v — the executable clause of pairwise_never_jwt evaluated on the implementation's trace.
   Clause 1: an access token handed to a client registered with the pairwise subject type is a JWT,
   and the grant is not client_credentials.  The client a response belongs to is read off the
   operation (token requests, authorization requests) or, for callbacks, off the callback ids the
   trace has shown (Monitors.learn).  CIBA push notifications are covered by the theorem on the
   model only. *)
From Verif Require Import Base Scope Types Prog Pop Token Authorize System Config Run Monitors.
Local Open Scope N_scope.

Definition obs_ats (x : obs) : list id :=
  match x with
  | Out (OTokens r) => [tr_at r]
  | Out (ONav _ _ nv) => [n_at nv]
  | Notified _ ns => map nf_at ns
  | _ => []
  end.
Definition carries_jwt (x : obs) : bool := existsb (is_kind KAtJwt) (obs_ats x).
Definition is_cc (o : op) : bool := match o with OpToken GClientCredentials _ => true | _ => false end.

Definition trace_client (kn : known) (o : op) : option id :=
  match o with
  | OpToken _ r => Some (cr_id (t_cred r))
  | OpAuthorize r => Some (ar_client r)
  | OpCallback r => lookup (cb_id r) (k_cbs kn)
  | _ => None
  end.

Definition clause_C09 (cls : list client) (cfg : config) (kn : known) (now : Z) (o : op) (x : obs) : N :=
  if andb (carries_jwt x) (negb (is_cc o)) then
    match trace_client kn o with
    | Some i => match find_client i cls with Some c => if c_pairwise c then 1 else 0 | None => 0 end
    | None => 0
    end
  else 0.

Definition mon_C09 (c : syscase) : N :=
  match build (sc_profile c) (sc_opts c) with
  | Some cfg => drive (clause_C09 (sc_static c ++ sc_dyn c)) cfg known0 0%nat 0%Z (sc_ops c) (sc_obs c)
  | None => 0
  end.
