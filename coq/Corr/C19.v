(* Corr/C19.v — what the c19 case files call.
   A case = option list + clients + (a) the discovery document the real provider served, member by
   member, (b) for a list of (method, path) probes whether the real ServeMux served them, (c) capability
   probes run through the handlers.  `check_c19` compares (a) with Discovery.document, (b) with
   Discovery.serve, (c) with Required.run_g.  `mon_c19` is the property evaluated on the
   implementation's observations alone: advertised <-> served / accepted. *)
From Verif Require Import Base Scope Types Prog Pop Token Authorize System Config Discovery Required Run.
From Verif.Corr Require Import C11.
Local Open Scope N_scope.

Definition set_eqb (a b : list string) : bool := andb (subset a b) (subset b a).
Definition pair_in (x : string * string) (l : list (string * string)) : bool :=
  existsb (fun y => andb (seqb (fst x) (fst y)) (seqb (snd x) (snd y))) l.
Definition pairs_eqb (a b : list (string * string)) : bool :=
  andb (forallb (fun x => pair_in x b) a) (forallb (fun x => pair_in x a) b).
Definition dval_eqb (a b : dval) : bool :=
  match a, b with
  | DStr x, DStr y => seqb x y
  | DBool x, DBool y => Bool.eqb x y
  | DSet x, DSet y => set_eqb x y
  | DObj x, DObj y => pairs_eqb x y
  | _, _ => false
  end.
Fixpoint doc_get (name : string) (d : list (string * dval)) : option dval :=
  match d with [] => None | (k, v) :: r => if seqb name k then Some v else doc_get name r end.
Definition odval_eqb (a b : option dval) : bool :=
  match a, b with Some x, Some y => dval_eqb x y | None, None => true | _, _ => false end.

Definition iss : string := "https://as.example".
Definition mtls_host : string := "https://mtls.as.example".

(* route probes: kind 0 = the endpoint itself, 1 = the discovery document, 2 = a sub-resource *)
Record rprobe := mkRProbe { rp_meth : meth; rp_path : string; rp_kind : N; rp_served : bool }.

Record c19case := mkC19 { k_sys : syscase; k_doc : list (string * dval); k_routes : list rprobe }.

Fixpoint first_bad {A} (f : A -> bool) (k : N) (l : list A) : N :=
  match l with [] => 0 | x :: r => if f x then first_bad f (k + 1) r else k end.

(* 0 agreement; 10000+i: member i of all_members differs; 19999: the real document has a member the
   model does not know; 20000+i: route probe i; otherwise the index of the first capability probe that differs *)
Definition check_c19 (c : c19case) : N :=
  match build (sc_profile (k_sys c)) (sc_opts (k_sys c)) with
  | None => 2 ^ 30
  | Some cfg =>
    match first_bad (fun m => odval_eqb (member_value iss mtls_host cfg m) (doc_get (member_name m) (k_doc c))) 1 all_members with
    | 0 =>
      if negb (forallb (fun kv => existsb (fun m => seqb (member_name m) (fst kv)) all_members) (k_doc c)) then 19999 else
      match first_bad (fun rp => Bool.eqb (match serve cfg (rp_meth rp) (rp_path rp) with Some _ => true | None => false end)
                                          (rp_served rp)) 1 (k_routes c) with
      | 0 => check_case_g true (k_sys c)
      | k => 20000 + k
      end
    | k => 10000 + k
    end
  end.

(* ---- the monitor: only the observations (document, probe results, answers) ---- *)
Definition obs_set (d : list (string * dval)) (name : string) : list string :=
  match doc_get name d with Some (DSet l) => l | _ => [] end.
Definition obs_has (d : list (string * dval)) (name : string) : bool :=
  match doc_get name d with Some _ => true | None => false end.
Definition endpoint_urls (d : list (string * dval)) : list string :=
  flat_map (fun m => match member_endpoint m, doc_get (member_name m) d with
                     | Some _, Some (DStr u) => [u] | _, _ => [] end) all_members.

(* clause 1: an advertised endpoint is not served under one of its methods *)
Definition adv_not_served (c : c19case) : N :=
  first_bad (fun m =>
    match member_endpoint m, doc_get (member_name m) (k_doc c) with
    | Some e, Some (DStr u) =>
        forallb (fun mt => existsb (fun rp => andb (meth_eqb (rp_meth rp) mt)
                                     (andb (seqb (iss ++ rp_path rp) u) (rp_served rp))) (k_routes c)) (ep_methods e)
    | _, _ => true end) 1 all_members.
(* clause 2: something is served that the document does not advertise *)
Definition served_not_adv (c : c19case) : N :=
  let urls := endpoint_urls (k_doc c) in
  first_bad (fun rp =>
    if negb (rp_served rp) then true else
    match rp_kind rp with
    | 0 => mem (iss ++ rp_path rp) urls
    | 1 => true
    | _ => existsb (fun u => has_prefix (u ++ "/") (iss ++ rp_path rp)) urls
    end) 1 (k_routes c).

(* clause 3: a capability that is not advertised is accepted; clause 4: an advertised grant type is
   answered unsupported_grant_type / an advertised endpoint answers "not found" *)
Definition clause_cap (d : list (string * dval)) (o : op) (x : obs) : N :=
  match o, x with
  | OpToken g _, Out (OErr EUnsupportedGrantType) =>
      if mem (grant_name g) (obs_set d "grant_types_supported") then
        (match g with GImplicit => 0 | _ => 4 end) else 0
  | OpToken g _, _ => if andb (obs_obtains x) (negb (mem (grant_name g) (obs_set d "grant_types_supported"))) then 3 else 0
  | OpPar _, Out (OErr EOther) => if obs_has d "pushed_authorization_request_endpoint" then 4 else 0
  | OpPar _, _ => if andb (obs_obtains x) (negb (obs_has d "pushed_authorization_request_endpoint")) then 3 else 0
  | OpBcAuthorize _, Out (OErr EOther) => if obs_has d "backchannel_authentication_endpoint" then 4 else 0
  | OpBcAuthorize _, _ => if andb (obs_obtains x) (negb (obs_has d "backchannel_authentication_endpoint")) then 3 else 0
  | OpIntrospect _, Out (OErr EOther) => if obs_has d "introspection_endpoint" then 4 else 0
  | OpIntrospect _, Out (OIntro _) => if obs_has d "introspection_endpoint" then 0 else 3
  | OpRevoke _, Out (OErr EOther) => if obs_has d "revocation_endpoint" then 4 else 0
  | OpRevoke _, Out OOk => if obs_has d "revocation_endpoint" then 0 else 3
  | OpAuthorize r, _ =>
      let p := ar_params r in
      if negb (obs_obtains x) then 0 else
      if negb (is_nil (p_request_uri p)) then 0 else
      if negb (mem (p_resp_type p) (obs_set d "response_types_supported")) then 3 else
      if andb (negb (is_empty (p_resp_mode p))) (negb (mem (p_resp_mode p) (obs_set d "response_modes_supported"))) then 3 else
      if andb (negb (is_empty (p_method p))) (negb (mem (p_method p) (obs_set d "code_challenge_methods_supported"))) then 3 else
      if obs_has d "require_pushed_authorization_requests" then 3 else 0
  | _, _ => 0
  end.
Fixpoint drive_cap (d : list (string * dval)) (k : nat) (ops : list op) (xs : list obs) : N :=
  match ops, xs with
  | o :: ops', x :: xs' =>
      match clause_cap d o x with 0 => drive_cap d (S k) ops' xs' | c => c * 1000 + N.of_nat (S k) end
  | _, _ => 0
  end.

Definition mon_c19 (c : c19case) : N :=
  match adv_not_served c with
  | 0 => match served_not_adv c with
         | 0 => drive_cap (k_doc c) 0%nat (sc_ops (k_sys c)) (sc_obs (k_sys c))
         | k => 2000 + k end
  | k => 1000 + k
  end.
