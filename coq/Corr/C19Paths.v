(* Corr/C19Paths.v — what the c19paths case files call.
   A case = an option list over Routes.popt (feature options, With…Endpoint options, WithPathPrefix)
   + (a) the discovery document the REAL provider built from that list served, (b) for a list of
   (method, path) probes — every overridden path and every default path, under the prefix and
   without it, sub-resources included — whether the real ServeMux dispatched them to a handler, and
   for the pushed-authorization paths that were served whether a VALID pushed request was answered
   201 with a request_uri.
   `check_c19p` runs Routes.build3 / member3 / serve3 on the option list and compares (a) and (b);
   `mon_c19p` is the property evaluated on the observations alone. *)
From Verif Require Import Base Scope Types Config Discovery Routes.
From Verif.Corr Require Import C19.
Local Open Scope N_scope.

Record pprobe := mkPProbe {
  pp_meth : meth;
  pp_path : string;
  pp_kind : N;          (* 0 = an endpoint, 1 = the discovery document, 2 = a sub-resource *)
  pp_served : bool;     (* anything but the mux's own 404 / 405 *)
  pp_pushed : bool;     (* a valid pushed authorization request was then sent there *)
  pp_accepted : bool    (* ... and answered 201 with a request_uri *)
}.

Record c19pcase := mkC19P { kp_opts : list popt; kp_doc : list (string * dval); kp_probes : list pprobe }.

(* the members this suite compares: the issuer, every member that carries an endpoint URL, the aliases *)
Definition path_member (m : member) : bool :=
  match m with
  | MIssuer | MMtlsAliases => true
  | _ => match member_endpoint m with Some _ => true | None => false end
  end.

Definition is_some {A} (o : option A) : bool := match o with Some _ => true | None => false end.
Definition is_par (o : option endpoint) : bool := match o with Some EpPar => true | _ => false end.

(* 0 agreement; 2^30: the model refuses the configuration; 40000: the generated configuration has
   overlapping patterns (the generator must not produce them); 10000+i: member i of all_members
   differs; 20000+i: probe i is served / not served against the model; 30000+i: the pushed request
   at probe i accepted / refused against the model *)
Definition check_c19p (c : c19pcase) : N :=
  match build3 POpenID (kp_opts c) with
  | None => 2 ^ 30
  | Some pc =>
    if negb (routes_ok pc) then 40000 else
    match first_bad (fun m => orb (negb (path_member m))
                                  (odval_eqb (member3 iss mtls_host pc m) (doc_get (member_name m) (kp_doc c)))) 1 all_members with
    | 0 =>
      match first_bad (fun p => Bool.eqb (is_some (serve3 pc (pp_meth p) (pp_path p))) (pp_served p)) 1 (kp_probes c) with
      | 0 =>
        match first_bad (fun p => orb (negb (pp_pushed p))
                                      (Bool.eqb (is_par (serve3 pc (pp_meth p) (pp_path p))) (pp_accepted p))) 1 (kp_probes c) with
        | 0 => 0
        | k => 30000 + k
        end
      | k => 20000 + k
      end
    | k => 10000 + k
    end
  end.

(* ---- the monitor: only the observations (document, probe results) ---- *)
(* clause 1: an advertised endpoint is not served at its URL under one of its methods *)
Definition p_adv_not_served (c : c19pcase) : N :=
  first_bad (fun m =>
    match member_endpoint m, doc_get (member_name m) (kp_doc c) with
    | Some e, Some (DStr u) =>
        forallb (fun mt => existsb (fun p => andb (meth_eqb (pp_meth p) mt)
                                     (andb (seqb (iss ++ pp_path p) u) (pp_served p))) (kp_probes c)) (ep_methods e)
    | _, _ => true end) 1 all_members.

(* clause 2: something is served that the document does not advertise at that URL (an optional
   endpoint that is absent from the metadata, the default path of an endpoint advertised elsewhere,
   a path outside the prefix) *)
Definition p_served_not_adv (c : c19pcase) : N :=
  let urls := endpoint_urls (kp_doc c) in
  first_bad (fun p =>
    if negb (pp_served p) then true else
    match pp_kind p with
    | 0 => mem (iss ++ pp_path p) urls
    | 1 => true
    | _ => existsb (fun u => has_prefix (u ++ "/") (iss ++ pp_path p)) urls
    end) 1 (kp_probes c).

(* clause 3: a pushed request is accepted somewhere else than at the advertised
   pushed_authorization_request_endpoint; clause 4: it is refused at the advertised one *)
Definition p_push (c : c19pcase) : N :=
  let adv := match doc_get "pushed_authorization_request_endpoint" (kp_doc c) with Some (DStr u) => Some u | _ => None end in
  match first_bad (fun p => orb (negb (pp_accepted p))
                                (match adv with Some u => seqb (iss ++ pp_path p) u | None => false end)) 1 (kp_probes c) with
  | 0 => match first_bad (fun p => orb (negb (pp_pushed p))
                            (orb (pp_accepted p) (match adv with Some u => negb (seqb (iss ++ pp_path p) u) | None => true end)))
                         1 (kp_probes c) with
         | 0 => 0
         | k => 4000 + k end
  | k => 3000 + k
  end.

Definition mon_c19p (c : c19pcase) : N :=
  match p_adv_not_served c with
  | 0 => match p_served_not_adv c with
         | 0 => p_push c
         | k => 2000 + k end
  | k => 1000 + k
  end.
