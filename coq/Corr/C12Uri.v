(* Corr/C12Uri.v — what the c12uri case files call.
   A case = an option list over Routes.popt (WithDCR, WithDCRTokenRotation, WithPathPrefix,
   WithDCREndpoint, other enablers and overrides) + the registration_endpoint member of the discovery
   document the REAL provider served + a history of registration-management requests, each sent to a
   URL taken VERBATIM from an earlier response (registration_client_uri) or built by the harness as a
   variant that must not work (without the prefix, at the default path), with what was observed:
   dispatched by the mux or not, 2xx or not, the client_id and registration_client_uri members of
   the answer.
   `check_c12u` runs Routes.build3 / member3 and DcrUri.follow / follow_client / registration_uri on
   the same inputs and compares; `mon_c12u` evaluates the property on the observations alone. *)
From Verif Require Import Base Scope Types Config Discovery Routes Dcr DcrUri.
From Verif.Corr Require Import C19 C19Paths.
Local Open Scope N_scope.

Record ustep := mkUStep {
  us_kind : N;          (* 0 create (POST at the advertised registration endpoint), 1 read, 2 update, 3 delete *)
  us_meth : meth;
  us_url : string;      (* the URL requested, literally *)
  us_given : bool;      (* the URL is, verbatim, the registration_client_uri of an earlier response about the client
                           addressed (create: the registration_endpoint of the document); false: a variant built by the harness *)
  us_cid : string;      (* the client_id (as the server reported it) of the client the request is meant for; "" for create *)
  us_live : bool;       (* harness bookkeeping: that client exists and the token sent is the one last reported for it
                           (create: the metadata document is valid) *)
  us_served : bool;     (* dispatched to a handler: anything but the mux's own 404 / 405 *)
  us_ok : bool;         (* answered 2xx *)
  us_rid : string;      (* client_id member of the answer ("" when there is none) *)
  us_ruri : string      (* registration_client_uri member of the answer *)
}.

Record c12ucase := mkC12U { ku_opts : list popt; ku_regep : string; ku_steps : list ustep }.

Definition has_doc (s : ustep) : bool :=
  andb (us_ok s) (match us_kind s with 0 | 1 | 2 => true | _ => false end).

Definition ostr_eqb (a : option string) (b : string) : bool :=
  match a with Some x => seqb x b | None => false end.

(* the model's answer for one step: (dispatched to its handler, accepted) *)
Definition model_step (pc : pcfg) (s : ustep) : bool * bool :=
  match us_kind s with
  | 0 => let d := match follow iss pc (us_meth s) (us_url s) with Some EpDcr => true | _ => false end in
         (d, andb d (us_live s))
  | _ => match follow_client iss pc (us_meth s) (us_url s) with
         | Some w => (true, andb (us_live s) (seqb w (us_cid s)))
         | None => (match follow iss pc (us_meth s) (us_url s) with
                    | Some EpDcrClient => false     (* more than one segment below the registration endpoint: {client_id} does not match *)
                    | Some _ => true | None => false end, false)
         end
  end.

(* 0 agreement; 2^30: the model refuses the configuration; 40000 / 40001: the generated configuration has
   overlapping patterns / the callback root is a prefix of the registration root (the generator must
   not produce them); 10000: the registration_endpoint member differs; 20000+i: step i is dispatched /
   not dispatched against the model; 30000+i: step i accepted / refused against the model; 50000+i:
   the client_id / registration_client_uri members of answer i differ from the model's *)
Definition check_c12u (c : c12ucase) : N :=
  match build3 POpenID (ku_opts c) with
  | None => 2 ^ 30
  | Some pc =>
    if negb (routes_ok pc) then 40000 else
    if negb (sub_roots_apart pc) then 40001 else
    if negb (odval_eqb (member3 iss mtls_host pc MRegistrationEndpoint)
                       (if is_empty (ku_regep c) then None else Some (DStr (ku_regep c)))) then 10000 else
    match first_bad (fun s => Bool.eqb (fst (model_step pc s)) (us_served s)) 1 (ku_steps c) with
    | 0 =>
      match first_bad (fun s => Bool.eqb (snd (model_step pc s)) (us_ok s)) 1 (ku_steps c) with
      | 0 =>
        match first_bad (fun s => orb (negb (has_doc s))
                 (andb (seqb (us_ruri s) (registration_uri iss pc (us_rid s)))
                       (orb (N.eqb (us_kind s) 0) (seqb (us_rid s) (us_cid s))))) 1 (ku_steps c) with
        | 0 => 0
        | k => 50000 + k
        end
      | k => 30000 + k
      end
    | k => 20000 + k
    end
  end.

(* ---- the monitor: only the observations ---- *)
(* clause 3: the registration_client_uri member of a registration / read / update answer is not the
   advertised registration_endpoint ++ "/" ++ the client_id member of the same answer (or the
   client_id is not the one of the client addressed) *)
Definition u_reported (c : c12ucase) : N :=
  first_bad (fun s => orb (negb (has_doc s))
      (andb (seqb (us_ruri s) (ku_regep c ++ "/" ++ us_rid s))
            (andb (negb (is_empty (us_rid s)))
                  (orb (N.eqb (us_kind s) 0) (seqb (us_rid s) (us_cid s)))))) 1 (ku_steps c).

(* clause 4: a request sent to a registration_client_uri the server returned, with the token currently
   valid for that client, is not served / accepted; or a URL the server never returned works *)
Definition u_works (c : c12ucase) : N :=
  first_bad (fun s =>
      if us_given s then orb (negb (us_live s)) (andb (us_served s) (us_ok s))
      else negb (us_ok s)) 1 (ku_steps c).

(* clause 1: accepted without the current token *)
Definition u_guard (c : c12ucase) : N :=
  first_bad (fun s => orb (N.eqb (us_kind s) 0) (orb (us_live s) (negb (us_ok s)))) 1 (ku_steps c).

Definition mon_c12u (c : c12ucase) : N :=
  match u_reported c with
  | 0 => match u_works c with
         | 0 => match u_guard c with 0 => 0 | k => 1000 + k end
         | k => 4000 + k end
  | k => 3000 + k
  end.
