(* Corr/C01.v — what the c01 case files call.  One case = one HTTP request sent to the real
   provider (fresh provider, fresh seeded storage), abstracted to the record Authn.v computes on,
   plus what was observed. *)
From Verif Require Import Base Scope Types Prog Pop Token Authorize Authn AuthnSpec AuthnLink AuthnWire.
Local Open Scope N_scope.

Record acase := mkACase {
  k_cfg : acfg;
  k_entry : entry;
  k_clients : list aclient;      (* static clients first, then the stored ones *)
  k_req : wreq;                  (* the request as sent: every form-carried member with its placement (body / query string) *)
  k_anon : bool;                 (* jwt-bearer grant and the embedder allows anonymous use (client authentication not required) *)
  (* observed on the implementation *)
  k_accepted : bool;             (* served: success answer carrying the endpoint's artifact *)
  k_invalid_client : bool;       (* refused with error = invalid_client *)
  k_artifact : bool;             (* token / request_uri / auth_req_id / token information in the answer *)
  k_wrote : bool;                (* a storage write call was made or the store's content changed *)
  k_fetched : bool               (* the client's jwks_uri was fetched *)
}.

(* correspondence: 0 = the model and the implementation agree; 1 = accept/refuse differs;
   2 = they differ on whether the jwks_uri is fetched.  The model's verdict is entry_outcome
   (Model/AuthnWire.v): clientutil.Authenticated on what the code reads off the wire request (form
   members from the BODY only), and the jwt-bearer grant's anonymous path only when nothing in the
   request names a client and authentication is not required. *)
Definition check_acase (k : acase) : N :=
  let '(o, fetched) := entry_outcome (k_cfg k) (k_entry k) (negb (k_anon k)) (k_clients k) (k_req k) in
  if negb (Bool.eqb (served o) (k_accepted k)) then 1
  else if negb (Bool.eqb fetched (k_fetched k)) then 2 else 0.

(* ---- the property's monitor, evaluated on the observation, through the specification only ---- *)
Definition registered_b (cls : list aclient) (c : aclient) : bool :=
  match find_aclient (ca_id c) cls with
  | Some c' => andb (N.eqb (ca_id c') (ca_id c)) true
  | None => false end.

(* first client registered under each id *)
Fixpoint firsts (seen : list id) (l : list aclient) : list aclient :=
  match l with
  | [] => []
  | c :: r => if memN (ca_id c) seen then firsts seen r else c :: firsts (ca_id c :: seen) r
  end.

Definition count {A} (f : A -> bool) (l : list A) : nat := List.length (filter f l).
Definition unambiguous_b (c : aclient) (rq : request) : bool :=
  match registered_keys c rq with
  | None => true
  | Some ks =>
      andb (match rq_assertion rq with AJws a => Nat.leb (count (fun j => designated_b j a) ks) 1 | _ => true end)
           (match rq_cert rq with Some ct => Nat.leb (count (fun j => N.eqb (jk_cert j) (ct_id ct)) ks) 1 | None => true end)
  end.

(* clause 1: served without a valid credential of the registered method (the one exception: the
             jwt-bearer grant, anonymous use allowed, no client identification at all)
   clause 2: a genuinely valid credential of the registered method was refused
   clause 3: refused, but not with invalid_client, or with an artifact, or after a storage write *)
Definition mon_acase (k : acase) : N :=
  (* the specification is evaluated on what the request carries in the places credentials must be in *)
  let g := k_cfg k in let x := entry_ctx (k_entry k) in let rq := body_view (k_req k) in
  let cands := firsts [] (k_clients k) in
  let valid := existsb (fun c => andb (negb (N.eqb (ca_id c) 0)) (valid_credential_b g x c rq)) cands in
  let valid_unamb := existsb (fun c => andb (negb (N.eqb (ca_id c) 0))
                                        (andb (valid_credential_b g x c rq) (unambiguous_b c rq))) cands in
  if k_accepted k then
    if orb valid (andb (k_anon k) (andb (is_jwt_bearer (k_entry k)) (names_nobody_b (k_req k)))) then 0 else 1001
  else
    if valid_unamb then 2001 else
    if orb (k_wrote k) (orb (negb (k_invalid_client k)) (k_artifact k)) then 3001 else 0.
