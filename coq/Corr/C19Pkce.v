(* Corr/C19Pkce.v — C19, PKCE methods end to end (authorization request + code redemption), judged from
   the discovery document and the answers alone.
   clause 3: with code_challenge_methods_supported = L advertised, a code whose authorization request
             carried a challenge was redeemed although the (challenge, verifier) pair is an exchange
             under NO advertised method (plain: verifier = challenge; S256: challenge = thumbprint of the
             verifier) - a method that is not advertised completed an exchange, or none was applied;
   clause 4: an exchange under an advertised method was refused at the token endpoint - the method named
             in the request, or left out when L has a single member (which is then the default) - while
             the same client's exchange that names the method succeeded in the same history. *)
From Verif Require Import Base Scope Types Prog Pop Token Authorize System Config Discovery Required Run Monitors.
From Verif.Corr Require Import C11 C19.
Local Open Scope N_scope.

Definition exchange_methods (p : params) (v : pk) : list string :=
  (if pk_eqb (p_challenge p) v then ["plain"] else []) ++
  (if pk_eqb (p_challenge p) (PkHash v) then ["S256"] else []).
Definition unbound (r : treq) : bool := andb (no_proof r) (no_cert r).

(* okc: clients that completed an unbound exchange naming an advertised method; used: redeemed codes *)
Fixpoint c19pk_from (cfg : config) (d : list (string * dval)) (f : flowst) (okc used : list id) (ticked : bool)
                    (k : nat) (ops : list op) (xs : list obs) : N :=
  match ops, xs with
  | o :: ops', x :: xs' =>
      let L := obs_set d "code_challenge_methods_supported" in
      let bad : N :=
        match o with
        | OpToken GAuthorizationCode r =>
            match lookup (t_code r) (f_codes f) with
            | Some (i, p) =>
                if orb (pk_is_empty (p_challenge p)) (match L with [] => true | _ => false end) then 0 else
                let v := t_verifier r in
                match x with
                | Out (OTokens _) => if existsb (fun m => mem m L) (exchange_methods p v) then 0 else 3
                | Out (OErr _) =>
                    let m := if is_empty (p_method p) then (match L with [m] => m | _ => "" end) else p_method p in
                    if andb (mem m L) (andb (is_pkce_valid v (p_challenge p) m) (andb (pk_len_ok v)
                       (andb (ideq i (cr_id (t_cred r))) (andb (cr_ok (t_cred r)) (andb (seqb (p_redirect p) (t_redirect r))
                       (andb (unbound r) (andb (memN i okc) (andb (negb (memN (t_code r) used)) (negb ticked)))))))))
                    then 4 else 0
                | _ => 0 end
            | None => 0 end
        | _ => 0 end in
      match bad with
      | 0 =>
          let okc' := match o, x with
                      | OpToken GAuthorizationCode r, Out (OTokens _) =>
                          match lookup (t_code r) (f_codes f) with
                          | Some (i, p) => if andb (unbound r) (andb (negb (is_empty (p_method p))) (mem (p_method p) L)) then i :: okc else okc
                          | None => okc end
                      | _, _ => okc end in
          let used' := match o with OpToken GAuthorizationCode r => t_code r :: used | _ => used end in
          (* only direct requests are followed: the document says nothing about how pushed and outer parameters combine *)
          let f' := match o with
                    | OpAuthorize r => if direct r then flow_learn cfg f o x else f
                    | OpPar _ => f
                    | _ => flow_learn cfg f o x end in
          c19pk_from cfg d f' okc' used' (orb ticked (match o with OpTick _ => true | _ => false end)) (S k) ops' xs'
      | c => viol c k
      end
  | _, _ => 0
  end.

Definition mon_c19x (c : c19case) : N :=
  match mon_c19 c with
  | 0 => match build (sc_profile (k_sys c)) (sc_opts (k_sys c)) with
         | Some cfg => c19pk_from cfg (k_doc c) flow0 [] [] false 0 (sc_ops (k_sys c)) (sc_obs (k_sys c))
         | None => 0 end
  | k => k end.
