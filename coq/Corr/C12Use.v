(* Corr/C12Use.v — what the case files of suite c12 call since the credentials are also used at the
   introspection and revocation endpoints and with client_secret_jwt (Model/DcrUse.v).
   check_xcase: run the model on the history the real provider was driven through and compare the
     projected observations; 0 = agreement, k = 1-based index of the first disagreement.
   mon_xcase: the property's own predicate on the implementation's observations alone; 0 = holds, else
     clause*1000 + 1-based index of the operation (clauses as in Corr/C12.v). *)
From Verif Require Import Base Types Dcr DcrUse.
From Verif.Corr Require Import C12.
Local Open Scope N_scope.

Record xcase := mkXCase { xk_cfg : dcfg; xk_ops : list xop; xk_obs : list dcr_obs }.

Definition check_xcase (c : xcase) : N :=
  first_diff false 0 (snd (xrun (xk_cfg c) (xk_ops c))) (xk_obs c).
Definition xmodel_obs (c : xcase) : list dcr_obs := snd (xrun (xk_cfg c) (xk_ops c)).

(* ---- the monitor: one step ---- *)
Inductive mres := MViol (v : N) | MNext (regs : list reg).

Definition member (k : string) (d : doc) : jval := match dget k d with Some v => v | None => JNull end.

(* the metadata a registration response reports: its members by their exact names.  (Not unmarshal: a
   member such as "SCOPE" in a response is a custom attribute echoed back - request.UnmarshalJSON keeps
   every member whose name is not exactly a metadata name - and says nothing about the scope.) *)
Definition resp_meta (d : doc) : meta := mkMeta d [].

(* what an observer of the registration / update response d expects of a use of `secret`: the method in
   force at the endpoint is read off the reported metadata; a secret-based method accepts the secret
   reported with it and nothing else; `none` asks for nothing; other methods cannot be satisfied by
   these requests *)
Definition should_work (cfg : dcfg) (r : reg) (ep : endpoint) (sm : smethod) (secret : id) : bool :=
  let m := resp_meta (r_doc r) in
  let meth := effective_method ep m in
  let right := andb (negb (is_nil secret)) (ideq secret (r_secret r)) in
  andb (ep_enabled cfg ep)
  (andb (identifies cfg sm)
  (andb (if v_is meth "none" then true
         else if v_is meth "client_secret_post" then match sm with SmPost => right | _ => false end
         else if v_is meth "client_secret_basic" then match sm with SmBasic => right | _ => false end
         else if v_is meth "client_secret_jwt" then match sm with SmJwt => andb (hs256_allowed cfg ep m) right | _ => false end
         else false)
        (match ep with
         | EpToken => andb (mem "client_credentials" (d_grants cfg)) (mem "client_credentials" (glist "grant_types" m))
         | _ => true end))).

(* a response that reports a secret-based method in force at an enabled endpoint must carry a secret,
   and one that reports none must not *)
Definition secret_expected (cfg : dcfg) (d : doc) : bool :=
  let m := resp_meta d in
  existsb (fun ep => andb (ep_enabled cfg ep)
                          (match secret_method (effective_method ep m) with Some _ => true | None => false end))
          [EpToken; EpIntrospect; EpRevoke].

Definition mon_step (cfg : dcfg) (regs : list reg) (k : nat) (o : xop) (x : dcr_obs) : mres :=
  match o, x with
  | XBase (Create _ _), DDoc _ d =>
      let cid := mint k KClientId in
      if negb (andb (jv_eqb (member "client_id" d) (JCred cid))
              (andb (jv_eqb (member "registration_access_token" d) (JCred (mint k KRegToken)))
              (andb (jv_eqb (member "registration_client_uri" d) (JRegUri cid))
              (andb (fresh_or_absent "client_secret" d (mint k KSecret))
                    (Bool.eqb (dhas "client_secret" d) (secret_expected cfg d))))))
      then MViol (viol 3 k)
      else if negb (caps_ok_b cfg (resp_meta d)) then MViol (viol 5 k)
      else MNext (mkReg cid (mint k KRegToken) [] (cred_of "client_secret" d) d :: regs)
  | XBase (Update cid t _ _), DDoc _ d =>
      match on_target regs k cid t x true with
      | 0 =>
          match rfind cid regs with
          | None => MViol (viol 1 k)
          | Some r =>
              if negb (andb (jv_eqb (member "client_id" d) (JCred cid))
                      (andb (jv_eqb (member "registration_client_uri" d) (JRegUri cid))
                      (andb (if d_rotation cfg
                             then jv_eqb (member "registration_access_token" d) (JCred (mint k KRegToken))
                             else negb (dhas "registration_access_token" d))
                      (andb (fresh_or_absent "client_secret" d (mint k KSecret))
                            (Bool.eqb (dhas "client_secret" d) (secret_expected cfg d))))))
              then MViol (viol 3 k)
              else if negb (caps_ok_b cfg (resp_meta d)) then MViol (viol 5 k)
              else
                let r' := if d_rotation cfg
                          then mkReg cid (mint k KRegToken) (r_tok r :: r_old r) (cred_of "client_secret" d) d
                          else mkReg cid (r_tok r) (r_old r) (cred_of "client_secret" d) d in
                MNext (r' :: rdel cid regs)
          end
      | v => MViol v
      end
  | XBase (Update cid t _ _), _ =>
      match on_target regs k cid t x true with 0 => MNext regs | v => MViol v end
  | XBase (Read cid t), _ =>
      match on_target regs k cid t x false with
      | 0 =>
          match x, rfind cid regs with
          | DDoc _ d, Some r => if readback_ok (r_doc r) d then MNext regs else MViol (viol 6 k)
          | _, _ => MNext regs
          end
      | v => MViol v
      end
  | XBase (Delete cid t), _ =>
      match on_target regs k cid t x false with
      | 0 => MNext (if dcr_accepted x then rdel cid regs else regs)
      | v => MViol v
      end
  | XBase (UseSecret cid s basic), DTok ok =>
      match rfind cid regs with
      | None => if ok then MViol (viol 4 k) else MNext regs
      | Some r =>
          (* the request of Dcr.use_secret carries no assertion: post or basic at the token endpoint *)
          if Bool.eqb ok (should_work cfg r EpToken (if basic then SmBasic else SmPost) s)
          then MNext regs else MViol (viol 4 k)
      end
  | XUse ep sm cid s, DTok ok =>
      match rfind cid regs with
      | None => if ok then MViol (viol 4 k) else MNext regs
      | Some r => if Bool.eqb ok (should_work cfg r ep sm s) then MNext regs else MViol (viol 4 k)
      end
  | _, _ => MNext regs
  end.

Fixpoint xmon_go (cfg : dcfg) (regs : list reg) (k : nat) (ops : list xop) (obs : list dcr_obs) : N :=
  match ops, obs with
  | o :: ops', x :: obs' =>
      match mon_step cfg regs k o x with
      | MViol v => v
      | MNext regs' => xmon_go cfg regs' (S k) ops' obs'
      end
  | _, _ => 0
  end.

Definition mon_xcase (c : xcase) : N := xmon_go (xk_cfg c) [] 0 (xk_ops c) (xk_obs c).
