(* Corr/C19Lists.v — what the c19lists case files call.
   A case = the option list handed to provider.New (every method / algorithm list option with its
   real arguments), whether provider.New accepted it, the discovery document the real provider
   served, and two families of probes run against the real handlers:
     authn probes:    a client registered with a JWT-based method at one endpoint sends a valid
                      assertion signed with one algorithm; observed: authenticated or not;
     artifact probes: a client registered with a signing / key-encryption / content-encryption
                      algorithm obtains an ID token, a userinfo response, a JARM response;
                      observed: nothing / plain / signed with alg / encrypted with (alg, enc).
   `check_c19l` compares with Config2.build2, Discovery2.document2 and the run-time gates of
   Discovery2; `mon_c19l` evaluates the property on the observations alone. *)
From Verif Require Import Base Scope Types Config Discovery Config2 Discovery2.
From Verif.Corr Require Import C19.
Local Open Scope N_scope.

Record aprobe := mkAP { ap_ep : aep; ap_method : string; ap_cl_alg : string; ap_alg : string; ap_ok : bool }.
Record xprobe := mkXP { xp_art : artifact; xp_sig : string; xp_key : string; xp_cenc : string;
                        xp_got : option (option (string * string) * string) }.
Record c19lcase := mkC19L {
  kl_profile : profile; kl_opts : list opt2; kl_built : bool;
  kl_doc : list (string * dval); kl_authn : list aprobe; kl_art : list xprobe }.

Definition enc_eqb (a b : option (string * string)) : bool :=
  match a, b with
  | Some (k, c), Some (k', c') => andb (seqb k k') (seqb c c')
  | None, None => true
  | _, _ => false end.
Definition got_eqb (a b : option (option (string * string) * string)) : bool :=
  match a, b with
  | Some (e, s), Some (e', s') => andb (enc_eqb e e') (seqb s s')
  | None, None => true
  | _, _ => false end.

(* 0 agreement; 1: provider.New and build2 disagree on whether the options are accepted;
   10000+i: member i of all_members (a member that is not a list); 11000+i: member i of all_lmembers;
   19999: the real document has a member the model does not know;
   30000+i: authn probe i; 40000+i: artifact probe i *)
Definition check_c19l (c : c19lcase) : N :=
  match build2 (kl_profile c) (kl_opts c) with
  | None => if kl_built c then 1 else 0
  | Some c2 =>
    if negb (kl_built c) then 1 else
    match first_bad (fun m => orb (overridden m)
                       (odval_eqb (member_value iss mtls_host (c2_base c2) m) (doc_get (member_name m) (kl_doc c)))) 1 all_members with
    | 0 =>
      match first_bad (fun m => odval_eqb (lmember_value c2 m) (doc_get (lmember_name m) (kl_doc c))) 1 all_lmembers with
      | 0 =>
        if negb (forallb (fun kv => orb (existsb (fun m => seqb (member_name m) (fst kv)) all_members)
                                        (existsb (fun m => seqb (lmember_name m) (fst kv)) all_lmembers)) (kl_doc c))
        then 19999 else
        match first_bad (fun p => Bool.eqb (assertion_accepted c2 (ap_ep p) (ap_method p) (ap_cl_alg p) (ap_alg p)) (ap_ok p))
                        1 (kl_authn c) with
        | 0 =>
          match first_bad (fun p => got_eqb (artifact_expected c2 (xp_art p) (xp_sig p) (xp_key p) (xp_cenc p)) (xp_got p))
                          1 (kl_art c) with
          | 0 => 0
          | k => 40000 + k
          end
        | k => 30000 + k
        end
      | k => 11000 + k
      end
    | k => 10000 + k
    end
  end.

(* ---------------- the monitor: the document and the probe results only ---------------- *)
Definition aep_eqb (a b : aep) : bool :=
  match a, b with AToken, AToken | AIntrospect, AIntrospect | ARevoke, ARevoke => true | _, _ => false end.
Definition methods_name (e : aep) : string :=
  match e with
  | AToken => "token_endpoint_auth_methods_supported"
  | AIntrospect => "introspection_endpoint_auth_methods_supported"
  | ARevoke => "revocation_endpoint_auth_methods_supported" end.
Definition sig_algs_name (e : aep) : string :=
  match e with
  | AToken => "token_endpoint_auth_signing_alg_values_supported"
  | AIntrospect => "introspection_endpoint_auth_signing_alg_values_supported"
  | ARevoke => "revocation_endpoint_auth_signing_alg_values_supported" end.

(* the algorithms a method can be used with: HS* for client_secret_jwt, the others for private_key_jwt *)
Definition alg_of_method (m alg : string) : bool :=
  if seqb m "client_secret_jwt" then has_prefix "HS" alg else negb (has_prefix "HS" alg).
Definition family (m : string) (l : list string) : list string := filter (alg_of_method m) l.

(* clause 5: an advertised algorithm refused; 6: an advertised JWT method with no advertised
   algorithm and nothing accepted; 7: an algorithm that is not advertised (or not the registered
   one) accepted *)
Definition clause_authn (d : list (string * dval)) (all : list aprobe) (p : aprobe) : N :=
  if negb (mem (ap_method p) (obs_set d (methods_name (ap_ep p)))) then 0 else   (* registration outside the capabilities *)
  let adv := family (ap_method p) (obs_set d (sig_algs_name (ap_ep p))) in
  if is_empty (ap_cl_alg p) then
    match adv with
    | [] => if existsb (fun q => andb (aep_eqb (ap_ep q) (ap_ep p)) (andb (seqb (ap_method q) (ap_method p)) (ap_ok q))) all
            then 7 else 6
    | _ => if mem (ap_alg p) adv then (if ap_ok p then 0 else 5) else (if ap_ok p then 7 else 0)
    end
  else
    if negb (mem (ap_cl_alg p) adv) then 0 else                                   (* registration outside the capabilities *)
    if seqb (ap_alg p) (ap_cl_alg p) then (if ap_ok p then 0 else 5) else (if ap_ok p then 7 else 0).

Definition key_name (a : artifact) : string :=
  match a with AIdToken => "id_token_encryption_alg_values_supported"
  | AUserInfo => "userinfo_encryption_alg_values_supported"
  | AJarm => "authorization_encryption_alg_values_supported" end.
Definition cenc_name (a : artifact) : string :=
  match a with AIdToken => "id_token_encryption_enc_values_supported"
  | AUserInfo => "userinfo_encryption_enc_values_supported"
  | AJarm => "authorization_encryption_enc_values_supported" end.
Definition sig_name (a : artifact) : string :=
  match a with AIdToken => "id_token_signing_alg_values_supported"
  | AUserInfo => "userinfo_signing_alg_values_supported"
  | AJarm => "authorization_signing_alg_values_supported" end.
Definition is_nil_l (l : list string) : bool := match l with [] => true | _ => false end.

(* clause 8: the client asked for advertised encryption algorithms and the artifact is not encrypted
   with them; 9: no encryption algorithm is advertised for the artifact, yet it came encrypted;
   10: the client asked for an advertised signing algorithm and the artifact is not signed with it;
   11: JWT response modes refused although authorization_signing_alg_values_supported is advertised;
   12: a JWT-secured authorization response issued although that member is absent *)
Definition clause_art (d : list (string * dval)) (p : xprobe) : N :=
  let a := xp_art p in
  let adv_key := obs_set d (key_name a) in
  let adv_cenc := obs_set d (cenc_name a) in
  let adv_sig := obs_set d (sig_name a) in
  match xp_got p with
  | None =>
      match a with AJarm => if obs_has d (sig_name a) then 11 else 0 | _ => 0 end
  | Some (enc, sg) =>
      if match a with AJarm => negb (obs_has d (sig_name a)) | _ => false end then 12 else
      (* a client of the capabilities: its signing algorithm, if any, is advertised; userinfo is
         encrypted only for clients that asked for a signed response *)
      if andb (negb (is_empty (xp_sig p))) (negb (mem (xp_sig p) adv_sig)) then 0 else
      if andb (negb (is_empty (xp_sig p))) (negb (seqb sg (xp_sig p))) then 10 else
      if andb (is_nil_l adv_key) (is_nil_l adv_cenc) then
        (match enc with Some _ => 9 | None => 0 end)
      else
        if is_empty (xp_key p) then (match enc with Some _ => 9 | None => 0 end) else
        if match a with AUserInfo => is_empty (xp_sig p) | _ => false end then 0 else
        let key_ok := orb (mem (xp_key p) adv_key) (is_nil_l adv_key) in
        let cenc_ok := if is_empty (xp_cenc p) then mem (xp_key p) adv_key else mem (xp_cenc p) adv_cenc in
        if negb (andb key_ok cenc_ok) then 0 else                                  (* asked for something not advertised *)
        match enc with
        | None => 8
        | Some (k, ce) =>
            if andb (seqb k (xp_key p)) (if is_empty (xp_cenc p) then mem ce adv_cenc else seqb ce (xp_cenc p)) then 0 else 8
        end
  end.

Fixpoint first_clause {A} (f : A -> N) (k : N) (l : list A) : N :=
  match l with [] => 0 | x :: r => match f x with 0 => first_clause f (k + 1) r | c => c * 1000 + k end end.

(* clause*1000 + index: authn probes are numbered from 1, artifact probes from 501 *)
Definition mon_c19l (c : c19lcase) : N :=
  if negb (kl_built c) then 0 else
  match first_clause (clause_authn (kl_doc c) (kl_authn c)) 1 (kl_authn c) with
  | 0 => first_clause (clause_art (kl_doc c)) 501 (kl_art c)
  | v => v
  end.
