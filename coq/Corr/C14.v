(* Corr/C14.v — correspondence and monitor for C14: a pre-history run by `run_from`, then ONE
   operation run under a fault plan (`run_fault_log`) or cut short by a crash (`run_prefix_log`),
   compared with what the real provider did behind the fault-injecting storage decorator:
   answer, storage-call log, store afterwards, and the answers of a restarted instance to the
   re-presentation of every credential. *)
From Verif Require Import Base Scope Types Prog Pop Token Authorize System Config Run FaultLog DcrFault FaultSpec.
Local Open Scope N_scope.
Local Open Scope list_scope.

(* projections of the stored objects: owner and index values *)
Record snapA := mkSnapA { sa_client : id; sa_par : id; sa_cb : id; sa_ciba : id; sa_code : id }.
Record snapG := mkSnapG { sg_client : id; sg_token : id; sg_refresh : id; sg_code : id }.
Definition snapA_eqb (a b : snapA) : bool :=
  andb (ideq (sa_client a) (sa_client b)) (andb (ideq (sa_par a) (sa_par b)) (andb (ideq (sa_cb a) (sa_cb b))
  (andb (ideq (sa_ciba a) (sa_ciba b)) (ideq (sa_code a) (sa_code b))))).
Definition snapG_eqb (a b : snapG) : bool :=
  andb (ideq (sg_client a) (sg_client b)) (andb (ideq (sg_token a) (sg_token b))
  (andb (ideq (sg_refresh a) (sg_refresh b)) (ideq (sg_code a) (sg_code b)))).
Definition proj_a (s : asession) : snapA := mkSnapA (a_client s) (a_par s) (a_cb s) (a_ciba s) (a_code s).
Definition proj_g (g : gsession) : snapG := mkSnapG (g_client g) (g_token g) (g_refresh g) (g_code g).

(* multiset equality *)
Fixpoint remove_first {X} (eqb : X -> X -> bool) (x : X) (l : list X) : option (list X) :=
  match l with
  | [] => None
  | y :: t => if eqb x y then Some t else match remove_first eqb x t with Some t' => Some (y :: t') | None => None end
  end.
Fixpoint perm_eqb {X} (eqb : X -> X -> bool) (a b : list X) : bool :=
  match a with
  | [] => match b with [] => true | _ => false end
  | x :: a' => match remove_first eqb x b with Some b' => perm_eqb eqb a' b' | None => false end
  end.

Record faultcase := mkFC {
  fc_base : syscase;             (* world, pre-history and its observations *)
  fc_op : op;                    (* the operation under fault or crash *)
  fc_plan : list (nat * fault);
  fc_crash : option nat;         (* Some k: aborted before its k-th storage call (0-based) *)
  fc_obs : option obs;           (* the implementation's answer; None: no answer (crash) *)
  fc_log : list ckind;           (* the storage decorator's log of that request *)
  fc_sess : list snapA;          (* the store afterwards *)
  fc_grants : list snapG;
  fc_post : list op;             (* served by a fresh provider instance over the same store *)
  fc_post_obs : list obs
}.

Definition kinds_eqb (a b : list ckind) : bool := list_eqb ckind_eqb a b.

(* 0 = agreement.  k < 1000: the pre-history disagrees at op k.  1001: answer of the faulted op;
   1002: storage-call log; 1003: sessions afterwards; 1004: grants afterwards;
   2000 + k: k-th operation after the restart; 2^30: the option list does not build *)
Definition check_fault_case (strict : bool) (c : faultcase) : N :=
  match case_world (fc_base c) with
  | None => 2 ^ 30
  | Some w =>
    let pre := sc_ops (fc_base c) in
    let '(st, tr) := run_from w (init_state (sc_dyn (fc_base c))) 0%nat pre in
    match first_diff strict 1 (nows 0%Z pre) tr (sc_obs (fc_base c)) with
    | 0 =>
      let n := List.length pre in
      let now := s_now st in
      let h := handler w n now (fc_op c) in
      let '(st', ox, kinds) :=
        match fc_crash c with
        | None => let '(st', x, l) := run_fault_log (plan_of (fc_plan c)) 0%nat h (s_store st) in (st', Some x, log_kinds l)
        | Some k => run_fault_prefix_log (plan_of (fc_plan c)) 0%nat k h (s_store st)
        end in
      if negb (pair_eqb (obs_match strict now) ox (fc_obs c)) then 1001
      else if negb (kinds_eqb kinds (fc_log c)) then 1002
      else if negb (perm_eqb snapA_eqb (map proj_a (st_asess st')) (fc_sess c)) then 1003
      else if negb (perm_eqb snapG_eqb (map proj_g (st_gsess st')) (fc_grants c)) then 1004
      else
        let '(_, tr2) := run_from w (mkState st' now) (S n) (fc_post c) in
        match first_diff strict 1 (nows now (fc_post c)) tr2 (fc_post_obs c) with
        | 0 => 0
        | k => 2000 + k
        end
    | k => k
    end
  end.

(* what the model says, for replays and debugging *)
Definition model_fault_case (c : faultcase) :=
  match case_world (fc_base c) with
  | None => None
  | Some w =>
    let pre := sc_ops (fc_base c) in
    let '(st, tr) := run_from w (init_state (sc_dyn (fc_base c))) 0%nat pre in
    let n := List.length pre in
    let h := handler w n (s_now st) (fc_op c) in
    let '(st', ox, kinds) :=
      match fc_crash c with
      | None => let '(st', x, l) := run_fault_log (plan_of (fc_plan c)) 0%nat h (s_store st) in (st', Some x, log_kinds l)
      | Some k => run_fault_prefix_log (plan_of (fc_plan c)) 0%nat k h (s_store st)
      end in
    Some (tr, ox, kinds, map proj_a (st_asess st'), map proj_g (st_gsess st'),
          snd (run_from w (mkState st' (s_now st)) (S n) (fc_post c)))
  end.

(* ---------------------------------------------------------------------------------- *)
(* the monitor: C14's clauses read off the implementation's observations alone *)

Definition read_kind (k : ckind) : bool := match k with KCGet | KAGet | KGGet => true | _ => false end.
(* the faults of the plan that took effect: position inside the log, error or not-found on a read *)
Definition hits (c : faultcase) : list (nat * ckind) :=
  flat_map (fun pf => match nth_error (fc_log c) (fst pf) with
                      | Some k => match snd pf with
                                  | FErr => [(fst pf, k)]
                                  | FMiss => if read_kind k then [(fst pf, k)] else []
                                  | FNone => [] end
                      | None => [] end) (fc_plan c).
Definition is_kind_k (a b : ckind) : bool := ckind_eqb a b.

(* the token id a grant must carry for an access token value *)
Definition token_id_of (a : id) : id := if is_kind KAtJwt a then jti_of a else a.
Definition tok_in_store (c : faultcase) (p : id * id) : bool :=
  existsb (fun g => andb (ideq (sg_token g) (token_id_of (fst p)))
                         (orb (is_nil (snd p)) (ideq (sg_refresh g) (snd p)))) (fc_grants c).
Definition idx_in_store (get : snapA -> id) (c : faultcase) (v : id) : bool :=
  existsb (fun s => ideq (get s) v) (fc_sess c).

Definition obs_is_tokens (x : obs) : bool :=
  match x with Out (OTokens _) => true | Out (ONav _ _ nv) => negb (andb (is_nil (n_code nv)) (is_nil (n_at nv)))
  | Notified true (_ :: _) => true | _ => false end.

(* the credential an operation presents is the one the first operation after the restart presents again *)
Definition first_post_succeeds (c : faultcase) : bool :=
  match fc_post_obs c with x :: _ => obs_is_tokens x | [] => false end.

(* the calls of kind k that were performed and not made to fail by the plan *)
Fixpoint indexed {X} (n : nat) (l : list X) : list (nat * X) :=
  match l with [] => [] | x :: t => (n, x) :: indexed (S n) t end.
Definition failed_at (c : faultcase) (i : nat) : bool :=
  existsb (fun pf => andb (Nat.eqb (fst pf) i) (match snd pf with FErr => true | _ => false end)) (fc_plan c).
Definition performed (c : faultcase) (k : ckind) : bool :=
  existsb (fun ik => andb (is_kind_k (snd ik) k) (negb (failed_at c (fst ik)))) (indexed 0 (fc_log c)).

(* operations that present a one-time credential *)
Definition presents_credential (o : op) : bool :=
  match o with
  | OpToken GAuthorizationCode _ | OpToken GCiba _ | OpCallback _ | OpNotifyOk _ _ => true
  | OpAuthorize r => negb (is_nil (p_request_uri (ar_params r)))
  | _ => false
  end.

(* 0 = fine; otherwise clause*1000 + 1:
   1 artifact in the answer without backing state in the store;
   2 positive answer although a storage call of the request failed;
   3 false acknowledgement: /revoke 200 although the grant delete failed;
   4 after a crash that had consumed the credential or saved a grant, the restarted instance
     accepts the same one-time credential;
   5 /revoke 200 although the grant lookup failed (the token stays active) *)
Definition mon_C14 (c : faultcase) : N :=
  match fc_obs c with
  | Some x =>
      if negb (andb (forallb (tok_in_store c) (obs_tokens x))
               (andb (forallb (idx_in_store sa_code c) (lift_out out_codes x))
               (andb (forallb (idx_in_store sa_par c) (lift_out out_request_uris x))
               (andb (forallb (idx_in_store sa_ciba c) (lift_out out_auth_req_ids x))
                     (forallb (idx_in_store sa_cb c) (lift_out out_callbacks x)))))) then 1001
      else match hits c with
           | [] => 0
           | hs =>
             if negative x then 0 else
             match fc_op c, x with
             | OpRevoke _, Out OOk =>
                 if existsb (fun h => is_kind_k (snd h) KGDel) hs then 3001
                 else if forallb (fun h => is_kind_k (snd h) KGGet) hs then 5001 else 2001
             | _, _ => 2001
             end
           end
  | None =>
      match fc_crash c with
      | Some _ =>
          if andb (presents_credential (fc_op c))
                  (andb (orb (performed c KADel) (performed c KGSave))
                        (first_post_succeeds c)) then 4001 else 0
      | None => 0
      end
  end.

(* ---------------------------------------------------------------------------------- *)
(* dynamic client registration *)
Record dcrcase := mkDC {
  dc_static : list client;
  dc_pre : list id;              (* ids of the registered (dynamic) clients before the request *)
  dc_n : nat;                    (* index of the operation, for the handles it mints *)
  dc_op : dfop;
  dc_plan : list (nat * fault);
  dc_crash : option nat;
  dc_obs : option dfout;         (* credentials abstracted to 0 / the handle minted by this op *)
  dc_log : list ckind;
  dc_post : list id              (* ids of the registered clients afterwards *)
}.
Definition dfout_eqb (a b : dfout) : bool :=
  match a, b with
  | DfErr, DfErr => true
  | DfDeleted, DfDeleted => true
  | DfDoc c1 i1 s1 t1, DfDoc c2 i2 s2 t2 =>
      andb (Bool.eqb c1 c2) (andb (ideq i1 i2) (andb (ideq s1 s2) (ideq t1 t2)))
  | _, _ => false
  end.
Definition check_dcr_case (c : dcrcase) : N :=
  let w := mkWorld (base_config POpenID) (dc_static c) in
  let st := mkStore (map blank_client (dc_pre c)) [] [] in
  let h := dcr_handler w (dc_n c) (dc_op c) in
  let '(st', ox, kinds) :=
    match dc_crash c with
    | None => let '(st', x, l) := run_fault_log (plan_of (dc_plan c)) 0%nat h st in (st', Some x, log_kinds l)
    | Some k => run_fault_prefix_log (plan_of (dc_plan c)) 0%nat k h st
    end in
  if negb (pair_eqb dfout_eqb ox (dc_obs c)) then 1001
  else if negb (kinds_eqb kinds (dc_log c)) then 1002
  else if negb (perm_eqb ideq (map c_id (st_clients st')) (dc_post c)) then 1003
  else 0.

Definition dcr_hits (c : dcrcase) : list (nat * ckind) :=
  flat_map (fun pf => match nth_error (dc_log c) (fst pf) with
                      | Some k => match snd pf with
                                  | FErr => [(fst pf, k)]
                                  | FMiss => if read_kind k then [(fst pf, k)] else []
                                  | FNone => [] end
                      | None => [] end) (dc_plan c).
(* 6 a create / update answered with a document although the client is not in the store;
   7 positive answer although a storage call failed; 8 DELETE answered 204 although the client is still there *)
Definition mon_C14_dcr (c : dcrcase) : N :=
  match dc_obs c with
  | Some (DfDoc _ cid _ _) =>
      if negb (existsb (ideq cid) (dc_post c)) then 6001
      else match dcr_hits c with [] => 0 | _ => 7001 end
  | Some DfDeleted =>
      match dc_op c with
      | DfDelete r => if existsb (ideq (df_cid r)) (dc_post c) then 8001
                      else match dcr_hits c with [] => 0 | _ => 7001 end
      | _ => 8001
      end
  | _ => 0
  end.
