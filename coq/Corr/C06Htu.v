(* Corr/C06Htu.v — suite c06htu: the htu comparison of dpop.ValidateJWT, probed on the real
   provider at every endpoint that takes DPoP proofs, against Model/Htu.v.

   A case is one endpoint of one provider: the URLs the request is known by (hosts, RequestURI) and
   a list of probes.  A probe is an otherwise valid request (right key, method, fresh iat, jti, ath
   where a token is presented) whose proof carries the htu string hp_htu ("" also stands for an
   absent claim); the harness recorded what strutil.NormalizeURL made of the string (hp_norm) and
   whether the endpoint accepted the request (hp_accepted).

   check_htu_case (correspondence): 0, or the 1-based index of the first probe where
     - Model/Htu.v normalize_url differs from strutil.NormalizeURL, or
     - Pop.validate_jwt on the proof record whose htu is the variant the string stands for
       (htu_class) does not decide as the endpoint did.
   mon_htu_case (the property, on the observations alone): 0, or clause*1000 + index of the first probe
   that was ACCEPTED although
     clause 6  its htu is a strict string prefix of the request URL (or empty / absent)
     clause 1  its htu does not normalise to a URL of the request (htu_match = false). *)
From Verif Require Import Base Scope Types Pop Htu.
Local Open Scope N_scope.

Record htu_probe := mkHP { hp_htu : string; hp_norm : option string; hp_accepted : bool }.
Record htu_case := mkHC { hc_hosts : list string; hc_uri : string; hc_probes : list htu_probe }.

Definition opt_seqb (a b : option string) : bool :=
  match a, b with
  | Some x, Some y => seqb x y
  | None, None => true
  | _, _ => false
  end.

(* the valid proof of the harness with the htu variant v, presented with token 7 where key 5 is expected *)
Definition probe_proof (v : htu_v) : dpop_proof :=
  mkProof true true (JwkPublic 5) 5 (Some 0%Z) true true v 7.

Definition model_accepts (hosts : list string) (uri htu : string) : bool :=
  match validate_jwt jwt_lifetime jwt_leeway (probe_proof (htu_class hosts uri htu)) 7 5 with
  | None => true
  | Some _ => false
  end.

Fixpoint check_probes (hosts : list string) (uri : string) (i : N) (l : list htu_probe) : N :=
  match l with
  | [] => 0
  | p :: r =>
      if andb (opt_seqb (normalize_url (hp_htu p)) (hp_norm p))
              (Bool.eqb (model_accepts hosts uri (hp_htu p)) (hp_accepted p))
      then check_probes hosts uri (i + 1) r else i
  end.
Definition check_htu_case (c : htu_case) : N := check_probes (hc_hosts c) (hc_uri c) 1 (hc_probes c).

Definition prefix_of_some (hosts : list string) (uri htu : string) : bool :=
  existsb (fun h => strict_prefix_b htu (h ++ uri)) hosts.

Fixpoint mon_probes (hosts : list string) (uri : string) (i : N) (l : list htu_probe) : N :=
  match l with
  | [] => 0
  | p :: r =>
      if andb (hp_accepted p) (negb (htu_match hosts uri (hp_htu p)))
      then (if prefix_of_some hosts uri (hp_htu p) then 6000 + i else 1000 + i)
      else mon_probes hosts uri (i + 1) r
  end.
Definition mon_htu_case (c : htu_case) : N := mon_probes (hc_hosts c) (hc_uri c) 1 (hc_probes c).
