From Verif Require Import Base Scope Types Prog Pop Token Authorize System Config Run Monitors.
Local Open Scope N_scope.
Definition mon_C06 (c : syscase) : N := 0.
