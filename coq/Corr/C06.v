(* Corr/C06.v — the executable predicate of property C06, evaluated on the inputs of a case and
   the observations the harness projected from the real provider.

   The monitor is an observer of the trace: from the requests it saw succeed it knows which key /
   certificate every credential was announced or issued with (the thumbprint of the key embedded
   in the request's proof, the certificate the request presented), and it judges every later
   success with the theorems' own decision functions (Pop.validate_jwt, validate_pop):

     clause 1  a request was accepted although its DPoP proof fails one of the seven conditions
     clause 2  a bound token was used (userinfo, TokenInfoFromRequest, refresh) without an accepted
               proof for the bound key / without the bound certificate
     clause 3  a key or certificate announced at PAR or /authorize was not enforced at redemption
     clause 4  an unbound token was issued although binding is required by server or client
     clause 5  the confirmation reported for a token (cnf, token_type) is not the thumbprint of the
               proving key / presented certificate

   Result: 0, or clause*1000 + (1-based) index of the offending operation. *)
From Verif Require Import Base Scope Types Prog Pop Token Authorize System Config Run Monitors.
Local Open Scope N_scope.

Record bnd := mkBnd { bd_jkt : id; bd_x5t : id }.
Record kn6 := mkKn6 {
  k6_par : list (id * bnd);       (* request_uri -> announced at PAR *)
  k6_code : list (id * bnd);      (* code -> announced at PAR / authorize *)
  k6_tok : list (id * bnd);       (* access or refresh token -> confirmation it was issued with *)
  k6_ciba : list (id * bnd)       (* auth_req_id of a push-mode request -> binding captured *)
}.
Definition kn6_0 : kn6 := mkKn6 [] [] [] [].

Definition add_tok (k : kn6) (h : id) (b : bnd) : kn6 :=
  if is_nil h then k else mkKn6 (k6_par k) (k6_code k) ((h, b) :: k6_tok k) (k6_ciba k).

Definition proof_thumb (b : bind_in) : id :=
  match b_dpop b with Some p => jwk_thumb (dp_jwk p) | None => 0 end.
Definition has_proof (cfg : config) (b : bind_in) : bool :=
  andb (cf_dpop_enabled cfg) (match b_dpop b with Some _ => true | None => false end).
Definition has_cert (cfg : config) (b : bind_in) : bool :=
  andb (cf_tls_binding_enabled cfg) (negb (is_nil (b_cert b))).

(* DPoP is enabled and the single DPoP header does not pass validate_jwt for expected key jkt *)
Definition bad_proof (cfg : config) (b : bind_in) (jkt : id) : bool :=
  andb (cf_dpop_enabled cfg)
       (match b_dpop b with
        | Some p => match validate_jwt jwt_lifetime jwt_leeway p 0 jkt with None => false | Some _ => true end
        | None => false end).

(* binding required by server or client, and the request offers none of the required kind *)
Definition unbound_required (cfg : config) (c : option client) (hp hc : bool) : bool :=
  let cd := match c with Some c => c_dpop_required c | None => false end in
  let ct := match c with Some c => c_tls_required c | None => false end in
  orb (andb (orb (cf_dpop_required cfg) (andb (cf_dpop_enabled cfg) cd)) (negb hp))
 (orb (andb (orb (cf_tls_binding_required cfg) (andb (cf_tls_binding_enabled cfg) ct)) (negb hc))
      (andb (cf_binding_required cfg) (negb (orb hp hc)))).

Definition bnd_of_request (cfg : config) (b : bind_in) : bnd := mkBnd (set_pop_jkt cfg b) (set_pop_x5t cfg b).

(* issuance by client_credentials / authorization_code / CIBA: clauses 1, 4, 5 *)
Definition issue_clause (cfg : config) (c : option client) (b : bind_in) (t : tresp) : N :=
  if bad_proof cfg b 0 then 1 else
  if unbound_required cfg c (has_proof cfg b) (has_cert cfg b) then 4 else
  if negb (Bool.eqb (tr_dpop t) (negb (is_nil (set_pop_jkt cfg b)))) then 5 else 0.

Definition pop_fails (b : bind_in) (tok : id) (x : bnd) : bool :=
  match validate_pop b tok (bd_jkt x) (bd_x5t x) with None => false | Some _ => true end.

Section Step.
  Variable cfg : config.
  Variable client_of : id -> option client.

  Definition step6 (k : kn6) (o : op) (x : obs) : N * kn6 :=
    match o, x with
    | OpPar r, Out (OPar u) =>
        let b := pr_bind r in
        let p := pr_params r in
        let j := match b_dpop b with
                 | Some pf => if cf_dpop_enabled cfg then jwk_thumb (dp_jwk pf) else p_dpop_jkt p
                 | None => p_dpop_jkt p end in
        (if bad_proof cfg b (p_dpop_jkt p) then 1 else 0,
         mkKn6 ((u, mkBnd j (set_pop_x5t cfg b)) :: k6_par k) (k6_code k) (k6_tok k) (k6_ciba k))
    | OpAuthorize r, Out (ONav _ _ nv) =>
        match ar_pol r with
        | PolSuccess _ _ _ _ =>
            let p := ar_params r in
            let ann := if is_nil (p_request_uri p) then Some (mkBnd (p_dpop_jkt p) 0)
                       else match lookup (p_request_uri p) (k6_par k) with
                            | Some a => Some (mkBnd (if andb (is_nil (bd_jkt a)) (negb (is_fapi (cf_profile cfg)))
                                                     then p_dpop_jkt p else bd_jkt a) (bd_x5t a))
                            | None => None end in
            match ann with
            | None => (0, k)
            | Some a =>
                let k1 := if is_nil (n_code nv) then k
                          else mkKn6 (k6_par k) ((n_code nv, a) :: k6_code k) (k6_tok k) (k6_ciba k) in
                if is_nil (n_at nv) then (0, k1) else
                (* a token from the authorization endpoint: bound through the announced key only *)
                let j := if cf_dpop_enabled cfg then bd_jkt a else 0 in
                let c := client_of (ar_client r) in
                let cd := match c with Some c => c_dpop_required c | None => false end in
                (* fix 6551f83: only a DPoP key can bind such a token *)
                (if andb (orb (cf_dpop_required cfg) (orb (andb (cf_dpop_enabled cfg) cd) (cf_binding_required cfg))) (is_nil j) then 4
                 else if negb (Bool.eqb (n_dpop nv) (negb (is_nil j))) then 5 else 0,
                 add_tok k1 (n_at nv) (mkBnd j 0))
            end
        | _ => (0, k)
        end
    | OpToken GClientCredentials r, Out (OTokens t) =>
        (issue_clause cfg (client_of (cr_id (t_cred r))) (t_bind r) t,
         add_tok k (tr_at t) (bnd_of_request cfg (t_bind r)))
    | OpToken GCiba r, Out (OTokens t) | OpToken GJwtBearer r, Out (OTokens t) =>
        (issue_clause cfg (client_of (cr_id (t_cred r))) (t_bind r) t,
         add_tok (add_tok k (tr_at t) (bnd_of_request cfg (t_bind r))) (tr_rt t) (bnd_of_request cfg (t_bind r)))
    | OpToken GAuthorizationCode r, Out (OTokens t) =>
        let b := t_bind r in
        let c3 := match lookup (t_code r) (k6_code k) with
                  | Some a =>
                      orb (andb (cf_dpop_enabled cfg) (andb (negb (is_nil (bd_jkt a)))
                             (match b_dpop b with
                              | Some p => match validate_jwt jwt_lifetime jwt_leeway p 0 (bd_jkt a) with None => false | Some _ => true end
                              | None => true end)))
                          (andb (cf_tls_binding_enabled cfg) (andb (negb (is_nil (bd_x5t a))) (negb (ideq (b_cert b) (bd_x5t a)))))
                  | None => false end in
        (match issue_clause cfg (client_of (cr_id (t_cred r))) b t with
         | 0 => if c3 then 3 else 0
         | c => c end,
         add_tok (add_tok k (tr_at t) (bnd_of_request cfg b)) (tr_rt t) (bnd_of_request cfg b))
    | OpToken GRefreshToken r, Out (OTokens t) =>
        let b := t_bind r in
        match lookup (t_refresh r) (k6_tok k) with
        | None => (0, k)
        | Some a =>
            let pub := match client_of (cr_id (t_cred r)) with Some c => c_public c | None => false end in
            let c2 := if pub then pop_fails b 0 a
                      else orb (andb (cf_dpop_enabled cfg) (andb (negb (is_nil (bd_jkt a)))
                                  (orb (negb (has_proof cfg b)) (bad_proof cfg b 0))))
                               (andb (cf_tls_binding_enabled cfg) (andb (negb (is_nil (bd_x5t a))) (negb (ideq (b_cert b) (bd_x5t a))))) in
            (* token.updatePoPForRefreshedToken: a bound grant follows the key / certificate of this request *)
            let j' := match b_dpop b with Some p => if is_nil (bd_jkt a) then 0 else jwk_thumb (dp_jwk p) | None => bd_jkt a end in
            let x' := if andb (negb (is_nil (bd_x5t a))) (negb (is_nil (b_cert b))) then b_cert b else bd_x5t a in
            let a' := mkBnd j' x' in
            (if c2 then 2 else if negb (Bool.eqb (tr_dpop t) (negb (is_nil j'))) then 5 else 0,
             add_tok (add_tok (add_tok k (t_refresh r) a') (tr_rt t) a') (tr_at t) a')
        end
    | OpBcAuthorize r, Out (OCiba a _) =>
        let c := client_of (cr_id (br_cred r)) in
        match c with
        | Some cl =>
            match c_ciba_mode cl with
            | CibaPush =>
                let b := br_bind r in
                (if bad_proof cfg b 0 then 1
                 else if unbound_required cfg c (has_proof cfg b) (has_cert cfg b) then 4 else 0,
                 mkKn6 (k6_par k) (k6_code k) (k6_tok k) ((a, bnd_of_request cfg b) :: k6_ciba k))
            | _ => (0, k)
            end
        | None => (0, k)
        end
    | OpNotifyOk a _, Notified true ns =>
        match lookup a (k6_ciba k) with
        | Some bd => (0, fold_left (fun k' nf => add_tok (add_tok k' (nf_at nf) bd) (nf_rt nf) bd) ns k)
        | None => (0, k)
        end
    | OpUserInfo r, Out (OUserInfo _) =>
        match lookup (ptok_id (u_tok r)) (k6_tok k) with
        | Some a => (if pop_fails (u_bind r) (ptok_id (u_tok r)) a then 2 else 0, k)
        | None => (0, k)
        end
    | OpTokenInfoReq r, Out (OIntro i) =>
        if negb (in_active i) then (0, k) else
        match lookup (ptok_id (u_tok r)) (k6_tok k) with
        | Some a => (if pop_fails (u_bind r) (ptok_id (u_tok r)) a then 2
                     else if negb (andb (ideq (in_jkt i) (bd_jkt a)) (ideq (in_x5t i) (bd_x5t a))) then 5 else 0, k)
        | None => (0, k)
        end
    | OpIntrospect r, Out (OIntro i) =>
        if negb (in_active i) then (0, k) else
        match lookup (ptok_exact (q_tok r)) (k6_tok k) with
        | Some a => (if negb (andb (ideq (in_jkt i) (bd_jkt a)) (ideq (in_x5t i) (bd_x5t a))) then 5 else 0, k)
        | None => (0, k)
        end
    | OpTokenInfo p, Out (OIntro i) =>
        if negb (in_active i) then (0, k) else
        match lookup (ptok_exact p) (k6_tok k) with
        | Some a => (if negb (andb (ideq (in_jkt i) (bd_jkt a)) (ideq (in_x5t i) (bd_x5t a))) then 5 else 0, k)
        | None => (0, k)
        end
    | _, _ => (0, k)
    end.

  Fixpoint drive6 (k : kn6) (n : nat) (ops : list op) (xs : list obs) : N :=
    match ops, xs with
    | o :: ops', x :: xs' =>
        match step6 k o x with
        | (0, k') => drive6 k' (S n) ops' xs'
        | (c, _) => viol c n
        end
    | _, _ => 0
    end.
End Step.

Definition case_client (c : syscase) (i : id) : option client :=
  match find_client i (sc_static c) with Some x => Some x | None => find_client i (sc_dyn c) end.

Definition mon_C06 (c : syscase) : N :=
  match build (sc_profile c) (sc_opts c) with
  | Some cfg => drive6 cfg (case_client c) kn6_0 0%nat (sc_ops c) (sc_obs c)
  | None => 0
  end.

(* the same predicate on the model's own trace (used to confirm that the monitor does not alarm
   on what the theorems are about) *)
Definition mon_C06_model (c : syscase) : N :=
  match case_world c with
  | Some w => drive6 (w_cfg w) (case_client c) kn6_0 0%nat (sc_ops c) (run w (sc_dyn c) (sc_ops c))
  | None => 0
  end.
