(* Corr/Run.v — what the harness-written case files call: run the model on the
   inputs the implementation ran on and compare the projected observations. *)
From Verif Require Import Base Scope Types Prog Pop Token Authorize System Config.
Local Open Scope N_scope.

Definition pair_eqb {A} (f : A -> A -> bool) (a b : option A) : bool :=
  match a, b with Some x, Some y => f x y | None, None => true | _, _ => false end.

(* error codes: strict=true compares every code; strict=false compares only the codes the
   properties name (invalid_client, authorization_pending, slow_down, expired_token,
   internal_error) and otherwise only "refused" *)
Definition named (e : ecode) : bool :=
  match e with EInvalidClient | EAuthPending | ESlowDown | EExpiredToken | EInternalError => true | _ => false end.
Definition is_other (e : ecode) : bool := match e with EOther => true | _ => false end.
(* a model answer EOther stands for "refused, with a code that depends on the bytes of a forgery" *)
Definition err_match (strict : bool) (a b : ecode) : bool :=
  if is_other a then true else
  if strict then ecode_eqb a b
  else if orb (named a) (named b) then ecode_eqb a b else true.

Definition near (a b : Z) : bool := andb (Z.leb (a - 2) b) (Z.leb b (a + 2)).

Definition nav_match strict (a b : nav) : bool :=
  andb (ideq (n_code a) (n_code b)) (andb (ideq (n_at a) (n_at b)) (andb (Bool.eqb (n_idt a) (n_idt b))
  (andb (seqb (n_state a) (n_state b)) (andb (pair_eqb (err_match strict) (n_err a) (n_err b)) (Bool.eqb (n_dpop a) (n_dpop b)))))).

Definition notif_eqb (a b : notif) : bool :=
  andb (ideq (nf_ep a) (nf_ep b)) (andb (ideq (nf_bearer a) (nf_bearer b)) (andb (ideq (nf_auth_req a) (nf_auth_req b))
  (andb (ideq (nf_at a) (nf_at b)) (andb (ideq (nf_rt a) (nf_rt b)) (andb (Bool.eqb (nf_err a) (nf_err b))
  (ad_list_eqb (nf_details a) (nf_details b))))))).
Fixpoint list_eqb {A} (f : A -> A -> bool) (a b : list A) : bool :=
  match a, b with [], [] => true | x :: a', y :: b' => andb (f x y) (list_eqb f a' b') | _, _ => false end.

(* model observation m (absolute times) against implementation observation i, in which
   in_exp is the remaining lifetime as the harness measured it *)
Definition obs_match (strict : bool) (now : Z) (m i : obs) : bool :=
  match m, i with
  | Out (OErr a), Out (OErr b) => err_match strict a b
  | Out (OTokens a), Out (OTokens b) =>
      andb (ideq (tr_at a) (tr_at b)) (andb (ideq (tr_rt a) (tr_rt b)) (andb (Bool.eqb (tr_idt a) (tr_idt b))
      (andb (seqb (tr_scope a) (tr_scope b)) (andb (Bool.eqb (tr_dpop a) (tr_dpop b))
      (andb (ideq (tr_jkt a) (tr_jkt b)) (andb (ideq (tr_x5t a) (tr_x5t b))
      (andb (res_eqb (tr_res a) (tr_res b)) (andb (res_eqb (tr_aud a) (tr_aud b))
      (andb (ad_list_eqb (tr_details a) (tr_details b)) (ad_list_eqb (tr_jwt_details a) (tr_jwt_details b)))))))))))
  | Out (OPar a), Out (OPar b) => ideq a b
  | Out (OCiba a x), Out (OCiba b y) => andb (ideq a b) (Bool.eqb x y)
  | Out (OIntro a), Out (OIntro b) =>
      if negb (in_active a) then negb (in_active b) else
      andb (in_active b) (andb (Bool.eqb (in_refresh a) (in_refresh b)) (andb (seqb (in_scope a) (in_scope b))
      (andb (ideq (in_client a) (in_client b)) (andb (seqb (in_sub a) (in_sub b))
      (andb (near (in_exp a - now) (in_exp b)) (andb (ideq (in_jkt a) (in_jkt b)) (andb (ideq (in_x5t a) (in_x5t b))
      (andb (res_eqb (in_aud a) (in_aud b)) (ad_list_eqb (in_details a) (in_details b))))))))))
  | Out OOk, Out OOk => true
  | Out (OUserInfo a), Out (OUserInfo b) => seqb a b
  | Out (ONav m1 t1 n1), Out (ONav m2 t2 n2) =>
      (* with no parameter at all the mode leaves no trace in the response *)
      let bare := andb (is_nil (n_code n1)) (andb (is_nil (n_at n1)) (andb (negb (n_idt n1))
                  (andb (is_empty (n_state n1)) (match n_err n1 with None => true | _ => false end)))) in
      andb (orb bare (seqb m1 m2)) (andb (seqb t1 t2) (nav_match strict n1 n2))
  | Out (OPage a), Out (OPage b) => ideq a b
  | Out OPanic, Out OPanic => true
  | Notified a l1, Notified b l2 => andb (Bool.eqb a b) (list_eqb notif_eqb l1 l2)
  | _, _ => false
  end.

(* the model's clock before each operation *)
Fixpoint nows (now : Z) (ops : list op) : list Z :=
  match ops with
  | [] => []
  | OpTick d :: r => now :: nows (now + d)%Z r
  | _ :: r => now :: nows now r
  end.

Record syscase := mkCase {
  sc_profile : profile;
  sc_opts : list opt;
  sc_static : list client;
  sc_dyn : list client;
  sc_ops : list op;
  sc_obs : list obs             (* what the implementation answered, projected by the harness *)
}.

Definition case_world (c : syscase) : option world :=
  match build (sc_profile c) (sc_opts c) with
  | Some cfg => Some (mkWorld cfg (sc_static c))
  | None => None
  end.

Fixpoint first_diff (strict : bool) (k : N) (ns : list Z) (m i : list obs) : N :=
  match ns, m, i with
  | now :: ns', x :: m', y :: i' => if obs_match strict now x y then first_diff strict (k + 1) ns' m' i' else k
  | [], [], [] => 0
  | _, _, _ => k
  end.

(* 0 = the model and the implementation agree on every operation; k = first disagreement at op k (1-based);
   2^30 = the option list does not build *)
Definition check_case (strict : bool) (c : syscase) : N :=
  match case_world c with
  | None => 2 ^ 30
  | Some w => first_diff strict 1 (nows 0%Z (sc_ops c)) (run w (sc_dyn c) (sc_ops c)) (sc_obs c)
  end.

Definition model_trace (c : syscase) : list obs :=
  match case_world c with None => [] | Some w => run w (sc_dyn c) (sc_ops c) end.
Definition model_trace_alias (c : syscase) : list obs :=
  match case_world c with None => [] | Some w => run_alias_trace w (sc_dyn c) (sc_ops c) end.

(* ---- function-level correspondence: clientutil.AreScopesAllowed, token.containsAllScopes ---- *)
Record scopecase := mkScopeCase { fc_client : string; fc_avail : list scope; fc_req : string; fc_allowed : bool;
                                  fc_granted : string; fc_contains : bool }.
Definition check_scope_case (c : scopecase) : N :=
  if negb (Bool.eqb (are_scopes_allowed (fc_client c) (fc_avail c) (fc_req c)) (fc_allowed c)) then 1
  else if negb (Bool.eqb (contains_all_scopes (fc_granted c) (fc_req c)) (fc_contains c)) then 2 else 0.
