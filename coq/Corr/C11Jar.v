(* Corr/C11Jar.v — what the c11jar case files call: the correspondence of requests that carry a
   request object through Model/RequiredJar.v (step_gj), and the C11 monitor for them: an artifact
   obtained although a required mechanism is missing from the parameter set the session must be
   built from - the signed object ALONE under a FAPI profile (clause 11), the object's parameters
   completed by the outer ones under the OpenID profile (the clauses of Corr/C11.v).
   The case record, the operations and the comparison are those of Corr/C07.v. *)
From Verif Require Import Base Scope Types Prog Pop Token Authorize System Config Required Run Jar JarSpec RequiredJar.
Require Import Verif.Corr.C07 Verif.Corr.C11.
Local Open Scope N_scope.

Definition gop_of (o : jop) : gop :=
  match o with
  | JAuthorize q => GAuthorize q
  | JPar r ob => GPar r ob
  | JBc r ob => GBc r ob
  | JBase o => GBase o
  end.

Definition gj_trace (c : jarcase) : list jobs :=
  match jcase_world c with
  | Some (w, jx) => map (fun xs => JObs (fst xs) (peek (snd xs) (fst xs))) (run_gj w jx [] (map gop_of (jk_ops c)))
  | None => []
  end.

(* 0 = agreement on every operation; k = first disagreement (1-based); 2^30 = options do not build *)
Definition check_gjcase (c : jarcase) : N :=
  match jcase_world c with
  | None => 2 ^ 30
  | Some _ => jfirst_diff 1 (jnows 0%Z (jk_ops c)) (gj_trace c) (jk_obs c)
  end.

(* ---- the monitor: inputs and the implementation's observations only ---- *)
Definition carried (j : jar_in) : option req_object :=
  match j with JValue o => Some o | JRef _ (Some o) => Some o | _ => None end.

(* clause numbers 1-10 as in Corr/C11.v;
   11 = under a FAPI profile an artifact was obtained through a request object although a required
        mechanism (PKCE, openid scope, the profile's response type / response mode / nonce rules) was
        not inside the signed object *)
(* the implicit flow: a token from /authorize can only be bound through dpop_jkt (clauses 7 / 9 of Corr/C11.v) *)
Definition binding_missing (cfg : config) (cl : list client) (i : id) (p : params) : N :=
  if andb (rt_contains (p_resp_type p) "token") (is_nil (p_dpop_jkt p)) then
    (if orb (cf_dpop_required cfg) (andb (cf_dpop_enabled cfg) (cflag cl i c_dpop_required)) then 7 else
     if cf_binding_required cfg then 9 else 0)
  else 0.
Definition source_missing (cfg : config) (cl : list client) (c : client) (p : params) : N :=
  match mech_missing cfg c p with 0 => binding_missing cfg cl (c_id c) p | k => k end.

(* what an observer of the history knows about pushed requests: (request_uri, the client /par answered it to) *)
Definition pushed_to (pushed_ : list (id * id)) (u i : id) : bool :=
  existsb (fun p => andb (ideq (fst p) u) (ideq (snd p) i)) pushed_.
Definition learn_C11J (pushed_ : list (id * id)) (o : jop) (x : jobs) : list (id * id) :=
  match x with JObs y _ =>
  match o, y with
  | JPar r _, Out (OPar u) => (u, cr_id (pr_cred r)) :: pushed_
  | JBase (OpPar r), Out (OPar u) => (u, cr_id (pr_cred r)) :: pushed_
  | _, _ => pushed_
  end end.

(* pushed requests required (server, or the client where the server has PAR enabled) *)
Definition par_required_for (cfg : config) (c : client) : bool :=
  andb (cf_par_enabled cfg) (orb (cf_par_required cfg) (c_par_required c)).
(* CIBA request objects required: by the server, or by the client's registered
   backchannel_authentication_request_signing_alg where the server has CIBA JAR enabled *)
Definition ciba_jar_required_for (cfg : config) (jcl : jclient) : bool :=
  andb (cf_ciba_jar_enabled cfg)
       (orb (cf_ciba_jar_required cfg) (match jc_ciba_alg jcl with Some _ => true | None => false end)).

(* clause 13 = pushed requests are required and an authorization request obtained an artifact with a request_uri
        that the pushed authorization endpoint did not hand to this client in this history: an https reference
        to a request object (JAR by reference), an unknown urn, another client's request_uri *)
Definition clause_C11J (cfg : config) (cl : list client) (jcls : list (id * jclient)) (pushed_ : list (id * id))
    (o : jop) (x : jobs) : N :=
  match x with JObs y _ =>
  if negb (obs_obtains y) then 0 else
  match o with
  | JAuthorize q =>
      let r := jq_req q in
      match reg_client cl (ar_client r) with
      | None => 0
      | Some c =>
        if andb (par_required_for cfg c) (is_ref (jq_jar q)) then 13 else
        if andb (par_required_for cfg c)
                (andb (negb (is_nil (p_request_uri (ar_params r))))
                      (negb (pushed_to pushed_ (p_request_uri (ar_params r)) (ar_client r)))) then 13 else
        if negb (is_nil (p_request_uri (ar_params r))) then 0 else
        if object_in_effect cfg c q then
          match carried (jq_jar q) with
          | Some ob =>
              if is_fapi (cf_profile cfg)
              then match source_missing cfg cl c (inside ob) with 0 => 0 | _ => 11 end
              else source_missing cfg cl c (session_source cfg (ar_params r) (contents ob))
          | None => 2
          end
        else clause_C11 cfg cl (OpAuthorize r) y
      end
  | JPar r ob =>
      match reg_client cl (cr_id (pr_cred r)) with
      | None => 0
      | Some c =>
        match ob with
        | Some ob' =>
            if should_use_jar_par cfg c true then
              if is_fapi (cf_profile cfg) then
                match mech_missing cfg c (inside ob') with
                | 0 => if andb (match cf_profile cfg with PFapi1 => true | _ => false end)
                               (andb (cf_pkce_enabled cfg) (pk_is_empty (p_challenge (inside ob')))) then 11 else 0
                | _ => 11 end
              else 0
            else clause_C11 cfg cl (OpPar r) y
        | None => clause_C11 cfg cl (OpPar r) y
        end
      end
  | JBc r None =>
      (* clause 3, with the per-client switch: the client registered a CIBA request signing algorithm *)
      if ciba_jar_required_for cfg (jclient_of jcls (cr_id (br_cred r))) then 3
      else clause_C11 cfg cl (OpBcAuthorize r) y
  | JBc r (Some ob) =>
      (* a signed backchannel request (its authenticity is C07's subject): the openid scope is read in the object
         when the object is in effect *)
      if should_use_jar_ciba cfg (jclient_of jcls (cr_id (br_cred r))) true then
        (if andb (cf_openid_required cfg) (negb (contains_openid (p_scopes (inside ob)))) then 5 else 0)
      else clause_C11 cfg cl (OpBcAuthorize r) y
  | JBase o' => clause_C11 cfg cl o' y
  end end.

Fixpoint drive_C11J (cfg : config) (cl : list client) (jcls : list (id * jclient)) (pushed_ : list (id * id))
    (k : nat) (ops : list jop) (xs : list jobs) : N :=
  match ops, xs with
  | o :: ops', x :: xs' =>
      match clause_C11J cfg cl jcls pushed_ o x with
      | 0 => drive_C11J cfg cl jcls (learn_C11J pushed_ o x) (S k) ops' xs'
      | c => c * 1000 + N.of_nat (S k)
      end
  | _, _ => 0
  end.

Definition mon_C11J (c : jarcase) : N :=
  match build (jk_profile c) (jk_opts c) with
  | Some cfg => drive_C11J cfg (jk_static c) (jk_jclients c) [] 0%nat (jk_ops c) (jk_obs c)
  | None => 0
  end.
