(* Corr/C11Jar.v — what the c11jar case files call: the correspondence of requests that carry a
   request object through Model/RequiredJar.v (step_gj), and the C11 monitor for them: an artifact
   obtained although a required mechanism is missing from the parameter set the session must be
   built from - the signed object ALONE under a FAPI profile (clause 11), the object's parameters
   completed by the outer ones under the OpenID profile (the clauses of Corr/C11.v).
   The case record, the operations and the comparison are those of Corr/C07.v. *)
From Verif Require Import Base Scope Types Prog Pop Token Authorize System Config Required Run Jar JarSpec RequiredJar.
Require Import Verif.Corr.C07 Verif.Corr.C11.
Local Open Scope N_scope.

(* the c11jar suite sends no request objects to /bc-authorize *)
Definition gop_of (o : jop) : gop :=
  match o with
  | JAuthorize q => GAuthorize q
  | JPar r ob => GPar r ob
  | JBc r _ => GBase (OpBcAuthorize r)
  | JBase o => GBase o
  end.

Definition gj_trace (c : jarcase) : list jobs :=
  match jcase_world c with
  | Some (w, jx) => map (fun xs => JObs (fst xs) (peek (snd xs) (fst xs))) (run_gj w jx [] (map gop_of (jk_ops c)))
  | None => []
  end.

(* 0 = agreement on every operation; k = first disagreement (1-based); 2^30 = options do not build *)
Definition check_gjcase (c : jarcase) : N :=
  match jcase_world c with
  | None => 2 ^ 30
  | Some _ => jfirst_diff 1 (jnows 0%Z (jk_ops c)) (gj_trace c) (jk_obs c)
  end.

(* ---- the monitor: inputs and the implementation's observations only ---- *)
Definition carried (j : jar_in) : option req_object :=
  match j with JValue o => Some o | JRef _ (Some o) => Some o | _ => None end.

(* clause numbers 1-10 as in Corr/C11.v;
   11 = under a FAPI profile an artifact was obtained through a request object although a required
        mechanism (PKCE, openid scope, the profile's response type / response mode / nonce rules) was
        not inside the signed object *)
(* the implicit flow: a token from /authorize can only be bound through dpop_jkt (clauses 7 / 9 of Corr/C11.v) *)
Definition binding_missing (cfg : config) (cl : list client) (i : id) (p : params) : N :=
  if andb (rt_contains (p_resp_type p) "token") (is_nil (p_dpop_jkt p)) then
    (if orb (cf_dpop_required cfg) (andb (cf_dpop_enabled cfg) (cflag cl i c_dpop_required)) then 7 else
     if cf_binding_required cfg then 9 else 0)
  else 0.
Definition source_missing (cfg : config) (cl : list client) (c : client) (p : params) : N :=
  match mech_missing cfg c p with 0 => binding_missing cfg cl (c_id c) p | k => k end.

Definition clause_C11J (cfg : config) (cl : list client) (o : jop) (x : jobs) : N :=
  match x with JObs y _ =>
  if negb (obs_obtains y) then 0 else
  match o with
  | JAuthorize q =>
      let r := jq_req q in
      match reg_client cl (ar_client r) with
      | None => 0
      | Some c =>
        if negb (is_nil (p_request_uri (ar_params r))) then 0 else
        if object_in_effect cfg c q then
          match carried (jq_jar q) with
          | Some ob =>
              if is_fapi (cf_profile cfg)
              then match source_missing cfg cl c (inside ob) with 0 => 0 | _ => 11 end
              else source_missing cfg cl c (session_source cfg (ar_params r) (contents ob))
          | None => 2
          end
        else clause_C11 cfg cl (OpAuthorize r) y
      end
  | JPar r ob =>
      match reg_client cl (cr_id (pr_cred r)) with
      | None => 0
      | Some c =>
        match ob with
        | Some ob' =>
            if should_use_jar_par cfg c true then
              if is_fapi (cf_profile cfg) then
                match mech_missing cfg c (inside ob') with
                | 0 => if andb (match cf_profile cfg with PFapi1 => true | _ => false end)
                               (andb (cf_pkce_enabled cfg) (pk_is_empty (p_challenge (inside ob')))) then 11 else 0
                | _ => 11 end
              else 0
            else clause_C11 cfg cl (OpPar r) y
        | None => clause_C11 cfg cl (OpPar r) y
        end
      end
  | JBc r _ => clause_C11 cfg cl (OpBcAuthorize r) y
  | JBase o' => clause_C11 cfg cl o' y
  end end.

Fixpoint drive_C11J (cfg : config) (cl : list client) (k : nat) (ops : list jop) (xs : list jobs) : N :=
  match ops, xs with
  | o :: ops', x :: xs' =>
      match clause_C11J cfg cl o x with
      | 0 => drive_C11J cfg cl (S k) ops' xs'
      | c => c * 1000 + N.of_nat (S k)
      end
  | _, _ => 0
  end.

Definition mon_C11J (c : jarcase) : N :=
  match build (jk_profile c) (jk_opts c) with
  | Some cfg => drive_C11J cfg (jk_static c) 0%nat (jk_ops c) (jk_obs c)
  | None => 0
  end.
