(* Corr/C13.v — the executable monitor of C13 on the implementation's trace: what the theorems
   handlers_never_panic and five_xx_only_embedder_* say, read off the projected observations. *)
From Verif Require Import Base Scope Types Prog Pop Token Authorize System Config Run Monitors Partial.
Local Open Scope N_scope.

Definition obs_panic (x : obs) : bool := match x with Out OPanic => true | _ => false end.
Definition obs_internal (x : obs) : bool := match x with Out o => is_internal o | _ => false end.
Definition is_pol_internal (p : pol_reply) : bool :=
  match p with PolFailWith EInternalError => true | _ => false end.
Definition hg_failed (h : hg_reply) : bool := match h with HgFail => true | _ => false end.
Definition ba_failed (b : ba_reply) : bool := match b with BaFail => true | _ => false end.

(* did the scripted embedder fail in this operation? *)
Definition embedder_failed (o : op) : bool :=
  match o with
  | OpToken GCiba r => orb (hg_failed (t_hg r)) (ba_failed (t_ba r))
  | OpToken _ r => hg_failed (t_hg r)
  | OpAuthorize r => is_pol_internal (ar_pol r)
  | OpCallback r => is_pol_internal (cb_pol r)
  | _ => false
  end.

(* clause 1: the handler panicked; clause 2: a 5xx / internal_error although no embedder reply
   failed (the harness injects no storage fault in these histories) *)
Definition clause_C13 (cfg : config) (kn : known) (now : Z) (o : op) (x : obs) : N :=
  if obs_panic x then 1 else
  if andb (obs_internal x) (negb (embedder_failed o)) then 2 else 0.
Definition mon_C13 := run_monitor clause_C13.
