(* Corr/C12.v — what the case files of suite c12 call.
   check_dcr_case: run the model (Model/Dcr.v) on the history the real provider was driven through and
     compare the projected observations; 0 = agreement, k = 1-based index of the first disagreement.
   mon_dcr_case: the property's own predicate evaluated on the implementation's observations alone
     (the model is not consulted); 0 = holds, else clause*1000 + 1-based index of the operation. *)
From Verif Require Import Base Types Dcr.
Local Open Scope N_scope.

Record dcase := mkDCase { dk_cfg : dcfg; dk_ops : list dcr_op; dk_obs : list dcr_obs }.

(* ---- correspondence ---- *)
Definition doc_sub (a b : doc) : bool :=
  forallb (fun kv => match dget (fst kv) b with Some v => jv_eqb (snd kv) v | None => false end) a.
(* same members with the same values (first occurrence of a key counts on either side) *)
Definition doc_equiv (a b : doc) : bool :=
  andb (forallb (fun k => match dget k a, dget k b with Some x, Some y => jv_eqb x y | _, _ => false end)
                (dkeys a ++ dkeys b)%list) true.

(* refusals are compared as refusals: the error code is not part of the projection unless strict *)
Definition dobs_match (strict : bool) (m i : dcr_obs) : bool :=
  match m, i with
  | DErr a, DErr b => if strict then ecode_eqb a b else true
  | DDoc c1 d1, DDoc c2 d2 => andb (Bool.eqb c1 c2) (doc_equiv d1 d2)
  | DDeleted, DDeleted => true
  | DTok a, DTok b => Bool.eqb a b
  | _, _ => false
  end.

Fixpoint first_diff (strict : bool) (k : nat) (ms is_ : list dcr_obs) : N :=
  match ms, is_ with
  | [], [] => 0
  | m :: ms', i :: is' => if dobs_match strict m i then first_diff strict (S k) ms' is' else N.of_nat (S k)
  | _, _ => N.of_nat (S k)
  end.

Definition check_dcr_case_gen (strict : bool) (c : dcase) : N :=
  first_diff strict 0 (snd (drun (dk_cfg c) (dk_ops c))) (dk_obs c).
Definition check_dcr_case : dcase -> N := check_dcr_case_gen false.
Definition check_dcr_case_strict : dcase -> N := check_dcr_case_gen true.
(* for debugging a disagreement: the model's observations *)
Definition model_obs (c : dcase) : list dcr_obs := snd (drun (dk_cfg c) (dk_ops c)).

(* ---- the monitor ---- *)
Definition viol (clause : N) (k : nat) : N := clause * 1000 + N.of_nat (S k).

(* what an observer of the responses knows about a registration *)
Record reg := mkReg {
  r_id : id;
  r_tok : id;              (* the registration token last reported for it *)
  r_old : list id;         (* tokens reported earlier and since replaced *)
  r_secret : id;           (* the secret last reported (0: none) *)
  r_doc : doc              (* the last registration / update response *)
}.
Fixpoint rfind (cid : id) (l : list reg) : option reg :=
  match l with [] => None | r :: t => if ideq cid (r_id r) then Some r else rfind cid t end.
Fixpoint rdel (cid : id) (l : list reg) : list reg :=
  match l with [] => [] | r :: t => if ideq cid (r_id r) then rdel cid t else r :: rdel cid t end.

Definition cred_of (k : string) (d : doc) : id := match dget k d with Some (JCred h) => h | _ => 0 end.
Definition meta_of_doc (d : doc) : meta := match unmarshal d with Some m => m | None => mkMeta [] [] end.

(* members a later read must give back: everything but the two secrets reported once *)
Definition readback_ok (reported read : doc) : bool :=
  andb (forallb (fun k => if orb (seqb k "client_secret") (seqb k "registration_access_token") then true
                          else match dget k reported, dget k read with
                               | Some x, Some y => jv_eqb x y | _, _ => false end)
                (dkeys reported ++ dkeys read)%list)
       (andb (negb (dhas "client_secret" read)) (negb (dhas "registration_access_token" read))).

(* clauses:
   1 a registration was read, updated or deleted without the token currently reported for it
   2 a replaced (rotated-out) registration token was still accepted
   3 the credentials in a registration/update response are not the freshly issued / current ones
   4 a reported credential does not work afterwards, or another one does
   5 a registration was accepted with a capability outside the server's enabled lists
   6 a read does not give back the metadata reported by the registration/update *)
Definition on_target (regs : list reg) (k : nat) (cid : id) (t : ptoken) (x : dcr_obs) (is_update : bool) : N :=
  match rfind cid regs with
  | None => if dcr_accepted x then viol 1 k else 0
  | Some r =>
      match t with
      | PTok h =>
          if dcr_accepted x then
            (if ideq h (r_tok r) then 0 else if memN h (r_old r) then viol 2 k else viol 1 k)
          else if andb (ideq h (r_tok r)) (andb (negb (is_nil h)) (negb is_update)) then viol 4 k else 0
      | _ => if dcr_accepted x then viol 1 k else 0
      end
  end.

Definition fresh_or_absent (k : string) (d : doc) (h : id) : bool :=
  match dget k d with None => true | Some v => jv_eqb v (JCred h) end.

Fixpoint mon_go (cfg : dcfg) (regs : list reg) (k : nat) (ops : list dcr_op) (obs : list dcr_obs) : N :=
  match ops, obs with
  | o :: ops', x :: obs' =>
      match o, x with
      | Create _ _, DDoc _ d =>
          let cid := mint k KClientId in
          if negb (andb (jv_eqb (match dget "client_id" d with Some v => v | None => JNull end) (JCred cid))
                  (andb (jv_eqb (match dget "registration_access_token" d with Some v => v | None => JNull end) (JCred (mint k KRegToken)))
                  (andb (jv_eqb (match dget "registration_client_uri" d with Some v => v | None => JNull end) (JRegUri cid))
                        (fresh_or_absent "client_secret" d (mint k KSecret)))))
          then viol 3 k
          else if negb (caps_ok_b cfg (meta_of_doc d)) then viol 5 k
          else mon_go cfg (mkReg cid (mint k KRegToken) [] (cred_of "client_secret" d) d :: regs) (S k) ops' obs'
      | Update cid t _ _, DDoc _ d =>
          match on_target regs k cid t x true with
          | 0 =>
              match rfind cid regs with
              | None => viol 1 k
              | Some r =>
                  if negb (andb (jv_eqb (match dget "client_id" d with Some v => v | None => JNull end) (JCred cid))
                          (andb (jv_eqb (match dget "registration_client_uri" d with Some v => v | None => JNull end) (JRegUri cid))
                          (andb (if d_rotation cfg
                                 then jv_eqb (match dget "registration_access_token" d with Some v => v | None => JNull end) (JCred (mint k KRegToken))
                                 else negb (dhas "registration_access_token" d))
                                (fresh_or_absent "client_secret" d (mint k KSecret)))))
                  then viol 3 k
                  else if negb (caps_ok_b cfg (meta_of_doc d)) then viol 5 k
                  else
                    let r' := if d_rotation cfg
                              then mkReg cid (mint k KRegToken) (r_tok r :: r_old r) (cred_of "client_secret" d) d
                              else mkReg cid (r_tok r) (r_old r) (cred_of "client_secret" d) d in
                    mon_go cfg (r' :: rdel cid regs) (S k) ops' obs'
              end
          | v => v
          end
      | Update cid t _ _, _ =>
          match on_target regs k cid t x true with 0 => mon_go cfg regs (S k) ops' obs' | v => v end
      | Read cid t, _ =>
          match on_target regs k cid t x false with
          | 0 =>
              match x, rfind cid regs with
              | DDoc _ d, Some r => if readback_ok (r_doc r) d then mon_go cfg regs (S k) ops' obs' else viol 6 k
              | _, _ => mon_go cfg regs (S k) ops' obs'
              end
          | v => v
          end
      | Delete cid t, _ =>
          match on_target regs k cid t x false with
          | 0 => mon_go cfg (if dcr_accepted x then rdel cid regs else regs) (S k) ops' obs'
          | v => v
          end
      | UseSecret cid s basic, DTok ok =>
          match rfind cid regs with
          | None => if ok then viol 4 k else mon_go cfg regs (S k) ops' obs'
          | Some r =>
              let m := meta_of_doc (r_doc r) in
              let meth := gstr "token_endpoint_auth_method" m in
              let should := andb (mem "client_credentials" (d_grants cfg))
                            (andb (mem "client_credentials" (glist "grant_types" m))
                            (andb (negb (is_nil s)) (andb (ideq s (r_secret r))
                                  (if basic then v_is meth "client_secret_basic" else v_is meth "client_secret_post")))) in
              if Bool.eqb ok should then mon_go cfg regs (S k) ops' obs' else viol 4 k
          end
      | _, _ => mon_go cfg regs (S k) ops' obs'
      end
  | _, _ => 0
  end.

Definition mon_dcr_case (c : dcase) : N := mon_go (dk_cfg c) [] 0 (dk_ops c) (dk_obs c).
