(* Corr/Phased.v - histories in two phases.  Between the phases the embedder changed client registrations
   (the provider was re-created with another static client list; stored clients were rewritten): sessions
   and grants persist, the clock goes on, server-minted names keep counting.  The model runs phase 1 from
   the initial state under the first world, then phase 2 from the resulting stores under the second. *)
From Verif Require Import Base Scope Types Prog Pop Token Authorize System Config Run Monitors.
Local Open Scope N_scope.

Definition check_case2 (strict : bool) (c1 c2 : syscase) : N :=
  match case_world c1, case_world c2 with
  | Some w1, Some w2 =>
      let '(st1, tr1) := run_from w1 (init_state (sc_dyn c1)) 0%nat (sc_ops c1) in
      match first_diff strict 1 (nows 0%Z (sc_ops c1)) tr1 (sc_obs c1) with
      | 0 =>
          let st1' := mkState (mkStore (sc_dyn c2) (st_asess (s_store st1)) (st_gsess (s_store st1))) (s_now st1) in
          let n1 := List.length (sc_ops c1) in
          match first_diff strict 1 (nows (s_now st1) (sc_ops c2)) (snd (run_from w2 st1' n1 (sc_ops c2))) (sc_obs c2) with
          | 0 => 0
          | k => N.of_nat n1 + k
          end
      | k => k
      end
  | _, _ => 2 ^ 30
  end.

(* the property monitors look at each phase with the registrations in force during that phase; a violation in
   phase 2 is reported at its position in the whole history *)
Definition mon2 (mon : syscase -> N) (c1 c2 : syscase) : N :=
  match mon c1 with
  | 0 => match mon c2 with
         | 0 => 0
         | v => (v / 1000) * 1000 + (v mod 1000 + N.of_nat (List.length (sc_ops c1)))
         end
  | v => v
  end.
