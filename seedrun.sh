#!/bin/bash
# seedrun.sh <verifdir> <pid> <i> <checks...> : apply /tmp/seedkeep2/<pid>/change<i>.diff in a scratch worktree and run checks of <verifdir> against it
export GOFLAGS=-mod=mod GOPROXY=off GOSUMDB=off GOTOOLCHAIN=local
V=$1; PID=$2; I=$3; shift 3
SRC=${SEEDSRC:-/tmp/seedkeep2}
WT=/tmp/wt/seedrun-$PID-$I
git -C /repo worktree remove --force $WT 2>/dev/null; rm -rf $WT
git -C /repo worktree add -q --detach $WT HEAD || exit 2
(cd $WT && git apply $SRC/$PID/change$I.diff) || echo PATCH FAILED
cd $V
for c in "$@"; do VERIF_REPO=$WT VERIF_SEED=${SEED:-1} timeout 1200 ./check $c quick 2>&1 | grep -v "^KNOWN-FINDING" | tail -${TAILN:-4}; done
git -C /repo worktree remove --force $WT; rm -rf $V/work/harness_*
