PROP = {'suites': ['c17'],
 'clauses': {1: 'a callback id through which an interaction had finished was accepted again',
             2: 'a request_uri that had started an authorization started another one',
             3: "the redirect URI or state of a navigation were not those of the request's own session",
             4: 'a callback was served (next page or navigation) after the session timeout counted from the /authorize request that started the interaction',
             5: 'an interaction was resumed through an identifier that was never handed to a policy (white space only, unknown)'},
 'title': 'Interactive sessions resume only via their live callback and never mix',
 'text': 'Theorems over the model: one_index (in every reachable state each stored session has exactly one of the four indexes), callback_live_only (a callback continues only for a non-empty id '
         'indexing a stored unexpired session), callback_dead_after_finish and request_uri_one_shot (over ALL histories), session_indexes_unique (every non-empty index identifies one session and was '
         'minted earlier). Correspondence: interleaved multi-step flows, ticks across the timeout, stale/foreign/unknown callbacks, PAR-started flows, compared with the model under both storage '
         'flavours; subject/scopes/state/nonce/redirect of every artifact are compared operation by operation. Deterministic scenarios (scenarioSessionDeadline): multi-step policies resumed inside '
         'the timeout and then past the deadline counted from the start, plain and PAR-started, with a control flow that must finish. The PAR-started deadline scenarios use a pushed-request lifetime '
         'three times the session timeout. Deterministic scenario scenarioBlankCallback: callback identifiers made of white space while sessions without a callback id (finished with a code, pushed, '
         'CIBA) are stored (clause 5).',
 'note': 'Theorems are about the hand-written model (coq/Model); the model is tied to the Go code by the correspondence runs only as far as the generators reach (counts in the evidence). Crypto, '
         "parsers and the clock are modelled (DESIGN.md section 8). session_isolation is shown through the correspondence (every artifact's session-derived values are compared with the model) and "
         'the index-uniqueness theorem, not as a separate ghost-state theorem.',
 'technique': 'Coq proof (rely/guarantee index discipline + ghost-state invariant by induction over operation histories; per-request decision rules by symbolic execution of the handler program) tied '
              "to the code by differential correspondence; the theorem's executable predicate is also evaluated on the implementation's traces",
 'design_ref': 'DESIGN.md section 6, C17'}
