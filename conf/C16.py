PROP = {'suites': ['c16'],
 'clauses': {1: 'an auth_req_id yielded tokens twice',
             2: 'tokens were handed to a client other than the one that initiated the backchannel request',
             3: "tokens were issued although the embedder's validation had not approved in that request",
             4: 'a client registered for push delivery obtained tokens by polling',
             5: "a ping/push notification was not addressed to the initiating client's endpoint with that request's client_notification_token",
             6: "an auth_req_id yielded tokens (poll or push delivery) after a terminal answer of the embedder's validation, or a failure notification delivered to a push client, had ended it",
             7: 'an auth_req_id yielded tokens (poll or push delivery) after its lifetime, counted from /bc-authorize, had elapsed',
             8: 'a request that had only received retryable answers (authorization_pending, slow_down) was no longer usable: the approving poll of the initiating client before expiry was refused',
             9: 'reporting a denial through the provider API delivered tokens'},
 'title': 'CIBA hands tokens once, to the initiating client, only after approval',
 'text': 'Theorems over the model: ciba_poll_bound (tokens only to the initiating client, unexpired, approved in this very request, never to a push client; session deleted), ciba_once (over ALL '
         'histories an auth_req_id yields tokens at most once, polling and push delivery together), ciba_pending_keeps, ciba_terminal_ends, ciba_notify_addressing, ciba_push_before_expiry. '
         'Correspondence: CIBA histories over poll/ping/push clients, scripted decisions, foreign pollers, ticks, notifications recorded by an in-process endpoint; deterministic scenarios '
         '(scenarioCibaDenialEnds): per delivery mode, denial first (failure notification / validation deny / validation fail / success), then every way of obtaining tokens for the same auth_req_id. '
         'Deterministic scenario scenarioCibaLifetime: per poll / ping client, runs of pending and slow_down polls, then approval before and after the lifetime (clauses 7, 8). ',
 'note': 'Theorems are about the hand-written model (coq/Model); the model is tied to the Go code by the correspondence runs only as far as the generators reach (counts in the evidence). Crypto, '
         'parsers and the clock are modelled (DESIGN.md section 8). ciba_once assumes the embedder calls the Notify API with non-empty ids (wf_op). Only login_hint is sent as hint; signed request '
         'objects at /bc-authorize are covered by C07. Round 4: `ciba_poll_bound` speaks of ba_approves (plain approval, or approval that fixes a narrower grant: BaNarrow); clause 3 uses the same predicate.',
 'technique': 'Coq proof (rely/guarantee index discipline + ghost-state invariant by induction over operation histories; per-request decision rules by symbolic execution of the handler program) tied '
              "to the code by differential correspondence; the theorem's executable predicate is also evaluated on the implementation's traces",
 'design_ref': 'DESIGN.md section 6, C16'}
