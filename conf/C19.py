PROP = {'suites': ['c19', 'c19lists', 'c19paths', 'c19dcr'],
 'clauses': {1: 'the discovery document advertises an endpoint that is not served at that URL under one of its methods',
             2: 'a route is served that the discovery document does not advertise at that URL (suite c19paths: an optional endpoint that is absent from the metadata answers at its overridden or '
                'default path, or an endpoint advertised at its overridden path also answers at the default path / outside the prefix; operation = number of the probe in Ops)',
             3: 'a capability that is not advertised (grant type, endpoint, response type, response mode, PKCE method - named in the authorization request, or applied at the token endpoint: a code '
                'whose request carried a challenge was redeemed although (challenge, verifier) is an exchange under no advertised method -, direct request under '
                'require_pushed_authorization_requests) was accepted',
             4: 'an advertised grant type was answered unsupported_grant_type, an advertised endpoint answered not found, or a code exchange under an advertised PKCE method (named, or left out when '
                'a single method is advertised) was refused while the same exchange naming the method succeeded',
             5: 'a client-authentication signing algorithm advertised for an endpoint (<endpoint>_auth_signing_alg_values_supported) was refused there (authn probe number = operation)',
             6: 'a JWT-based client authentication method is advertised for an endpoint (<endpoint>_auth_methods_supported) with no signing algorithm at all, and every assertion is refused there '
                '(authn probe number = operation)',
             7: 'an assertion signed with an algorithm that is not advertised for the endpoint (or is not the one the client registered) authenticated the client (authn probe number = operation)',
             8: 'a client registered for advertised encryption algorithms (<artifact>_encryption_alg/enc_values_supported) got an artifact that is not encrypted with them (artifact probe number = '
                'operation - 500)',
             9: 'no encryption algorithm is advertised for an artifact, or the client asked for none, yet it came encrypted (artifact probe number = operation - 500)',
             10: 'a client registered for an advertised signing algorithm got an artifact signed with another one (artifact probe number = operation - 500)',
             11: 'authorization_signing_alg_values_supported is advertised but the JWT response modes are refused (artifact probe number = operation - 500)',
             12: 'a JWT-secured authorization response was issued although authorization_signing_alg_values_supported is absent (artifact probe number = operation - 500)',
             13: 'dynamic client registration accepted (201) a value that the served discovery document does not advertise for that metadata member (suite c19dcr: registration probe number = '
                 'operation; the registration = the base registration of the history + the Pre settings + the varied member Var)',
             14: 'dynamic client registration refused (invalid_client_metadata) a value that the served discovery document advertises for that metadata member, in an otherwise valid registration '
                 '(registration probe number = operation)',
             15: 'a minimal registration within the advertised capabilities was refused, or the registration endpoint answered neither 201 nor 400 invalid_client_metadata (registration probe number '
                 '= operation)'},
 'title': 'Discovery metadata matches what the provider serves and accepts',
 'text': 'Model: Discovery.v gives the discovery document (every member of openIDConfiguration with its omitempty rule) and the route table of Provider.Handler() as functions of the configuration '
         'built by Config.build from the option list; Config2.v/Discovery2.v make the client-authentication METHOD lists of the token / introspection / revocation endpoints, the derived '
         'private_key_jwt / client_secret_jwt algorithm lists and every signing / key-encryption / content-encryption ALGORITHM list (ID token, userinfo, JAR, JARM, DPoP, CIBA request objects) '
         "inputs: build2 wraps Config.build with one constructor per list-taking option of option.go (appendIfNotIn, the refusals of 'none' / HS*, the rune loop that makes WithSecretJWTSignatureAlgs "
         'refuse everything) and the list side of setDefaults, and gives the 20 list members of the document with the guard under which oidcConfig assigns each and the run-time gates that read the '
         'same lists (clientAuthnSigAlgs, extractID + authnSigAlgs in front of jwt.ParseSigned, the Enc flags in MakeIDToken / userinfo / createJARMResponse). Theorems (Props/C19.v, 50, all closed): '
         'the 21 of the flag side (advertised_served / mtls_aliases_served / served_advertised, endpoint_flags_from_options, endpoint_enabled_advertised_and_served, '
         '<endpoint>_disabled_absent_and_refused for PAR, CIBA, introspection, revocation, DCR, grant_type_*, response_types_follow_grants, response_modes_follow_jarm, <response type|response '
         'mode|PKCE method>_not_advertised_refused, accepted_values_are_listed, binding_flags_match_behaviour, require_pushed_requests_enforced) and 11 about the lists: list_member_present_iff '
         '(every config2, every list member: present iff guard and non-empty list; element advertised iff guard and in the list; it is in document2), list_flags_from_options and '
         'list_values_from_options (for all option lists: each guard = existsb of its enabling options, each list = appendIfNotIn of the LAST option that writes it or the setDefaults default), '
         'enabled_list_members_present (an enabled list is never empty, so the member is present iff its guard holds - what an unguarded *_encryption_enc_values_supported violates), '
         'unguarded_list_members_present, advertised_jwt_method_has_algorithms (a JWT-based method advertised at endpoint E => the allowed-algorithm list for E is non-empty, an algorithm is '
         "advertised for E and an assertion signed with it is accepted - what skipping an endpoint's methods in setDefaults violates), advertised_auth_algorithm_accepted / "
         'accepted_auth_algorithm_advertised, advertised_encryption_is_applied / unadvertised_encryption_absent, refused_list_arguments. Correspondence: suite c19 (no option, every single option, '
         'all pairs of the 22 feature-enabling options, random larger subsets under the three profiles with random path prefixes: document member by member, every endpoint path under '
         'GET/POST(/PUT/DELETE), ~30 capability probes through the handler model) and suite c19lists (option lists over the list options: 2x2 of every list option with its enabling option, JWT-based '
         'methods at ONE endpoint only x the state of the other two endpoints x explicit / default algorithms, arguments the options refuse, random combinations; for each the REAL provider is built, '
         'the document is compared with document2 member by member, and the lists are PROBED: valid private_key_jwt / client_secret_jwt assertions signed with RS256, PS256, ES256, ES384 / HS256, '
         'HS384 at /token, /introspect and /revoke by clients registered with the method at exactly that endpoint (with and without a registered algorithm), and 10 clients registered with signing / '
         'key-encryption / content-encryption algorithms obtaining an ID token, a userinfo response and a JWT-secured authorization response, classified as absent / plain / signed(alg) / '
         'encrypted(alg, enc)); every answer is compared with the gates of Discovery2.v and the property is evaluated on the observations alone (mon_c19l: advertised algorithm accepted, advertised '
         'method has an accepted algorithm, non-advertised refused, advertised encryption applied, none advertised -> not encrypted), in Coq and - to name the metadata member and the probe in the '
         "VIOLATION - by the same rules in the harness (meta.Findings, signature c19lists:<member>:<verdict>). meta.json's input_distribution carries the covered option matrix. ENDPOINT PATH "
         'OVERRIDES: Routes.v makes the nine With...Endpoint options of option.go (jwks, token, authorize, par, dcr, userinfo, introspection, revocation, ciba; the well-known path has no option) '
         'inputs: popt = an option of Config.v or a path option with its argument, build3 = provider.New on the list in order (a path option assigns its Endpoint* field unconditionally and touches '
         'nothing else; setDefaults fills the default path where the field is empty - for dcr / par / introspection / revocation / ciba only under the feature flag), routes3 / serve3 = the route '
         'table of Provider.Handler() (pattern = METHOD prefix ++ path, each optional route under its *IsEnabled flag, the callback and registered-client sub-resources below EndpointAuthorize / '
         'EndpointDCR) and its dispatch, member3 = the endpoint members of oidcConfig (issuer ++ prefix ++ path, each optional member under the same flag) and mtls_endpoint_aliases. 9 theorems, for '
         'all option lists, paths and prefixes: route_served_iff_feature_enabled (a route with the handler of e is registered iff the flag of e is set, and the flag = existsb of the ENABLING options '
         '- path_options_enable_nothing: a With...Endpoint option enables nothing), endpoint_path_from_options (path = the LAST override, the default when none / empty, and only filled in when '
         'enabled), enabled_advertised_and_served_at_override (member = issuer ++ prefix ++ that path, routed there under every method, answered there when patterns do not overlap (routes_ok), and '
         'the handler answers NOWHERE else - not at the default path once overridden), disabled_absent_and_not_routed_under_overrides (every configuration record: member absent, no route with that '
         "handler, no request reaches it, a path free of the other endpoints' patterns gets the mux's 404), advertised_served_under_overrides, mtls_aliases_follow_overrides, "
         'served_advertised_under_overrides and dispatched_request_is_advertised (whatever a request is dispatched to is advertised at the requested URL); Examples in C19PathsProofs.v '
         '(WithPAREndpoint without WithPAR: no member, no route, nothing served at /custom/par or /par, with and without prefix; both orders when enabled; an empty last override gives the default '
         'back; all nine overridden at once satisfy routes_ok). Correspondence: suite c19paths - a DETERMINISTIC matrix, the same for every seed (365 lists: every endpoint x override {none, '
         '/custom/<e>, empty string, the default path} x feature {off, on} (always-on endpoints: on) x WithPathPrefix {no, /auth} x order {override after / before the enabling option, prefix first / '
         'last}; WithPARRequired; all 36 pairs of overrides x both features on / off / mixed x prefix; the same endpoint overridden twice (last wins, empty last, empty first, default last); all nine '
         'at once x features {all, none, alternating} x prefix x WithMTLS; mTLS x each override enabled / not enabled) plus random lists (40 quick, 2500 thorough: random enablers, 0-2 overrides per '
         'endpoint from {custom, alternative, empty, default, /<e>2}, random prefix, mTLS, shuffled). For each list the REAL provider is built with the options in that order, its document fetched, '
         'and the mux of Handler() probed with real requests (GET / POST, DCR also PUT / DELETE) at EVERY overridden path and EVERY default path, under the prefix and without it, plus the callback / '
         'registered-client sub-resources (~50-130 probes per list); a pushed-authorization path that answers gets a VALID pushed request with client credentials (201 + request_uri recorded). Case '
         'files run build3 / member3 / serve3 on the same list (corr: issuer, the nine endpoint members and the aliases object; served / not served of every probe; accepted / refused of every pushed '
         'request; routes_ok of the generated list) and evaluate on the observations alone (mon_c19p): clause 1 advertised URL served under every method of the endpoint, clause 2 every served probe '
         'is the advertised URL of a member (or below it for sub-resources), clause 3 / 4 a pushed request is accepted exactly at the advertised pushed_authorization_request_endpoint. The harness '
         'evaluates the same rule with the option list to name the member and the probe (meta.Findings, signatures c19paths:<endpoint>:served-but-not-enabled / served-not-advertised / '
         'served-at-default-despite-override / served-elsewhere-than-advertised / advertised-not-served / advertised-but-not-enabled / enabled-not-advertised, '
         'c19paths:par:push-accepted-elsewhere-than-advertised / advertised-push-refused). , stored_pkce_methods_advertised (in every reachable state the code_challenge_method recorded in a stored '
         'session is absent or advertised), pkce_exchange_only_under_advertised_method (over ALL histories the token endpoint completes a code exchange only under an advertised PKCE method - the '
         'named one or, for a challenge sent without method, the configured default, which is advertised), unadvertised_pkce_method_completes_no_exchange , among them every PKCE method END TO END - '
         'authorization request naming S256 / plain / an unknown method or leaving the method out with the challenge made for S256 or verbatim, then the redemption of the code with the pre-image and '
         'with the challenge string - under a matrix of PKCE method lists: each method alone, both with either default, optional and required DYNAMIC CLIENT REGISTRATION AS THE GATE OF THE LISTS: '
         'DcrGate.v is internal/dcr/validation.go `validate` over config2 - a registration is the record `reg` of the members of goidc.ClientMetaInfo the 35 validators read (what net/url, '
         'encoding/json and the HTTP client compute on URIs / the JWKS enters as the boolean or count the validator derives), every validator transcribed guard by guard in the Go order and reading '
         'the SAME list fields of Config2.lists / flags of Config.config that the document members of Discovery2.v read; `dmember` = the 21 string-valued members that are checked against a list '
         '(<endpoint>_endpoint_auth_method and _auth_signing_alg for token / introspection / revocation, id_token / userinfo / authorization _signed_response_alg, request_object_signing_alg, '
         'backchannel_authentication_request_signing_alg, the four _encrypted_response_alg / request_object_encryption_alg and the four _enc members, subject_type, backchannel_token_delivery_mode), '
         '`dlist` = grant_types / response_types / scope. 6 theorems (C19DcrProofs.v), the first five for EVERY config2, every member, value and otherwise valid registration (hypotheses: the value '
         'is non-empty, the registration with the member cleared passes validate, and side_ok - what else validation.go reads once the member is set: a JWKS and no registered signing algorithm next '
         'to a method, a key algorithm next to a content algorithm ...): dcr_alg_accepted_iff_advertised (validate of the registration with member m := v = true where the guard of the validator is '
         'off [`if !ctx.XIsEnabled { return nil }`, a signing algorithm next to a method that is not JWT-based, a delivery mode without the CIBA grant]; = v is ADVERTISED for m [l_advertised_in of '
         'the list member of document2; for an auth signing algorithm: the method is advertised for the endpoint and v is in the part of <endpoint>_auth_signing_alg_values_supported contributed by '
         "that method] where the document publishes the list; = v in the configured list where the validator is active under a wider guard than the document's), "
         'dcr_alg_accepted_iff_advertised_when_published, dcr_alg_accepted_iff_advertised_unguarded (id_token_signed_response_alg / userinfo_signed_response_alg / token_endpoint_auth_method: '
         'accepted iff in the list of THAT member - what checking userinfo_signed_response_alg against the ID token list violates; Example ex_dcr_userinfo_alg: ID token {RS256, PS256}, userinfo '
         '{RS256, ES256}, JARM {RS256, PS384} - userinfo ES256 accepted and PS256 refused, the seeded validator answers the opposite on both), dcr_alg_of_disabled_feature_accepted, '
         'dcr_listed_value_accepted_iff_advertised (adding a grant type / response type / scope), and for ALL option lists dcr_unpublished_acceptance (the validator active but the list not published '
         'accepts something ONLY for request_object_encryption_alg/enc with WithJAREncryption but no WithJAR and for backchannel_authentication_request_signing_alg with WithCIBAJAR but no '
         'WithCIBAGrant; Example ex_jar_enc_without_jar_builds). Correspondence: suite c19dcr - a DETERMINISTIC matrix, the same for every seed (23 option lists with WithDCR: 6 rotations in which '
         'every signing / key-encryption / content-encryption list = the shared value + ONE value no other list has [ID token, userinfo, JAR, JARM, CIBA request objects, private_key_jwt; the four '
         'key and four content lists], which value goes to which list and whether it is the default argument rotating, and the six non-`none` authentication methods split over the token / '
         'introspection / revocation lists; 16 variants with one feature or list option dropped [JAR without / with its encryption option, JARM, each encryption, CIBA, CIBA JAR, introspection, '
         'revocation, no userinfo / private_key_jwt / ID token / token-method option, default content algorithms, everything optional off]; WithDCR alone) plus random sub-lists of the universes (6 '
         'quick, 260 thorough). For each the REAL provider is built (the JWKS holds a key for every signing algorithm of the universe), the served document fetched and ~130-150 REAL registrations '
         'POSTed to the advertised registration_endpoint: a minimal valid document (token method `none` if advertised) + the side conditions + each value of the universe in ONE member; the answer is '
         '201 / 400 invalid_client_metadata / other. The clients accepted with a signing or (decryptable) encryption algorithm obtain the artifact (ID token and userinfo through the implicit flow, '
         'JWT-secured authorization response) with the machinery of c19lists. Case files: check_c19d = check_c19l (document member by member, artifacts against artifact_expected) + dcr_validate on '
         'build2 of the same option list for every registration (corr 50000+i); mon_c19d evaluates the property on the observations alone (clauses 13-15: accepted iff the value is in the list the '
         "SERVED document publishes for that member; for an auth signing algorithm: the method advertised and the algorithm in its family of the endpoint's list; artifacts: clauses 8-12). The "
         'harness evaluates the same rule to name member, value and configuration (meta.Findings, one per signature: c19dcr:<metadata member>:accepted-not-advertised / advertised-refused / '
         'unexpected-answer / artifact-uses-other-alg / artifact-alg-not-advertised, c19dcr:registration:minimal-registration-refused).',
 'note': 'Endpoint path overrides are options of the model in suite c19paths / Routes.v only (suites c19 and c19lists keep the default paths); there the non-endpoint members of the document are not '
         'compared (c19 / c19lists do) and the profile is openid. Out of the scope of c19paths, explicitly: (a) override paths that make the patterns of two endpoints overlap (two endpoints given '
         'the same path, a path below EndpointAuthorize/ or EndpointDCR/): ServeMux panics on conflicting registrations at Handler() or prefers the more specific pattern where the model takes the '
         'first match - routes_ok is the stated hypothesis of the serve3 theorems, the generator produces only lists that satisfy it and corr = 40000 would flag a generated list that does not; (b) '
         "paths that are not well-formed ServeMux paths (no leading slash, a trailing slash = subtree pattern, braces = wildcards): the embedder's strings are passed to ServeMux verbatim, the model "
         'reads them as literal paths; (c) the mTLS aliases are compared with the model but not probed (same mux, another host). Subject types, claim types, CIBA delivery modes, ACRs, display '
         'values, claims and authorization-detail types stay constants of the harness. The list options are varied in suite c19lists only (fixed grants: authorization_code, implicit, '
         "client_credentials; profile openid); suite c19 keeps the harness's fixed lists. JAR / DPoP / CIBA-JAR signing algorithm lists and the JAR encryption lists are compared in the document and "
         'covered by the theorems but not probed with signed request objects / proofs (C07 / C06 probe those with the fixed ES256). The DCR gate that reads the same lists is modelled here as the '
         "validation function alone (DcrGate.v over config2; C12's Dcr.v models the whole registration API - documents, storage, tokens - over a record of its own); update (PUT) runs the same "
         'validate and is not probed here; the jwt-bearer grant is probed on the Go side only. advertised_accepted is proved as a theorem for endpoints (routing), for client_credentials, for '
         'client-authentication algorithms and for encryption; for response types/modes/PKCE methods the theorem is that the gate consults exactly the advertised list (accepted_values_are_listed) '
         'and acceptance of whole flows is shown by the correspondence runs. Not flagged, reported: (1) userinfo is only encrypted for clients that also asked for a SIGNED userinfo response, and '
         'there is no default userinfo signing algorithm (WithUserInfoEncryption without WithUserInfoSignatureAlgs advertises userinfo_encryption_alg_values_supported that no registration accepted '
         'by DCR can use); (2) a client with authorization_signed_response_alg gets every authorization response, errors included, as a signed JWT even when JARM is disabled and '
         'authorization_signing_alg_values_supported is absent (DCR accepts that registration when JARM is disabled); (3) WithSecretJWTSignatureAlgs refuses every argument, so client_secret_jwt can '
         'only use the default HS256. (4) NOT FLAGGED in suite c19dcr, reported: validation.go skips a validator when its feature is disabled (`if !ctx.XIsEnabled { return nil }`), so a registration '
         'asking for a capability that is NOT enabled and NOT advertised is accepted (201) and the member is silently ignored at run time (but for (2)): request_object_signing_alg without WithJAR, '
         'request_object_encryption_alg/enc without WithJAREncryption, authorization_signed_response_alg / authorization_encrypted_response_alg/enc without WithJARM, '
         'id_token_encrypted_response_alg/enc without WithIDTokenEncryption (the ID token then comes unencrypted), userinfo_encrypted_response_alg/enc without WithUserInfoEncryption, '
         "backchannel_authentication_request_signing_alg without WithCIBAJAR - any value, e.g. ECDH-ES+A128KW / PS512, against a provider built with WithDCR alone; and where the validator's guard is "
         "wider than the document's the value is checked against a list nobody can read: WithJAREncryption(RSA-OAEP) without WithJAR accepts request_object_encryption_alg=RSA-OAEP and refuses "
         'RSA-OAEP-256 while request_object_encryption_alg_values_supported is absent, WithCIBAJAR(PS256) without WithCIBAGrant accepts backchannel_authentication_request_signing_alg=PS256 and '
         'refuses ES256 while the member is absent. The monitor and the harness give no verdict for exactly these (member, condition) pairs: the condition is the ABSENCE from the served document of '
         "the member's list (for the JARM encryption members: of authorization_signing_alg_values_supported, the validator being guarded by JARMIsEnabled); the model (dcr_checked / doc_publishes) "
         'and the correspondence still cover them. Also not judged: a <endpoint>_endpoint_auth_signing_alg next to a method that is not JWT-based (never read, accepted whatever it is), and a content '
         'algorithm next to a key algorithm that is not advertised. A registration probe that carries side conditions (Pre) is blamed on its varied member even when a Pre member is the one refused '
         '(seen with the seeded userinfo regression: userinfo_encrypted_response_alg advertised-refused because of the userinfo_signed_response_alg next to it). subject_types_supported, '
         'backchannel_token_delivery_modes_supported and the absence of WithAuthorizationDetails are constants of the harness. in the handler model (an advertised jwt-bearer grant answered '
         'unsupported_grant_type is clause 4 like every other grant), its',
 'technique': 'Coq proof (decision rules over all configurations / option lists; route-table case analysis) tied to the code by differential correspondence on generated configurations',
 'design_ref': 'DESIGN.md section 6, C19'}
