PROP = {'suites': ['c11', 'c11jar'],
 'clauses': {1: 'an authorization request without request_uri obtained an artifact although pushed requests are required (server or client)',
             2: 'a request without request object obtained an artifact although signed request objects are required (server or client)',
             3: 'a backchannel request without request object obtained an auth_req_id although CIBA request objects are required (by the server, or - where the server has CIBA JAR enabled - by the '
                "client's registered backchannel_authentication_request_signing_alg)",
             4: 'an authorization request without code_challenge obtained an artifact although PKCE is required (server, or PKCE enabled and public client)',
             5: 'a request without the openid scope obtained an artifact although the openid scope is required',
             6: 'an authorization request without resource obtained an artifact although resource indicators are required',
             7: 'an access token was obtained without a DPoP proof / dpop_jkt although DPoP is required (server or client)',
             8: 'an access token was obtained without client certificate although certificate-bound tokens are required (server or client)',
             9: 'an access token was obtained without any sender-constraining mechanism although token binding is required',
             10: "an authorization request outside the selected FAPI profile's response type / response mode / nonce rules obtained an artifact",
             11: "under a FAPI profile an artifact was obtained through a request object although a required mechanism (PKCE, openid scope, the profile's response type / response mode / nonce rules, "
                 'dpop_jkt) was not inside the signed object',
             12: 'PKCE is required (server, or enabled and public client) yet a code was redeemed for tokens without a code_verifier that matches the recorded code_challenge under an ENABLED method '
                 '(downgrade to a disabled method, e.g. a challenge sent without code_challenge_method redeemed with the challenge string itself when only S256 is enabled; or no verification at all)',
             13: 'pushed authorization requests are required (server or client) yet an authorization request obtained an artifact with a request_uri that the pushed authorization endpoint did not '
                 "hand to this client: an https request_uri referencing a request object (JAR by reference), a urn nobody pushed, another client's request_uri"},
 'title': 'Mechanisms configured as required cannot be bypassed',
 'text': 'Theorems (Props/C11.v, 42, all closed) over Config.build for ALL option lists and over the handler models for all states and requests: required_options_set_flags (every With...Required '
         'option sets its required flag and enables the mechanism, whatever else is in the list - by induction over the option list, one monotonicity lemma per field; validate guarantees a mechanism '
         'under WithTokenBindingRequired); one ..._enforced theorem per switch and per-client counterpart: PAR (server, client), JAR (server, client, at /authorize and /par), CIBA JAR, PKCE (server, '
         'public clients; pkce_no_downgrade_at_token_endpoint: over ALL histories a code whose session recorded a challenge is redeemed only with a verifier matching it under an ENABLED method - the '
         'named one or the server default, which pkce_default_is_enabled shows enabled - so a challenge sent without code_challenge_method cannot be redeemed with the challenge string when only S256 '
         'is enabled), openid scope (/authorize, /bc-authorize), resource indicators, FAPI 1 (response types, jwt mode for code, nonce) and FAPI 2 (code only), DPoP (server, client), certificate '
         'binding (server, client), some-binding at the token endpoint for client_credentials / authorization_code / CIBA, the implicit flow under DPoP/binding required, and the refresh rule (a '
         'bound grant is not refreshed without proof/certificate). Correspondence (suite c11): every switch alone under the three profiles and random pairs (thorough: all pairs, 600 triples) x ~150 '
         'bypass probes (mechanism omitted ENTIRELY - no scope parameter at all, no code_challenge, no nonce, no proof -, non-required variant, PKCE downgrades: code_challenge with the method left '
         'out or named, made for S256 or verbatim, redeemed with the pre-image / the challenge string itself / a wrong verifier / none, with S256 the only enabled method, both methods, plain as '
         'default; outer-only parameters after PAR, a mechanism missing from BOTH the pushed and the outer parameters, broken DPoP proof, other client classes) on the REAL provider; the same '
         "operations are evaluated by the model and the monitor mon_C11e (Corr/C11.v mon_C11 = the theorems' hypotheses as an executable predicate, plus Corr/C11Eff.v: the same clauses on the "
         'EFFECTIVE parameters of a request that redeems a request_uri, and clause 12 at the token endpoint) is evaluated on the real answers. PAR REQUIRED IN THE PRESENCE OF REQUEST OBJECTS '
         "(Proofs/C11JarPar.v, on step_gj = Model/Jar.v's JAR-aware handlers): par_required_enforced_jar (every state, every request - plain, object by value, https request_uri REFERENCING a signed "
         'object, urn - and every JAR configuration: under PAR required by the server or by every registration of the client an answer that hands out anything implies that request_uri names a STORED '
         'pushed session of that client that has not expired), par_required_option_enforced_jar (the same from WithPARRequired in the option list), par_required_blocks_unpushed; THE CLIENT-LEVEL '
         'CIBA JAR SWITCH: client_ciba_jar_required_enforced (CIBA JAR enabled on the server and the client registered a CIBA request signing algorithm: a backchannel request without object obtains '
         'nothing, every state), ciba_jar_required_enforced_jar (server switch on the same handler), ciba_jar_switch_is_the_ciba_alg (request_object_signing_alg plays no part); Examples in '
         'Proofs/C11JarParExamples.v. Suite c11jar, block 1: PAR required by the server / by the client x JAR optional / required x JAR by reference on / off x three profiles x {plain request, '
         "object by value, object by reference over https (served by the harness's round tripper, never pushed) / over http / unfetchable, a genuine pushed request_uri redeemed, its code at /token, "
         'the same request_uri again, a request_uri pushed by the other client, a urn nobody pushed, a pushed request_uri together with an object, the three direct forms sent by the client not bound '
         'to PAR}; block 2: CIBA JAR {off, enabled, required} x the backchannel client registered with {no algorithm, only request_object_signing_alg, only '
         'backchannel_authentication_request_signing_alg, both} x {plain, signed, plain} x three profiles; monitor mon_C11J clauses 1, 13 and 3 (the monitor learns from the history which '
         "request_uris /par handed to whom). Requests that CARRY a request object (suite c11jar, Model/RequiredJar.v step_gj = Model/Jar.v's init_auth_jar / push_auth_jar in front of the C11 "
         "handlers): jar_session_built_from_validated_source (the parameters handed to the session are exactly session_source - the object's alone under FAPI, the object's completed by the outer "
         "ones otherwise - and they passed validate_params), fapi_session_from_object (under FAPI the session's code_challenge and nonce are the OBJECT's), object_request_validated / "
         'pushed_object_validated (handler level, all states), hence pkce_required_enforced_jar, pkce_required_enforced_par_jar, openid_required_enforced_jar, fapi1_enforced_jar, fapi2_enforced_jar '
         "(the mechanism must be INSIDE the signed object under FAPI; a copy outside does not help), mech_missing_reading_sound + fapi_object_carries_required_mechanisms (what the monitor's clause "
         '11 flags cannot happen in the model). Suite c11jar: three profiles x every required mechanism carried by the authorization parameters (PKCE S256/plain, openid scope, nonce, response type, '
         'response mode, dpop_jkt for the implicit flow) x {/authorize by value, /authorize by reference, /par then /authorize} x JAR optional/required x six placements (inside only, outside only, '
         'both, neither, inside with nothing outside, outside alone), every code redeemed without code_verifier; correspondence including the parameters of the stored session, monitor mon_C11J. The '
         'probes also send: a plain request and an empty request while a session whose request_uri is already consumed is stored (PAR required must still refuse them); the implicit flow with the '
         'response type only inside the pushed request and no openid scope, with and without dpop_jkt (an unbound token from the authorization endpoint is read off the response: clauses 7 / 9 apply '
         'to every form of request).',
 'note': "Request objects: the switches JAR required / CIBA JAR required are proved as 'a request lacking the object is refused' (step_g); requests carrying an object are modelled for /authorize, "
         "/par and /bc-authorize (step_gj; authenticity of the object is C07's subject). The c11 suite's own model (Required.v step_g) knows no per-client CIBA algorithm: that switch is probed in "
         'c11jar. jwt-bearer client authentication: flag only (the grant has no handler model). Resource indicators: resource_required_enforced says that under the switch no authorization request '
         'WITHOUT a `resource` parameter is served (requests with resources are modelled since the sys model gained resource indicators; the c11 probes themselves never send one). Requests that '
         'redeem a request_uri: the enforced theorems are stated for direct requests; pushed requests are covered by the correspondence probes (PAR then /authorize with outer parameters only, or '
         'with the mechanism in neither) and by the monitor on the effective (pushed, or pushed+outer) parameters. Under the OpenID profile POST /par validates the pushed parameters only as '
         'optionals, so a request_uri can be obtained without code_challenge / openid; the complete check happens at /authorize on the merged parameters (probed). , so the sender-constraining '
         'theorems quantify over it too - a requirement of the server binds the anonymous request as well; a requirement registered for a client binds the requests naming that client (hypothesis `g '
         '= GJwtBearer -> cr_id <> 0 \\/ cf_jwt_bearer_authn_required = true` of client_dpop_required_enforced / client_tls_required_enforced: the anonymous client has no registration); '
         'WithJWTBearerGrantClientAuthnRequired itself: the flag here, its enforcement in Props/C01.v jwt_bearer_anonymous_only_when_allowed',
 'technique': 'Coq proof (monotone configuration flags by induction over option lists; guard-by-guard case analysis of the handler programs, quantified over all storage replies) tied to the code by '
              'differential correspondence on generated configurations x bypass probes',
 'design_ref': 'DESIGN.md section 6, C11'}
