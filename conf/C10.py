PROP = {'suites': ['c10', 'c10near'],
 'clauses': {1: 'with rotation, a refresh token that had already been used was accepted again',
             2: 'a refresh token was accepted from a client other than the one it was issued to',
             3: 'a refresh widened the scopes beyond the original grant',
             4: 'the absolute expiry of a grant (as introspection of its refresh token reports it) moved',
             5: 'with rotation, a refresh response carried no replacement refresh token',
             6: 'a refresh token was accepted after the absolute expiry fixed when the grant was created',
             7: 'a refresh widened the resources (aud) beyond the original grant',
             8: "an access token issued under a grant was still reported live after the owning client's refresh had been refused past the grant's absolute expiry (the expired grant was not removed)",
             9: 'a refresh of the owning client naming only resources of the original grant was refused as invalid_target (the grant can no longer return to its full extent)',
             10: 'a refresh widened the authorization details: the refreshed token (response member, JWT claim) or what introspection reports afterwards carries a detail of an unsupported type or '
                 'outside what the embedder granted to the grant',
             11: 'a refresh that named no authorization details did not return to the full grant: the response does not carry exactly the granted details'},
 'title': 'Refresh tokens are client-bound, never widen or extend the grant, and rotate',
 'text': 'Theorems over the model: refresh_bound (for every store and refresh that yields tokens: token indexes a grant of the authenticated client, absolute expiry not passed and NOT moved, '
         'requested scopes within the original grant whose granted set is unchanged, same grant id re-saved, replacement token in the response under rotation), refresh_never_widens_resources (the '
         "granted resources are untouched and the refreshed token's resources stay within them), refresh_never_widens_details (the granted authorization details are untouched; what the refreshed "
         'token carries passed the all-of type check and the embedder compare function against the granted list - with the subset function it stays within the granted details; the response reports '
         'exactly the stored active details), rotation_one_shot (over ALL histories a used refresh token is never accepted again under rotation), expired_refresh_removed, refresh_index_unique. '
         'Correspondence: refresh chains with sub/supersets of scopes and resources, foreign clients, ticks to and beyond expiry, rotation on/off, grants from code and CIBA, introspection of refresh '
         "tokens (remaining lifetime compared with the model within 2 s). The embedder's ShouldIssueRefreshTokenFunc is part of the model (issue_pol: never / always / only while offline_access is "
         'active / only for the authorization_code grant; option WithRefreshTokenGrantPol) and of the generated worlds; rotation_independent_of_issue_policy: the refresh handler is the same program '
         'under every such function. Deterministic scenarios: scenarioRotationPolicy (each policy x rotation on/off, refreshes that keep and drop offline_access, replay of every used token), '
         'scenarioGrantedSubset (owner grants a strict subset of requested scopes and resources, code / CIBA poll / CIBA ping, then a refresh chain naming nothing, the denied scope, the denied '
         'resource). scenarioAuthDetailsMatrix (RFC 9396: refresh chains naming subsets, supersets, mixed supported/unsupported lists, `[]` and nothing, for grants from authorization_code, CIBA '
         'poll/ping/push and jwt-bearer, under every compare function). Deterministic scenario scenarioExpiredGrantRemoved: the access token outlives the grant; after the refused refresh it must be '
         'dead at introspection, userinfo and TokenInfo (clause 8). Deterministic scenario scenarioReturnToFullGrant: a grant over three resources narrowed to every non-empty subset in turn (prefix '
         'and non-prefix, every order), each followed by refreshes for every single original resource and for nothing (clause 9).',
 'note': 'Grants created by jwt-bearer (with a refresh token: only for an authenticated client registered for refresh_token, never the anonymous client - Props/C04.v jwt_bearer_within_client) enter '
         'the refresh chains of the model and of suite c10 like those of authorization_code and CIBA. Theorems are about the hand-written model (coq/Model); the model is tied to the Go code by the '
         'correspondence runs only as far as the generators reach (counts in the evidence). Crypto, parsers and the clock are modelled (DESIGN.md section 8). Resource indicators and authorization '
         'details (RFC 9396, abstractly: type + opaque payload id, compare function as one of four shapes) are in the model.',
 'technique': 'Coq proof (rely/guarantee index discipline + ghost-state invariant by induction over operation histories; per-request decision rules by symbolic execution of the handler program) tied '
              "to the code by differential correspondence; the theorem's executable predicate is also evaluated on the implementation's traces",
 'design_ref': 'DESIGN.md section 6, C10'}
