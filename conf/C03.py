PROP = {'suites': ['c03'],
 'clauses': {1: 'a token request succeeded on a code that had already been redeemed',
             2: 'a code was redeemed by a client other than the one it was issued to',
             3: 'a code was redeemed with a redirect_uri other than the one of its authorization request',
             4: 'a code was redeemed after its 60 s lifetime had elapsed',
             5: 'PKCE is enabled and the authorization request recorded a code_challenge, yet the code was redeemed without a code_verifier that matches it under the effective method (the method '
                'named in the request, else the server default)',
             6: 'tokens were issued for a token request whose code this server never handed out (empty or unknown)'},
 'title': 'Authorization codes are single-use, client-bound, redirect-bound and short-lived',
 'text': 'Theorems over the model: code_at_most_once (over ALL histories of any length, configuration and interleaving, no token request succeeds on a consumed code: ghost-state invariant on top of '
         'the index-uniqueness/freshness discipline proved for every handler), code_redemption_bound (for every store and request, tokens only if the code indexes a stored session of the '
         'authenticated client, unexpired, with equal redirect_uri and a passed PKCE check, and the session is deleted), code_client_authenticated, code_pkce, code_pkce_effective_method (for every '
         'store and request: a code whose session recorded a challenge yields tokens only with a verifier matching it under the EFFECTIVE method - the one the authorization request named, else, for '
         'a code_challenge sent WITHOUT code_challenge_method, the configured default; with S256 as default the challenge string itself is never an acceptable verifier), code_index_unique, '
         'replay_kills_issue (in every reachable state a later authenticated presentation is refused and no stored grant carries the code afterwards) and code_carried_by_one_grant (invariant over '
         'ALL histories: a code is carried by at most one grant and by none while a session holds it). Correspondence: a deterministic PKCE matrix (PKCE off / S256 only / plain only / both with '
         'either default / required, x challenge forms: method named S256 or plain, method left out with the challenge made for S256 or verbatim, no challenge, x verifiers: pre-image, the challenge '
         'string itself, wrong, too short, absent; direct and through a pushed request) and generated histories (authorize/callback/redeem by right and wrong client, wrong/absent redirect_uri and '
         'verifier, ticks across the code lifetime, replays, later use of the tokens) are executed on the real provider under copying and aliasing storage and compared operation by operation with '
         'the model; the monitor (once_from = the predicate of code_at_most_once, client binding, code lifetime, tokens dead after replay; and, following each code back to the parameters of the '
         'request that obtained it - direct, pushed+outer, or through callbacks -, redirect_uri binding and pkce_matches = the predicate of code_pkce_effective_method) runs on the implementation '
         'traces. Deterministic scenarios scenarioRedirectMatrix (every registered redirect URI of a client with three, each with its one-detail near misses - trailing slash added / removed, case, '
         'port, scheme, userinfo, percent-encoding, query, fragment, path suffix -; every code redeemed naming each OTHER registered URI, a near miss, nothing, then the right one) and '
         'scenarioEmptyCode (token requests with an empty / unknown code while an interaction in progress, a pushed request, a CIBA request and a client_credentials grant are stored).',
 'note': 'Theorems are about the hand-written model (coq/Model); the model is tied to the Go code by the correspondence runs only as far as the generators reach (counts in the evidence). Crypto, '
         'parsers and the clock are modelled (DESIGN.md section 8).',
 'technique': 'Coq proof (rely/guarantee index discipline + ghost-state invariant by induction over operation histories; per-request decision rules by symbolic execution of the handler program) tied '
              "to the code by differential correspondence; the theorem's executable predicate is also evaluated on the implementation's traces",
 'design_ref': 'DESIGN.md section 6, C03'}
