PROP = {'suites': ['c01'],
 'replay_suite': 'c01',
 'clauses': {1: 'a request was served on behalf of a client without a valid credential of the method registered for that client and endpoint',
             2: 'a request carrying a genuinely valid credential of the registered method was refused',
             3: 'a refused request was not answered invalid_client, or carried an artifact, or was preceded by a storage write / left the store changed'},
 'title': 'Client authentication is sound on every client-authenticated endpoint',
 'text': 'Theorems over the hand-written model of clientutil.Authenticated (Model/Authn.v: extractID with its three answers none / one id / conflict, per-endpoint method and algorithm selection, the '
         'seven methods, areClaimsValid, JWKS by value / jwks_uri, certificate matching; symbolic crypto) against an independently written declarative specification valid_credential '
         '(Model/AuthnSpec.v): authn_sound (for all configurations, contexts, client lists and request records an authenticated client is the registered one, is the only client the request names, '
         'and the request carries a credential of the method registered for (client, endpoint) verifying under the registered material with a permitted algorithm), authn_complete (such a request is '
         'accepted), authn_needs_identification, valid_credential_decided, unauthenticated_inert (eight handler programs of Model/Token.v and Model/Authorize.v: an unauthenticated request gets an '
         'error, invalid_client once the earlier guards pass, the store is unchanged, only client reads are performed), authn_none_is_unauthenticated. PLACEMENT (Model/AuthnWire.v): a wire request '
         'carries every form-carried credential member (client_id, client_secret, client_assertion, client_assertion_type) with its value in the body and its value in the query string of the request '
         "URI; the code's reader table is PostFormValue (body only) for all four; entry_outcome is what each of the nine entry points (/token for five grants, /par, /bc-authorize, /introspect, "
         '/revoke) makes of a wire request (act for a client / act for the anonymous client / refuse). query_string_ignored (requests differing in the query string only get the same outcome, every '
         'entry point), authn_wire_sound / authn_wire_complete (the credential that counts is the one in the places it must be in), credential_placement (when a client is served the members of its '
         "method's credential sit where that method reads them), secret_post_query_ignored and misplaced_secret_refused (no client_secret in the body: no client_secret_post client is authenticated "
         'whatever the query string and the Authorization header carry; refused when the body names such a client), secret_basic_needs_header, assertion_query_ignored. IDENTIFICATION: '
         'extract_id_unidentified (the not-identified answer means exactly: no body client_id, no Basic user, no client_assertion), extract_id_conflict, anonymous_only_without_identification (an '
         'entry point goes the anonymous way IFF it is the jwt-bearer grant, client authentication is not required and the request names nobody at all), id_conflict_refused (two places naming '
         'different clients: refused at every entry point, by the jwt-bearer grant whether or not it requires authentication, no jwks_uri fetch), refused_outcome_inert (a refused outcome is inert at '
         'all nine entry points; for jwt-bearer the handler is the head of generateJWTBearerGrant, Model/AuthnEntry.v, followed by an arbitrary rest). Correspondence: the single-deviation catalogue '
         '(7 methods x 9 entry points x every applicable credential deviation, per-endpoint overrides, JWKS by value and by jwks_uri, the anonymous jwt-bearer exception) now has two more dimensions: '
         'WHERE each member is placed (body / query string only / both equal / both different, for each of the four form members; Basic header vs form for the two secret methods; a query string '
         'repeating everything with other values) and IDENTIFICATION IN SEVERAL PLACES (14 patterns of Basic user / body client_id / assertion issuer agreeing or disagreeing x right / wrong / absent '
         'proof, at every entry point, for jwt-bearer with authentication required and not required, plus query-only and empty-user identification on the anonymous path). Every case is one HTTP '
         "request to a fresh provider over freshly seeded storage; the model's verdict (entry_outcome) and jwks_uri-fetch prediction are compared with the observation and the specification's "
         'decision procedure is evaluated on the body view of the request actually sent (monitor). In the system model (Token.jwt_bearer_grant) the exception has its own theorem, '
         'jwt_bearer_anonymous_only_when_allowed: tokens without an authenticated client imply the request carries no client identification and WithJWTBearerGrantClientAuthnRequired is off (the '
         'grant written belongs to the anonymous client: empty client id, no refresh token); an unauthenticated request that names somebody, or meets a server requiring client authentication, is '
         'refused with invalid_client and is inert.',
 'note': "authn_sound assumes the client's id is not the empty string (for the empty id go-jose skips the iss/sub comparison). authn_complete assumes the registration does not make the key reference "
         "of the request ambiguous (two JWKs with the kid/alg the assertion names or with the certificate's thumbprint: the code takes the first). Placement: a member is modelled with at most one "
         "value in the body and one in the query string (repeated parameters inside one place are not generated; net/http takes the first); 'present and empty' and 'absent' are the same for the code "
         'and are one value in the harness. Identification that travels in the query string only is, like every query member, ignored: with anonymous jwt-bearer use allowed such a request takes the '
         'anonymous path (it names nobody in any place the server reads) - generated and checked. A Basic header with an empty user names nobody (the code tests the user for emptiness); an assertion '
         'with an empty iss does name a client (the empty one) and conflicts with any other id. The full jwt-bearer grant handler is not in Model/Token.v; its head (authenticate, then refuse or go '
         'on with the client / the anonymous client) is Model/AuthnEntry.v and the statements about refused requests hold for an arbitrary rest; what the anonymous client may then do is outside C01. '
         'The request URL audience of an assertion is issuer + RequestURI including the query string (harness renders it so). Time comparisons inside assertions are exercised at least 5 s away from '
         'their boundaries. SHA-1 and SHA-256 certificate thumbprints are one field in the model; the harness uses x5t#S256. RSA algorithms are in the model but not generated (slow key generation); '
         'HS384/HS512 are not modelled (WithSecretJWTSignatureAlgs cannot be used).',
 'technique': 'Coq proof (decision-rule soundness/completeness against a declarative specification + symbolic execution of handler programs) tied to the code by differential correspondence on an '
              'exhaustive deviation catalogue',
 'design_ref': 'DESIGN.md section 6, C01',
 'assumptions': ['bcrypt, HMAC, ECDSA signatures and certificate thumbprints are ideal: a check succeeds only for the very secret / key / certificate']}
