PROP = {'suites': ['c05', 'c05forge'],
 'clauses': {1: 'a presentation other than the exact issued string (jti alone, forged or altered token) was accepted as a live access token',
             2: 'an access token was accepted after its grant was revoked or invalidated by a replay of the code it came from, its token superseded by a refresh, or its lifetime elapsed',
             3: 'a refresh token was accepted or reported active after the owning client revoked the grant',
             4: 'a JWT that is not exactly an issued access-token string (foreign or altered issuer, re-signed claims, time claims outside their window, a key other than the one its kid names, a '
                'dead or unknown jti, a token of another tenant sharing keys and storage) was accepted as a live access token'},
 'title': 'Only live, server-issued access tokens are ever accepted as access tokens',
 'text': 'Theorems over the model: live_access_iff (for every reachable state of every history and every presented term, IntrospectionInfo - behind /introspect, TokenInfo and TokenInfoFromRequest - '
         'reports an active access token IFF the term is exactly an issued access-token string whose grant the token index still finds and whose lifetime has not elapsed), forged_never_live, '
         'jti_never_live, refresh_token_is_not_access, userinfo_needs_live_token (+ userinfo_token_id_is_classified), revoked_dead, other_client_cannot_revoke, token_index_unique. Correspondence: '
         'histories with issuance in both formats, refresh, revocation by owner/other client, code replay, ticks and presentation of exact / jti-only / seven kinds of forged strings at the three '
         'endpoints and two helpers, compared with the model; the monitor tracks, from the implementation trace alone, which tokens must be dead. Deterministic scenarios (scenarioAcceptorMatrix): '
         'the four acceptors x {live, lifetime elapsed while the grant lives on, access token revoked, refresh token revoked, superseded by a refresh with and without rotation, grant expired, code '
         'replayed} x {opaque, JWT} x storage flavour. JWT access tokens and the issuer (Model/AtClaims.v, a guard-by-guard model of token.go validClaims + the jti extraction of its callers): '
         'at_claims_issuer_bound (validClaims yields a token id ONLY IF the signature verifies under the signature key of the server that the kid names AND iss is a single string equal to the '
         'configured issuer AND every time claim present is inside its window), forged_issuer_refused (every forgery kind of the suite, applied to any JWT record, is refused by validClaims and by '
         'the four acceptors), dead_jti_refused, at_claims_key_holder_mints (the converse: what the holder of the signing key mints under the right issuer is accepted), '
         'at_claims_accepted_passes_monitor_clauses. Suite c05forge, on real providers built with provider.New (two tenants with different issuers sharing signing keys and grant storage; ES256-only '
         "and PS256+ES256+ES256+encryption-key JWKS; JWT leeway 0/1; /repo's in-memory and a JSON-copy grant storage; issuer with host, path, port; tokens from the code flow with openid and from "
         "client_credentials): every live token is presented at /introspect, /userinfo, Provider.TokenInfo, Provider.TokenInfoFromRequest (and token.ExtractID on the provider's own configuration) as "
         "issued (control) and under 29 forgery kinds signed with the SERVER's key - issuer foreign / trailing slash / letter case / scheme / path suffix / absent / empty / array containing the "
         "right issuer / number / other tenant's, the other tenant's genuine token, exp/nbf/iat outside the window, kid absent / unknown / of another server key / of the encryption key, foreign key "
         'under the server kid, alg none, edited payload, non-canonical signature, the ID token, unknown / absent jti, lifetime elapsed (real sleep) with exp pushed or removed; each presented string '
         'is abstracted from its bytes (signer found by verifying under every key) into the record of the model, the five answers are compared with the model (Corr/C05Forge.v check_fcase) and the '
         "monitor mon_C05F (clause 4) judges the implementation's answers against the clauses of at_claims_issuer_bound; acceptances are also reported Go-side as c05forge:<acceptor>:<kind>.",
 'note': 'Theorems are about the hand-written model; JWS verification and the UUID/length-99 shape tests are modelled symbolically (the classification by shape is checked on concrete strings by the '
         'correspondence). live_access_iff assumes histories shorter than 2^34 operations (encoding of never-issued values). KNOWN FINDING K0 (see known_findings.json): revoking an already-expired '
         'access token answers 200 and leaves the refresh token of the grant working - the last sentence of the property fails for that input on the unchanged tree; the c05 suite replays it on the '
         'real provider and reports it as KNOWN-FINDING. c05forge: strings are abstracted by interned numbers, JWS verification by "the key under which the bytes verify" (computed by the harness '
         'with go-jose on the real bytes). at_claims_issuer_bound assumes a non-empty configured issuer (with an empty one go-jose skips the issuer comparison; the model has that branch). NOT '
         "judged, because the unchanged code accepts them and the model predicts it (at_claims_key_holder_mints): claims re-signed with the server's own signing key under the RIGHT issuer with a "
         "live jti - the same claims, claims of token A with the jti of live token B (the answer describes B's grant), exp pushed on a live token (liveness then ends with the grant's token expiry, "
         "not the forged exp); these are presented on every run and listed in the suite's meta.extra. A token without exp is valid for validClaims (go-jose only checks claims that are present); it "
         'dies on the grant storage. All grant types: the jwt-bearer grant is in the sys model since the jwtbearer extension (Token.jwt_bearer_grant; tokens of authenticated and of the anonymous '
         "client, opaque and JWT), the generator of suite c05 issues, refreshes, revokes and presents them like every other grant's (move jwtbearer).",
 'technique': 'Coq proof (equivalence over every reachable state, using the index-freshness invariant proved for every handler; per-request decision rules) tied to the code by differential '
              'correspondence; monitor on implementation traces',
 'design_ref': 'DESIGN.md section 6, C05'}
