PROP = {'suites': ['c05'],
 'clauses': {1: 'a presentation other than the exact issued string (jti alone, forged or altered token) was accepted as a live access token',
             2: 'an access token was accepted after its grant was revoked or invalidated by a replay of the code it came from, its token superseded by a refresh, or its lifetime elapsed',
             3: 'a refresh token was accepted or reported active after the owning client revoked the grant'},
 'title': 'Only live, server-issued access tokens are ever accepted as access tokens',
 'text': 'Theorems over the model: live_access_iff (for every reachable state of every history and every presented term, IntrospectionInfo - behind /introspect, TokenInfo and TokenInfoFromRequest - '
         'reports an active access token IFF the term is exactly an issued access-token string whose grant the token index still finds and whose lifetime has not elapsed), forged_never_live, '
         'jti_never_live, refresh_token_is_not_access, userinfo_needs_live_token (+ userinfo_token_id_is_classified), revoked_dead, other_client_cannot_revoke, token_index_unique. Correspondence: '
         'histories with issuance in both formats, refresh, revocation by owner/other client, code replay, ticks and presentation of exact / jti-only / seven kinds of forged strings at the three '
         'endpoints and two helpers, compared with the model; the monitor tracks, from the implementation trace alone, which tokens must be dead. Deterministic scenarios (scenarioAcceptorMatrix): '
         'the four acceptors x {live, lifetime elapsed while the grant lives on, access token revoked, refresh token revoked, superseded by a refresh with and without rotation, grant expired, code '
         'replayed} x {opaque, JWT} x storage flavour.',
 'note': 'All grant types: the jwt-bearer grant is in the sys model since the jwtbearer extension (Token.jwt_bearer_grant; tokens of authenticated and of the anonymous client, opaque and JWT), the '
         "generator of suite c05 issues, refreshes, revokes and presents them like every other grant's (move jwtbearer). Theorems are about the hand-written model; JWS verification and the "
         'UUID/length-99 shape tests are modelled symbolically (the classification by shape is checked on concrete strings by the correspondence). live_access_iff assumes histories shorter than 2^34 '
         'operations (encoding of never-issued values). KNOWN FINDING K0 (see known_findings.json): revoking an already-expired access token answers 200 and leaves the refresh token of the grant '
         'working - the last sentence of the property fails for that input on the unchanged tree; the c05 suite replays it on the real provider and reports it as KNOWN-FINDING.',
 'technique': 'Coq proof (equivalence over every reachable state, using the index-freshness invariant proved for every handler; per-request decision rules) tied to the code by differential '
              'correspondence; monitor on implementation traces',
 'design_ref': 'DESIGN.md section 6, C05'}
