PROP = {'suites': ['c02', 'c02reg'],
 'clauses': {1: 'a navigation (Location header or auto-submitted form) targeted a URI that is neither registered for the requesting client nor the redirect URI of the pushed request this very request redeems (for a callback: that the request which started the interaction redeemed) - a URI pushed once is not thereby acceptable in a later plain request'},
 'title': 'The authorization endpoint never redirects to an unvalidated URI',
 'text': 'Theorems over the model: nav_target_authorize and nav_target_callback (for every store and request every navigation - success, policy failure, validation error - targets a URI registered '
         'for the client or the one stored in the pushed session being redeemed), stored_redirects_validated_clients_untouched (over ALL histories: every stored session carries a validated redirect '
         'URI and NO operation changes the registered clients, i.e. the set of redirect URIs - a rely/guarantee invariant proved for every handler), redirected_errors_have_validated_uri(+_par) (no '
         'validator builds a redirected error before the URI it would go to was validated), invalid_redirect_local. Correspondence: histories aimed at /authorize, the callback and /par with '
         'redirect_uri deviations (incl. URIs pushed as unregistered and later replayed in plain requests), all error-producing parameters, response modes and policy outcomes, under both storage '
         'flavours; navigation target (after undoing net/url re-encoding of known URIs), mode and parameters compared with the model; monitor on the implementation trace. The form_post document is '
         "read as markup (harness/htmldoc.go: tags, attributes, text; any element, attribute, second form or text outside the template's skeleton becomes the navigation target of the observation, "
         'which no client has registered); generated state values carry quotes, angle brackets and entities. Deterministic scenario scenarioRedirectMatrix (shared with C03): registered URIs of a '
         'client with three (plain, with query, ending in a slash) and their one-detail near misses at GET and POST, with a redirected error and under form_post. Registration changes mid-flow (suite '
         "c02reg, Corr/Phased.v check_case2 / mon2): two-phase histories - a registered redirect URI is pushed and used, then retired from the client's registration (stored client rewritten through "
         'the client manager, or the provider re-created with another static client list while the stores persist), then the pushed request_uri, plain requests and a redirected error name it again; '
         'the model runs the two phases under the two worlds from the persisting stores, mon_C02 judges each phase with the registrations in force during it.',
 'note': 'Theorems are about the hand-written model; redirect URIs are real strings compared exactly, but net/url parsing/printing, form_post HTML and JARM signing are modelled or handled by the '
         'projection. Request objects are covered by C07. Fixed defect D22 (11b1d50) was found by this property.',
 'technique': 'Coq proof (per-request decision theorems by symbolic execution; rely/guarantee invariant over all histories) tied to the code by differential correspondence; monitor on implementation '
              'traces',
 'design_ref': 'DESIGN.md section 6, C02'}
