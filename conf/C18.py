PROP = {'suites': ['c18'],
 'replay_suite': 'c18',
 'clauses': {},
 'title': 'Behaviour does not depend on storage aliasing or on which instance serves',
 'text': 'Theorems over the hand-written model (the same handler text under two interpreters of Model/Prog.v: run_seq = a storage that hands out copies, run_alias = a storage that holds the very '
         'objects, where an in-place write `Touch` rewrites the stored entry): alias_copy_equiv and alias_copy_equiv_state (for every configuration, client set and history of any length the two give '
         'the same observations and the same final storage contents and clock), step_alias_copy_equiv (one request from any state whose sessions have one index, e.g. after the embedder deleted a '
         "client), every_touch_written_through (the reason, and the property's last sentence: along every run of every handler each in-place write to a loaded session or grant is followed, before "
         'the response and before the table is consulted again, by a Save of the same id or by its deletion - the discipline `written_through` of Model/Alias.v), written_through_equiv and '
         'touch_free_equiv (the discipline, resp. the absence of in-place writes, suffices for any program), instance_independent / history_changes_hands / four_executions_agree (a request is served '
         'from the configuration and the state only; the history may be cut anywhere and continued by any instance built from the same configuration; the four executions the harness performs '
         'coincide in the model), aliasing_is_observable_without_write_through (the two interpreters do differ on a program that does not write through, so the equivalence is not vacuous), '
         'read_only_handlers_only_read / read_only_endpoints_keep_the_store / read_only_requests_keep_the_state (Model/ReadOnly.v: the handlers of introspection, userinfo and the two TokenInfo '
         'helpers perform lookups only - no Save, no Delete, no in-place write - so the state after such a request is the state before it under both interpreters, from any state). Correspondence: '
         'suite c18 replays each history - a corpus of the four defects this property found on the pinned tree (pushed redirect URI appended to the registration, outer parameters merged into the '
         'stored pushed session, refused refresh rewriting the stored grant, half-processed session left behind when its client is gone), a CIBA tour, and histories drawn by the online generator '
         'under four weight profiles (code/refresh, PAR/multi-step sessions, CIBA poll/ping/push, token life cycle) with static or stored clients, sometimes with a registration removed and restored '
         "in mid-history - as the same abstract operations under four executions of the real provider: {JSON-copying store, the repository's internal/storage} x {one provider instance, a fresh "
         'provider.New per request over the same storage, with its own static client objects}. The four projected traces and a canonical digest of the storage contents after every operation are '
         "compared pairwise on the Go side; every execution's trace is also compared with the model (run for the copy flavour, run_alias_trace for the alias flavour). DCR histories of suite c12's "
         'generator are replayed under the same four executions and compared on the Go side. State OUTSIDE the three storages that requests depend on (harness/suite_c18_remote.go, Go side only): the '
         "world answers the clients' jwks_uri, sector_identifier_uri, request_uri and CIBA notification endpoints from a table, and harness-level world events - like the client removal, not requests "
         "and not in the model's op type - change that table between requests: C18RotateKeys (jwks_uri publishes a new key under a new kid, the previous one is withdrawn), C18JwksAvailable (jwks_uri "
         'outage / recovery), C18SectorContents, C18SetRequestObject, C18NotifyEndpoint, plus the request kinds the generic world lacks: C18JarAuthorize / C18AuthorizeByRef (signed request object by '
         'value / fetched from request_uri), C18DcrCreate / Update / Get (registration of a private_key_jwt client with jwks_uri, optionally pairwise with sector_identifier_uri), C18JwtBearer '
         '(jwt-bearer grant without a client - the anonymous client built once per process - and with one). Clients (static AND stored; inline-jwks clients as a control) authenticate with '
         'private_key_jwt at /token, /par, /introspect, /revoke, /bc-authorize with the key published now, the key withdrawn by the last rotation, or a key never published. Directed histories (key '
         'rotation at every authenticated endpoint, a code flow and a refresh token straddling a rotation, request objects by value and by reference, CIBA ping with a failing notification endpoint, '
         'jwt-bearer with and without required client authentication, DCR with sector documents that change) and 64 generated ones (the generic online generator over such clients, cut into segments '
         'with a world event between two segments, some accepted credentials turned into the withdrawn key afterwards) are replayed under the four executions; expected and observed on the current '
         'tree: all four agree. What the comparison of answers cannot see (harness/suite_c18_claims.go, Go side): (1) the decoded claim set of EVERY JWT access token issued - token endpoint, '
         'authorization endpoint (implicit / hybrid), CIBA push notification - is part of the compared transcript: all claims, jti / iat / exp / nbf / auth_time / *_at by presence only, '
         'server-minted strings and registered client ids by the name the world gave them; a difference is <operation>:access_token_claims. Likewise every member of the JSON answers of introspection '
         'and userinfo (<operation>:answer_members), and the resources / aud of token answers. (2) Read-only endpoints must not write: before and after every request to introspection, userinfo, the '
         'TokenInfo helpers (also with the answer serialised by encoding/json, as a resource server would log it: C18TokenInfoJSON), discovery (C18Discovery) and jwks (C18Jwks) a deep snapshot - the '
         "JSON document of every stored authentication session, grant session and client, and of the configuration's static client objects - is taken, under the aliasing storage (an in-place write "
         'shows without any Save) and under the copying one (Save / Delete show); they must be equal: C18:read-only-endpoint-wrote:<endpoint>. The one member left out, with the reason in the code: '
         '`jwks` of a client that has a jwks_uri (the fetch cache the in-memory client manager clears on every lookup). (3) The storage digest compared between executions after every operation now '
         "includes, normalised the same way, the additional token / id token / userinfo claim maps, the embedder's store, the authorization details and the granted / active resources of every stored "
         'session and grant. (4) Inputs: directed histories code -> token -> [read-only block] -> refresh -> [block] -> refresh with narrowed scope -> [block] -> refused refresh -> widened -> '
         'client_credentials -> revoke -> [block], hybrid (the access token of the authorization endpoint, introspected again after the code was redeemed) and CIBA poll / push, each with JWT and '
         "with opaque access tokens, static and stored clients, rotation on / off, with and without the requests outside the model's op type; a read-only block = introspection of the access and of "
         'the refresh token by the owner, by another client, refused, by jti, userinfo, TokenInfo, TokenInfoFromRequest, serialised TokenInfo, discovery, jwks. Generator dimension (48 quick / 700 '
         'thorough histories): worlds whose clients all (or a random subset) issue JWT access tokens, the online generator run in segments with a burst of read-only requests about live tokens '
         'followed by a refresh between two segments. A quarter of them, and two corpus variants, run with an embedder whose HandleGrantFunc attaches token / id token / userinfo claims (nested '
         'values, numbers) to the GrantInfo it is handed, so that the claim maps are not empty. (5) What the JSON document of a CLIENT and of a GRANT must still carry (harness/suite_c18_authn.go, '
         'suite_c18_fields.go). The copying flavour keeps clients as json.Marshal documents and hands out json.Unmarshal copies too (stores.go jClients); clients that live in the client manager '
         'because they were registered through /register exercise it with everything the registration handler writes. Directed histories, one per client authentication method - client_secret_basic, '
         'client_secret_post, client_secret_jwt (HS256 assertion keyed with the clear secret of the registration answer), private_key_jwt with inline jwks and with jwks_uri, tls_client_auth '
         '(tls_client_auth_san_dns), self_signed_tls_client_auth (jwks with x5c; this also exercises jwkMatchingCert), none, and a client with three different methods for token / introspection / '
         'revocation: C18DcrRegister (POST /register) -> client_credentials, introspection, PAR with the right and with a wrong credential -> code flow (C18DcrAuthorize) -> refresh -> userinfo -> '
         'revocation -> GET /register/{id} -> PUT /register/{id} (a new secret where there is one; the previous secret, the new one and a wrong one at /token, /introspect, /revoke, /par) -> '
         'redemption of a pushed request; plus a registration that changes its method eight times (post -> jwt -> private_key_jwt -> basic -> tls -> jwt -> none -> mixed) with the credential of the '
         'previous method tried after each change. The world of these histories (flag c18:every-client-authn-method) allows every method at every authenticated endpoint, has mutual TLS and rich '
         'authorization requests. The storage digest of a client now also says whether a clear secret, a hashed secret, inline keys and TLS attributes are stored and names its three authentication '
         'methods, so a member lost by the round trip shows at the registration itself (C18DcrRegister:store) and again at the first request that needs it (Token:kind, Introspect:kind, ...). Grants: '
         're-binding at refresh (updatePoPForRefreshedToken) - code grant bound to DPoP key 1 / certificate 1, refreshes that present key 2, key 2 + certificate 2, nothing, key 1, key 1 + '
         'certificate 2, key 2, each followed by introspection of the access and of the refresh token (cnf), userinfo and TokenInfoFromRequest with proofs for both keys / both certificates / none, '
         'TokenInfo; the Tokens observation itself carries the confirmation the provider reports for the token just issued; DPoP x {static, stored} x {rotation on, off} x {opaque, JWT, public client '
         'as the control}, mTLS and DPoP+mTLS in one world each (quick; the full matrix in the thorough tier). The histories are built online (which refresh token is current depends on which '
         'refreshes were accepted). Life-time fields (suite_c18_fields.go): callback after a step / after completion / after the session timeout, redemption before and after the code lifetime, '
         "introspection of the previous and of the new access token after a refresh and after the previous one's lifetime, refresh after the grant's lifetime - the clock moved by Tick only: TokenID, "
         'LastTokenExpiresAtTimestamp, RefreshToken, CallbackID, PolicyID, AuthCode and the two ExpiresAtTimestamp each decide a later answer. Generator dimension for the confirmation of a grant (30 '
         'quick / 450 thorough histories, c18GeneratePop): the random cross-endpoint walks of suite c06 (PAR -> authorize -> token -> userinfo / TokenInfoFromRequest -> refresh with the same, '
         'another or no key / certificate -> introspection -> userinfo, public and confidential clients), two flows per world, over its fifteen binding modes (DPoP / certificate binding / both: '
         "optional, server-required, client-required, some-binding-required, off), replayed under the four executions. The re-binding, life-time and generated binding histories use the model's op "
         'type only and are cases for the model as well (run / run_alias_trace agree with all four executions).',
 'note': 'JWT claim sets, additional claim maps and the discovery / jwks endpoints are not in the model: oracles (1)-(3) above are Go side only; histories with C18Discovery / C18Jwks / '
         'C18TokenInfoJSON or with the claim-attaching embedder are not turned into cases for the model. FOUND AND FIXED (defect D26, fix ae6db20): in a hybrid flow the implicit grant stored by the '
         "authorization endpoint shared its three claim maps with the authentication session kept for the code (implicitGrantInfo); what the embedder's HandleGrantFunc added at code redemption "
         'showed in the stored implicit grant and in the introspection of the first access token under the aliasing storage only. The hybrid histories of the claim-attaching embedder are part of the '
         'default run now; with the fix reverted they are reported (signatures Token:store, Introspect:answer_members). The model marks as in-place writes (Touch) the sites of DESIGN Appendix B that '
         'survive the fix: commits; the copy authnSessionWithPAR now makes is modelled pessimistically (the session started from a pushed request is treated as still aliased, and shown to be saved '
         'or deleted on every path). Not in the model, hence covered by the four-way replay only: DCR (Model/Dcr.v is a state machine without an aliasing interpreter), the jwt-bearer grant, '
         'private_key_jwt / jwks_uri clients, request objects, and every world event (key rotation, outage, changed remote documents): the model has no such operations, histories containing them or '
         'run in such worlds are compared on the Go side only. Outbound fetches of the provider (every ctx.HTTPClient() use): jwks_uri via JWKByKeyID / JWKByAlg (exercised: client assertions, '
         'request objects) and via jwkMatchingCert (self_signed_tls_client_auth: NOT exercised - same cache, same function FetchPublicJWKS), request_uri (exercised), sector_identifier_uri '
         '(exercised), the CIBA notification endpoint (exercised); encryption to client keys (id_token / userinfo / JARM encryption algorithms) is not exercised. State held by the instance / '
         'process: the static client objects of the configuration (exercised; found and fixed: d7a7b62, keys fetched from jwks_uri were cached on them for the life of the instance) and the anonymous '
         'jwt-bearer client, a package-level sync.Once: it is PROCESS-wide, a fresh provider.New in the harness process shares it, so the fresh-instance executions exercise the flow but cannot stand '
         'for another process there (all worlds use the same scope list, which is what that client captures). Nothing else on oidc.Configuration is written after provider.New. A difference on a '
         'static jwks_uri client after a rotation/outage between executions that differ in the instance assignment is reported under the one signature '
         'static-jwks_uri-client:keys-cached-for-the-life-of-the-instance (the defect d7a7b62 repaired); every other difference as <operation>:<field>. Error codes answered to forged tokens depend '
         "on the bytes of the forgery and are compared as refusals. Histories containing the embedder's client removal are compared on the Go side only (the model's op type has no such operation; "
         'step_alias_copy_equiv covers the states they reach). FOUND by this suite and REPAIRED in /repo (D28, fix 284a382; signature registered-client:authorization_data_types:empty-list-is-absent-after-json): a client registered with `authorization_data_types: []` was refused every authorization detail under the '
         "repository's storage (isAuthDetailTypeAllowed: only a nil list meant 'not announced') and allowed every type under a JSON-copying storage (`omitempty` writes no member for the empty list, "
         'nil comes back); history corpus:authn:dcr/authorization_data_types stays as the regression (the clients registered '
         'without the member, with [] and with ["payment"] now agree under both flavours). Theorems about that shape (Proofs/C18Json.v; json_params / json_client = the omitempty round trip on the list-valued members the model has): pushed_session_is_json_fixed_point (every session /par saves, plain or through a request object, whatever the storage answers), pushed_merge_flavour_independent, raw_merge_flavour_dependent (the defect as found, with its witness), registered_detail_types_json_invariant. D27 (fix 6e63330) is the same shape on the pushed session: `authorization_details=[]` at /par was kept by the '
         'aliasing store and dropped by the copying one, so the outer parameter of the redeeming request was merged in or not; random histories push `[]` again. The same shape (nil and empty told apart in code, not in the omitempty JSON form) exists '
         'for other stored members and is NOT exercised: internal/token/make.go tests `grantInfo.ActiveAuthDetails != nil` and `grantInfo.ActiveResources != nil` on the stored grant, '
         'internal/authorize/validation.go `params.Resources == nil` / `params.AuthDetails == nil` on the parameters of a stored pushed session, goidc.Client.FetchPublicJWKS `c.PublicJWKS != nil`; '
         'the scripted embedder and the form decoder never produce an empty non-nil list there. Seen while configuring the worlds, not a C18 matter: provider.WithSecretJWTSignatureAlgs ranges over '
         'the characters of its first argument (`for _, a := range alg`) and therefore refuses every algorithm including HS256; the worlds rely on the default (HS256). For a confidential client a '
         'refresh that presents ANOTHER certificate is refused (validateRefreshTokenBinding compares with the stored thumbprint), so the certificate half of updatePoPForRefreshedToken never changes '
         'the grant; the mTLS histories are kept as the control. Histories with registered clients (C18DcrRegister / C18DcrAuthorize) are compared on the Go side only.',
 'technique': 'Coq proof (relational: simulation between two interpreters of the same programs via a weakest-precondition calculus for the write-through discipline, lifted to all histories by '
              "induction with C17's one-index invariant) tied to the code by differential replay of generated histories under four executions and by correspondence with the model",
 'design_ref': 'DESIGN.md section 6, C18; section 10.2 (no_touch); Appendix B',
 'assumptions': ['a storage implementation behaves either like the copying or like the aliasing reference store: lookups return the first match of a consistent snapshot, Save replaces by id, Delete '
                 'removes by id',
                 "instances are built from the same option list in the same process; the embedder's callbacks do not keep state of their own between requests"]}
