PROP = {'suites': ['c04fn', 'c04flow', 'c04reg'],
 'clauses': {1: 'a token response, introspection answer or userinfo reports scopes outside what was granted; a grant without a resource owner (client_credentials, jwt-bearer) was issued for scopes '
                'the whole-entry rule does not allow for its client (the anonymous jwt-bearer client: the ids of the server scopes)',
             2: 'a grant or response type was served to a client not registered for it (incl. a refresh token from an owner-less grant to a client without refresh_token, jwt-bearer tokens without '
                'any client where anonymous use is not allowed)',
             3: 'introspection reports a client other than the one the grant was issued to, or - for a client_credentials / jwt-bearer grant - another subject than the client itself / the one the '
                'assertion handler answered; jwt-bearer tokens without an accepted assertion',
             4: 'a token response (resources member, aud of a JWT access token) or an introspection answer (aud) names a resource outside the grant (client_credentials: outside what was requested '
                'and configured)',
             5: 'a token response (authorization_details member, authorization_details claim of a JWT access token), a pushed CIBA token notification or an introspection / TokenInfo answer carries '
                'an authorization detail whose type the server does not support (any at all when rich authorization requests are off)',
             6: 'a reported authorization detail lies outside the grant: not among the details the embedder granted (subset compare function; by type with a by-type compare function), for '
                'client_credentials not among the requested ones, for jwt-bearer any at all'},
 'title': 'Issued tokens never exceed what was granted or what the client may ask for',
 'text': 'Theorems over the hand-written model: ownerless_within_client, jwt_bearer_within_client (for every store and request: jwt-bearer yields tokens only on a server that enabled the grant, to a '
         'client registered for it - the authenticated one or, for a request without any client identification where anonymous use is allowed, the anonymous client made of the ids of the server '
         'scopes -, for scopes the whole-entry rule allows that client and resources among the configured ones; the grant written has granted = active = requested, the subject the embedder assertion '
         'handler answered, that client, and a refresh token only if the client is registered for refresh_token), code_grant_within_session, authorize_types_registered (per-request decision rules '
         'for every store), scope_whole_entry (for all registration strings, server scope lists incl. prefix scopes and request strings, AreScopesAllowed accepts iff every entry is matched by a '
         'server scope whose id is a whole entry of the registration) and issued_within_grant (invariant over every reachable state of every history, any configuration, refresh chains of any length: '
         'active scopes are contained in granted scopes). resources_within_grant (same quantifier: in every reachable state the resources of the current token of every grant - the aud - are among '
         "the grant's granted resources; proved with a rely on the storage handing out stored sessions), resources_decision (for every store and request, authorization_code / CIBA / refresh / "
         "client_credentials yield tokens only if the requested resources are within the session's or grant's granted resources, resp. the server's configured ones, and what the grant written "
         'records), introspection_aud_truthful. Correspondence: clientutil.AreScopesAllowed is called directly on thousands of generated triples and compared with the model; flow-level histories '
         '(all grant types, refresh chains with sub/supersets of scopes and of resources; `resource` parameters at /authorize, /par, /bc-authorize and /token: subsets, supersets of the grant, '
         "configured-but-not-granted and unconfigured URIs, empty grants; the scripted policy calls GrantResources) are run on the real provider and compared with the model's trace; the property "
         "monitor is evaluated on the implementation's trace. Deterministic scenarios (scenarioGrantedSubset) in c04flow: the owner grants a strict subset of requested scopes and resources (code, "
         'CIBA poll, CIBA ping) followed by a refresh chain. ), authorize_artifacts_registered (in every reachable state of every history a navigation of GET/POST /authorize - direct or redeeming a '
         'pushed request, any response type including the hybrid ones - carries a code only for a client registered for authorization_code and an access token / ID token only for a client registered '
         'for implicit), callback_artifacts_registered (the same for /authorize/{callback}, through an invariant over all histories: the response type recorded in a stored session is aligned with '
         "the grant types of the session's client a deterministic grant-type matrix (clients with aligned and NOT aligned grant_types / response_types - hybrid response types without implicit, "
         'implicit without its response types, code response type without authorization_code - x every response type x servers with both grants / code only / implicit only, direct and pushed, every '
         'code redeemed) and s over the same client (clause 2: a code delivered to a client without authorization_code, an access token / ID token delivered by the authorization endpoint to a client '
         'without implicit, an artifact for a response type the client did not register, tokens from the token endpoint for a grant type the client or the server lacks) Rich authorization requests '
         '(RFC 9396) are in the sys model: an authorization detail is its type plus an opaque payload id; params / sessions / grants / token requests / config (enabled, supported types, the embedder '
         'compare function as one of four shapes: none, subset by equality, accept-all, by type) / client (registered authorization_data_types) carry them, token responses, JWT access tokens, pushed '
         "CIBA notifications and introspection report them. details_types_supported (over ALL histories, any configuration and compare function: every stored grant's active and granted authorization "
         "details have types among the server's supported ones - the all-of rule of validateAuthDetailsTypes - provided the embedder itself grants supported types only, which the library does not "
         'check), details_supported_or_granted (same quantifier, no proviso: an active detail has a supported type or is one the embedder granted to that grant), details_within_grant (with the '
         'subset compare function the active details of every stored grant are among its granted ones), details_decision (for every store and request: authorization_code / CIBA / refresh yield '
         "tokens only if EVERY requested detail has a supported type and the compare function accepted the list against the session's / grant's granted details, and what the grant written records; "
         'client_credentials only if every requested type is supported, granted = active = requested; jwt-bearer checks the types and records nothing), authorize_details_supported (accepted '
         'authorization parameters name only types the server supports and the client registered), introspection_details_truthful. Generators: a pool of supported / unsupported / near-miss (case, '
         'prefix, extension, empty) types, lists mixing them in every order, duplicates, `[]`, subsets and supersets of the grant at the token endpoint; the scripted policy and InitBackAuthFunc call '
         'GrantAuthorizationDetails. scenarioAuthDetailsMatrix (c04flow, c10): every issuing grant type (client_credentials opaque and JWT, jwt-bearer, authorization_code, PAR, implicit, CIBA poll / '
         'ping / push) x 17 detail lists x 5 worlds (each compare function, feature off) x refresh chains naming subsets / supersets / mixed lists / `[]` / nothing, clients with registered types. '
         'Registration changes mid-flow (suite c04reg, Corr/Phased.v): tokens, a refresh token and a code are obtained, then refresh_token / authorization_code / client_credentials / a scope is '
         "dropped from the client's registration, then the refresh token, the code and every grant are used again: a grant type is served only to a client registered for it at the time of the "
         'request (mon_C04x per phase).',
 'note': 'Resource indicators are modelled (granted/active resources, aud of JWT access tokens, the resources member of token responses, aud at introspection). Authorization details (RFC 9396) are '
         'modelled abstractly (type + opaque payload id; the compare function is one of four shapes the harness installs, the payload is compared by equality only); what the EMBEDDER grants is not '
         'checked by the library, so details_types_supported carries the proviso that the embedder grants supported types only (the generators obey it; details_supported_or_granted is the statement '
         'without proviso). An unparsable authorization_details parameter is silently ignored by the code (treated as absent) - not generated. The jwt-bearer grant is in the sys model '
         '(Token.jwt_bearer_grant; the assertion is an oracle input: absent / refused / accepted with a subject) and in the invariants over all histories (issued_within_grant, '
         'resources_within_grant); scenarioJwtBearerMatrix in c04flow: every client kind incl. no client identification x client authentication required or not x credential x assertion x scopes '
         'inside / outside the registration x resources, then introspection, userinfo and refresh of every issued token. The anonymous client is built once per PROCESS by the code (sync.Once): the '
         'harness resets it per world (harness/jwtb_anon.go), the model describes one provider per process. identity_truthful is covered by correspondence (sub/client_id compared at introspection '
         'and userinfo) and monitor clauses 1 and 3 (owner-less grants: also the subject). Round 4: the embedder\'s ValidateBackAuthFunc may also approve AND narrow the stored grant at that moment (verdict BaNarrow: granted scopes become `openid`); polls with that verdict are judged against the narrowed grant (Monitors.poll_gi), scenario ciba-narrowed-at-approval runs on every seed. Theorem ciba_grant_fixed_at_approval (Proofs/C04Narrow.v): for every store and poll with that verdict, tokens only if the named scopes lie inside the narrowed grant; the stored grant has the narrowed scopes as granted scopes; example ciba_narrowing_example evaluates three polls (narrow+dropped scope refused, narrow+no scope served, approve+same scope served).',
 'technique': 'Coq proof (invariant by induction over operation histories + decision-rule equivalence) tied to the code by differential correspondence on generated inputs',
 'design_ref': 'DESIGN.md section 6, C04'}
