PROP = {
    "suites": ["c04fn", "c04flow"],
    "clauses": {1: "a token response, introspection answer or userinfo reports scopes outside what was granted",
                2: "a grant or response type was served to a client not registered for it"},
    "title": "Issued tokens never exceed what was granted or what the client may ask for",
    "text": "Theorems over the hand-written model: scope_whole_entry (for all registration strings, server scope lists incl. prefix scopes and request strings, AreScopesAllowed accepts iff every entry is matched by a server scope whose id is a whole entry of the registration) and issued_within_grant (invariant over every reachable state of every history, any configuration, refresh chains of any length: active scopes are contained in granted scopes). Correspondence: clientutil.AreScopesAllowed is called directly on thousands of generated triples and compared with the model; flow-level histories (all grant types, refresh chains with sub/supersets) are run on the real provider and compared with the model's trace; the property monitor is evaluated on the implementation's trace.",
    "note": "Resources and authorization details are not in the model (harness never sends them); identity_truthful is covered by correspondence (sub/client_id compared at introspection and userinfo) and monitor clause 1 only.",
    "technique": "Coq proof (invariant by induction over operation histories + decision-rule equivalence) tied to the code by differential correspondence on generated inputs",
    "design_ref": "DESIGN.md section 6, C04",
}
