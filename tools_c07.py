#!/usr/bin/env python3
"""tools_c07.py <dir> : for every case of a c07 suite output whose correspondence or monitor is non-zero,
print the operation at which the model and the implementation part, with both answers."""
import re, subprocess, sys, os, json
d = sys.argv[1]
coq = os.path.join(os.path.dirname(os.path.abspath(__file__)), 'coq')
only = int(sys.argv[2]) if len(sys.argv) > 2 else None
cases = json.load(open(os.path.join(d, 'cases.json')))
for f in sorted(x for x in os.listdir(d) if re.match(r'cases_\d+\.v$', x)):
    src = open(os.path.join(d, f)).read()
    out = subprocess.run(['coqc', '-Q', coq, 'Verif', f], cwd=d, capture_output=True, text=True).stdout
    def lst(name):
        m = re.search(name + r' =\s*(\[.*?\])\s*:\s*list', out, re.S)
        return [int(x) for x in re.findall(r'\d+', m.group(1))]
    corr, mon = lst('corr'), lst('mon')
    idx = [int(x) for x in re.findall(r'\(\*CASE (\d+)', src)]
    for k, (c, m) in enumerate(zip(corr, mon)):
        gi = idx[k]
        if (c or m) and (only is None or only == gi):
            body = src.split('(*END*)')[0]
            t = body + '\nDefinition tr := Eval vm_compute in (nth %d (jmodel_trace c_%d) (JObs (Out OPanic) None), nth %d (jk_ops c_%d) (JBase (OpTick 0%%Z)), nth %d (jk_obs c_%d) (JObs (Out OPanic) None)).\nPrint tr.\n' % (max(c,1)-1 if c else (m%1000)-1, gi, max(c,1)-1 if c else (m%1000)-1, gi, max(c,1)-1 if c else (m%1000)-1, gi)
            open('/tmp/c07dbg.v', 'w').write(t)
            o = subprocess.run(['coqc', '-Q', coq, 'Verif', '/tmp/c07dbg.v'], capture_output=True, text=True)
            print('=== case %d corr=%d mon=%d  %s' % (gi, c, m, cases[gi]['Note']))
            print(re.sub(r'\s+', ' ', (o.stdout + o.stderr)[-3500:]))
            op = cases[gi]['Ops'][(c or m % 1000) - 1]
            ob = cases[gi]['Obs'][(c or m % 1000) - 1]
            print('   note:', op.get('Note'), ' raw:', ob['Obs'].get('Raw', '')[:300])
