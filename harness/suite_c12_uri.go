package main

// Suite c12uri (property C12): the registration_client_uri returned by a registration, a read or an
// update is the URL at which the registration is managed afterwards - FOLLOWED LITERALLY.
//
// A deterministic matrix (the same for every seed) crosses WithPathPrefix {none, /auth,
// /tenants/acme} x WithDCREndpoint {none, /clients, /reg/v2} x token rotation x storage flavour x
// option order, plus configurations with other endpoints overridden / enabled, plus random
// configurations and random scripts from ctx.R.  For each the REAL provider is built with the options
// in that order, the discovery document is fetched at issuer + prefix + /.well-known/..., clients are
// registered by POSTing to the ADVERTISED registration_endpoint, and every later request goes to a URL
// taken verbatim from a response (the registration_client_uri of the creation, of the last update, of
// the last read; another client's), with the current / previous / another client's / no token - or to
// a variant the server never returned (without the prefix, at the default path, both), which must not
// work.  The case files run Routes.build3 / member3 and DcrUri.registration_uri / follow /
// follow_client on the same option list and URLs (corr) and evaluate the property on the observations
// alone (mon_c12u); the same rule is evaluated here to name the URL in a Finding.

import (
	"context"
	"encoding/json"
	"fmt"
	"math/rand"
	"net/http"
	"net/http/httptest"
	"os"
	"path/filepath"
	"sort"
	"strings"
	"sync"

	"github.com/luikyv/go-oidc/pkg/goidc"
	"github.com/luikyv/go-oidc/pkg/provider"
)

type c12uCfg struct {
	Opts    []Opt
	Flavour string
	Note    string
	Script  []c12uAct
}

// one abstract action of a script
type c12uAct struct {
	Kind   string // create read update delete
	Client int    // index of the client the request is meant for
	URL    string // given (the URI last reported for it) | first (the one its creation reported) | noprefix | defaultpath | bare | trailing
	Tok    string // current | previous | foreign | none
	Odd    bool   // the request document carries members named like the response's own
}

type c12uStep struct {
	Kind    string
	Meth    string
	URL     string
	Given   bool
	Cid     string
	Live    bool
	Tok     string `json:",omitempty"`
	Served  bool
	OK      bool
	Status  int
	Rid     string `json:",omitempty"`
	Ruri    string `json:",omitempty"`
	Rtok    bool   // the answer carries a registration_access_token
	Act     c12uAct
	Skipped string `json:",omitempty"`
}

var c12uKindN = map[string]int{"create": 0, "read": 1, "update": 2, "delete": 3}
var c12uMethCoq = map[string]string{"GET": "MGet", "POST": "MPost", "PUT": "MPut", "DELETE": "MDelete"}

func (s c12uStep) coq() string {
	return fmt.Sprintf("mkUStep %d %s %s %s %s %s %s %s %s %s", c12uKindN[s.Kind], c12uMethCoq[s.Meth], cS(s.URL), cB(s.Given), cS(s.Cid), cB(s.Live),
		cB(s.Served), cB(s.OK), cS(s.Rid), cS(s.Ruri))
}

type c12uCase struct {
	Cfg   c12uCfg
	RegEP string
	Doc   string
	Steps []c12uStep
}

func (c c12uCase) coq() string {
	return fmt.Sprintf("(mkC12U\n %s\n %s\n %s)", cList(c.Cfg.Opts, c19pOptCoq), cS(c.RegEP), cList(c.Steps, c12uStep.coq))
}

func c12uProviderOpt(o Opt) (provider.ProviderOption, error) {
	switch o.Name {
	case "WithDCRTokenRotation":
		return provider.WithDCRTokenRotation(), nil
	case "WithClientCredentialsGrant":
		return provider.WithClientCredentialsGrant(), nil
	}
	return c19pProviderOpt(o)
}

func c12uBuild(cfg c12uCfg) (http.Handler, *Stores, error) {
	st := NewStores(cfg.Flavour)
	po := []provider.ProviderOption{
		provider.WithClientStorage(st.Clients()),
		provider.WithAuthnSessionStorage(st.Authn()),
		provider.WithGrantSessionStorage(st.Grants()),
		provider.WithTokenAuthnMethods(goidc.ClientAuthnSecretBasic, goidc.ClientAuthnSecretPost),
		provider.WithScopes(goidc.ScopeOpenID),
		provider.WithHTTPClientFunc(func(context.Context) *http.Client { return &http.Client{Transport: rt404{}} }),
	}
	for _, o := range cfg.Opts {
		x, err := c12uProviderOpt(o)
		if err != nil {
			return nil, nil, err
		}
		po = append(po, x)
	}
	op, err := provider.New(goidc.ProfileOpenID, issuer,
		func(context.Context) (goidc.JSONWebKeySet, error) { return goidc.JSONWebKeySet{}, nil }, po...)
	if err != nil {
		return nil, nil, err
	}
	var h http.Handler
	func() {
		defer func() {
			if r := recover(); r != nil {
				err = fmt.Errorf("Handler() panicked: %v", r)
			}
		}()
		h = op.Handler()
	}()
	return h, st, err
}

func c12uDcrPath(opts []Opt) string {
	p := ""
	for _, o := range opts {
		if o.Name == "WithDCREndpoint" {
			p = o.S
		}
	}
	if p == "" {
		p = "/register"
	}
	return p
}

type c12uClient struct {
	ID, Tok, Prev, URI, First string
	Alive                     bool
}

const c12uMeta = `"redirect_uris":["https://rp.example/cb"],"token_endpoint_auth_method":"client_secret_basic","scope":"openid","grant_types":["authorization_code"],"response_types":["code"]`

func c12uBody(odd bool, n int) string {
	if odd {
		return fmt.Sprintf(`{"registration_client_uri":"https://elsewhere.example/register/mine","client_id":"chosen-by-the-client-%d","registration_access_token":"chosen-token","Registration_Client_URI":"https://elsewhere.example/x",%s,"client_name":"c%d"}`, n, c12uMeta, n)
	}
	return fmt.Sprintf(`{%s,"client_name":"c%d"}`, c12uMeta, n)
}

func c12uSend(h http.Handler, st *Stores, method, url, token, body string) (served bool, status int, m map[string]any) {
	if !strings.HasPrefix(url, issuer+"/") {
		// another host: not this server
		return false, 0, nil
	}
	var req *http.Request
	if body != "" {
		req = httptest.NewRequest(method, url, strings.NewReader(body))
		req.Header.Set("Content-Type", "application/json")
	} else {
		req = httptest.NewRequest(method, url, nil)
	}
	if token != "" {
		req.Header.Set("Authorization", "Bearer "+token)
	}
	st.BeginRequest(nil, -1)
	rec := httptest.NewRecorder()
	panicked := false
	func() {
		defer func() {
			if r := recover(); r != nil {
				panicked = true
			}
		}()
		h.ServeHTTP(rec, req)
	}()
	if panicked {
		return true, 599, nil
	}
	raw := rec.Body.String()
	if rec.Code == 404 && strings.HasPrefix(raw, "404 page not found") {
		return false, rec.Code, nil
	}
	if rec.Code == 405 && strings.HasPrefix(raw, "Method Not Allowed") {
		return false, rec.Code, nil
	}
	if rec.Code >= 300 && rec.Code < 400 && rec.Header().Get("Location") != "" && raw != "" && strings.Contains(raw, "Moved Permanently") {
		// the mux's own path-cleaning redirect
		return false, rec.Code, nil
	}
	_ = json.Unmarshal(rec.Body.Bytes(), &m)
	return true, rec.Code, m
}

func c12uRun(cfg c12uCfg) (c12uCase, error) {
	k := c12uCase{Cfg: cfg}
	h, st, err := c12uBuild(cfg)
	if err != nil {
		return k, err
	}
	prefix := c19pPrefix(cfg.Opts)
	dcr := c12uDcrPath(cfg.Opts)
	_, _, doc := c12uSend(h, st, "GET", issuer+prefix+"/.well-known/openid-configuration", "", "")
	if b, err := json.Marshal(doc); err == nil {
		k.Doc = string(b)
	}
	k.RegEP, _ = doc["registration_endpoint"].(string)
	var cl []*c12uClient
	returned := map[string]bool{}
	for n, a := range cfg.Script {
		s := c12uStep{Kind: a.Kind, Act: a}
		if a.Kind == "create" {
			s.Meth, s.URL, s.Given, s.Live = "POST", k.RegEP, true, true
			if s.URL == "" {
				s.Skipped = "no registration_endpoint in the document"
				s.URL = issuer + prefix + dcr
				s.Given = false
			}
			var m map[string]any
			s.Served, s.Status, m = c12uSend(h, st, "POST", s.URL, "", c12uBody(a.Odd, n))
			s.OK = s.Status >= 200 && s.Status < 300
			c := &c12uClient{}
			if s.OK {
				s.Rid, _ = m["client_id"].(string)
				s.Ruri, _ = m["registration_client_uri"].(string)
				tok, _ := m["registration_access_token"].(string)
				s.Rtok = tok != ""
				*c = c12uClient{ID: s.Rid, Tok: tok, URI: s.Ruri, First: s.Ruri, Alive: true}
				returned[s.Ruri] = true
			}
			cl = append(cl, c)
			k.Steps = append(k.Steps, s)
			continue
		}
		if a.Client >= len(cl) || cl[a.Client].ID == "" {
			continue
		}
		c := cl[a.Client]
		s.Cid = c.ID
		switch a.URL {
		case "given":
			s.URL, s.Given = c.URI, true
		case "first":
			s.URL, s.Given = c.First, true
		case "noprefix":
			s.URL = issuer + dcr + "/" + c.ID
		case "defaultpath":
			s.URL = issuer + prefix + "/register/" + c.ID
		case "bare":
			s.URL = issuer + "/register/" + c.ID
		case "trailing":
			s.URL = issuer + prefix + dcr + "/" + c.ID + "/"
		case "doubled":
			s.URL = issuer + prefix + prefix + dcr + "/" + c.ID
		}
		if !s.Given && (returned[s.URL] || s.URL == k.RegEP+"/"+c.ID) {
			continue // the variant coincides with a URL the server did return (no prefix / no override)
		}
		tok := ""
		switch a.Tok {
		case "current":
			tok = c.Tok
		case "previous":
			if c.Prev == "" || c.Prev == c.Tok {
				continue
			}
			tok = c.Prev
		case "foreign":
			for i, o := range cl {
				if i != a.Client && o.Tok != "" && o.Tok != c.Tok {
					tok = o.Tok
				}
			}
			if tok == "" {
				continue
			}
		}
		s.Tok = a.Tok
		s.Live = c.Alive && tok != "" && tok == c.Tok
		body := ""
		switch a.Kind {
		case "read":
			s.Meth = "GET"
		case "update":
			s.Meth, body = "PUT", c12uBody(a.Odd, n)
		case "delete":
			s.Meth = "DELETE"
		}
		var m map[string]any
		s.Served, s.Status, m = c12uSend(h, st, s.Meth, s.URL, tok, body)
		s.OK = s.Status >= 200 && s.Status < 300
		if s.OK {
			switch a.Kind {
			case "read", "update":
				s.Rid, _ = m["client_id"].(string)
				s.Ruri, _ = m["registration_client_uri"].(string)
				nt, _ := m["registration_access_token"].(string)
				s.Rtok = nt != ""
				if s.Live || a.Kind == "update" {
					if s.Ruri != "" {
						c.URI = s.Ruri
						returned[s.Ruri] = true
					}
					if a.Kind == "update" && nt != "" {
						c.Prev, c.Tok = c.Tok, nt
					}
				}
			case "delete":
				c.Alive = false
			}
		}
		k.Steps = append(k.Steps, s)
	}
	return k, nil
}

// ---- configurations and scripts ----
func c12uOpts(prefix, dcr string, rotation bool, order int, extra ...Opt) []Opt {
	var o []Opt
	pre := Opt{Name: "WithPathPrefix", S: prefix}
	ep := Opt{Name: "WithDCREndpoint", S: dcr}
	if prefix != "" && order%2 == 1 {
		o = append(o, pre)
	}
	if dcr != "" && order%4 >= 2 {
		o = append(o, ep)
	}
	o = append(o, Opt{Name: "WithAuthorizationCodeGrant"}, Opt{Name: "WithDCR"})
	if rotation {
		o = append(o, Opt{Name: "WithDCRTokenRotation"})
	}
	o = append(o, extra...)
	if dcr != "" && order%4 < 2 {
		o = append(o, ep)
	}
	if prefix != "" && order%2 == 0 {
		o = append(o, pre)
	}
	return o
}

// the directed script: two clients; every returned URI followed with every method; every token kind;
// every variant URL
func c12uDirected(odd bool) []c12uAct {
	return []c12uAct{
		{Kind: "create", Client: 0, Odd: odd},
		{Kind: "read", Client: 0, URL: "given", Tok: "current"},
		{Kind: "create", Client: 1},
		{Kind: "read", Client: 0, URL: "given", Tok: "foreign"},
		{Kind: "read", Client: 0, URL: "given", Tok: "none"},
		{Kind: "read", Client: 0, URL: "noprefix", Tok: "current"},
		{Kind: "read", Client: 0, URL: "defaultpath", Tok: "current"},
		{Kind: "read", Client: 0, URL: "bare", Tok: "current"},
		{Kind: "update", Client: 0, URL: "noprefix", Tok: "current"},
		{Kind: "delete", Client: 0, URL: "defaultpath", Tok: "current"},
		{Kind: "update", Client: 0, URL: "given", Tok: "current", Odd: !odd},
		{Kind: "read", Client: 0, URL: "given", Tok: "current"},
		{Kind: "read", Client: 0, URL: "first", Tok: "previous"},
		{Kind: "update", Client: 0, URL: "given", Tok: "previous"},
		{Kind: "update", Client: 0, URL: "first", Tok: "current"},
		{Kind: "read", Client: 1, URL: "given", Tok: "current"},
		{Kind: "delete", Client: 1, URL: "noprefix", Tok: "current"},
		{Kind: "delete", Client: 1, URL: "bare", Tok: "current"},
		{Kind: "delete", Client: 1, URL: "given", Tok: "foreign"},
		{Kind: "delete", Client: 1, URL: "given", Tok: "current"},
		{Kind: "read", Client: 1, URL: "given", Tok: "current"},
		{Kind: "read", Client: 0, URL: "trailing", Tok: "current"},
		{Kind: "read", Client: 0, URL: "doubled", Tok: "current"},
		{Kind: "delete", Client: 0, URL: "given", Tok: "current"},
		{Kind: "update", Client: 0, URL: "given", Tok: "current"},
	}
}

func c12uRandomScript(r *rand.Rand) []c12uAct {
	s := []c12uAct{{Kind: "create", Client: 0, Odd: r.Intn(2) == 0}}
	n := 1
	for i := 0; i < 10+r.Intn(14); i++ {
		if n < 3 && r.Intn(5) == 0 {
			s = append(s, c12uAct{Kind: "create", Client: n, Odd: r.Intn(3) == 0})
			n++
			continue
		}
		a := c12uAct{Client: r.Intn(n), Odd: r.Intn(3) == 0}
		a.Kind = pick(r, []string{"read", "read", "read", "update", "update", "delete"})
		a.URL = pick(r, []string{"given", "given", "given", "given", "first", "noprefix", "defaultpath", "bare", "trailing", "doubled"})
		a.Tok = pick(r, []string{"current", "current", "current", "current", "previous", "foreign", "none"})
		if a.Kind == "delete" && a.URL == "given" && a.Tok == "current" && r.Intn(3) != 0 {
			a.Kind = "read" // keep the clients alive for a while
		}
		s = append(s, a)
	}
	return s
}

var c12uPrefixes = []string{"", "/auth", "/tenants/acme"}
var c12uDcrPaths = []string{"", "/clients", "/reg/v2"}

func c12uConfigs(ctx *RunCtx) []c12uCfg {
	var out []c12uCfg
	i := 0
	for _, pre := range c12uPrefixes {
		for _, ep := range c12uDcrPaths {
			for _, rot := range []bool{true, false} {
				for _, fl := range []string{"alias", "copy"} {
					out = append(out, c12uCfg{Opts: c12uOpts(pre, ep, rot, i), Flavour: fl,
						Note:   fmt.Sprintf("matrix prefix=%q dcr=%q rotation=%v storage=%s", pre, ep, rot, fl),
						Script: c12uDirected(i%2 == 0)})
					i++
				}
			}
		}
	}
	// other endpoints enabled / overridden next to the registration endpoint, the default path given explicitly,
	// an empty override, the override given twice
	extras := [][]Opt{
		{{Name: "WithAuthorizeEndpoint", S: "/authz"}},
		{{Name: "WithTokenIntrospection"}, {Name: "WithTokenIntrospectionEndpoint", S: "/clients/introspect"}},
		{{Name: "WithPAR", Z: 60}, {Name: "WithPAREndpoint", S: "/register/par"}},
		{{Name: "WithDCREndpoint", S: "/first"}},
		{{Name: "WithJWKSEndpoint", S: "/keys"}, {Name: "WithUserInfoEndpoint", S: "/me"}, {Name: "WithTokenEndpoint", S: "/tok"}},
		{{Name: "WithMTLS"}},
	}
	for j, ex := range extras {
		for _, pre := range []string{"", "/auth"} {
			ep := []string{"/clients", "/clients", "/register", "/reg/v2"}[j%4]
			if j == 2 {
				ep = "/clients" // /register/par below the default registration root would overlap
			}
			out = append(out, c12uCfg{Opts: c12uOpts(pre, ep, j%2 == 0, j, ex...), Flavour: []string{"copy", "alias"}[j%2],
				Note:   fmt.Sprintf("extra#%d prefix=%q dcr=%q", j, pre, ep),
				Script: c12uDirected(j%2 == 1)})
		}
	}
	// an empty override after a real one gives the default path back
	out = append(out, c12uCfg{Opts: []Opt{{Name: "WithDCREndpoint", S: "/clients"}, {Name: "WithDCR"}, {Name: "WithAuthorizationCodeGrant"}, {Name: "WithPathPrefix", S: "/auth"},
		{Name: "WithDCREndpoint", S: ""}}, Flavour: "copy", Note: "override then empty override, prefix", Script: c12uDirected(true)})
	// the prefix given twice: the last one counts
	out = append(out, c12uCfg{Opts: []Opt{{Name: "WithPathPrefix", S: "/old"}, {Name: "WithDCR"}, {Name: "WithDCRTokenRotation"}, {Name: "WithAuthorizationCodeGrant"},
		{Name: "WithPathPrefix", S: "/new/v1"}}, Flavour: "alias", Note: "prefix twice", Script: c12uDirected(false)})
	// random configurations and scripts
	segs := []string{"a", "op", "oidc", "v1", "t-42", "acme", "x_y", "id.p"}
	for n := 0; n < ctx.N(16, 300); n++ {
		r := rand.New(rand.NewSource(ctx.R.Int63()))
		pre, ep := "", ""
		for d := r.Intn(4); d > 0; d-- {
			pre += "/" + pick(r, segs)
		}
		switch r.Intn(4) {
		case 0:
		case 1:
			ep = "/register"
		default:
			ep = "/" + pick(r, []string{"clients", "reg", "dcr", "connect/register", "rp"})
			if r.Intn(3) == 0 {
				ep += "/" + pick(r, segs)
			}
		}
		var ex []Opt
		if r.Intn(3) == 0 {
			ex = append(ex, Opt{Name: "WithAuthorizeEndpoint", S: "/" + pick(r, []string{"authz", "authorize", "login/authorize"})})
		}
		if r.Intn(3) == 0 {
			ex = append(ex, Opt{Name: "WithTokenIntrospection"})
		}
		if r.Intn(4) == 0 {
			ex = append(ex, Opt{Name: "WithTokenRevocation"}, Opt{Name: "WithTokenRevocationEndpoint", S: "/revocation"})
		}
		if r.Intn(4) == 0 {
			ex = append(ex, Opt{Name: "WithMTLS"})
		}
		out = append(out, c12uCfg{Opts: c12uOpts(pre, ep, r.Intn(2) == 0, r.Intn(4), ex...), Flavour: pick(r, []string{"alias", "copy"}),
			Note: fmt.Sprintf("random#%d prefix=%q dcr=%q", n, pre, ep), Script: c12uRandomScript(r)})
	}
	return out
}

// ---- the rule, on the observations (names the URL in the Finding) ----
func c12uJudge(k *c12uCase, report func(sig, what string, replay map[string]any)) {
	for i, s := range k.Steps {
		replay := map[string]any{"options": c19pOptsString(k.Cfg.Opts), "Opts": k.Cfg.Opts, "storage": k.Cfg.Flavour,
			"registration_endpoint": k.RegEP, "steps": k.Steps[:i+1], "failing_step": i}
		under := fmt.Sprintf("under %s, storage %s (%s)", c19pOptsString(k.Cfg.Opts), k.Cfg.Flavour, k.Cfg.Note)
		hasDoc := s.OK && s.Kind != "delete"
		if hasDoc && (s.Rid == "" || s.Ruri != k.RegEP+"/"+s.Rid) {
			report("c12uri:registration_client_uri:not-registration-endpoint-plus-client-id",
				fmt.Sprintf("the %s answered by %s %s carries registration_client_uri = %q, but the document's registration_endpoint is %q and client_id is %q (expected %q), %s",
					s.Kind, s.Meth, s.URL, s.Ruri, k.RegEP, s.Rid, k.RegEP+"/"+s.Rid, under), replay)
		}
		if hasDoc && s.Kind != "create" && s.Rid != s.Cid {
			report("c12uri:client_id:another-client-answered",
				fmt.Sprintf("%s %s (the URI returned for client %q) answered the document of client %q, %s", s.Meth, s.URL, s.Cid, s.Rid, under), replay)
		}
		if s.Given && s.Live && s.Kind != "create" && !s.Served {
			report("c12uri:registration_client_uri:not-served",
				fmt.Sprintf("the registration_client_uri %q returned for client %q is not served: %s with the registration token in force -> %d (the mux's own answer), %s",
					s.URL, s.Cid, s.Meth, s.Status, under), replay)
		} else if s.Given && s.Live && !s.OK {
			report("c12uri:registration_client_uri:refused",
				fmt.Sprintf("%s %s (a URL the server returned, %s) with the registration token in force -> %d, %s", s.Meth, s.URL, s.Kind, s.Status, under), replay)
		}
		if !s.Given && s.OK {
			report("c12uri:unreturned-url-works",
				fmt.Sprintf("%s %s -> %d although the server never returned that URL for client %q (registration_endpoint %q), %s", s.Meth, s.URL, s.Status, s.Cid, k.RegEP, under), replay)
		}
		if s.Kind != "create" && !s.Live && s.OK {
			report("c12uri:accepted-without-current-token",
				fmt.Sprintf("%s %s with token kind %q -> %d, %s", s.Meth, s.URL, s.Tok, s.Status, under), replay)
		}
	}
}

const c12uHeader = `From Verif Require Import Base Scope Types Config Discovery Routes Dcr DcrUri.
From Verif.Corr Require Import C12Uri.
Local Open Scope N_scope.
`

func init() {
	register(&Suite{Name: "c12uri", Run: func(ctx *RunCtx) {
		type found struct {
			F Finding
			N int
		}
		findings := map[string]*found{}
		report := func(sig, what string, replay map[string]any) {
			if f, ok := findings[sig]; ok {
				f.N++
				return
			}
			findings[sig] = &found{F: Finding{Property: "C12", Signature: sig, What: what, Replay: replay}, N: 1}
		}
		var cases []c12uCase
		cfgs := c12uConfigs(ctx)
		ran := make([]c12uCase, len(cfgs))
		errs := make([]error, len(cfgs))
		var wg sync.WaitGroup
		sem := make(chan struct{}, 12)
		for i := range cfgs {
			wg.Add(1)
			sem <- struct{}{}
			go func(i int) {
				defer wg.Done()
				defer func() { <-sem }()
				ran[i], errs[i] = c12uRun(cfgs[i])
			}(i)
		}
		wg.Wait()
		for i, cfg := range cfgs {
			k, err := ran[i], errs[i]
			if err != nil {
				report("c12uri:configuration:not-built", fmt.Sprintf("provider.New / Handler() failed under %s: %v", c19pOptsString(cfg.Opts), err),
					map[string]any{"options": c19pOptsString(cfg.Opts), "error": err.Error()})
				continue
			}
			c12uJudge(&k, report)
			cases = append(cases, k)
			ctx.Meta.Ops += len(k.Steps)
		}
		var sigs []string
		for s := range findings {
			sigs = append(sigs, s)
		}
		sort.Strings(sigs)
		for _, s := range sigs {
			f := findings[s]
			if f.N > 1 {
				f.F.What += fmt.Sprintf(" (and %d more occurrences)", f.N-1)
			}
			ctx.Meta.Findings = append(ctx.Meta.Findings, f.F)
		}
		per := 60
		for f := 0; f*per < len(cases); f++ {
			hi := (f + 1) * per
			if hi > len(cases) {
				hi = len(cases)
			}
			var b strings.Builder
			b.WriteString(c12uHeader)
			var names []string
			for i, cs := range cases[f*per : hi] {
				fmt.Fprintf(&b, "(*CASE %d %s*)\nDefinition c_%d : c12ucase :=\n%s.\n", f*per+i, cs.Cfg.Note, f*per+i, cs.coq())
				names = append(names, fmt.Sprintf("c_%d", f*per+i))
			}
			b.WriteString("Definition cases : list c12ucase := [" + strings.Join(names, "; ") + "].\n")
			b.WriteString("Definition corr := Eval vm_compute in map check_c12u cases.\nPrint corr.\n")
			b.WriteString("Definition mon := Eval vm_compute in map mon_c12u cases.\nPrint mon.\n")
			name := fmt.Sprintf("cases_%03d.v", f)
			if err := os.WriteFile(filepath.Join(ctx.Out, name), []byte(b.String()), 0o644); err != nil {
				panic(err)
			}
			ctx.Meta.Files = append(ctx.Meta.Files, name)
		}
		seen := map[string]bool{}
		var jc []map[string]any
		for i, c := range cases {
			okN, noN := 0, 0
			var sb strings.Builder
			var ops []string
			sb.WriteString(c19pOptsString(c.Cfg.Opts))
			for _, s := range c.Steps {
				fmt.Fprint(&sb, s.Kind, s.Act.URL, s.Act.Tok, s.Served, s.OK, ";")
				ops = append(ops, fmt.Sprintf("%s %s (url: %s, token: %s)", s.Meth, s.URL, s.Act.URL, s.Act.Tok))
				if s.OK {
					okN++
				} else {
					noN++
				}
				ctx.Meta.Dist[fmt.Sprintf("%s url=%s token=%s -> served=%v ok=%v", s.Kind, s.Act.URL, s.Tok, s.Served, s.OK)]++
			}
			ctx.Meta.Dist[fmt.Sprintf("configuration prefix=%v dcr-endpoint-overridden=%v rotation=%v storage=%s", c19pPrefix(c.Cfg.Opts) != "",
				hasOpt(c.Cfg.Opts, "WithDCREndpoint"), hasOpt(c.Cfg.Opts, "WithDCRTokenRotation"), c.Cfg.Flavour)]++
			if okN > 0 && noN > 0 {
				seen[sb.String()] = true
			}
			var optStrs []string
			for _, o := range c.Cfg.Opts {
				optStrs = append(optStrs, c19pOptString(o))
			}
			jc = append(jc, map[string]any{"Index": i, "Note": c.Cfg.Note + " " + c19pOptsString(c.Cfg.Opts),
				"Spec": map[string]any{"Profile": "openid", "Options": optStrs, "Opts": c.Cfg.Opts, "storage": c.Cfg.Flavour},
				"Ops":  ops,
				"Obs":  map[string]any{"registration_endpoint": c.RegEP, "steps": c.Steps}})
			if i == 0 || i == 20 {
				ctx.Meta.Samples = append(ctx.Meta.Samples, map[string]any{"note": c.Cfg.Note, "options": optStrs, "registration_endpoint": c.RegEP, "first_ops": ops[:min(len(ops), 8)]})
			}
			ctx.Meta.CaseNotes = append(ctx.Meta.CaseNotes, c.Cfg.Note)
		}
		ctx.Meta.Cases = len(cases)
		ctx.Meta.Distinct = len(seen)
		ctx.Meta.Rule = "option lists: WithPathPrefix {none, /auth, /tenants/acme} x WithDCREndpoint {none, /clients, /reg/v2} x rotation x storage x option order (deterministic), other endpoints enabled / overridden, prefix / override given twice or empty, random prefixes / endpoint names / scripts; each with a script of registration-management requests sent to URLs taken verbatim from responses or to variants never returned; distinct by (options, script, outcome); non-trivial = at least one accepted and one refused request"
		jb, _ := json.Marshal(jc)
		_ = os.WriteFile(filepath.Join(ctx.Out, "cases.json"), jb, 0o644)
	}})
}
