package main

import "fmt"

// generic mixed histories: the correspondence backbone for the history properties
func runSysHistories(ctx *RunCtx, n int, nops int, want map[string]bool, weights map[string]int, dev int, flavours []string, note string) {
	for i := 0; i < n; i++ {
		fl := flavours[i%len(flavours)]
		spec := randomSpec(ctx.R, fl, want)
		g, err := NewSysGen(ctx.R, spec)
		if err != nil {
			panic(err)
		}
		if weights != nil {
			for k, v := range weights {
				g.Weights[k] = v
			}
		}
		if dev >= 0 {
			g.DevRate = dev
		}
		g.Run(nops)
		ctx.AddCase(g.Case(fmt.Sprintf("%s#%d/%s", note, i, fl)))
		ctx.AddStats(g.stats)
	}
}

func init() {
	register(&Suite{Name: "sys", Run: func(ctx *RunCtx) {
		runSysHistories(ctx, ctx.N(60, 2000), 30, map[string]bool{}, nil, -1, []string{"copy", "alias"}, "mixed")
		ctx.Meta.Rule = "random structured histories over all modelled operations; distinct by projected trace; non-trivial = at least one accepted and one refused operation"
		ctx.writeSysCases("", true)
		ctx.writeCasesJSON()
	}})
}
