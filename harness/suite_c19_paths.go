package main

// C19, endpoint path overrides: suite c19paths.
// A DETERMINISTIC matrix (the same for every seed; plus random option lists from ctx.R) crosses every
// With…Endpoint option of pkg/provider/option.go with its feature being enabled or not, with and
// without WithPathPrefix, the override before and after the enabling option, the override given as
// "" / as the default path / twice, two overrides at once, every override at once, with mTLS.
// For each list the REAL provider is built (provider.New with the options in that order), its
// discovery document is fetched, and the mux of Provider.Handler() is probed with real requests at
// every overridden path and every default path, under the prefix and without it, sub-resources
// included; pushed-authorization paths that answer get a VALID pushed request.  The case files run
// Routes.build3 / member3 / serve3 on the same lists (corr) and evaluate the property on the
// observations alone (mon); the same rule is evaluated here to name the member and the probe in a
// Finding.

import (
	"context"
	"encoding/json"
	"fmt"
	"net/http"
	"net/http/httptest"
	"net/url"
	"os"
	"path/filepath"
	"sort"
	"strings"

	"github.com/luikyv/go-oidc/pkg/goidc"
	"github.com/luikyv/go-oidc/pkg/provider"
)

type c19pEndpoint struct {
	Key      string   // short name used in signatures
	Option   string   // the With…Endpoint option ("" = no option assigns the field)
	Default  string   // pkg/provider/default.go
	Member   string   // the metadata member that carries its URL ("" = none)
	Own      []string // the methods the endpoint has to answer
	Enablers []string // options that enable it (nil = always on)
	Sub      string   // a sub-resource below it ("" = none)
	SubMeths []string
}

var c19pEndpoints = []c19pEndpoint{
	{Key: "jwks", Option: "WithJWKSEndpoint", Default: "/jwks", Member: "jwks_uri", Own: []string{"GET"}},
	{Key: "token", Option: "WithTokenEndpoint", Default: "/token", Member: "token_endpoint", Own: []string{"POST"}},
	{Key: "authorize", Option: "WithAuthorizeEndpoint", Default: "/authorize", Member: "authorization_endpoint", Own: []string{"GET", "POST"},
		Sub: "/some-callback-id", SubMeths: []string{"GET", "POST"}},
	{Key: "userinfo", Option: "WithUserInfoEndpoint", Default: "/userinfo", Member: "userinfo_endpoint", Own: []string{"GET", "POST"}},
	{Key: "par", Option: "WithPAREndpoint", Default: "/par", Member: "pushed_authorization_request_endpoint", Own: []string{"POST"},
		Enablers: []string{"WithPAR", "WithPARRequired"}},
	{Key: "ciba", Option: "WithCIBAEndpoint", Default: "/bc-authorize", Member: "backchannel_authentication_endpoint", Own: []string{"POST"},
		Enablers: []string{"WithCIBAGrant"}},
	{Key: "introspection", Option: "WithTokenIntrospectionEndpoint", Default: "/introspect", Member: "introspection_endpoint", Own: []string{"POST"},
		Enablers: []string{"WithTokenIntrospection"}},
	{Key: "revocation", Option: "WithTokenRevocationEndpoint", Default: "/revoke", Member: "revocation_endpoint", Own: []string{"POST"},
		Enablers: []string{"WithTokenRevocation"}},
	{Key: "dcr", Option: "WithDCREndpoint", Default: "/register", Member: "registration_endpoint", Own: []string{"POST"},
		Enablers: []string{"WithDCR"}, Sub: "/c1", SubMeths: []string{"GET", "PUT", "DELETE", "POST"}},
	{Key: "discovery", Default: "/.well-known/openid-configuration", Own: []string{"GET"}},
}

func c19pEndpointByOption(name string) *c19pEndpoint {
	for i := range c19pEndpoints {
		if c19pEndpoints[i].Option == name && name != "" {
			return &c19pEndpoints[i]
		}
	}
	return nil
}

func c19pOptCoq(o Opt) string {
	if c19pEndpointByOption(o.Name) != nil {
		return o.Name + " " + cS(o.S)
	}
	s := o.coq()
	if strings.Contains(s, " ") {
		return "PO (" + s + ")"
	}
	return "PO " + s
}

func c19pOptString(o Opt) string {
	if c19pEndpointByOption(o.Name) != nil || o.Name == "WithPathPrefix" {
		return fmt.Sprintf("%s(%q)", o.Name, o.S)
	}
	if o.Name == "WithPAR" || o.Name == "WithPARRequired" {
		return fmt.Sprintf("%s(%d)", o.Name, o.Z)
	}
	return o.Name + "()"
}

func c19pOptsString(opts []Opt) string {
	var l []string
	for _, o := range opts {
		l = append(l, c19pOptString(o))
	}
	return "[" + strings.Join(l, ", ") + "]"
}

const (
	c19pClientID = "c19paths-client"
	c19pSecret   = "c19paths-client-secret"
	c19pRedirect = "https://c19paths.example/cb"
)

// the real option for an Opt: the options of the matrix only (everything else is c19's business)
func c19pProviderOpt(o Opt) (provider.ProviderOption, error) {
	allow := func(*goidc.Client) bool { return true }
	switch o.Name {
	case "WithAuthorizationCodeGrant":
		return provider.WithAuthorizationCodeGrant(), nil
	case "WithPAR":
		return provider.WithPAR(o.Z), nil
	case "WithPARRequired":
		return provider.WithPARRequired(o.Z), nil
	case "WithCIBAGrant":
		return provider.WithCIBAGrant(
			func(context.Context, *goidc.AuthnSession) error { return nil },
			func(context.Context, *goidc.AuthnSession) error { return nil },
			goidc.CIBATokenDeliveryModePoll), nil
	case "WithTokenIntrospection":
		return provider.WithTokenIntrospection(allow, goidc.ClientAuthnSecretPost), nil
	case "WithTokenRevocation":
		return provider.WithTokenRevocation(allow, goidc.ClientAuthnSecretPost), nil
	case "WithDCR":
		return provider.WithDCR(nil, nil), nil
	case "WithMTLS":
		return provider.WithMTLS("https://mtls.as.example", nil), nil
	case "WithPathPrefix":
		return provider.WithPathPrefix(o.S), nil
	case "WithJWKSEndpoint":
		return provider.WithJWKSEndpoint(o.S), nil
	case "WithTokenEndpoint":
		return provider.WithTokenEndpoint(o.S), nil
	case "WithAuthorizeEndpoint":
		return provider.WithAuthorizeEndpoint(o.S), nil
	case "WithPAREndpoint":
		return provider.WithPAREndpoint(o.S), nil
	case "WithDCREndpoint":
		return provider.WithDCREndpoint(o.S), nil
	case "WithUserInfoEndpoint":
		return provider.WithUserInfoEndpoint(o.S), nil
	case "WithTokenIntrospectionEndpoint":
		return provider.WithTokenIntrospectionEndpoint(o.S), nil
	case "WithTokenRevocationEndpoint":
		return provider.WithTokenRevocationEndpoint(o.S), nil
	case "WithCIBAEndpoint":
		return provider.WithCIBAEndpoint(o.S), nil
	}
	return nil, fmt.Errorf("c19paths: unknown option %s", o.Name)
}

// provider.New with the options IN THE ORDER OF THE LIST (after the embedder's fixed ones: one
// confidential static client, client_secret_post), then Handler()
func c19pBuild(opts []Opt) (h http.Handler, err error) {
	client := &goidc.Client{
		ID:           c19pClientID,
		HashedSecret: bcryptOf(c19pSecret),
		ClientMetaInfo: goidc.ClientMetaInfo{
			TokenAuthnMethod: goidc.ClientAuthnSecretPost,
			RedirectURIs:     []string{c19pRedirect},
			ScopeIDs:         "openid",
			GrantTypes:       []goidc.GrantType{goidc.GrantAuthorizationCode},
			ResponseTypes:    []goidc.ResponseType{goidc.ResponseTypeCode},
		},
	}
	po := []provider.ProviderOption{
		provider.WithTokenAuthnMethods(goidc.ClientAuthnSecretPost),
		provider.WithStaticClient(client),
	}
	for _, o := range opts {
		x, e := c19pProviderOpt(o)
		if e != nil {
			return nil, e
		}
		po = append(po, x)
	}
	op, err := provider.New(goidc.ProfileOpenID, issuer,
		func(context.Context) (goidc.JSONWebKeySet, error) { return goidc.JSONWebKeySet{}, nil }, po...)
	if err != nil {
		return nil, err
	}
	defer func() {
		if r := recover(); r != nil {
			h, err = nil, fmt.Errorf("Handler() panicked: %v", r)
		}
	}()
	return op.Handler(), nil
}

type c19pProbe struct {
	Meth       string
	Path       string
	Ep         string // the endpoint whose path this is
	Role       string // default | override
	Prefixed   bool   // under the configured prefix
	Kind       int    // 0 endpoint, 1 discovery document, 2 sub-resource
	Served     bool
	Status     int
	Pushed     bool   `json:",omitempty"`
	Accepted   bool   `json:",omitempty"`
	PushStatus int    `json:",omitempty"`
	RequestURI string `json:",omitempty"`
}

func (p c19pProbe) coq() string {
	m := map[string]string{"GET": "MGet", "POST": "MPost", "PUT": "MPut", "DELETE": "MDelete"}[p.Meth]
	return fmt.Sprintf("mkPProbe %s %s %d %s %s %s", m, cS(p.Path), p.Kind, cB(p.Served), cB(p.Pushed), cB(p.Accepted))
}

func (p c19pProbe) String() string {
	s := fmt.Sprintf("%s %s -> %d", p.Meth, p.Path, p.Status)
	if p.Pushed {
		s += fmt.Sprintf("; a valid pushed request there -> %d", p.PushStatus)
		if p.RequestURI != "" {
			s += " request_uri=" + p.RequestURI
		}
	}
	return s
}

func c19pDo(h http.Handler, method, path string, form url.Values) (rec *httptest.ResponseRecorder, panicked any) {
	var req *http.Request
	if form != nil {
		req = httptest.NewRequest(method, path, strings.NewReader(form.Encode()))
		req.Header.Set("Content-Type", "application/x-www-form-urlencoded")
	} else {
		req = httptest.NewRequest(method, path, nil)
	}
	rec = httptest.NewRecorder()
	defer func() {
		if r := recover(); r != nil {
			panicked = r
		}
	}()
	h.ServeHTTP(rec, req)
	return rec, nil
}

// dispatched to a handler, as opposed to ServeMux's own 404 / 405
func c19pServed(h http.Handler, method, path string) (bool, int) {
	var form url.Values
	if method == "POST" || method == "PUT" {
		form = url.Values{}
	}
	rec, pan := c19pDo(h, method, path, form)
	if pan != nil {
		return true, 0
	}
	body := rec.Body.String()
	if rec.Code == 404 && strings.HasPrefix(body, "404 page not found") {
		return false, rec.Code
	}
	if rec.Code == 405 && strings.HasPrefix(body, "Method Not Allowed") {
		return false, rec.Code
	}
	return true, rec.Code
}

// a valid pushed authorization request with client credentials (the demonstration's request)
func c19pPush(h http.Handler, path string) (int, string) {
	form := url.Values{
		"client_id":     {c19pClientID},
		"client_secret": {c19pSecret},
		"redirect_uri":  {c19pRedirect},
		"response_type": {"code"},
		"scope":         {"openid"},
		"state":         {"c19paths-state"},
	}
	rec, pan := c19pDo(h, "POST", path, form)
	if pan != nil {
		return 0, ""
	}
	var m map[string]any
	_ = json.Unmarshal(rec.Body.Bytes(), &m)
	ru, _ := m["request_uri"].(string)
	return rec.Code, ru
}

func c19pPrefix(opts []Opt) string {
	p := ""
	for _, o := range opts {
		if o.Name == "WithPathPrefix" {
			p = o.S
		}
	}
	return p
}

type c19pCase struct {
	Opts   []Opt
	Note   string
	Doc    []docMember
	Raw    string
	Probes []c19pProbe
}

func (c c19pCase) coq() string {
	return fmt.Sprintf("(mkC19P\n %s\n %s\n %s)", cList(c.Opts, c19pOptCoq),
		cList(c.Doc, func(m docMember) string { return "(" + cS(m.Name) + ", " + m.V.coq() + ")" }),
		cList(c.Probes, c19pProbe.coq))
}

// the document, parsed like fetchDoc does (strings, booleans, arrays, the aliases object)
func c19pFetchDoc(h http.Handler, prefix string) ([]docMember, string, error) {
	rec, pan := c19pDo(h, "GET", prefix+"/.well-known/openid-configuration", nil)
	if pan != nil {
		return nil, "", fmt.Errorf("panic: %v", pan)
	}
	raw := rec.Body.String()
	var m map[string]any
	if err := json.Unmarshal([]byte(raw), &m); err != nil {
		return nil, raw, err
	}
	var names []string
	for k := range m {
		names = append(names, k)
	}
	sort.Strings(names)
	var out []docMember
	for _, k := range names {
		switch v := m[k].(type) {
		case string:
			out = append(out, docMember{k, dval{Kind: "str", S: v}})
		case bool:
			out = append(out, docMember{k, dval{Kind: "bool", B: v}})
		case []any:
			var l []string
			for _, x := range v {
				l = append(l, fmt.Sprint(x))
			}
			out = append(out, docMember{k, dval{Kind: "set", L: l}})
		case map[string]any:
			var ks []string
			for kk := range v {
				ks = append(ks, kk)
			}
			sort.Strings(ks)
			var o [][2]string
			for _, kk := range ks {
				o = append(o, [2]string{kk, fmt.Sprint(v[kk])})
			}
			out = append(out, docMember{k, dval{Kind: "obj", O: o}})
		case nil:
		default:
			out = append(out, docMember{k, dval{Kind: "str", S: fmt.Sprint(v)}})
		}
	}
	return out, raw, nil
}

func c19pRun(ctx *RunCtx, opts []Opt, note string) (c19pCase, bool) {
	k := c19pCase{Opts: opts, Note: note + " " + c19pOptsString(opts)}
	h, err := c19pBuild(opts)
	if err != nil {
		ctx.Meta.Dist["configuration refused: "+truncate(err.Error(), 60)]++
		c19pReport(ctx, "c19paths:configuration:not-built", fmt.Sprintf("provider.New / Handler() failed under %s: %v", k.Note, err),
			map[string]any{"options": c19pOptsString(opts), "error": err.Error()})
		return k, false
	}
	prefix := c19pPrefix(opts)
	doc, raw, err := c19pFetchDoc(h, prefix)
	if err != nil {
		c19pReport(ctx, "discovery-document-unreadable", "GET "+prefix+"/.well-known/openid-configuration did not return a JSON document under "+k.Note,
			map[string]any{"options": c19pOptsString(opts), "body": raw})
		return k, false
	}
	k.Doc, k.Raw = doc, raw
	seen := map[string]bool{}
	add := func(p c19pProbe) {
		key := p.Meth + " " + p.Path
		if seen[key] {
			return
		}
		seen[key] = true
		p.Served, p.Status = c19pServed(h, p.Meth, p.Path)
		if p.Ep == "par" && p.Kind == 0 && p.Meth == "POST" && p.Served {
			p.Pushed = true
			p.PushStatus, p.RequestURI = c19pPush(h, p.Path)
			p.Accepted = p.PushStatus == 201 && p.RequestURI != ""
		}
		k.Probes = append(k.Probes, p)
	}
	prefixes := []string{prefix}
	if prefix != "" {
		prefixes = append(prefixes, "")
	}
	for _, e := range c19pEndpoints {
		type rp struct{ path, role string }
		paths := []rp{{e.Default, "default"}}
		for _, o := range opts {
			if o.Name == e.Option && e.Option != "" && o.S != "" && o.S != e.Default {
				paths = append(paths, rp{o.S, "override"})
			}
		}
		meths := []string{"GET", "POST"}
		if e.Key == "dcr" {
			meths = []string{"GET", "POST", "PUT", "DELETE"}
		}
		kind := 0
		if e.Key == "discovery" {
			kind = 1
		}
		for _, x := range paths {
			for _, pf := range prefixes {
				for _, m := range meths {
					add(c19pProbe{Meth: m, Path: pf + x.path, Ep: e.Key, Role: x.role, Prefixed: pf == prefix, Kind: kind})
				}
				if e.Sub != "" {
					for _, m := range e.SubMeths {
						add(c19pProbe{Meth: m, Path: pf + x.path + e.Sub, Ep: e.Key, Role: x.role, Prefixed: pf == prefix, Kind: 2})
					}
				}
			}
		}
	}
	c19pJudge(ctx, &k)
	return k, true
}

// ---- the rule, evaluated on the observations (and the option list for "enabled") ----
type c19pFound struct {
	F Finding
	N int
}

var c19pFindings map[string]*c19pFound

func c19pReport(ctx *RunCtx, sig, what string, replay map[string]any) {
	if f, ok := c19pFindings[sig]; ok {
		f.N++
		return
	}
	c19pFindings[sig] = &c19pFound{F: Finding{Property: "C19", Signature: sig, What: what, Replay: replay}, N: 1}
}

func c19pJudge(ctx *RunCtx, k *c19pCase) {
	docStr := map[string]string{}
	for _, m := range k.Doc {
		if m.V.Kind == "str" {
			docStr[m.Name] = m.V.S
		}
	}
	known := map[string]bool{}
	for _, e := range c19pEndpoints {
		if e.Member != "" {
			known[e.Member] = true
		}
	}
	for name := range docStr {
		if (strings.HasSuffix(name, "_endpoint") || name == "jwks_uri") && !known[name] {
			c19pReport(ctx, "c19paths:"+name+":unknown-endpoint-member", "the document carries the endpoint member "+name+" that no probe covers, under "+k.Note,
				map[string]any{"options": c19pOptsString(k.Opts), "member": name, "value": docStr[name]})
		}
	}
	replay := func(e c19pEndpoint, p *c19pProbe) map[string]any {
		r := map[string]any{"options": c19pOptsString(k.Opts), "Opts": k.Opts, "endpoint": e.Key, "member": e.Member, "document": json.RawMessage(orNull(k.Raw))}
		if u, ok := docStr[e.Member]; ok {
			r["member_value"] = u
		} else {
			r["member_value"] = nil
		}
		if p != nil {
			r["probe"] = p
		}
		return r
	}
	for _, e := range c19pEndpoints {
		if e.Member == "" {
			continue
		}
		enabled := e.Enablers == nil || hasOpt(k.Opts, e.Enablers...)
		overridden := false
		for _, o := range k.Opts {
			if o.Name == e.Option {
				overridden = true
			}
		}
		u, adv := docStr[e.Member]
		ctx.Meta.Dist[fmt.Sprintf("endpoint %s: enabled=%v overridden=%v prefix=%v -> advertised=%v", e.Key, enabled, overridden, c19pPrefix(k.Opts) != "", adv)]++
		if adv && !enabled {
			c19pReport(ctx, "c19paths:"+e.Key+":advertised-but-not-enabled",
				fmt.Sprintf("%s = %s is in the metadata although no option enables it, under %s", e.Member, u, k.Note), replay(e, nil))
		}
		if !adv && enabled {
			c19pReport(ctx, "c19paths:"+e.Key+":enabled-not-advertised",
				fmt.Sprintf("%s is absent from the metadata although the feature is enabled, under %s", e.Member, k.Note), replay(e, nil))
		}
		for i := range k.Probes {
			p := &k.Probes[i]
			if p.Ep != e.Key || !p.Served {
				continue
			}
			at := issuer + p.Path
			okAt := adv && ((p.Kind == 0 && at == u) || (p.Kind == 2 && strings.HasPrefix(at, u+"/")))
			if okAt {
				continue
			}
			switch {
			case !adv && !enabled:
				c19pReport(ctx, "c19paths:"+e.Key+":served-but-not-enabled",
					fmt.Sprintf("%s is not enabled and %s is absent from the metadata, but the provider serves it: %s, under %s", e.Key, e.Member, p, k.Note), replay(e, p))
			case !adv:
				c19pReport(ctx, "c19paths:"+e.Key+":served-not-advertised",
					fmt.Sprintf("%s is absent from the metadata but the provider serves %s, under %s", e.Member, p, k.Note), replay(e, p))
			case p.Role == "default" && p.Prefixed && overridden:
				c19pReport(ctx, "c19paths:"+e.Key+":served-at-default-despite-override",
					fmt.Sprintf("%s = %s, but the default path is served too: %s, under %s", e.Member, u, p, k.Note), replay(e, p))
			default:
				c19pReport(ctx, "c19paths:"+e.Key+":served-elsewhere-than-advertised",
					fmt.Sprintf("%s = %s, but the provider also serves %s, under %s", e.Member, u, p, k.Note), replay(e, p))
			}
		}
		if adv {
			for _, m := range e.Own {
				ok := false
				var at *c19pProbe
				for i := range k.Probes {
					p := &k.Probes[i]
					if p.Meth == m && issuer+p.Path == u {
						at = p
						if p.Served {
							ok = true
						}
					}
				}
				if !ok {
					what := fmt.Sprintf("%s = %s is advertised but %s is not served there", e.Member, u, m)
					if at != nil {
						what += " (" + at.String() + ")"
					} else {
						what += " (the URL is none of issuer + prefix + overridden / default path)"
					}
					c19pReport(ctx, "c19paths:"+e.Key+":advertised-not-served", what+", under "+k.Note, replay(e, at))
				}
			}
		}
		if e.Key == "par" {
			for i := range k.Probes {
				p := &k.Probes[i]
				if !p.Pushed {
					continue
				}
				atAdv := adv && issuer+p.Path == u
				ctx.Meta.Dist[fmt.Sprintf("pushed request at the advertised endpoint=%v -> accepted=%v", atAdv, p.Accepted)]++
				if p.Accepted && !atAdv && (adv || enabled) {
					// (not enabled and not advertised: reported above as served-but-not-enabled, with the push)
					c19pReport(ctx, "c19paths:par:push-accepted-elsewhere-than-advertised",
						fmt.Sprintf("a pushed request was accepted at a URL that is not the advertised one: %s, under %s", p, k.Note), replay(e, p))
				}
				if !p.Accepted && atAdv {
					c19pReport(ctx, "c19paths:par:advertised-push-refused",
						fmt.Sprintf("%s = %s is advertised but a valid pushed request is refused there: %s, under %s", e.Member, u, p, k.Note), replay(e, p))
				}
			}
		}
	}
	for i := range k.Probes {
		p := &k.Probes[i]
		ctx.Meta.Dist[fmt.Sprintf("probe %s path, prefixed=%v, kind=%d -> served=%v", p.Role, p.Prefixed, p.Kind, p.Served)]++
	}
}

// ---- the matrix ----
type c19pCfg struct {
	Opts []Opt
	Note string
}

func c19pEnabler(e c19pEndpoint) Opt {
	switch e.Key {
	case "par":
		return Opt{Name: "WithPAR", Z: 60}
	}
	return Opt{Name: e.Enablers[0]}
}

func c19pOverride(e c19pEndpoint, path string) Opt { return Opt{Name: e.Option, S: path} }

func c19pCustom(e c19pEndpoint) string { return "/custom/" + e.Key }
func c19pAlt(e c19pEndpoint) string    { return "/x/y/" + e.Key + "-v2" }

func c19pConfigs(ctx *RunCtx) []c19pCfg {
	var out []c19pCfg
	grant := Opt{Name: "WithAuthorizationCodeGrant"}
	pfxOpt := Opt{Name: "WithPathPrefix", S: "/auth"}
	add := func(note string, opts ...Opt) {
		out = append(out, c19pCfg{Opts: append([]Opt{grant}, opts...), Note: note})
	}
	var eps []c19pEndpoint // the nine that have an option
	for _, e := range c19pEndpoints {
		if e.Option != "" {
			eps = append(eps, e)
		}
	}
	add("no override")
	add("no override, prefix", pfxOpt)
	// 1. every endpoint x override {none, custom, "", default} x feature {off, on} x prefix {no, yes} x order
	for _, e := range eps {
		for _, ov := range []string{"<none>", c19pCustom(e), "", e.Default} {
			feats := []bool{true}
			if e.Enablers != nil {
				feats = []bool{false, true}
			}
			for _, on := range feats {
				for _, pf := range []bool{false, true} {
					var l []Opt
					if pf {
						l = append(l, pfxOpt)
					}
					if on && e.Enablers != nil {
						l = append(l, c19pEnabler(e))
					}
					if ov != "<none>" {
						l = append(l, c19pOverride(e, ov))
					}
					note := fmt.Sprintf("single %s override=%q enabled=%v", e.Key, ov, on)
					add(note, l...)
					if on && e.Enablers != nil && ov != "<none>" {
						// the override BEFORE the enabling option, the prefix last
						l2 := []Opt{c19pOverride(e, ov), c19pEnabler(e)}
						if pf {
							l2 = append(l2, pfxOpt)
						}
						add(note+" (override first)", l2...)
					}
				}
			}
		}
	}
	add("single par override, WithPARRequired", Opt{Name: "WithPARRequired", Z: 60}, Opt{Name: "WithPAREndpoint", S: "/custom/par"})
	add("single par override first, WithPARRequired, prefix", Opt{Name: "WithPAREndpoint", S: "/custom/par"}, Opt{Name: "WithPARRequired", Z: 60}, pfxOpt)
	// 2. two overrides at once: features of both on / both off, prefix; two optional ones also mixed
	for i := 0; i < len(eps); i++ {
		for j := i + 1; j < len(eps); j++ {
			a, b := eps[i], eps[j]
			states := [][2]bool{{true, true}}
			if a.Enablers != nil || b.Enablers != nil {
				states = append(states, [2]bool{false, false})
			}
			if a.Enablers != nil && b.Enablers != nil {
				states = append(states, [2]bool{true, false}, [2]bool{false, true})
			}
			for _, st := range states {
				for _, pf := range []bool{false, true} {
					if pf && st[0] != st[1] {
						continue
					}
					var en, ov []Opt
					if st[0] && a.Enablers != nil {
						en = append(en, c19pEnabler(a))
					}
					if st[1] && b.Enablers != nil {
						en = append(en, c19pEnabler(b))
					}
					ov = append(ov, c19pOverride(a, c19pCustom(a)), c19pOverride(b, c19pCustom(b)))
					var l []Opt
					if (i+j)%2 == 0 {
						l = append(append(l, ov...), en...)
					} else {
						l = append(append(l, en...), ov...)
					}
					if pf {
						l = append(l, pfxOpt)
					}
					add(fmt.Sprintf("pair %s+%s enabled=%v/%v", a.Key, b.Key, st[0], st[1]), l...)
				}
			}
		}
	}
	// 3. the same endpoint overridden twice: the last one wins, an empty last one gives the default back
	for _, e := range eps {
		for v, pair := range [][2]string{{c19pCustom(e), c19pAlt(e)}, {c19pCustom(e), ""}, {"", c19pAlt(e)}, {c19pAlt(e), e.Default}} {
			l := []Opt{c19pOverride(e, pair[0])}
			if e.Enablers != nil && v != 3 {
				l = append(l, c19pEnabler(e))
			}
			l = append(l, c19pOverride(e, pair[1]))
			if v == 1 {
				l = append(l, pfxOpt)
			}
			add(fmt.Sprintf("twice %s %q then %q", e.Key, pair[0], pair[1]), l...)
		}
	}
	// 4. every endpoint overridden at once x features {all on, all off, alternating} x prefix x mTLS
	for _, feat := range []string{"all", "none", "alternating"} {
		for _, pf := range []bool{false, true} {
			for _, mtls := range []bool{false, true} {
				var l []Opt
				if mtls {
					l = append(l, Opt{Name: "WithMTLS"})
				}
				n := 0
				for _, e := range eps {
					if e.Enablers == nil {
						continue
					}
					n++
					if feat == "all" || (feat == "alternating" && n%2 == 1) {
						l = append(l, c19pEnabler(e))
					}
				}
				for _, e := range eps {
					p := c19pCustom(e)
					if feat == "alternating" {
						p = c19pAlt(e)
					}
					l = append(l, c19pOverride(e, p))
				}
				if pf {
					l = append([]Opt{pfxOpt}, l...)
				}
				add(fmt.Sprintf("every override, features=%s mtls=%v", feat, mtls), l...)
			}
		}
	}
	// 5. mTLS aliases follow the overrides of the optional endpoints, and only when enabled
	for _, e := range eps {
		if e.Enablers == nil {
			add("mtls "+e.Key, Opt{Name: "WithMTLS"}, c19pOverride(e, c19pCustom(e)))
			continue
		}
		add("mtls "+e.Key+" enabled", c19pOverride(e, c19pCustom(e)), Opt{Name: "WithMTLS"}, c19pEnabler(e))
		add("mtls "+e.Key+" enabled, prefix", Opt{Name: "WithMTLS"}, pfxOpt, c19pEnabler(e), c19pOverride(e, c19pCustom(e)))
		add("mtls "+e.Key+" not enabled", Opt{Name: "WithMTLS"}, c19pOverride(e, c19pCustom(e)))
	}
	nMatrix := len(out)
	ctx.Meta.Dist["deterministic matrix configurations"] = nMatrix
	// 6. random lists
	nrand := ctx.N(40, 2500)
	for i := 0; i < nrand; i++ {
		var l []Opt
		for _, e := range eps {
			if e.Enablers != nil && ctx.R.Intn(2) == 0 {
				if e.Key == "par" && ctx.R.Intn(3) == 0 {
					l = append(l, Opt{Name: "WithPARRequired", Z: 60})
				} else {
					l = append(l, c19pEnabler(e))
				}
			}
			n := []int{0, 0, 1, 1, 1, 2}[ctx.R.Intn(6)]
			for j := 0; j < n; j++ {
				l = append(l, c19pOverride(e, pick(ctx.R, []string{c19pCustom(e), c19pCustom(e), c19pAlt(e), "", e.Default, "/" + e.Key + "2"})))
			}
		}
		if ctx.R.Intn(2) == 0 {
			l = append(l, Opt{Name: "WithPathPrefix", S: pick(ctx.R, []string{"/auth", "/op", "/a/b"})})
		}
		if ctx.R.Intn(4) == 0 {
			l = append(l, Opt{Name: "WithMTLS"})
		}
		l = shuffled(ctx.R, l)
		out = append(out, c19pCfg{Opts: append([]Opt{grant}, l...), Note: "random"})
	}
	return out
}

const c19pHeader = `From Verif Require Import Base Scope Types Config Discovery Routes.
From Verif.Corr Require Import C19 C19Paths.
Local Open Scope N_scope.
`

func init() {
	register(&Suite{Name: "c19paths", Run: func(ctx *RunCtx) {
		c19pFindings = map[string]*c19pFound{}
		var cases []c19pCase
		for _, cfg := range c19pConfigs(ctx) {
			k, ok := c19pRun(ctx, cfg.Opts, cfg.Note)
			if ok {
				cases = append(cases, k)
				ctx.Meta.Ops += len(k.Probes)
			}
		}
		var sigs []string
		for s := range c19pFindings {
			sigs = append(sigs, s)
		}
		sort.Strings(sigs)
		for _, s := range sigs {
			f := c19pFindings[s]
			if f.N > 1 {
				f.F.What += fmt.Sprintf(" (and %d more occurrences)", f.N-1)
			}
			ctx.Meta.Findings = append(ctx.Meta.Findings, f.F)
		}
		per := 70
		for f := 0; f*per < len(cases); f++ {
			hi := (f + 1) * per
			if hi > len(cases) {
				hi = len(cases)
			}
			var b strings.Builder
			b.WriteString(c19pHeader)
			var names []string
			for i, cs := range cases[f*per : hi] {
				fmt.Fprintf(&b, "(*CASE %d*)\nDefinition c_%d : c19pcase :=\n%s.\n", f*per+i, f*per+i, cs.coq())
				names = append(names, fmt.Sprintf("c_%d", f*per+i))
			}
			b.WriteString("Definition cases : list c19pcase := [" + strings.Join(names, "; ") + "].\n")
			b.WriteString("Definition corr := Eval vm_compute in map check_c19p cases.\nPrint corr.\n")
			b.WriteString("Definition mon := Eval vm_compute in map mon_c19p cases.\nPrint mon.\n")
			name := fmt.Sprintf("cases_%03d.v", f)
			if err := os.WriteFile(filepath.Join(ctx.Out, name), []byte(b.String()), 0o644); err != nil {
				panic(err)
			}
			ctx.Meta.Files = append(ctx.Meta.Files, name)
		}
		ctx.Meta.Cases = len(cases)
		seen := map[string]bool{}
		var jc []map[string]any
		for i, c := range cases {
			var sb strings.Builder
			for _, m := range c.Doc {
				if m.V.Kind == "str" || m.V.Kind == "obj" {
					sb.WriteString(m.Name + "=" + m.V.coq() + ";")
				}
			}
			okN, noN := 0, 0
			var ops []string
			for _, p := range c.Probes {
				sb.WriteString(fmt.Sprint(p.Meth, p.Path, p.Served, p.Accepted))
				ops = append(ops, p.Meth+" "+p.Path)
				if p.Served {
					okN++
				} else {
					noN++
				}
			}
			if okN > 0 && noN > 0 {
				seen[sb.String()] = true
			}
			var optStrs []string
			for _, o := range c.Opts {
				optStrs = append(optStrs, c19pOptString(o))
			}
			jc = append(jc, map[string]any{"Index": i, "Note": c.Note,
				"Spec": map[string]any{"Profile": "openid", "Options": optStrs, "Opts": c.Opts},
				"Ops":  ops,
				"Obs":  map[string]any{"document": json.RawMessage(orNull(c.Raw)), "probes": c.Probes}})
			if i == 0 || i == 20 {
				ctx.Meta.Samples = append(ctx.Meta.Samples, map[string]any{"note": c.Note, "options": optStrs, "document": json.RawMessage(orNull(c.Raw)), "probes": len(c.Probes)})
			}
			ctx.Meta.CaseNotes = append(ctx.Meta.CaseNotes, c.Note)
		}
		ctx.Meta.Distinct = len(seen)
		ctx.Meta.Rule = "option lists over the nine With…Endpoint options x the enabling option of the endpoint x WithPathPrefix x option order (deterministic matrix: single override {none, custom, empty, default} x enabled x prefix x order, all pairs, the same endpoint twice, every override at once, mTLS) plus random lists; distinct by (endpoint members of the document, served / not served of every probe), non-trivial = at least one probe served and one not served"
		jb, _ := json.Marshal(jc)
		_ = os.WriteFile(filepath.Join(ctx.Out, "cases.json"), jb, 0o644)
	}})
}
