package main

// C04 / C10: a deterministic matrix over RFC 9396 authorization details.
// Every issuing grant type x detail lists {all supported, all unsupported, mixed in every order,
// near misses of a supported type (case, prefix, extension, empty type), duplicates, `[]`, absent}
// x every compare function the world may install, then - for grants with a refresh token - a refresh
// chain naming subsets, supersets, mixed lists, `[]` and nothing; the authorization endpoint, PAR and
// the backchannel endpoint with the same lists, clients with registered authorization_data_types.

import "fmt"

var (
	authdS1 = Detail{Type: "payment_initiation", ID: 1}
	authdS2 = Detail{Type: "account_information", ID: 2}
	authdS3 = Detail{Type: "payment_initiation", ID: 3} // a supported type, another payload
	authdU  = Detail{Type: "account_admin", ID: 3}      // a type the server does not support
	authdNC = Detail{Type: "Payment_Initiation", ID: 1} // case variant
	authdNP = Detail{Type: "payment", ID: 1}            // prefix
	authdNX = Detail{Type: "payment_initiation_v2", ID: 1}
	authdNE = Detail{Type: "", ID: 1}
)

type authdList struct {
	Name  string
	L     []Detail
	Empty bool
}

// with the feature off every list is ignored: a short matrix is enough there
func authdListsFor(w authdWorld) []authdList {
	all := authdLists()
	if w.Opt != nil {
		return all
	}
	return []authdList{all[0], all[1], all[3], all[7], all[5]}
}

func authdLists() []authdList {
	return []authdList{
		{"absent", nil, false},
		{"empty", nil, true},
		{"supported-one", []Detail{authdS1}, false},
		{"supported-two", []Detail{authdS1, authdS2}, false},
		{"supported-two-reversed", []Detail{authdS2, authdS1}, false},
		{"unsupported-one", []Detail{authdU}, false},
		{"unsupported-twice", []Detail{authdU, authdU}, false},
		{"mixed-supported-first", []Detail{authdS1, authdU}, false},
		{"mixed-unsupported-first", []Detail{authdU, authdS1}, false},
		{"mixed-unsupported-between", []Detail{authdS1, authdU, authdS2}, false},
		{"duplicate", []Detail{authdS1, authdS1}, false},
		{"near-case", []Detail{authdNC}, false},
		{"near-prefix-after-supported", []Detail{authdS1, authdNP}, false},
		{"near-extension-before-supported", []Detail{authdNX, authdS1}, false},
		{"empty-type", []Detail{authdS2, authdNE}, false},
		{"supported-not-granted", []Detail{authdS3}, false},
		{"superset-of-grant", []Detail{authdS1, authdS2, authdS3}, false},
	}
}

func authdClients() []ClientSpec {
	allResp := []string{"code", "token", "id_token", "id_token token", "code id_token", "code token", "code id_token token"}
	ciba := "urn:openid:params:grant-type:ciba"
	return []ClientSpec{
		{ID: 1, Grants: []string{"authorization_code", "refresh_token", "client_credentials", "implicit"}, RespTypes: allResp,
			Redirects: []string{"https://c1.example/cb"}, Scopes: "openid email profile"},
		{ID: 2, Grants: []string{"authorization_code", "refresh_token", "client_credentials", jwtBearerGrant}, RespTypes: []string{"code"},
			Redirects: []string{"https://c2.example/cb"}, Scopes: "openid email", JWT: true},
		// registered authorization_data_types: one supported type only / none at all
		{ID: 3, Grants: []string{"authorization_code", "refresh_token"}, RespTypes: []string{"code"},
			Redirects: []string{"https://c3.example/cb"}, Scopes: "openid email", DetailTypesSet: true, DetailTypes: []string{"payment_initiation"}},
		{ID: 4, Grants: []string{"authorization_code"}, RespTypes: []string{"code"},
			Redirects: []string{"https://c4.example/cb"}, Scopes: "openid email", DetailTypesSet: true},
		{ID: 5, Grants: []string{ciba, "refresh_token"}, Scopes: "openid email", CibaMode: "poll"},
		{ID: 6, Grants: []string{ciba, "refresh_token"}, Scopes: "openid email", CibaMode: "ping", JWT: true},
		{ID: 7, Grants: []string{ciba, "refresh_token"}, Scopes: "openid email", CibaMode: "push", JWT: true},
	}
}

type authdWorld struct {
	Name string
	Opt  *Opt
}

func authdWorlds() []authdWorld {
	mk := func(cmp string) *Opt {
		return &Opt{Name: "WithAuthorizationDetails", S: "payment_initiation", L: []string{"account_information", "payment_initiation"}, Cmp: cmp}
	}
	return []authdWorld{{"subset", mk("CmpSubset")}, {"accept-all", mk("CmpAcceptAll")}, {"types", mk("CmpTypes")},
		{"no-compare-function", mk("CmpNone")}, {"feature-off", nil}}
}

func authdGen0(ctx *RunCtx, w authdWorld, fl string, rotation bool) *SysGen {
	opts := []Opt{{Name: "WithScopes", Scopes: serverScopes}, {Name: "WithAuthorizationCodeGrant"}, {Name: "WithImplicitGrant"},
		{Name: "WithClientCredentialsGrant"}, {Name: "WithJWTBearerGrant"}, {Name: "WithCIBAGrant"}, {Name: "WithPAR", Z: 60},
		{Name: "WithRefreshTokenGrant", Z: 600}, {Name: "WithTokenIntrospection"}, {Name: "WithTokenLifetime", Z: 80}}
	if rotation {
		opts = append(opts, Opt{Name: "WithRefreshTokenRotation"})
	}
	if w.Opt != nil {
		opts = append(opts, *w.Opt)
	}
	g, err := NewSysGen(ctx.R, WorldSpec{Profile: "openid", Flavour: fl, Static: authdClients(), Opts: opts})
	if err != nil {
		panic(err)
	}
	return g
}

// look at a token every way the provider reports it
func authdLook(g *SysGen, cred Cred, o Obs) {
	if o.Kind != "Tokens" {
		return
	}
	g.do(Op{Kind: "Introspect", Cred: cred, Tok: PTok{Kind: "PExact", H: o.At}, Allowed: true})
	g.do(Op{Kind: "TokenInfo", Tok: PTok{Kind: "PExact", H: o.At}})
	if o.Rt != 0 {
		g.do(Op{Kind: "Introspect", Cred: cred, Tok: PTok{Kind: "PExact", H: o.Rt}, Allowed: true})
	}
}

// the refresh chain: subsets, supersets, mixed lists, `[]`, nothing (back to the full grant)
func authdRefreshChain(g *SysGen, cred Cred, rt Handle) {
	if rt == 0 {
		return
	}
	for _, rq := range []authdList{
		{"", []Detail{authdS1}, false}, {"", nil, false}, {"", []Detail{authdS1, authdS2, authdS3}, false},
		{"", []Detail{authdS1, authdU}, false}, {"", []Detail{authdU, authdS2}, false}, {"", []Detail{authdS3}, false},
		{"", nil, true}, {"", []Detail{authdS2, authdS2}, false}, {"", []Detail{authdNC}, false}, {"", nil, false}} {
		o := g.do(Op{Kind: "Token", Grant: "refresh_token", Cred: cred, Refresh: rt, AuthDetails: rq.L, AuthDetailsEmpty: rq.Empty, HG: "HgOk", BA: "BaApprove"})
		if o.Kind == "Tokens" {
			if o.Rt != 0 {
				rt = o.Rt
			}
			authdLook(g, cred, Obs{Kind: "Tokens", At: o.At, Rt: rt})
		}
	}
}

func scenarioAuthDetailsMatrix(ctx *RunCtx) {
	granted := []Detail{authdS1, authdS2}
	ciba := "urn:openid:params:grant-type:ciba"
	for wi, w := range authdWorlds() {
		fl := []string{"copy", "alias"}[wi%2]
		rotation := wi%2 == 1
		note := func(flow string) string { return fmt.Sprintf("scenario:authorization-details/%s/%s/rotation=%v/%s", w.Name, flow, rotation, fl) }
		add := func(g *SysGen, flow string) {
			ctx.AddCase(g.Case(note(flow)))
			ctx.AddStats(g.stats)
		}

		// client_credentials: the type check is the only gate (opaque and JWT access tokens)
		for _, id := range []int{1, 2} {
			g := authdGen0(ctx, w, fl, rotation)
			cred := Cred{ID: id, OK: true}
			for _, l := range authdListsFor(w) {
				o := g.do(Op{Kind: "Token", Grant: "client_credentials", Cred: cred, Scope: "openid email", AuthDetails: l.L, AuthDetailsEmpty: l.Empty, HG: "HgOk", BA: "BaApprove"})
				authdLook(g, cred, o)
			}
			add(g, fmt.Sprintf("client_credentials/c%d", id))
		}

		// jwt-bearer: the types are checked, no detail is recorded; a refresh of such a grant may name none
		{
			g := authdGen0(ctx, w, fl, rotation)
			cred := Cred{ID: 2, OK: true}
			for i, l := range authdListsFor(w) {
				o := g.do(Op{Kind: "Token", Grant: jwtBearerGrant, Cred: cred, Scope: "openid email", Assertion: "ok:alice", AuthDetails: l.L, AuthDetailsEmpty: l.Empty, HG: "HgOk", BA: "BaApprove"})
				authdLook(g, cred, o)
				if o.Kind == "Tokens" && i%4 == 2 {
					authdRefreshChain(g, cred, o.Rt)
				}
			}
			add(g, "jwt-bearer")
		}

		// authorization_code: each list at the token endpoint against a grant of [S1; S2]; every second
		// exchange is followed by a refresh chain
		for _, id := range []int{1, 2} {
			g := authdGen0(ctx, w, fl, rotation)
			cred := Cred{ID: id, OK: true}
			red := fmt.Sprintf("https://c%d.example/cb", id)
			for i, l := range authdListsFor(w) {
				p := Params{Redirect: red, RespType: "code", Scopes: "openid email", State: "st-1", AuthDetails: granted}
				nav := g.do(Op{Kind: "Authorize", Client: id, Params: p, PolicyAvail: true, Pol: Pol{Kind: "PolSuccess", Sub: "alice", Granted: "openid email", Details: granted}})
				o := g.do(Op{Kind: "Token", Grant: "authorization_code", Cred: cred, Code: nav.NCode, Redirect: red, AuthDetails: l.L, AuthDetailsEmpty: l.Empty, HG: "HgOk", BA: "BaApprove"})
				authdLook(g, cred, o)
				if o.Kind == "Tokens" && (i%2 == 0 || len(l.L) > 1) {
					authdRefreshChain(g, cred, o.Rt)
				}
			}
			add(g, fmt.Sprintf("authorization_code/c%d", id))
		}

		// the authorization endpoint, PAR and the clients' registered types: each list as the
		// authorization_details parameter; the owner grants what was asked for (supported types only)
		{
			g := authdGen0(ctx, w, fl, rotation)
			for _, id := range []int{1, 3, 4} {
				cred := Cred{ID: id, OK: true}
				red := fmt.Sprintf("https://c%d.example/cb", id)
				for i, l := range authdListsFor(w) {
					var ok []Detail
					for _, d := range l.L {
						if d.Type == "payment_initiation" || d.Type == "account_information" {
							ok = append(ok, d)
						}
					}
					p := Params{Redirect: red, RespType: "code", Scopes: "openid email", State: "st-1", AuthDetails: l.L, AuthDetailsEmpty: l.Empty}
					pol := Pol{Kind: "PolSuccess", Sub: "alice", Granted: "openid email", Details: ok}
					var nav Obs
					if i%3 == 1 {
						pushed := g.do(Op{Kind: "Par", Cred: cred, Params: p})
						if pushed.Kind != "Par" {
							continue
						}
						// the outer request names other details: the pushed ones win
						outer := Params{RequestURI: pushed.H, RespType: "code", Scopes: "openid email", AuthDetails: []Detail{authdS3}}
						nav = g.do(Op{Kind: "Authorize", Client: id, Params: outer, PolicyAvail: true, Pol: pol})
					} else {
						nav = g.do(Op{Kind: "Authorize", Client: id, Params: p, PolicyAvail: true, Pol: pol})
					}
					if nav.Kind == "Nav" && nav.NCode != 0 {
						o := g.do(Op{Kind: "Token", Grant: "authorization_code", Cred: cred, Code: nav.NCode, Redirect: red, HG: "HgOk", BA: "BaApprove"})
						authdLook(g, cred, o)
					}
				}
			}
			// implicit: the grant records what was granted, the token carries none
			p := Params{Redirect: "https://c1.example/cb", RespType: "token", Scopes: "openid email", State: "st-1", Nonce: "n-1", AuthDetails: granted}
			nav := g.do(Op{Kind: "Authorize", Client: 1, Params: p, PolicyAvail: true, Pol: Pol{Kind: "PolSuccess", Sub: "alice", Granted: "openid email", Details: granted}})
			if nav.Kind == "Nav" && nav.NAt != 0 {
				authdLook(g, Cred{ID: 1, OK: true}, Obs{Kind: "Tokens", At: nav.NAt})
			}
			add(g, "authorize+par+registered-types")
		}

		// CIBA: poll (opaque) and ping (JWT) - each list at /bc-authorize for one round, at the token
		// endpoint for the other; push - the notification carries what was granted
		for _, id := range []int{5, 6} {
			g := authdGen0(ctx, w, fl, rotation)
			cred := Cred{ID: id, OK: true}
			for i, l := range authdListsFor(w) {
				p := Params{Scopes: "openid email", LoginHint: "alice", AuthDetails: granted}
				if id == 6 {
					p.NotifToken = unknownBase + 5000 + Handle(i)
				}
				if i%3 == 2 {
					p.AuthDetails, p.AuthDetailsEmpty = l.L, l.Empty
				}
				bc := g.do(Op{Kind: "BcAuthorize", Cred: cred, Params: p, InitOK: true, Sub: "alice", Granted: "openid email", GrantedDetails: granted})
				if bc.Kind != "Ciba" {
					continue
				}
				o := g.do(Op{Kind: "Token", Grant: ciba, Cred: cred, AuthReq: bc.H, AuthDetails: l.L, AuthDetailsEmpty: l.Empty, HG: "HgOk", BA: "BaApprove"})
				authdLook(g, cred, o)
				if o.Kind == "Tokens" && i%4 == 3 {
					authdRefreshChain(g, cred, o.Rt)
				}
			}
			add(g, fmt.Sprintf("ciba/c%d", id))
		}
		{
			g := authdGen0(ctx, w, fl, rotation)
			cred := Cred{ID: 7, OK: true}
			for i, gr := range [][]Detail{granted, nil, {authdS3}} {
				p := Params{Scopes: "openid email", LoginHint: "alice", NotifToken: unknownBase + 5100 + Handle(i), AuthDetails: granted}
				bc := g.do(Op{Kind: "BcAuthorize", Cred: cred, Params: p, InitOK: true, Sub: "alice", Granted: "openid email", GrantedDetails: gr})
				if bc.Kind != "Ciba" {
					continue
				}
				n := g.do(Op{Kind: "NotifyOk", AuthReq: bc.H, HG: "HgOk"})
				for _, nf := range n.Notifs {
					if nf.At != 0 {
						authdLook(g, cred, Obs{Kind: "Tokens", At: nf.At, Rt: nf.Rt})
						authdRefreshChain(g, cred, nf.Rt)
					}
				}
			}
			add(g, "ciba-push")
		}
	}
}
