package main

import "testing"

// Characterisation of the process-global anonymous jwt-bearer client (internal/token/jwt_bearer.go:
// `once`, `anonymousClient`): two providers in one process, with different scope lists.  The second
// provider refuses a scope it supports, because the anonymous client still carries the scopes of the
// first one.  (go test -run TestJwtbAnonymousClientIsPerProcess ./...)
func TestJwtbAnonymousClientIsPerProcess(t *testing.T) {
	mk := func(scopes ...string) *World {
		var ss []Scope
		for _, s := range scopes {
			ss = append(ss, Scope{ID: s})
		}
		w, err := NewWorld(WorldSpec{Profile: "openid", Flavour: "copy", Opts: []Opt{
			{Name: "WithScopes", Scopes: ss}, {Name: "WithJWTBearerGrant"}, {Name: "WithTokenLifetime", Z: 300}}})
		if err != nil {
			t.Fatal(err)
		}
		return w
	}
	ask := func(w *World, scope string) Obs {
		return w.Exec(Op{Kind: "Token", Grant: jwtBearerGrant, Scope: scope, Assertion: "ok:alice", HG: "HgOk", BA: "BaApprove"})
	}
	w1, w2 := mk("openid", "email"), mk("openid", "extra")
	jwtbResetAnonymousClient() // start of process
	if o := ask(w1, "email"); o.Kind != "Tokens" {
		t.Fatalf("first provider, scope email: %+v", o)
	}
	o := ask(w2, "extra")
	t.Logf("second provider (scopes openid extra), anonymous request for scope extra: %s %s %s", o.Kind, o.Err, o.Raw)
	if o.Kind != "Err" || o.Err != "EInvalidScope" {
		t.Fatalf("the anonymous client is no longer shared between providers: %+v", o)
	}
	jwtbResetAnonymousClient() // what the harness does per world
	if o := ask(w2, "extra"); o.Kind != "Tokens" {
		t.Fatalf("second provider alone, scope extra: %+v", o)
	}
}
