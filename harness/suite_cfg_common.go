package main

// Shared by the configuration-layer suites c19 and c11: option catalogues, clients whose
// registration stays within what the server enables, and a small sequential probe runner on top
// of World.Exec (the same operations are printed for the model).

import (
	"fmt"
	"math/rand"
	"os"
	"path/filepath"
	"strings"
)

func hasOpt(opts []Opt, names ...string) bool {
	for _, o := range opts {
		for _, n := range names {
			if o.Name == n {
				return true
			}
		}
	}
	return false
}

func findOpt(opts []Opt, names ...string) *Opt {
	for i := range opts {
		for _, n := range names {
			if opts[i].Name == n {
				return &opts[i]
			}
		}
	}
	return nil
}

// the last PKCE option wins (as in provider.New); returns its default method, "" when PKCE is off
func pkceDefault(opts []Opt) string {
	d := ""
	for _, o := range opts {
		if o.Name == "WithPKCE" || o.Name == "WithPKCERequired" {
			d = o.S
		}
	}
	return d
}

// what setDefaults derives from the grant types
func serverRespTypes(opts []Opt) []string {
	code := hasOpt(opts, "WithAuthorizationCodeGrant")
	impl := hasOpt(opts, "WithImplicitGrant")
	var out []string
	if code {
		out = append(out, "code")
	}
	if impl {
		out = append(out, "token", "id_token", "id_token token")
	}
	if code && impl {
		out = append(out, "code id_token", "code token", "code id_token token")
	}
	return out
}

var optGrant = map[string]string{
	"WithAuthorizationCodeGrant": "authorization_code", "WithImplicitGrant": "implicit",
	"WithClientCredentialsGrant": "client_credentials", "WithRefreshTokenGrant": "refresh_token",
	"WithJWTBearerGrant": "urn:ietf:params:oauth:grant-type:jwt-bearer", "WithCIBAGrant": "urn:openid:params:grant-type:ciba",
}

func serverGrants(opts []Opt) map[string]bool {
	out := map[string]bool{}
	for _, o := range opts {
		if g, ok := optGrant[o.Name]; ok {
			out[g] = true
		}
	}
	return out
}

// trimClients restricts every registration to the server's capabilities (what dcr validation
// guarantees for dynamic clients): grant types and response types.
func trimClients(opts []Opt, cs []ClientSpec) []ClientSpec {
	grants := serverGrants(opts)
	rts := map[string]bool{}
	for _, r := range serverRespTypes(opts) {
		rts[r] = true
	}
	var out []ClientSpec
	for _, c := range cs {
		c2 := c
		c2.Grants = nil
		for _, g := range c.Grants {
			if grants[g] {
				c2.Grants = append(c2.Grants, g)
			}
		}
		c2.RespTypes = nil
		for _, r := range c.RespTypes {
			if rts[r] {
				c2.RespTypes = append(c2.RespTypes, r)
			}
		}
		out = append(out, c2)
	}
	return out
}

// ---- a sequential probe runner ----
type probeRun struct {
	W   *World
	Ops []Op
	Obs []Obs
}

func (p *probeRun) do(o Op) Obs {
	p.W.step = len(p.Ops)
	if o.Kind == "Token" {
		if o.HG == "" {
			o.HG = "HgOk"
		}
		if o.BA == "" {
			o.BA = "BaApprove"
		}
	}
	if o.Kind == "NotifyOk" && o.HG == "" {
		o.HG = "HgOk"
	}
	obs := p.W.Exec(o)
	p.Ops = append(p.Ops, o)
	p.Obs = append(p.Obs, obs)
	return obs
}

func (p *probeRun) syscase(note string) Case {
	s := p.W.Spec
	return Case{Profile: s.Profile, Opts: s.Opts, Static: s.Static, Dyn: s.Dyn, Ops: p.Ops, Obs: p.Obs, Note: note}
}

func cfgValidProof(w *World, ki int) *Proof {
	k := w.keys[ki]
	return &Proof{Parses: true, TypOK: true, Jwk: 2, JwkKey: k.H, Signer: k.H, HasIat: true, IatAge: 0, Jti: true, HtmOK: true, Htu: "HtuExact"}
}

func verifierPK() PK { return PK{Kind: 1, N: 1, LenOK: true} }

// challenge for a method: (challenge, method-parameter)
func challengeFor(method string) (PK, string) {
	v := verifierPK()
	switch method {
	case "S256":
		return PK{Kind: 2, Inner: &v}, "S256"
	case "plain":
		return v, "plain"
	}
	return v, method
}

func obtained(o Obs) bool {
	switch o.Kind {
	case "Tokens", "Par", "Ciba", "Page":
		return true
	case "Nav":
		return o.NCode != 0 || o.NAt != 0 || o.NIdt
	}
	return false
}

func optsNote(profile string, opts []Opt) string {
	var names []string
	for _, o := range opts {
		names = append(names, o.coq())
	}
	return fmt.Sprintf("%s [%s]", profile, strings.Join(names, "; "))
}

func shuffled(r *rand.Rand, opts []Opt) []Opt {
	out := append([]Opt(nil), opts...)
	r.Shuffle(len(out), func(i, j int) { out[i], out[j] = out[j], out[i] })
	return out
}

var profCoq = map[string]string{"openid": "POpenID", "fapi1": "PFapi1", "fapi2": "PFapi2"}

// writeSysCasesWith is RunCtx.writeSysCases with the header, the correspondence function and the
// monitor as parameters (the c11 cases run through Required.run_g and Corr/C11.v).
func (c *RunCtx) writeSysCasesWith(header, checkFn, monitor string, strict bool) {
	per := 60
	for k := 0; k*per < len(c.cases); k++ {
		hi := (k + 1) * per
		if hi > len(c.cases) {
			hi = len(c.cases)
		}
		var b strings.Builder
		b.WriteString(header)
		var names []string
		for i, cs := range c.cases[k*per : hi] {
			fmt.Fprintf(&b, "(*CASE %d*)\nDefinition c_%d : syscase :=\n%s.\n", k*per+i, k*per+i, cs.coq())
			names = append(names, fmt.Sprintf("c_%d", k*per+i))
		}
		b.WriteString("(*END*)\nDefinition cases : list syscase := [" + strings.Join(names, "; ") + "].\n")
		fmt.Fprintf(&b, "Definition corr := Eval vm_compute in map (%s %s) cases.\nPrint corr.\n", checkFn, cB(strict))
		fmt.Fprintf(&b, "Definition mon := Eval vm_compute in map %s cases.\nPrint mon.\n", monitor)
		name := fmt.Sprintf("cases_%03d.v", k)
		if err := os.WriteFile(filepath.Join(c.Out, name), []byte(b.String()), 0o644); err != nil {
			panic(err)
		}
		c.Meta.Files = append(c.Meta.Files, name)
	}
	c.Meta.Cases = len(c.cases)
	seen := map[string]bool{}
	for _, cs := range c.cases {
		okN, errN := 0, 0
		var sb strings.Builder
		for i, o := range cs.Obs {
			sb.WriteString(cs.Ops[i].Kind + ":" + o.Kind + ":" + o.Err + o.NErr + ";")
			if obtained(o) {
				okN++
			} else {
				errN++
			}
		}
		if okN > 0 && errN > 0 {
			seen[sb.String()] = true
		}
	}
	c.Meta.Distinct = len(seen)
	for i := 0; i < len(c.cases) && i < 2; i++ {
		cs := c.cases[i]
		var ops []string
		for j, o := range cs.Ops {
			if j >= 10 {
				break
			}
			ops = append(ops, o.coq()+"  ==>  "+cs.Obs[j].coq())
		}
		c.Meta.Samples = append(c.Meta.Samples, map[string]any{"note": cs.Note, "options": cList(cs.Opts, Opt.coq), "first_ops": ops})
	}
}
