package main

// C13, second and third part of the malformed stream.
//
// (1) WELL-FORMED-BUT-INCOMPLETE security artifacts.  Real DPoP proofs, client assertions
//     (private_key_jwt, client_secret_jwt), request objects (JAR by value / by reference / inside a JWE,
//     CIBA request objects) and id_token_hints, each correctly signed with the right key, in which ONE
//     header member or claim at a time is removed, set to null, or retyped (number, string, empty string,
//     bool, array, object, far-future number) - including members the valid artifact does not carry (kid,
//     crit, x5c, nbf, exp ...) and the members of the embedded jwk.  Each variant is sent at every entry
//     point that reads the artifact, IN EVERY STATE THAT CHANGES WHAT THE HANDLER EXPECTS of it: with and
//     without dpop_jkt, with a code from a plain / dpop_jkt-bound / PAR-proof-bound session, a refresh token
//     of a bound / unbound grant held by a public / confidential client, a bound / unbound token at
//     /userinfo under either scheme, poll and push CIBA clients.  The state is built by valid flows right
//     before the probe; one-time credentials are fresh for every probe.
// (2) EMPTY AND MISSING CREDENTIALS.  Every credential-bearing field (code, refresh_token, auth_req_id,
//     request_uri, token, the bearer token, the callback id, the registration id and token) left out, empty
//     or blank, by every kind of client (authenticated or not), while the store holds OTHER parties'
//     pending sessions (pushed, login in progress, CIBA, code issued) and grants of several kinds
//     (client_credentials, authorization_code with refresh token, implicit, jwt-bearer, CIBA).
// All probes go through the oracles of suite_c13.go (judge): no panic, complete response, JSON OAuth
// errors with 4xx on API routes, 5xx only on injected failures, and the frame oracle - a refused
// request leaves the store as it was except for objects named by a NON-EMPTY credential it presented.

import (
	"crypto"
	"crypto/ecdsa"
	"crypto/hmac"
	"crypto/rand"
	"crypto/sha256"
	"encoding/base64"
	"encoding/json"
	"fmt"
	"net/url"
	"sort"
	"strings"
	"time"

	"github.com/go-jose/go-jose/v4"
	"github.com/luikyv/go-oidc/pkg/goidc"
)

// ---- a JWS made by hand: any header member or claim can be absent or of any JSON type ----
func c13iB64(b []byte) string { return base64.RawURLEncoding.EncodeToString(b) }

// c13iJWS signs header.payload with ES256 (ec) or HS256 (hm) whatever the header says
func c13iJWS(hdr, claims map[string]any, ec *ecdsa.PrivateKey, hm []byte) string {
	h, _ := json.Marshal(hdr)
	p, _ := json.Marshal(claims)
	in := c13iB64(h) + "." + c13iB64(p)
	var sig []byte
	if hm != nil {
		mac := hmac.New(sha256.New, hm)
		mac.Write([]byte(in))
		sig = mac.Sum(nil)
	} else {
		d := sha256.Sum256([]byte(in))
		r, s, err := ecdsa.Sign(rand.Reader, ec, d[:])
		if err != nil {
			panic(err)
		}
		sig = make([]byte, 64)
		r.FillBytes(sig[:32])
		s.FillBytes(sig[32:])
	}
	return in + "." + c13iB64(sig)
}

func c13iJWKMap(k *ecdsa.PublicKey) map[string]any {
	b, _ := json.Marshal(jose.JSONWebKey{Key: k})
	var m map[string]any
	_ = json.Unmarshal(b, &m)
	return m
}

func c13iThumb(k *ecdsa.PublicKey) string {
	t, _ := (&jose.JSONWebKey{Key: k}).Thumbprint(crypto.SHA256)
	return c13iB64(t)
}

// ---- one mutation: part (h = header, c = claims), member (one level of nesting: "jwk.x"), operation ----
type c13iMut struct{ Part, Member, Op string }

func (m c13iMut) String() string {
	if m.Op == "" {
		return "intact"
	}
	return m.Part + ":" + m.Member + ":" + m.Op
}

var c13iOps = []string{"remove", "null", "number", "string", "empty", "bool", "array", "object", "future"}

func c13iValue(op string, old any) any {
	switch op {
	case "null":
		return nil
	case "number":
		return 5
	case "string":
		if s, ok := old.(string); ok && s != "" {
			return s + "x" // well typed, wrong value
		}
		return "str"
	case "empty":
		return ""
	case "bool":
		return true
	case "array":
		return []any{"x"}
	case "object":
		return map[string]any{}
	case "future":
		return 32503680000 // the year 3000
	}
	return nil
}

func (m c13iMut) apply(hdr, claims map[string]any) {
	if m.Op == "" {
		return
	}
	tgt := claims
	if m.Part == "h" {
		tgt = hdr
	}
	name := m.Member
	if i := strings.Index(name, "."); i > 0 {
		sub, ok := tgt[name[:i]].(map[string]any)
		if !ok {
			return
		}
		cp := map[string]any{}
		for k, v := range sub {
			cp[k] = v
		}
		tgt[name[:i]] = cp
		tgt, name = cp, name[i+1:]
	}
	if m.Op == "remove" {
		delete(tgt, name)
		return
	}
	tgt[name] = c13iValue(m.Op, tgt[name])
}

// the mutations of one artifact kind: every member x every operation (thorough), or "remove" of every
// member plus `extra` random operations per member (quick)
func c13iMuts(w *c13W, hdrMembers, claimMembers []string, all bool, extra int) []c13iMut {
	var out []c13iMut
	add := func(part string, ms []string) {
		for _, mem := range ms {
			if all {
				for _, op := range c13iOps {
					out = append(out, c13iMut{part, mem, op})
				}
				continue
			}
			out = append(out, c13iMut{part, mem, "remove"})
			perm := w.r.Perm(len(c13iOps) - 1)
			for i := 0; i < extra && i < len(perm); i++ {
				out = append(out, c13iMut{part, mem, c13iOps[1+perm[i]]})
			}
		}
	}
	add("h", hdrMembers)
	add("c", claimMembers)
	return out
}

// ---- the artifacts ----
var (
	c13iDPoPHdr   = []string{"typ", "alg", "jwk", "jwk.kty", "jwk.crv", "jwk.x", "jwk.y", "jwk.d", "kid", "crit", "x5c", "jku", "b64"}
	c13iDPoPClaim = []string{"jti", "htm", "htu", "iat", "ath", "exp", "nbf", "nonce", "iss", "aud", "sub"}
	c13iJWSHdr    = []string{"alg", "kid", "typ", "jwk", "crit", "x5c", "cty"}
	c13iAssClaim  = []string{"iss", "sub", "aud", "jti", "exp", "iat", "nbf"}
	c13iROClaim   = []string{"iss", "aud", "exp", "nbf", "iat", "jti", "client_id", "response_type", "redirect_uri", "scope", "state", "nonce",
		"code_challenge", "code_challenge_method", "response_mode", "max_age", "claims", "authorization_details", "resource", "id_token_hint",
		"dpop_jkt", "request", "request_uri", "prompt", "display", "acr_values", "login_hint"}
	c13iCibaClaim = []string{"iss", "aud", "exp", "nbf", "iat", "jti", "client_id", "scope", "login_hint", "client_notification_token", "binding_message",
		"user_code", "requested_expiry", "id_token_hint", "login_hint_token", "acr_values", "authorization_details", "resource"}
	c13iHintClaim = []string{"iss", "sub", "aud", "exp", "iat", "nbf", "nonce", "auth_time", "azp", "acr", "amr", "jti"}
)

func (w *c13W) c13iProof(method, path, ath string, m c13iMut) string {
	hdr := map[string]any{"typ": "dpop+jwt", "alg": "ES256", "jwk": c13iJWKMap(&w.ckey.PublicKey)}
	claims := map[string]any{"jti": fmt.Sprint(w.r.Int63()), "htm": method, "htu": issuer + w.pfx + path, "iat": time.Now().Unix()}
	if ath != "" {
		claims["ath"] = thumb(ath)
	}
	m.apply(hdr, claims)
	return c13iJWS(hdr, claims, w.ckey, nil)
}

func (w *c13W) c13iAssertion(cid string, m c13iMut) string {
	now := time.Now().Unix()
	claims := map[string]any{"iss": cid, "sub": cid, "aud": issuer, "jti": fmt.Sprint(w.r.Int63()), "exp": now + 60, "iat": now}
	if cid == "c7" {
		hdr := map[string]any{"alg": "HS256", "typ": "JWT"}
		m.apply(hdr, claims)
		return c13iJWS(hdr, claims, nil, []byte(c13Secret))
	}
	hdr := map[string]any{"alg": "ES256", "kid": "ck1", "typ": "JWT"}
	m.apply(hdr, claims)
	return c13iJWS(hdr, claims, w.ckey, nil)
}

func (w *c13W) c13iRequestObject(cid string, m c13iMut) string {
	now := time.Now().Unix()
	hdr := map[string]any{"alg": "ES256", "kid": "ck1", "typ": "oauth-authz-req+jwt"}
	claims := map[string]any{"iss": cid, "aud": issuer, "exp": now + 300, "nbf": now - 5, "iat": now - 5, "jti": fmt.Sprint(w.r.Int63()), "client_id": cid,
		"response_type": "code", "redirect_uri": c13Redirect, "scope": "openid email", "state": "ro", "nonce": "n-ro",
		"code_challenge": thumb(strings.Repeat("v", 50)), "code_challenge_method": "S256"}
	m.apply(hdr, claims)
	return c13iJWS(hdr, claims, w.ckey, nil)
}

func (w *c13W) c13iCibaObject(cid string, m c13iMut) string {
	now := time.Now().Unix()
	hdr := map[string]any{"alg": "ES256", "kid": "ck1", "typ": "JWT"}
	claims := map[string]any{"iss": cid, "aud": issuer, "exp": now + 300, "nbf": now - 5, "iat": now - 5, "jti": fmt.Sprint(w.r.Int63()),
		"scope": "openid email", "login_hint": "user1", "client_notification_token": "cnt-0123456789", "binding_message": "bm-1"}
	m.apply(hdr, claims)
	return c13iJWS(hdr, claims, w.ckey, nil)
}

func (w *c13W) c13iHint(aud string, m c13iMut) string {
	now := time.Now().Unix()
	hdr := map[string]any{"alg": "ES256", "kid": "srv-es256", "typ": "JWT"}
	claims := map[string]any{"iss": issuer, "sub": "user1", "aud": aud, "exp": now + 300, "iat": now - 5, "nonce": "n1", "auth_time": now - 60}
	m.apply(hdr, claims)
	return c13iJWS(hdr, claims, serverKeyCache, nil)
}

func (w *c13W) c13iEncrypt(jws string) string {
	enc, err := jose.NewEncrypter(jose.A128CBC_HS256, jose.Recipient{Algorithm: jose.RSA_OAEP, Key: &w.rsaK.PublicKey, KeyID: "srv-enc"},
		(&jose.EncrypterOptions{}).WithContentType("JWT"))
	if err != nil {
		return jws
	}
	e, err := enc.Encrypt([]byte(jws))
	if err != nil {
		return jws
	}
	s, _ := e.CompactSerialize()
	return s
}

// ---- states built by valid flows ----
const c13iVerifier = "vvvvvvvvvvvvvvvvvvvvvvvvvvvvvvvvvvvvvvvvvvvvvvvvvv" // 50 x v, as in seed()

// a fresh authorization code for cid.  mode: plain | jkt (dpop_jkt sent to /authorize) |
// par (pushed, no binding) | par-jkt (dpop_jkt pushed) | par-proof (a DPoP proof accompanied the push)
func (w *c13W) c13iCode(cid, mode string) string {
	w.polMode = "success"
	q := url.Values{"client_id": {cid}, "response_type": {"code"}, "scope": {"openid email offline_access"}, "redirect_uri": {c13Redirect},
		"state": {"st"}, "nonce": {"n1"}, "code_challenge": {thumb(c13iVerifier)}, "code_challenge_method": {"S256"}}
	switch mode {
	case "jkt":
		q.Set("dpop_jkt", c13iThumb(&w.ckey.PublicKey))
	case "par", "par-jkt", "par-proof":
		var h [][2]string
		f := form{}
		for k, v := range q {
			if k != "client_id" {
				f = append(f, kv{k, v[0]})
			}
		}
		sort.Slice(f, func(i, j int) bool { return f[i].K < f[j].K })
		if mode == "par-jkt" {
			f = f.set("dpop_jkt", c13iThumb(&w.ckey.PublicKey))
		}
		if mode == "par-proof" {
			h = append(h, [2]string{"DPoP", w.c13iProof("POST", "/par", "", c13iMut{})})
		}
		res := w.postForm("/par", w.auth(cid, f, &h), h)
		// under the OpenID profile the outer request repeats response_type and the openid scope
		q = url.Values{"client_id": {cid}, "request_uri": {jsonField(res.Body, "request_uri")}, "response_type": {"code"}, "scope": {"openid email offline_access"}}
	}
	res := w.do(rawReq{Method: "GET", Target: w.pfx + "/authorize?" + q.Encode(), Fault: -1})
	code := locParam(res.Loc, "code")
	if r := locParam(res.Loc, "response"); r != "" {
		code = jwtClaim(r, "code")
	}
	return code
}

// tokens for cid from a fresh code; bound = the redemption carried a valid DPoP proof
func (w *c13W) c13iTokens(cid string, bound bool) (at, rt string) {
	code := w.c13iCode(cid, "plain")
	var h [][2]string
	if bound {
		h = append(h, [2]string{"DPoP", w.c13iProof("POST", "/token", "", c13iMut{})})
	}
	f := w.auth(cid, form{{"grant_type", "authorization_code"}, {"code", code}, {"redirect_uri", c13Redirect}, {"code_verifier", c13iVerifier}}, &h)
	res := w.postForm("/token", f, h)
	return jsonField(res.Body, "access_token"), jsonField(res.Body, "refresh_token")
}

func (w *c13W) c13iGrantAlive(at, rt string) bool {
	for _, g := range w.stores.GrantSessions() {
		if (rt != "" && g.RefreshToken == rt) || (at != "" && g.TokenID == at) {
			return true
		}
	}
	return false
}

// ---- contexts: where an artifact is sent, and in which state ----
type c13iCtx struct {
	Name string
	// Make builds the state and returns the request carrying the artifact mutated by m
	Make func(w *c13W, m c13iMut) rawReq
}

var c13iCTForm = [2]string{"Content-Type", "application/x-www-form-urlencoded"}

func (w *c13W) c13iPost(path string, f form, hdr [][2]string, present ...string) rawReq {
	return rawReq{Method: "POST", Target: w.pfx + path, Hdr: append(hdr, c13iCTForm), Body: f.enc(), Present: present}
}

// cached bound / unbound grants, re-created when the previous probe consumed or rotated them
type c13iGrant struct{ at, rt string }

func (w *c13W) c13iLive(cache map[string]*c13iGrant, cid string, bound bool) *c13iGrant {
	key := fmt.Sprintf("%s/%v", cid, bound)
	g := cache[key]
	if g == nil || !w.c13iGrantAlive(g.at, g.rt) {
		at, rt := w.c13iTokens(cid, bound)
		g = &c13iGrant{at, rt}
		cache[key] = g
	}
	return g
}

func c13iDPoPContexts(cache map[string]*c13iGrant) []c13iCtx {
	parForm := func() form {
		return form{{"response_type", "code"}, {"scope", "openid"}, {"redirect_uri", c13Redirect}, {"state", "s"},
			{"code_challenge", thumb(c13iVerifier)}, {"code_challenge_method", "S256"}}
	}
	par := func(name string, jkt func(w *c13W) string) c13iCtx {
		return c13iCtx{name, func(w *c13W, m c13iMut) rawReq {
			var h [][2]string
			f := w.auth("c1", parForm(), &h)
			if v := jkt(w); v != "" {
				f = f.set("dpop_jkt", v)
			}
			h = append(h, [2]string{"DPoP", w.c13iProof("POST", "/par", "", m)})
			return w.c13iPost("/par", f, h)
		}}
	}
	code := func(name, cid, mode string) c13iCtx {
		return c13iCtx{name, func(w *c13W, m c13iMut) rawReq {
			c := w.c13iCode(cid, mode)
			var h [][2]string
			f := w.auth(cid, form{{"grant_type", "authorization_code"}, {"code", c}, {"redirect_uri", c13Redirect}, {"code_verifier", c13iVerifier}}, &h)
			h = append(h, [2]string{"DPoP", w.c13iProof("POST", "/token", "", m)})
			return w.c13iPost("/token", f, h, c)
		}}
	}
	refresh := func(name, cid string, bound bool) c13iCtx {
		return c13iCtx{name, func(w *c13W, m c13iMut) rawReq {
			g := w.c13iLive(cache, cid, bound)
			var h [][2]string
			f := w.auth(cid, form{{"grant_type", "refresh_token"}, {"refresh_token", g.rt}}, &h)
			h = append(h, [2]string{"DPoP", w.c13iProof("POST", "/token", "", m)})
			return w.c13iPost("/token", f, h, g.rt)
		}}
	}
	userinfo := func(name string, bound bool, scheme string) c13iCtx {
		return c13iCtx{name, func(w *c13W, m c13iMut) rawReq {
			g := w.c13iLive(cache, "c1", bound)
			return rawReq{Method: "GET", Target: w.pfx + "/userinfo", Hdr: [][2]string{{"Authorization", scheme + " " + g.at},
				{"DPoP", w.c13iProof("GET", "/userinfo", g.at, m)}}}
		}}
	}
	tokenInfo := func(name, path string, bound bool) c13iCtx {
		return c13iCtx{name, func(w *c13W, m c13iMut) rawReq {
			g := w.c13iLive(cache, "c1", bound)
			var h [][2]string
			f := w.auth("c1", form{{"token", g.at}}, &h)
			h = append(h, [2]string{"DPoP", w.c13iProof("POST", path, g.at, m)})
			// a token presented for revocation may be revoked: not a one-time credential of a REFUSED request
			return w.c13iPost(path, f, h)
		}}
	}
	none := func(*c13W) string { return "" }
	own := func(w *c13W) string { return c13iThumb(&w.ckey.PublicKey) }
	other := func(w *c13W) string { return c13iThumb(&serverKeyCache.PublicKey) }
	return []c13iCtx{
		par("dpop@/par", none), par("dpop@/par+dpop_jkt", own), par("dpop@/par+dpop_jkt(other key)", other),
		{"dpop@/token client_credentials", func(w *c13W, m c13iMut) rawReq {
			var h [][2]string
			f := w.auth("c1", form{{"grant_type", "client_credentials"}, {"scope", "email"}}, &h)
			h = append(h, [2]string{"DPoP", w.c13iProof("POST", "/token", "", m)})
			return w.c13iPost("/token", f, h)
		}},
		code("dpop@/token code(plain session)", "c1", "plain"),
		code("dpop@/token code(dpop_jkt session)", "c1", "jkt"),
		code("dpop@/token code(pushed session)", "c1", "par"),
		code("dpop@/token code(pushed dpop_jkt session)", "c1", "par-jkt"),
		code("dpop@/token code(session pushed with a proof)", "c1", "par-proof"),
		code("dpop@/token code(public client, dpop_jkt session)", "c2", "jkt"),
		code("dpop@/token code(private_key_jwt client, dpop_jkt session)", "c3", "jkt"),
		refresh("dpop@/token refresh(public client, bound grant)", "c2", true),
		refresh("dpop@/token refresh(confidential client, bound grant)", "c1", true),
		refresh("dpop@/token refresh(public client, unbound grant)", "c2", false),
		refresh("dpop@/token refresh(confidential client, unbound grant)", "c1", false),
		{"dpop@/token ciba(poll)", func(w *c13W, m c13iMut) rawReq {
			w.baMode = "approve"
			var h [][2]string
			res := w.postForm("/bc-authorize", w.auth("c1", form{{"scope", "openid email"}, {"login_hint", "user1"}}, &h), h)
			id := jsonField(res.Body, "auth_req_id")
			h = nil
			f := w.auth("c1", form{{"grant_type", "urn:openid:params:grant-type:ciba"}, {"auth_req_id", id}}, &h)
			h = append(h, [2]string{"DPoP", w.c13iProof("POST", "/token", "", m)})
			return w.c13iPost("/token", f, h, id)
		}},
		{"dpop@/token jwt-bearer", func(w *c13W, m c13iMut) rawReq {
			var h [][2]string
			f := w.auth("c1", form{{"grant_type", "urn:ietf:params:oauth:grant-type:jwt-bearer"}, {"assertion", "ok:user1"}, {"scope", "email"}}, &h)
			h = append(h, [2]string{"DPoP", w.c13iProof("POST", "/token", "", m)})
			return w.c13iPost("/token", f, h)
		}},
		{"dpop@/bc-authorize(push client)", func(w *c13W, m c13iMut) rawReq {
			var h [][2]string
			f := w.auth("c5", form{{"scope", "openid email"}, {"login_hint", "user1"}, {"client_notification_token", "cnt-0123456789"}}, &h)
			h = append(h, [2]string{"DPoP", w.c13iProof("POST", "/bc-authorize", "", m)})
			return w.c13iPost("/bc-authorize", f, h)
		}},
		{"dpop@/authorize+dpop_jkt", func(w *c13W, m c13iMut) rawReq {
			q := url.Values{"client_id": {"c1"}, "response_type": {"code"}, "scope": {"openid"}, "redirect_uri": {c13Redirect},
				"dpop_jkt": {c13iThumb(&w.ckey.PublicKey)}, "code_challenge": {thumb(c13iVerifier)}, "code_challenge_method": {"S256"}}
			return rawReq{Method: "GET", Target: w.pfx + "/authorize?" + q.Encode(), Hdr: [][2]string{{"DPoP", w.c13iProof("GET", "/authorize", "", m)}}}
		}},
		userinfo("dpop@/userinfo(bound token, DPoP scheme)", true, "DPoP"),
		userinfo("dpop@/userinfo(bound token, Bearer scheme)", true, "Bearer"),
		userinfo("dpop@/userinfo(unbound token, DPoP scheme)", false, "DPoP"),
		userinfo("dpop@/userinfo(unbound token, Bearer scheme)", false, "Bearer"),
		tokenInfo("dpop@/introspect(bound token)", "/introspect", true),
		tokenInfo("dpop@/introspect(unbound token)", "/introspect", false),
		tokenInfo("dpop@/revoke(bound token)", "/revoke", true),
	}
}

func c13iAssertionContexts(cache map[string]*c13iGrant) []c13iCtx {
	at := "urn:ietf:params:oauth:client-assertion-type:jwt-bearer"
	with := func(w *c13W, cid string, f form, m c13iMut) form {
		return f.set("client_id", cid).set("client_assertion_type", at).set("client_assertion", w.c13iAssertion(cid, m))
	}
	var out []c13iCtx
	for _, cid := range []string{"c3", "c7"} {
		cid := cid
		out = append(out,
			c13iCtx{"assertion(" + cid + ")@/token client_credentials", func(w *c13W, m c13iMut) rawReq {
				return w.c13iPost("/token", with(w, cid, form{{"grant_type", "client_credentials"}, {"scope", "email"}}, m), nil)
			}},
			c13iCtx{"assertion(" + cid + ")@/token code", func(w *c13W, m c13iMut) rawReq {
				c := w.c13iCode(cid, "plain")
				return w.c13iPost("/token", with(w, cid, form{{"grant_type", "authorization_code"}, {"code", c}, {"redirect_uri", c13Redirect}, {"code_verifier", c13iVerifier}}, m), nil, c)
			}},
			c13iCtx{"assertion(" + cid + ")@/token code without client_id", func(w *c13W, m c13iMut) rawReq {
				c := w.c13iCode(cid, "plain")
				f := form{{"grant_type", "authorization_code"}, {"code", c}, {"redirect_uri", c13Redirect}, {"code_verifier", c13iVerifier},
					{"client_assertion_type", at}, {"client_assertion", w.c13iAssertion(cid, m)}}
				return w.c13iPost("/token", f, nil, c)
			}},
			c13iCtx{"assertion(" + cid + ")@/par", func(w *c13W, m c13iMut) rawReq {
				return w.c13iPost("/par", with(w, cid, form{{"response_type", "code"}, {"scope", "openid"}, {"redirect_uri", c13Redirect},
					{"code_challenge", thumb(c13iVerifier)}, {"code_challenge_method", "S256"}}, m), nil)
			}},
			c13iCtx{"assertion(" + cid + ")@/bc-authorize", func(w *c13W, m c13iMut) rawReq {
				return w.c13iPost("/bc-authorize", with(w, cid, form{{"scope", "openid email"}, {"login_hint", "user1"}}, m), nil)
			}},
			c13iCtx{"assertion(" + cid + ")@/introspect", func(w *c13W, m c13iMut) rawReq {
				g := w.c13iLive(cache, "c1", false)
				return w.c13iPost("/introspect", with(w, cid, form{{"token", g.at}}, m), nil)
			}},
			c13iCtx{"assertion(" + cid + ")@/revoke", func(w *c13W, m c13iMut) rawReq {
				return w.c13iPost("/revoke", with(w, cid, form{{"token", "no-such-token-0123456789"}}, m), nil)
			}},
		)
	}
	out = append(out, c13iCtx{"assertion(c3)@/token refresh", func(w *c13W, m c13iMut) rawReq {
		g := w.c13iLive(cache, "c3", false)
		return w.c13iPost("/token", with(w, "c3", form{{"grant_type", "refresh_token"}, {"refresh_token", g.rt}}, m), nil, g.rt)
	}})
	return out
}

func c13iRequestContexts() []c13iCtx {
	outer := func() url.Values {
		return url.Values{"client_id": {"c1"}, "response_type": {"code"}, "scope": {"openid email"}, "redirect_uri": {c13Redirect}}
	}
	return []c13iCtx{
		{"request@/authorize(GET, by value)", func(w *c13W, m c13iMut) rawReq {
			q := outer()
			q.Set("request", w.c13iRequestObject("c1", m))
			return rawReq{Method: "GET", Target: w.pfx + "/authorize?" + q.Encode()}
		}},
		{"request@/authorize(GET, by value, nothing outside)", func(w *c13W, m c13iMut) rawReq {
			q := url.Values{"client_id": {"c1"}, "request": {w.c13iRequestObject("c1", m)}}
			return rawReq{Method: "GET", Target: w.pfx + "/authorize?" + q.Encode()}
		}},
		{"request@/authorize(POST, by value)", func(w *c13W, m c13iMut) rawReq {
			q := outer()
			q.Set("request", w.c13iRequestObject("c1", m))
			return rawReq{Method: "POST", Target: w.pfx + "/authorize", Hdr: [][2]string{c13iCTForm}, Body: q.Encode()}
		}},
		{"request@/authorize(by reference)", func(w *c13W, m c13iMut) rawReq {
			u := fmt.Sprintf("https://c1.example/ro/%d.jwt", len(w.refs))
			w.refs[u] = w.c13iRequestObject("c1", m)
			q := outer()
			q.Set("request_uri", u)
			return rawReq{Method: "GET", Target: w.pfx + "/authorize?" + q.Encode()}
		}},
		{"request@/authorize(inside a JWE)", func(w *c13W, m c13iMut) rawReq {
			q := outer()
			q.Set("request", w.c13iEncrypt(w.c13iRequestObject("c1", m)))
			return rawReq{Method: "GET", Target: w.pfx + "/authorize?" + q.Encode()}
		}},
		{"request@/par", func(w *c13W, m c13iMut) rawReq {
			var h [][2]string
			f := w.auth("c1", form{{"request", w.c13iRequestObject("c1", m)}}, &h)
			return w.c13iPost("/par", f, h)
		}},
		{"request@/par(private_key_jwt client, with a proof)", func(w *c13W, m c13iMut) rawReq {
			var h [][2]string
			f := w.auth("c3", form{{"request", w.c13iRequestObject("c3", m)}}, &h)
			h = append(h, [2]string{"DPoP", w.c13iProof("POST", "/par", "", c13iMut{})})
			return w.c13iPost("/par", f, h)
		}},
		{"ciba-request@/bc-authorize(poll client)", func(w *c13W, m c13iMut) rawReq {
			var h [][2]string
			f := w.auth("c1", form{{"request", w.c13iCibaObject("c1", m)}}, &h)
			return w.c13iPost("/bc-authorize", f, h)
		}},
		{"ciba-request@/bc-authorize(push client)", func(w *c13W, m c13iMut) rawReq {
			var h [][2]string
			f := w.auth("c5", form{{"request", w.c13iCibaObject("c5", m)}}, &h)
			return w.c13iPost("/bc-authorize", f, h)
		}},
	}
}

func c13iHintContexts() []c13iCtx {
	return []c13iCtx{
		{"id_token_hint@/authorize", func(w *c13W, m c13iMut) rawReq {
			q := url.Values{"client_id": {"c1"}, "response_type": {"code"}, "scope": {"openid email"}, "redirect_uri": {c13Redirect},
				"code_challenge": {thumb(c13iVerifier)}, "code_challenge_method": {"S256"}, "id_token_hint": {w.c13iHint("c1", m)}}
			return rawReq{Method: "GET", Target: w.pfx + "/authorize?" + q.Encode()}
		}},
		{"id_token_hint@/authorize(login in progress)", func(w *c13W, m c13iMut) rawReq {
			w.polMode = "inprogress"
			q := url.Values{"client_id": {"c1"}, "response_type": {"code"}, "scope": {"openid email"}, "redirect_uri": {c13Redirect},
				"code_challenge": {thumb(c13iVerifier)}, "code_challenge_method": {"S256"}, "id_token_hint": {w.c13iHint("c1", m)}}
			return rawReq{Method: "POST", Target: w.pfx + "/authorize", Hdr: [][2]string{c13iCTForm}, Body: q.Encode()}
		}},
		{"id_token_hint@/par then /authorize", func(w *c13W, m c13iMut) rawReq {
			var h [][2]string
			f := w.auth("c1", form{{"response_type", "code"}, {"scope", "openid"}, {"redirect_uri", c13Redirect},
				{"code_challenge", thumb(c13iVerifier)}, {"code_challenge_method", "S256"}, {"id_token_hint", w.c13iHint("c1", m)}}, &h)
			res := w.postForm("/par", f, h)
			if u := jsonField(res.Body, "request_uri"); u != "" {
				// the push accepted the hint: what does /authorize make of it?
				q := url.Values{"client_id": {"c1"}, "request_uri": {u}, "response_type": {"code"}, "scope": {"openid"}}
				return rawReq{Method: "GET", Target: w.pfx + "/authorize?" + q.Encode(), Present: []string{u}}
			}
			return w.c13iPost("/par", f, h)
		}},
		{"id_token_hint@/bc-authorize", func(w *c13W, m c13iMut) rawReq {
			var h [][2]string
			f := w.auth("c1", form{{"scope", "openid email"}, {"id_token_hint", w.c13iHint("c1", m)}}, &h)
			return w.c13iPost("/bc-authorize", f, h)
		}},
		{"id_token_hint@/authorize(inside a request object)", func(w *c13W, m c13iMut) rawReq {
			now := time.Now().Unix()
			hdr := map[string]any{"alg": "ES256", "kid": "ck1", "typ": "oauth-authz-req+jwt"}
			claims := map[string]any{"iss": "c1", "aud": issuer, "exp": now + 300, "nbf": now - 5, "iat": now - 5, "jti": fmt.Sprint(w.r.Int63()), "client_id": "c1",
				"response_type": "code", "redirect_uri": c13Redirect, "scope": "openid email", "code_challenge": thumb(c13iVerifier), "code_challenge_method": "S256",
				"id_token_hint": w.c13iHint("c1", m)}
			q := url.Values{"client_id": {"c1"}, "response_type": {"code"}, "scope": {"openid email"}, "request": {c13iJWS(hdr, claims, w.ckey, nil)}}
			return rawReq{Method: "GET", Target: w.pfx + "/authorize?" + q.Encode()}
		}},
	}
}

// ---- running probes through the oracles ----
type c13iRun struct {
	ctx         *RunCtx
	w           *c13W
	worlds      int
	probes      int
	since       int // probes since the world was built
	lastRefused bool
	kinds       map[string]bool
	intact      map[string]int // per context: status of the intact artifact (the family is about INCOMPLETE ones)
}

func (p *c13iRun) world() *c13W {
	if p.w == nil || p.since >= 350 {
		p.since = 0
		fl := []string{"copy", "alias"}[p.worlds%2]
		pfx := []string{"", "/auth"}[p.worlds%2]
		w, err := newC13World(p.ctx.R, fl, pfx, p.worlds%3)
		if err != nil {
			panic(err)
		}
		w.seed()
		c13iNeedOthers(w)
		p.w = w
		p.worlds++
	}
	return p.w
}

// the frame oracle only means something while other parties' state is in the store
func c13iOthers(w *c13W) map[string]int {
	n := map[string]int{}
	for _, s := range w.stores.AuthnSessions() {
		switch {
		case s.PushedAuthReqID != "":
			n["session:pushed"]++
		case s.CIBAAuthID != "":
			n["session:ciba"]++
		case s.AuthCode != "":
			n["session:code"]++
		case s.CallbackID != "":
			n["session:in-progress"]++
		}
		if s.AuthCode == "" {
			n["session:without-code"]++
		}
	}
	for _, g := range w.stores.GrantSessions() {
		n["grant:"+string(g.GrantType)]++
		if g.AuthorizationCode == "" {
			n["grant:not-from-a-code"]++
		}
		if g.RefreshToken == "" {
			n["grant:without-refresh-token"]++
		}
	}
	return n
}

var c13iOtherKinds = []string{"session:pushed", "session:ciba", "session:code", "session:in-progress",
	"grant:" + string(goidc.GrantClientCredentials), "grant:" + string(goidc.GrantAuthorizationCode), "grant:" + string(goidc.GrantImplicit),
	"grant:" + string(goidc.GrantJWTBearer), "grant:" + string(goidc.GrantCIBA), "grant:not-from-a-code", "grant:without-refresh-token"}

func c13iNeedOthers(w *c13W) {
	n := c13iOthers(w)
	for _, k := range c13iOtherKinds {
		if n[k] == 0 {
			panic("c13: the seeded world " + w.name + " holds no " + k)
		}
	}
}

func (p *c13iRun) probe(rq rawReq, note string) rawRes {
	p.lastRefused = false
	w := p.w
	rq.Route = w.routeOf(rq.Target)
	rq.Fault = -1
	rq.Note = note
	w.hgFail, w.dcrFail, w.hgDeny = false, false, false
	before := w.stores.Snapshot()
	res := w.do(rq)
	p.probes++
	p.since++
	if res.Rejected {
		p.ctx.Meta.Dist["rejected-by-net/http"]++
		return res
	}
	after := w.stores.Snapshot()
	nf := len(p.ctx.Meta.Findings)
	refused := w.judge(p.ctx, rq, res, before, after)
	p.lastRefused = refused
	for i := nf; i < len(p.ctx.Meta.Findings); i++ {
		f := &p.ctx.Meta.Findings[i]
		f.What = note + ": " + f.What
		if m, ok := f.Replay.(map[string]any); ok {
			m["probe"] = note
		}
	}
	st := p.ctx.Meta.Dist
	rt := rq.Route
	if rt == "" {
		rt = "(no route)"
	}
	st["route:"+rt]++
	st[fmt.Sprintf("status:%dxx", res.Status/100)]++
	if refused {
		st["refused"]++
	} else {
		st["served"]++
	}
	p.kinds[fmt.Sprintf("%s|%s %s %d %s", note, rq.Method, rt, res.Status, jsonField(res.Body, "error"))] = true
	// a refused request that consumed other parties' state would starve the next probes of it
	if refused && before != after {
		n := c13iOthers(w)
		for _, k := range c13iOtherKinds {
			if n[k] == 0 {
				w.seed()
				break
			}
		}
	}
	return res
}

func c13Incomplete(ctx *RunCtx) {
	p := &c13iRun{ctx: ctx, kinds: map[string]bool{}, intact: map[string]int{}}
	all := !ctx.Quick()
	extra := 1
	type family struct {
		name string
		ctxs []c13iCtx
		hdr  []string
		cl   func(c c13iCtx) []string
	}
	cache := map[string]*c13iGrant{}
	fixed := func(l []string) func(c13iCtx) []string { return func(c13iCtx) []string { return l } }
	fams := []family{
		{"dpop", c13iDPoPContexts(cache), c13iDPoPHdr, fixed(c13iDPoPClaim)},
		{"assertion", c13iAssertionContexts(cache), c13iJWSHdr, fixed(c13iAssClaim)},
		{"request", c13iRequestContexts(), c13iJWSHdr, func(c c13iCtx) []string {
			if strings.HasPrefix(c.Name, "ciba-") {
				return c13iCibaClaim
			}
			return c13iROClaim
		}},
		{"id_token_hint", c13iHintContexts(), c13iJWSHdr, fixed(c13iHintClaim)},
	}
	n0 := 0
	for _, fam := range fams {
		for _, c := range fam.ctxs {
			w := p.world()
			// new world => cached grants are gone; c13iLive notices (the grant is not in the store)
			w.polMode, w.baMode = "success", "approve"
			res := p.probe(c.Make(p.w, c13iMut{}), c.Name+" intact")
			p.intact[c.Name] = res.Status
			if p.lastRefused && res.Status < 400 {
				p.intact[c.Name] = 400 // a redirect carrying an error
			}
			ctx.Meta.Dist["incomplete:"+fam.name]++
			for _, m := range c13iMuts(p.w, fam.hdr, fam.cl(c), all, extra) {
				w := p.world()
				w.polMode, w.baMode = "success", "approve"
				rq := c.Make(w, m)
				res := p.probe(rq, c.Name+" "+m.String())
				ctx.Meta.Dist["incomplete:"+fam.name]++
				if n0 < 2 && res.Status >= 400 {
					ctx.Meta.Samples = append(ctx.Meta.Samples, c13Replay(w, rq, res))
					n0++
				}
			}
		}
	}
	// the intact artifact must be accepted wherever the harness builds one that the provider should take:
	// otherwise the family would only exercise the first guard
	var bad []string
	for name, st := range p.intact {
		if st >= 400 && !strings.Contains(name, "(other key)") && !strings.Contains(name, "unbound token, DPoP scheme") && !strings.Contains(name, "nothing outside") {
			bad = append(bad, fmt.Sprintf("%s=%d", name, st))
		}
	}
	sort.Strings(bad)
	if ctx.Meta.Extra == nil {
		ctx.Meta.Extra = map[string]any{}
	}
	ctx.Meta.Extra["incomplete_probes"] = p.probes
	ctx.Meta.Extra["incomplete_contexts_refusing_the_intact_artifact"] = bad
	ctx.Meta.Cases += p.probes
	ctx.Meta.Distinct += len(p.kinds)
}

// ---- empty and missing credentials ----
func c13EmptyCreds(ctx *RunCtx) {
	p := &c13iRun{ctx: ctx, kinds: map[string]bool{}, intact: map[string]int{}}
	blanks := []struct {
		name string
		set  func(f form, k string) form
	}{
		{"missing", func(f form, k string) form { return f }},
		{"empty", func(f form, k string) form { return f.set(k, "") }},
		{"blank", func(f form, k string) form { return f.set(k, " ") }},
	}
	rounds := ctx.N(2, 12)
	for round := 0; round < rounds; round++ {
		p.probes = 0
		p.w = nil
		w := p.world()
		for _, cid := range []string{"c1", "c2", "c3", "c4", "c7", "nobody", ""} {
			for _, authOK := range []bool{true, false} {
				if !authOK && (cid == "c2" || cid == "nobody" || cid == "") {
					continue
				}
				creds := func(f form, hdr *[][2]string) form {
					if cid == "" {
						return f
					}
					f = w.auth(cid, f, hdr)
					if !authOK {
						switch cid {
						case "c1":
							f = f.set("client_secret", "wrong-secret")
						case "c3", "c7":
							f = f.set("client_assertion", "a.b.c")
						case "c4":
							*hdr = [][2]string{{"Authorization", "Basic " + base64.StdEncoding.EncodeToString([]byte("c4:wrong"))}}
						}
					}
					return f
				}
				who := fmt.Sprintf("client=%q authenticated=%v", cid, authOK)
				for _, g := range []struct{ grant, field string }{{"authorization_code", "code"}, {"refresh_token", "refresh_token"},
					{"urn:openid:params:grant-type:ciba", "auth_req_id"}} {
					for _, b := range blanks {
						for _, withRest := range []bool{true, false} {
							var h [][2]string
							f := form{{"grant_type", g.grant}}
							if withRest && g.field == "code" {
								f = f.set("redirect_uri", c13Redirect).set("code_verifier", c13iVerifier)
							}
							if !withRest {
								// every credential-bearing field of the endpoint at once
								for _, k := range []string{"code", "refresh_token", "auth_req_id"} {
									f = b.set(f, k)
								}
							}
							f = b.set(creds(f, &h), g.field)
							w.polMode, w.baMode = pick(w.r, []string{"success", "inprogress"}), pick(w.r, []string{"approve", "pending"})
							p.probe(w.c13iPost("/token", f, h, f.get("code"), f.get("refresh_token"), f.get("auth_req_id")),
								fmt.Sprintf("/token %s with %s %s (%s)", g.grant, b.name, g.field, who))
						}
					}
				}
				for _, path := range []string{"/introspect", "/revoke"} {
					for _, b := range blanks {
						for _, hint := range []string{"", "access_token", "refresh_token"} {
							var h [][2]string
							f := form{}
							if hint != "" {
								f = f.set("token_type_hint", hint)
							}
							f = b.set(creds(f, &h), "token")
							p.probe(w.c13iPost(path, f, h, f.get("token")), fmt.Sprintf("%s with %s token, hint %q (%s)", path, b.name, hint, who))
						}
					}
				}
				if authOK {
					// request_uri at /par and /authorize, request at /par
					for _, b := range blanks {
						var h [][2]string
						f := b.set(creds(form{{"response_type", "code"}, {"scope", "openid"}, {"redirect_uri", c13Redirect}}, &h), "request_uri")
						p.probe(w.c13iPost("/par", f, h, f.get("request_uri")), fmt.Sprintf("/par with %s request_uri (%s)", b.name, who))
						f = b.set(form{{"client_id", cid}}, "request_uri")
						for _, full := range []bool{false, true} {
							if full {
								f = f.set("response_type", "code").set("scope", "openid").set("redirect_uri", c13Redirect)
							}
							w.polMode = pick(w.r, []string{"success", "inprogress", "fail"})
							p.probe(rawReq{Method: "GET", Target: w.pfx + "/authorize?" + f.enc(), Present: []string{f.get("request_uri")}},
								fmt.Sprintf("/authorize with %s request_uri, other parameters %v (%s)", b.name, full, who))
							p.probe(rawReq{Method: "POST", Target: w.pfx + "/authorize", Hdr: [][2]string{c13iCTForm}, Body: f.enc(), Present: []string{f.get("request_uri")}},
								fmt.Sprintf("POST /authorize with %s request_uri, other parameters %v (%s)", b.name, full, who))
						}
					}
				}
			}
		}
		// bearer tokens, callback ids, registration ids
		for _, a := range []string{"", "Bearer", "Bearer ", "Bearer  ", "DPoP ", "DPoP", "Basic ", "bearer "} {
			hdr := [][2]string{{"Authorization", a}}
			if a == "" {
				hdr = nil
			}
			p.probe(rawReq{Method: "GET", Target: w.pfx + "/userinfo", Hdr: hdr}, fmt.Sprintf("/userinfo with Authorization %q", a))
			p.probe(rawReq{Method: "POST", Target: w.pfx + "/userinfo", Hdr: append(hdr, c13iCTForm), Body: "access_token="}, fmt.Sprintf("POST /userinfo with empty access_token, Authorization %q", a))
			hdr2 := append([][2]string{}, hdr...)
			hdr2 = append(hdr2, [2]string{"DPoP", w.c13iProof("GET", "/userinfo", "", c13iMut{})})
			p.probe(rawReq{Method: "GET", Target: w.pfx + "/userinfo", Hdr: hdr2}, fmt.Sprintf("/userinfo with Authorization %q and a proof", a))
			for _, id := range []string{"", "%20", w.dynID} {
				for _, m := range []string{"GET", "PUT", "DELETE"} {
					h := append(append([][2]string{}, hdr...), [2]string{"Content-Type", "application/json"})
					p.probe(rawReq{Method: m, Target: w.pfx + "/register/" + id, Hdr: h, Body: `{"redirect_uris":["https://dyn.example/cb"]}`},
						fmt.Sprintf("%s /register/%s with Authorization %q", m, id, a))
				}
			}
		}
		for _, cb := range []string{"", "%20", "%00", "/", "//"} {
			for _, m := range []string{"GET", "POST"} {
				w.polMode = pick(w.r, []string{"success", "inprogress", "fail"})
				p.probe(rawReq{Method: m, Target: w.pfx + "/authorize/" + cb, Present: nil}, fmt.Sprintf("%s /authorize/%s (callback without id)", m, cb))
			}
		}
		ctx.Meta.Cases += p.probes
		ctx.Meta.Dist["empty-credential-probes"] += p.probes
	}
	ctx.Meta.Distinct += len(p.kinds)
}
