package main

// Rendering of abstract operations to concrete HTTP requests against the real handler, and
// abstraction of the real responses to the model's observation type.

import (
	"context"
	"encoding/base64"
	"encoding/json"
	"fmt"
	"net/http"
	"net/url"
	"strings"
	"time"

	"github.com/go-jose/go-jose/v4"
	"github.com/go-jose/go-jose/v4/jwt"
	"github.com/luikyv/go-oidc/pkg/goidc"
)

func (w *World) keyByHandle(h Handle) *Key {
	for i := range w.keys {
		if w.keys[i].H == h {
			return &w.keys[i]
		}
	}
	return nil
}
func (w *World) certByHandle(h Handle) *Cert {
	for i := range w.certs {
		if w.certs[i].H == h {
			return &w.certs[i]
		}
	}
	return nil
}

func htuFor(variant string, path string) string {
	switch variant {
	case "HtuExact":
		return issuer + path
	case "HtuHostCase":
		return "https://AS.Example" + path
	case "HtuSchemeCase":
		return "HTTPS://as.example" + path
	case "HtuDefaultPort":
		return "https://as.example:443" + path
	case "HtuTrailingSlash":
		return issuer + path + "/"
	case "HtuWithQuery":
		return issuer + path + "?x=1"
	case "HtuWithFragment":
		return issuer + path + "#frag"
	case "HtuOtherPath":
		return issuer + path + "x"
	case "HtuOtherHost":
		return "https://evil.example" + path
	case "HtuOtherScheme":
		return "http://as.example" + path
	case "HtuOtherPort":
		return "https://as.example:8443" + path
	}
	return "https://as.example/%zz"
}

// dpopJWS builds the concrete proof described by p for a request (method, path).
func (w *World) dpopJWS(p *Proof, method, path string) string {
	if !p.Parses {
		return "eyJhbGciOiJub25lIn0.e30.AAAA" // not a JWS with an enabled algorithm
	}
	signer := w.keyByHandle(p.Signer)
	if signer == nil {
		signer = &w.keys[0]
	}
	so := &jose.SignerOptions{}
	if p.TypOK {
		so = so.WithType("dpop+jwt")
	} else {
		so = so.WithType("jwt")
	}
	switch p.Jwk {
	case 1:
		so = so.WithHeader("jwk", jose.JSONWebKey{Key: w.keyByHandle(p.JwkKey).Priv})
	case 2:
		so = so.WithHeader("jwk", jose.JSONWebKey{Key: &w.keyByHandle(p.JwkKey).Priv.PublicKey})
	}
	sg, err := jose.NewSigner(jose.SigningKey{Algorithm: jose.ES256, Key: signer.Priv}, so)
	if err != nil {
		panic(err)
	}
	claims := map[string]any{"htu": htuFor(p.Htu, path)}
	if p.HtmOK {
		claims["htm"] = method
	} else {
		claims["htm"] = "PATCH"
	}
	if p.HasIat {
		claims["iat"] = time.Now().Unix() - int64(p.IatAge)
	}
	if p.Jti {
		claims["jti"] = fmt.Sprintf("jti-%d-%d", w.step, time.Now().UnixNano())
	}
	if p.Ath != 0 {
		claims["ath"] = thumb(w.concrete(p.Ath))
	}
	s, err := jwt.Signed(sg).Claims(claims).Serialize()
	if err != nil {
		panic(err)
	}
	return s
}

func (w *World) applyBind(b Bind, hdr http.Header, method, path string) {
	w.curCert = nil
	if b.Dpop != nil {
		hdr.Set("DPoP", w.dpopJWS(b.Dpop, method, path))
		if b.Twice {
			hdr.Add("DPoP", w.dpopJWS(b.Dpop, method, path))
		}
	}
	if b.Cert != 0 {
		if c := w.certByHandle(b.Cert); c != nil {
			w.curCert = c.X
		}
	}
}

func (w *World) applyCred(c Cred, form url.Values) {
	if c.ID == 0 {
		return
	}
	if extraApplyCred != nil && extraApplyCred(w, c, form) {
		return
	}
	form.Set("client_id", clientName(c.ID))
	spec := w.clientSpec(c.ID)
	if spec != nil && spec.Public && c.OK {
		return
	}
	if c.OK {
		form.Set("client_secret", clientSecret(c.ID))
	} else {
		form.Set("client_secret", "wrong-secret")
	}
}

// hook for suites whose clients authenticate with something else than a secret (set by the suite; it
// returns true when it rendered the credential)
var extraApplyCred func(w *World, c Cred, form url.Values) bool

func (w *World) clientSpec(id int) *ClientSpec {
	for i := range w.Spec.Static {
		if w.Spec.Static[i].ID == id {
			return &w.Spec.Static[i]
		}
	}
	for i := range w.Spec.Dyn {
		if w.Spec.Dyn[i].ID == id {
			return &w.Spec.Dyn[i]
		}
	}
	return nil
}

func (p Params) values(w *World, v url.Values) {
	set := func(k, s string) {
		if s != "" {
			v.Set(k, s)
		}
	}
	set("request_uri", w.concrete(p.RequestURI))
	set("redirect_uri", p.Redirect)
	set("response_mode", p.RespMode)
	set("response_type", p.RespType)
	set("scope", p.Scopes)
	set("state", p.State)
	set("nonce", p.Nonce)
	set("code_challenge", p.Challenge.concrete())
	set("code_challenge_method", p.Method)
	if p.DpopJkt != 0 {
		if k := w.keyByHandle(p.DpopJkt); k != nil {
			v.Set("dpop_jkt", k.Jkt)
		} else {
			v.Set("dpop_jkt", w.concrete(p.DpopJkt))
		}
	}
	set("login_hint", p.LoginHint)
	if p.NotifToken != 0 {
		v.Set("client_notification_token", w.notifTokenString(p.NotifToken))
	}
	set("user_code", p.UserCode)
	for _, r := range p.Resources {
		v.Add("resource", r)
	}
	if js, ok := authdJSON(p.AuthDetails, p.AuthDetailsEmpty); ok {
		v.Set("authorization_details", js)
	}
}

func (w *World) notifTokenString(h Handle) string {
	if s, ok := w.h2str[h]; ok {
		return s
	}
	s := fmt.Sprintf("cnt-%d", uint64(h-unknownBase))
	w.name(s, h)
	return s
}

func (w *World) prefix() string {
	for _, o := range w.Spec.Opts {
		if o.Name == "WithPathPrefix" {
			return o.S
		}
	}
	return ""
}

// concrete string for a presented token term
func (w *World) ptokString(p PTok) string {
	switch p.Kind {
	case "PEmpty":
		return ""
	case "PExact":
		return w.concrete(p.H)
	case "PJti":
		return jwtClaim(w.concrete(p.H), "jti")
	case "PForged":
		s := w.concrete(p.H)
		isJWT := strings.Count(s, ".") == 2
		switch p.Forge {
		case "FTrunc":
			return s[:len(s)-3]
		case "FExt":
			return s + "abc"
		case "FSibling":
			// another base64url character whose unused low bits differ: decodes to the same bytes when lax
			last := s[len(s)-1]
			const alpha = "ABCDEFGHIJKLMNOPQRSTUVWXYZabcdefghijklmnopqrstuvwxyz0123456789-_"
			i := strings.IndexByte(alpha, last)
			if !isJWT || i < 0 {
				return s + "A"
			}
			return s[:len(s)-1] + string(alpha[i^1])
		case "FResign", "FEdit", "FOtherIss", "FAlgNone":
			if !isJWT {
				return "forged-" + s
			}
			parts := strings.Split(s, ".")
			var claims map[string]any
			b, _ := base64.RawURLEncoding.DecodeString(parts[1])
			_ = json.Unmarshal(b, &claims)
			switch p.Forge {
			case "FEdit":
				claims["scope"] = "openid admin"
				nb, _ := json.Marshal(claims)
				return parts[0] + "." + base64.RawURLEncoding.EncodeToString(nb) + "." + parts[2]
			case "FAlgNone":
				return base64.RawURLEncoding.EncodeToString([]byte(`{"alg":"none","typ":"at+jwt","kid":"srv-es256"}`)) + "." + parts[1] + "."
			case "FOtherIss":
				claims["iss"] = "https://other.example"
			}
			sg, _ := jose.NewSigner(jose.SigningKey{Algorithm: jose.ES256, Key: w.keys[2].Priv},
				(&jose.SignerOptions{}).WithType("at+jwt").WithHeader("kid", "srv-es256"))
			out, _ := jwt.Signed(sg).Claims(claims).Serialize()
			return out
		}
	}
	return ""
}

func jwtClaim(tok, name string) string {
	parts := strings.Split(tok, ".")
	if len(parts) < 2 {
		return "00000000-0000-4000-8000-000000000000"
	}
	b, err := base64.RawURLEncoding.DecodeString(parts[1])
	if err != nil {
		return ""
	}
	var m map[string]any
	_ = json.Unmarshal(b, &m)
	s, _ := m[name].(string)
	return s
}

// ---- executing one operation ----
func (w *World) Exec(o Op) Obs {
	w.Stores.BeginRequest(nil, -1)
	return w.ExecWith(o)
}

func (w *World) ExecWith(o Op) Obs {
	w.notifs = nil
	w.curCert = nil
	pfx := w.prefix()
	switch o.Kind {
	case "Tick":
		w.Stores.Tick(o.D)
		w.now += o.D
		return Obs{Kind: "Ok"}
	case "Authorize":
		w.polAvail, w.pol = o.PolicyAvail, o.Pol
		v := url.Values{}
		if o.Client != 0 {
			v.Set("client_id", clientName(o.Client))
		}
		o.Params.values(w, v)
		if o.Post {
			rec, pan := w.serve("POST", pfx+"/authorize", v, nil)
			return w.absAuthorize(rec, pan)
		}
		rec, pan := w.serve("GET", pfx+"/authorize?"+v.Encode(), nil, nil)
		return w.absAuthorize(rec, pan)
	case "Callback":
		w.pol = o.Pol
		rec, pan := w.serve("POST", pfx+"/authorize/"+url.PathEscape(w.concrete(o.Cb)), url.Values{}, nil)
		return w.absAuthorize(rec, pan)
	case "Par":
		v := url.Values{}
		w.applyCred(o.Cred, v)
		o.Params.values(w, v)
		hdr := http.Header{}
		w.applyBind(o.Bind, hdr, "POST", pfx+"/par")
		rec, pan := w.serve("POST", pfx+"/par", v, hdr)
		return w.absJSON(rec, pan, "par")
	case "Token":
		v := url.Values{}
		w.applyCred(o.Cred, v)
		v.Set("grant_type", o.Grant)
		if o.Scope != "" {
			v.Set("scope", o.Scope)
		}
		if o.Code != 0 {
			v.Set("code", w.concrete(o.Code))
		}
		if o.Redirect != "" {
			v.Set("redirect_uri", o.Redirect)
		}
		if o.Refresh != 0 {
			v.Set("refresh_token", w.concrete(o.Refresh))
		}
		if cv := o.Verifier.concrete(); cv != "" {
			v.Set("code_verifier", cv)
		}
		if o.AuthReq != 0 {
			v.Set("auth_req_id", w.concrete(o.AuthReq))
		}
		for _, r := range o.Resources {
			v.Add("resource", r)
		}
		if o.Assertion != "" {
			v.Set("assertion", o.Assertion)
		}
		if js, ok := authdJSON(o.AuthDetails, o.AuthDetailsEmpty); ok {
			v.Set("authorization_details", js)
		}
		w.hg, w.ba = o.HG, o.BA
		hdr := http.Header{}
		w.applyBind(o.Bind, hdr, "POST", pfx+"/token")
		rec, pan := w.serve("POST", pfx+"/token", v, hdr)
		return w.absJSON(rec, pan, "token")
	case "Introspect", "Revoke":
		v := url.Values{}
		w.applyCred(o.Cred, v)
		if s := w.ptokString(o.Tok); s != "" {
			v.Set("token", s)
		}
		// token_type_hint is only an optimisation hint (RFC 7009 2.1, RFC 7662 2.1): it is not part of the
		// model's input and must not change any answer
		if o.Hint != "" {
			v.Set("token_type_hint", o.Hint)
		}
		w.allowed = o.Allowed
		path := pfx + "/introspect"
		kind := "intro"
		if o.Kind == "Revoke" {
			path, kind = pfx+"/revoke", "revoke"
		}
		rec, pan := w.serve("POST", path, v, nil)
		return w.absJSON(rec, pan, kind)
	case "UserInfo":
		hdr := http.Header{}
		tok := w.ptokString(o.Tok)
		if o.HasHeader {
			hdr.Set("Authorization", "Bearer "+tok)
		}
		if o.Post {
			w.applyBind(o.Bind, hdr, "POST", pfx+"/userinfo")
			rec, pan := w.serve("POST", pfx+"/userinfo", url.Values{}, hdr)
			return w.absJSON(rec, pan, "userinfo")
		}
		w.applyBind(o.Bind, hdr, "GET", pfx+"/userinfo")
		rec, pan := w.serve("GET", pfx+"/userinfo", nil, hdr)
		return w.absJSON(rec, pan, "userinfo")
	case "TokenInfo":
		info, err := w.provider().TokenInfo(context.Background(), w.ptokString(o.Tok))
		return w.absInfo(info, err)
	case "TokenInfoReq":
		hdr := http.Header{}
		if o.HasHeader {
			hdr.Set("Authorization", "Bearer "+w.ptokString(o.Tok))
		}
		w.applyBind(o.Bind, hdr, "GET", pfx+"/resource")
		req, _ := http.NewRequest("GET", pfx+"/resource", nil)
		req.RequestURI = pfx + "/resource"
		req.Header = hdr
		var info goidc.TokenInfo
		var err error
		var pan any
		func() {
			defer func() { pan = recover() }()
			info, err = w.provider().TokenInfoFromRequest(nil, req)
		}()
		if pan != nil {
			return Obs{Kind: "Panic", Raw: fmt.Sprint(pan)}
		}
		return w.absInfo(info, err)
	case "BcAuthorize":
		v := url.Values{}
		w.applyCred(o.Cred, v)
		o.Params.values(w, v)
		w.initOK, w.initSub, w.initGr, w.initRes = o.InitOK, o.Sub, o.Granted, o.GrantedRes
		w.initDet = o.GrantedDetails
		hdr := http.Header{}
		w.applyBind(o.Bind, hdr, "POST", pfx+"/bc-authorize")
		rec, pan := w.serve("POST", pfx+"/bc-authorize", v, hdr)
		return w.absJSON(rec, pan, "ciba")
	case "NotifyOk", "NotifyFail":
		w.hg = o.HG
		var err error
		var pan any
		func() {
			defer func() { pan = recover() }()
			if o.Kind == "NotifyOk" {
				err = w.provider().NotifyCIBASuccess(context.Background(), w.concrete(o.AuthReq))
			} else {
				err = w.provider().NotifyCIBAFailure(context.Background(), w.concrete(o.AuthReq), goidc.NewError(goidc.ErrorCodeAccessDenied, "user denied"))
			}
		}()
		if pan != nil {
			if _, ok := pan.(crashSentinel); ok {
				panic(pan)
			}
			return Obs{Kind: "Panic", Raw: fmt.Sprint(pan)}
		}
		return Obs{Kind: "Notified", OK: err == nil, Notifs: w.notifs, Raw: fmt.Sprint(err)}
	}
	panic("exec: op kind " + o.Kind)
}

func (w *World) absInfo(info goidc.TokenInfo, err error) Obs {
	if err != nil {
		var ge goidc.Error
		if asGoidc(err, &ge) {
			return Obs{Kind: "Err", Err: ecode(string(ge.Code)), Raw: err.Error()}
		}
		return Obs{Kind: "Intro", Active: false, Raw: err.Error()}
	}
	o := w.introObs(info.IsActive, string(info.Type), info.Scopes, info.ClientID, info.Subject, info.ExpiresAtTimestamp, info.Confirmation)
	if o.Active && len(info.ResourceAudiences) > 0 {
		o.Aud = append([]string(nil), info.ResourceAudiences...)
	}
	if o.Active {
		o.Details = authdAbstractGo(info.AuthorizationDetails)
	}
	return o
}

// a goidc.Resources value as JSON: one string, or an array of strings
func resourcesOf(v any) []string {
	switch x := v.(type) {
	case string:
		return []string{x}
	case []any:
		var out []string
		for _, e := range x {
			if s, ok := e.(string); ok {
				out = append(out, s)
			}
		}
		return out
	}
	return nil
}

// the aud claim of a JWT access token (nil for an opaque token)
func jwtAud(tok string) []string {
	parts := strings.Split(tok, ".")
	if len(parts) != 3 {
		return nil
	}
	b, err := base64.RawURLEncoding.DecodeString(parts[1])
	if err != nil {
		return nil
	}
	var m map[string]any
	_ = json.Unmarshal(b, &m)
	return resourcesOf(m["aud"])
}

func (w *World) introObs(active bool, typ, scope, client, sub string, exp int, cnf *goidc.TokenConfirmation) Obs {
	if !active {
		return Obs{Kind: "Intro", Active: false}
	}
	o := Obs{Kind: "Intro", Active: true, Refresh: typ == "refresh_token", Scope: scope, Client: clientNum(client), Sub: sub,
		Exp: exp - int(time.Now().Unix())}
	if cnf != nil {
		if cnf.JWKThumbprint != "" {
			o.Jkt = w.handleOf(cnf.JWKThumbprint, KSecret)
		}
		if cnf.ClientCertThumbprint != "" {
			o.X5t = w.handleOf(cnf.ClientCertThumbprint, KSecret)
		}
	}
	return o
}

func (w *World) absJSON(rec interface {
	Result() *http.Response
}, pan any, kind string) Obs {
	if pan != nil {
		if _, ok := pan.(crashSentinel); ok {
			panic(pan)
		}
		return Obs{Kind: "Panic", Raw: fmt.Sprint(pan)}
	}
	resp := rec.Result()
	var body strings.Builder
	buf := make([]byte, 4096)
	for {
		n, err := resp.Body.Read(buf)
		body.Write(buf[:n])
		if err != nil {
			break
		}
	}
	raw := body.String()
	status := resp.StatusCode
	if status == 404 || status == 405 {
		return Obs{Kind: "Err", Err: "EOther", Status: status, Raw: raw}
	}
	var m map[string]any
	_ = json.Unmarshal([]byte(raw), &m)
	if e, ok := m["error"].(string); ok && status >= 400 {
		return Obs{Kind: "Err", Err: ecode(e), Status: status, Raw: raw}
	}
	if status >= 400 {
		return Obs{Kind: "Err", Err: "EOther", Status: status, Raw: raw}
	}
	str := func(k string) string { s, _ := m[k].(string); return s }
	switch kind {
	case "token":
		at := str("access_token")
		o := Obs{Kind: "Tokens", Status: status, Raw: raw}
		o.At = w.handleOf(at, atKind(at))
		o.Rt = w.handleOf(str("refresh_token"), KRefresh)
		o.Idt = str("id_token") != ""
		o.Scope = str("scope")
		o.Dpop = str("token_type") == "DPoP"
		o.Res = resourcesOf(m["resources"])
		o.Aud = jwtAud(at)
		o.Details = authdAbstract(m["authorization_details"])
		o.JwtDetails = authdJwtDetails(at)
		// the confirmation of the token just issued, as the provider's own TokenInfo helper reports it
		// (public API, read-only): which key / certificate the token is bound to
		if info, err := w.provider().TokenInfo(observerCtx(), at); err == nil && info.IsActive && info.Confirmation != nil {
			if info.Confirmation.JWKThumbprint != "" {
				o.Jkt = w.handleOf(info.Confirmation.JWKThumbprint, KSecret)
			}
			if info.Confirmation.ClientCertThumbprint != "" {
				o.X5t = w.handleOf(info.Confirmation.ClientCertThumbprint, KSecret)
			}
		}
		return o
	case "par":
		return Obs{Kind: "Par", H: w.handleOf(str("request_uri"), KParUri), Status: status, Raw: raw}
	case "ciba":
		_, hasInt := m["interval"]
		if f, ok := m["interval"].(float64); ok && f == 0 {
			hasInt = false
		}
		return Obs{Kind: "Ciba", H: w.handleOf(str("auth_req_id"), KAuthReq), Interval: hasInt, Status: status, Raw: raw}
	case "intro":
		active, _ := m["active"].(bool)
		var cnf *goidc.TokenConfirmation
		if c, ok := m["cnf"].(map[string]any); ok {
			cnf = &goidc.TokenConfirmation{}
			cnf.JWKThumbprint, _ = c["jkt"].(string)
			cnf.ClientCertThumbprint, _ = c["x5t#S256"].(string)
		}
		exp, _ := m["exp"].(float64)
		o := w.introObs(active, str("token_type"), str("scope"), str("client_id"), str("sub"), int(exp), cnf)
		if active {
			o.Aud = resourcesOf(m["aud"])
			o.Details = authdAbstract(m["authorization_details"])
		}
		o.Status, o.Raw = status, raw
		return o
	case "revoke":
		return Obs{Kind: "Ok", Status: status, Raw: raw}
	case "userinfo":
		return Obs{Kind: "UserInfo", Sub: str("sub"), Status: status, Raw: raw}
	}
	panic("absJSON kind " + kind)
}

var respParamNames = []string{"code", "state", "error", "error_description", "error_uri", "iss", "access_token", "token_type", "id_token", "response"}

// abstraction of what /authorize and its callback answer
func (w *World) absAuthorize(rec interface {
	Result() *http.Response
}, pan any) Obs {
	if pan != nil {
		if _, ok := pan.(crashSentinel); ok {
			panic(pan)
		}
		return Obs{Kind: "Panic", Raw: fmt.Sprint(pan)}
	}
	resp := rec.Result()
	var sb strings.Builder
	buf := make([]byte, 4096)
	for {
		n, err := resp.Body.Read(buf)
		sb.Write(buf[:n])
		if err != nil {
			break
		}
	}
	raw := sb.String()
	status := resp.StatusCode
	if loc := resp.Header.Get("Location"); status == http.StatusSeeOther || loc != "" {
		return w.navObs(loc, "", nil, status, raw)
	}
	if strings.HasPrefix(raw, "PAGE cb=") {
		return Obs{Kind: "Page", H: w.handleOf(strings.TrimPrefix(raw, "PAGE cb="), KCallback), Status: status, Raw: raw}
	}
	if strings.Contains(raw, "<form") {
		// the document as a browser reads it (htmldoc.go): markup outside the template's skeleton
		// is a navigation the action attribute does not show
		act, fv, extra := formPostDocument(raw)
		vals := url.Values{}
		for k, l := range fv {
			vals[k] = l
		}
		if extra != "" {
			act = "form_post document carries markup of its own: " + extra
		}
		return w.navObs("", act, vals, status, raw)
	}
	var m map[string]any
	_ = json.Unmarshal([]byte(raw), &m)
	if e, ok := m["error"].(string); ok {
		return Obs{Kind: "Err", Err: ecode(e), Status: status, Raw: raw}
	}
	return Obs{Kind: "Err", Err: "EOther", Status: status, Raw: raw}
}

// navObs splits a navigation into the base target and the response parameters added to it.
func (w *World) navObs(loc string, formTarget string, formVals url.Values, status int, raw string) Obs {
	o := Obs{Kind: "Nav", Status: status, Raw: raw + " Location=" + loc}
	var vals url.Values
	switch {
	case formVals != nil:
		o.Mode, o.Target, vals = "form_post", formTarget, formVals
	case strings.Contains(loc, "#"):
		i := strings.Index(loc, "#")
		o.Mode, o.Target = "fragment", loc[:i]
		vals, _ = url.ParseQuery(loc[i+1:])
	default:
		o.Mode = "query"
		u, err := url.Parse(loc)
		if err != nil {
			o.Target = loc
			break
		}
		q := u.Query()
		vals = url.Values{}
		for _, k := range respParamNames {
			if q.Has(k) {
				vals.Set(k, q.Get(k))
				q.Del(k)
			}
		}
		u.RawQuery = q.Encode()
		o.Target = u.String()
		// the code re-encodes the registered URI through net/url: undo that for known URIs
		for _, cs := range append(append([]ClientSpec{}, w.Spec.Static...), w.Spec.Dyn...) {
			for _, r := range cs.Redirects {
				if pu, err := url.Parse(r); err == nil {
					pq := pu.Query()
					pu.RawQuery = pq.Encode()
					if pu.String() == o.Target {
						o.Target = r
					}
				}
			}
		}
		for _, r := range w.extraTargets {
			if pu, err := url.Parse(r); err == nil {
				pq := pu.Query()
				pu.RawQuery = pq.Encode()
				if pu.String() == o.Target {
					o.Target = r
				}
			}
		}
	}
	if vals == nil {
		vals = url.Values{}
	}
	if r := vals.Get("response"); r != "" {
		// JARM: the parameters are the claims of the response object
		o.Mode += ".jwt"
		for _, k := range respParamNames {
			if k == "response" {
				continue
			}
			if s := jwtClaim(r, k); s != "" {
				vals.Set(k, s)
			}
		}
	}
	o.NCode = w.handleOf(vals.Get("code"), KCode)
	at := vals.Get("access_token")
	o.NAt = w.handleOf(at, atKind(at))
	o.NIdt = vals.Get("id_token") != ""
	o.NState = vals.Get("state")
	if e := vals.Get("error"); e != "" {
		o.NErr = ecode(e)
	}
	o.NDpop = vals.Get("token_type") == "DPoP"
	return o
}

func asGoidc(err error, target *goidc.Error) bool {
	for err != nil {
		if ge, ok := err.(goidc.Error); ok {
			*target = ge
			return true
		}
		u, ok := err.(interface{ Unwrap() error })
		if !ok {
			return false
		}
		err = u.Unwrap()
	}
	return false
}
