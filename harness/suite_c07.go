package main

// Suites of C07.
//   c07obj  : the deviation catalogue of request objects (signature, key, kid, alg, iss, aud, client_id,
//             exp, nbf, iat, jti, nesting, payload edit, JWE layer) delivered at /authorize by value and by
//             reference, at /par and at /bc-authorize, under the OpenID, FAPI 1.0 and FAPI 2.0 profiles and
//             three JAR configurations (optional / required with 'none' / two algorithms with client pins);
//   c07hist : push / authorize / reuse / tick histories with two clients (pushing vs other client, expiry,
//             second use, outer parameters) under the three profiles, with and without request objects.
// Every case is evaluated by coqc against Model/Jar.v (Corr/C07.v: check_jcase) together with the
// property monitor mon_C07 on the implementation's observations.

import (
	"encoding/json"
	"fmt"
	"math/rand"
	"os"
	"path/filepath"
	"strings"
)

const jcaseHeader = `From Verif Require Import Base Scope Types Prog Pop Token Authorize System Config Run Jar JarSpec.
Require Import Verif.Corr.C07.
Local Open Scope N_scope.
`

func ip(i int) *int { return &i }

func c07Clients(jarReq1 bool) []ClientSpec {
	allResp := []string{"code", "token", "id_token", "id_token token", "code id_token", "code token", "code id_token token"}
	return []ClientSpec{
		{ID: 1, Grants: []string{"authorization_code", "refresh_token", "implicit"}, RespTypes: allResp,
			Redirects: []string{"https://c1.example/cb", "https://c1.example/cb2", "https://shared.example/cb"}, Scopes: "openid email profile", JarReq: jarReq1},
		{ID: 2, Grants: []string{"authorization_code", "refresh_token"}, RespTypes: []string{"code"},
			Redirects: []string{"https://c2.example/cb", "https://shared.example/cb"}, Scopes: "openid email"},
		{ID: 5, Grants: []string{"urn:openid:params:grant-type:ciba", "refresh_token"}, Scopes: "openid email", CibaMode: "poll"},
	}
}

func clientJWKS(c int) []JWK {
	k1, k2 := clientKey(c, 1), clientKey(c, 2)
	return []JWK{{Kid: kidOf(k1), Alg: "AES256", Key: k1}, {Kid: kidOf(k2), Alg: "AES384", Key: k2}}
}

type c07Variant struct {
	Name    string
	Profile string
	Opts    []Opt
	JC      JCfg
	Static  []ClientSpec
	JCl     []JClient
}

func (v c07Variant) has(name string) bool {
	for _, o := range v.Opts {
		if o.Name == name {
			return true
		}
	}
	return false
}

func c07Variants(profile string) []c07Variant {
	common := func() []Opt {
		o := []Opt{{Name: "WithScopes", Scopes: serverScopes}, {Name: "WithAuthorizationCodeGrant"}, {Name: "WithRefreshTokenGrant", Z: 600},
			{Name: "WithCIBAGrant"}, {Name: "WithTokenIntrospection"}}
		if profile == "fapi1" {
			o = append(o, Opt{Name: "WithJARM"})
		}
		return o
	}
	jcl := func(pin1, pin2, ciba5 string) []JClient {
		return []JClient{{ID: 1, Keys: clientJWKS(1), JarAlg: pin1}, {ID: 2, Keys: clientJWKS(2), JarAlg: pin2}, {ID: 5, Keys: clientJWKS(5), CibaAlg: ciba5}}
	}
	var vs []c07Variant
	// optional JAR, one algorithm, by reference allowed
	vs = append(vs, c07Variant{Name: "optional", Profile: profile,
		Opts:   append(common(), Opt{Name: "WithPAR", Z: 60}, Opt{Name: "WithJAR"}, Opt{Name: "WithJARByReference"}, Opt{Name: "WithCIBAJAR"}, Opt{Name: "WithImplicitGrant"}),
		JC:     JCfg{Algs: []string{"AES256"}, CibaAlgs: []string{"AES256"}},
		Static: c07Clients(false), JCl: jcl("", "", "")})
	// required JAR with 'none' enabled, JWE layer enabled, PAR required for nobody, CIBA JAR required
	vs = append(vs, c07Variant{Name: "required+none+enc", Profile: profile,
		Opts:   append(common(), Opt{Name: "WithPAR", Z: 60}, Opt{Name: "WithJARRequired"}, Opt{Name: "WithCIBAJARRequired"}),
		JC:     JCfg{Algs: []string{"AES256", "ANone"}, Enc: true, CibaAlgs: []string{"AES256"}, Leeway: 30},
		Static: c07Clients(false), JCl: jcl("", "", "")})
	// two algorithms, per-client pins, the client (not the server) requires JAR, by reference allowed
	vs = append(vs, c07Variant{Name: "two-algs+pins", Profile: profile,
		Opts:   append(common(), Opt{Name: "WithPAR", Z: 60}, Opt{Name: "WithJAR"}, Opt{Name: "WithJARByReference"}, Opt{Name: "WithCIBAJAR"}),
		JC:     JCfg{Algs: []string{"AES256", "AES384"}, CibaAlgs: []string{"AES256", "AES384"}},
		Static: c07Clients(true), JCl: jcl("AES256", "AES384", "AES384")})
	return vs
}

func innerParams(profile string, client int) Params {
	p := Params{Redirect: fmt.Sprintf("https://c%d.example/cb", client), RespType: "code", Scopes: "openid email", State: "st-in", Nonce: "n-in"}
	if profile == "fapi1" {
		p.RespMode = "jwt"
	}
	return p
}

func baseRO(profile string, client int) RO {
	k := clientKey(client, 1)
	return RO{Enc: "EncNone", Sig: "SigBy", SigKey: k, Alg: "AES256", Kid: kidOf(k), Iss: client, AudOK: true,
		Exp: ip(300), Nbf: ip(-10), Iat: ip(-10), Jti: true, ClientID: client, Params: innerParams(profile, client)}
}

func cibaRO(client int) RO {
	k := clientKey(client, 1)
	return RO{Enc: "EncNone", Sig: "SigBy", SigKey: k, Alg: "AES256", Kid: kidOf(k), Iss: client, AudOK: true,
		Exp: ip(300), Nbf: ip(-10), Iat: ip(-10), Jti: true, ClientID: client, Params: Params{Scopes: "openid email", LoginHint: "alice@example"}}
}

type roDev struct {
	Name string
	F    func(o *RO, client int)
}

func other(client int) int {
	if client == 2 {
		return 1
	}
	return 2
}

var roDevs = []roDev{
	{"valid", func(o *RO, c int) {}},
	{"no-kid", func(o *RO, c int) { o.Kid = 0 }},
	{"foreign-key", func(o *RO, c int) { o.SigKey = keyForeign256 }},
	{"other-clients-key-own-kid", func(o *RO, c int) { o.SigKey = clientKey(other(c), 1) }},
	{"other-clients-key-its-kid", func(o *RO, c int) { o.SigKey = clientKey(other(c), 1); o.Kid = kidOf(o.SigKey) }},
	{"kid-unknown", func(o *RO, c int) { o.Kid = kidUnknown }},
	{"kid-of-another-own-key", func(o *RO, c int) { o.Kid = kidOf(clientKey(c, 2)) }},
	{"es384", func(o *RO, c int) { o.SigKey = clientKey(c, 2); o.Alg = "AES384"; o.Kid = kidOf(o.SigKey) }},
	{"es384-no-kid", func(o *RO, c int) { o.SigKey = clientKey(c, 2); o.Alg = "AES384"; o.Kid = 0 }},
	{"es384-foreign", func(o *RO, c int) { o.SigKey = keyForeign384; o.Alg = "AES384"; o.Kid = kidOf(clientKey(c, 2)) }},
	{"unsigned-none", func(o *RO, c int) { o.Sig = "SigEmpty"; o.SigKey = 0; o.Alg = "ANone"; o.Kid = 0 }},
	{"unsigned-none-bare", func(o *RO, c int) {
		o.Sig = "SigEmpty"
		o.SigKey = 0
		o.Alg = "ANone"
		o.Kid = 0
		o.Iss, o.AudOK, o.AudAbsent, o.Exp, o.Nbf, o.Iat, o.Jti = 0, false, true, nil, nil, nil, false
	}},
	{"stripped-signature", func(o *RO, c int) { o.Sig = "SigEmpty"; o.SigKey = 0 }},
	{"none-over-signature-bytes", func(o *RO, c int) { o.Sig = "SigInvalid"; o.Alg = "ANone" }},
	{"payload-edited", func(o *RO, c int) { o.Sig = "SigInvalid" }},
	{"iss-other-client", func(o *RO, c int) { o.Iss = other(c) }},
	{"iss-absent", func(o *RO, c int) { o.Iss = 0 }},
	{"iss-not-a-client", func(o *RO, c int) { o.Iss = 99 }},
	{"aud-wrong", func(o *RO, c int) { o.AudOK = false }},
	{"aud-absent", func(o *RO, c int) { o.AudOK = false; o.AudAbsent = true }},
	{"client_id-other", func(o *RO, c int) { o.ClientID = other(c) }},
	{"client_id-absent", func(o *RO, c int) { o.ClientID = 0 }},
	{"exp-absent", func(o *RO, c int) { o.Exp = nil }},
	{"exp-expired", func(o *RO, c int) { o.Exp = ip(-120) }},
	{"exp-just-expired-within-leeway", func(o *RO, c int) { o.Exp = ip(-15) }},
	{"exp-too-far", func(o *RO, c int) { o.Exp = ip(7200) }},
	{"nbf-absent", func(o *RO, c int) { o.Nbf = nil }},
	{"nbf-future", func(o *RO, c int) { o.Nbf = ip(600) }},
	{"nbf-too-old", func(o *RO, c int) { o.Nbf = ip(-7200); o.Iat = ip(-7200) }},
	{"iat-absent", func(o *RO, c int) { o.Iat = nil }},
	{"iat-future", func(o *RO, c int) { o.Iat = ip(600) }},
	{"jti-absent", func(o *RO, c int) { o.Jti = false }},
	{"nested-request", func(o *RO, c int) { o.NestedReq = true }},
	{"nested-request_uri", func(o *RO, c int) { o.NestedURI = true }},
	{"nested-both", func(o *RO, c int) { o.NestedReq = true; o.NestedURI = true }},
	{"jwe", func(o *RO, c int) { o.Enc = "EncOk" }},
	{"jwe-for-another-key", func(o *RO, c int) { o.Enc = "EncBad" }},
	{"jwe-around-unsigned", func(o *RO, c int) { o.Enc = "EncOk"; o.Sig = "SigEmpty"; o.SigKey = 0; o.Alg = "ANone"; o.Kid = 0 }},
	{"inner-without-state", func(o *RO, c int) { o.Params.State = "" }},
	{"inner-without-redirect", func(o *RO, c int) { o.Params.Redirect = "" }},
	{"inner-scope-not-allowed", func(o *RO, c int) { o.Params.Scopes = "openid admin" }},
	{"inner-redirect-not-registered", func(o *RO, c int) { o.Params.Redirect = "https://evil.example/cb" }},
	{"inner-without-response_type", func(o *RO, c int) { o.Params.RespType = "" }},
}

// parameters outside the object / pushed request at /authorize
func outerParams(r *rand.Rand, profile string, client int) (Params, string) {
	min := Params{RespType: "code", Scopes: "openid"}
	switch x := r.Intn(20); {
	case x < 8:
		return min, "outer-minimal"
	case x < 10:
		return Params{}, "outer-empty"
	case x < 12:
		p := min
		p.State = "st-out"
		p.Nonce = "n-out"
		return p, "outer-state-nonce"
	case x < 14:
		p := min
		p.Redirect = fmt.Sprintf("https://c%d.example/cb2", client)
		return p, "outer-other-redirect"
	case x < 15:
		p := min
		p.Redirect = "https://evil.example/cb"
		return p, "outer-unregistered-redirect"
	case x < 16:
		p := min
		p.Scopes = "email"
		return p, "outer-scope-without-openid"
	case x < 17:
		p := min
		p.RespType = "code id_token"
		p.Nonce = "n-out"
		return p, "outer-other-response_type"
	case x < 18:
		p := min
		p.Scopes = "openid profile"
		p.State = "st-out"
		return p, "outer-more-scope"
	case x < 19:
		p := min
		p.RespMode = "form_post"
		return p, "outer-response_mode"
	default:
		p := innerParams(profile, client)
		p.State = "st-out"
		return p, "outer-full"
	}
}

func c07Pol(r *rand.Rand) (Pol, bool) {
	switch x := r.Intn(20); {
	case x < 11:
		return Pol{Kind: "PolInProgress"}, true
	case x < 17:
		return Pol{Kind: "PolSuccess", Sub: "alice", Granted: "openid"}, true
	case x < 18:
		return Pol{Kind: "PolFail"}, true
	case x < 19:
		return Pol{Kind: "PolFailWith", Err: "ELoginRequired"}, true
	}
	return Pol{Kind: "PolInProgress"}, false
}

type jrunner struct {
	ctx   *RunCtx
	cases []JCase
	notes []string
	stats map[string]int
}

func (jr *jrunner) run(v c07Variant, ops []JOp, note string) JCase {
	spec := WorldSpec{Profile: v.Profile, Opts: v.Opts, Static: v.Static, Flavour: "copy"}
	if len(jr.cases)%2 == 1 {
		spec.Flavour = "alias"
	}
	jw, err := NewJWorld(spec, v.JC, v.JCl)
	if err != nil {
		panic(fmt.Sprintf("world %s/%s: %v", v.Profile, v.Name, err))
	}
	c := JCase{Profile: v.Profile, Opts: v.Opts, JCfg: v.JC, Static: v.Static, JCl: v.JCl, Note: note}
	for i, o := range ops {
		obs := jw.Exec(i, o)
		c.Ops = append(c.Ops, o)
		c.Obs = append(c.Obs, obs)
		jr.stats["op:"+o.Kind+"/"+o.Jar]++
		jr.stats["obs:"+obs.Obs.Kind]++
		if obs.Obs.Kind == "Err" {
			jr.stats["err:"+obs.Obs.Err]++
		}
		if obs.Obs.Kind == "Nav" && obs.Obs.NErr != "" {
			jr.stats["naverr:"+obs.Obs.NErr]++
		}
	}
	jr.cases = append(jr.cases, c)
	return c
}

func obsOK(o Obs) bool {
	switch o.Kind {
	case "Page", "Par", "Ciba":
		return true
	case "Nav":
		return o.NErr == ""
	}
	return false
}

func (jr *jrunner) write(monitor string) {
	ctx := jr.ctx
	per := 120
	for k := 0; k*per < len(jr.cases); k++ {
		hi := (k + 1) * per
		if hi > len(jr.cases) {
			hi = len(jr.cases)
		}
		var b strings.Builder
		b.WriteString(jcaseHeader)
		var names []string
		for i, cs := range jr.cases[k*per : hi] {
			fmt.Fprintf(&b, "(*CASE %d %s*)\nDefinition c_%d : jarcase :=\n%s.\n", k*per+i, strings.ReplaceAll(cs.Note, "*)", ""), k*per+i, cs.coq())
			names = append(names, fmt.Sprintf("c_%d", k*per+i))
		}
		b.WriteString("(*END*)\nDefinition cases : list jarcase := [" + strings.Join(names, "; ") + "].\n")
		b.WriteString("Definition corr := Eval vm_compute in map check_jcase cases.\nPrint corr.\n")
		fmt.Fprintf(&b, "Definition mon := Eval vm_compute in map %s cases.\nPrint mon.\n", monitor)
		name := fmt.Sprintf("cases_%03d.v", k)
		if err := os.WriteFile(filepath.Join(ctx.Out, name), []byte(b.String()), 0o644); err != nil {
			panic(err)
		}
		ctx.Meta.Files = append(ctx.Meta.Files, name)
	}
	ctx.Meta.Cases = len(jr.cases)
	seen := map[string]bool{}
	type jc struct {
		Index int
		Note  string
		Spec  any
		Ops   []JOp
		Obs   []JObs
	}
	var all []jc
	for i, cs := range jr.cases {
		okN, errN := 0, 0
		var sb strings.Builder
		for j, o := range cs.Obs {
			sb.WriteString(cs.Ops[j].Kind + cs.Ops[j].Jar + ":" + o.Obs.Kind + ":" + o.Obs.Err + o.Obs.NErr + ";")
			if obsOK(o.Obs) {
				okN++
			} else if cs.Ops[j].Kind != "Base" {
				errN++
			}
			ctx.Meta.Ops++
		}
		if okN > 0 && errN > 0 {
			seen[cs.Profile+sb.String()] = true
		}
		all = append(all, jc{i, cs.Note, map[string]any{"Profile": cs.Profile, "Opts": cs.Opts, "JCfg": cs.JCfg, "Static": cs.Static, "JClients": cs.JCl}, cs.Ops, cs.Obs})
	}
	ctx.Meta.Distinct = len(seen)
	for i := 0; i < len(jr.cases) && i < 2; i++ {
		cs := jr.cases[i]
		var ops []string
		for j, o := range cs.Ops {
			if j >= 6 {
				break
			}
			ops = append(ops, o.coq()+"  ==>  "+cs.Obs[j].coq())
		}
		ctx.Meta.Samples = append(ctx.Meta.Samples, map[string]any{"note": cs.Note, "options": cList(cs.Opts, Opt.coq), "first_ops": ops})
	}
	for k, v := range jr.stats {
		ctx.Meta.Dist[k] += v
	}
	b, _ := json.Marshal(all)
	_ = os.WriteFile(filepath.Join(ctx.Out, "cases.json"), b, 0o644)
}

func mkAuthorize(r *rand.Rand, profile string, client int, jar string, obj *RO, https bool, note string) JOp {
	outer, on := outerParams(r, profile, client)
	pol, avail := c07Pol(r)
	return JOp{Kind: "JAuthorize", Base: Op{Kind: "Authorize", Client: client, Params: outer, PolicyAvail: avail, Pol: pol},
		Jar: jar, Obj: obj, RefHTTPS: https, Note: note + "/" + on}
}

func mkPar(r *rand.Rand, client int, obj *RO, note string) JOp {
	outer := Params{}
	switch r.Intn(8) {
	case 0:
		outer = Params{State: "st-out", Scopes: "openid profile", Redirect: fmt.Sprintf("https://c%d.example/cb2", client)}
	case 1:
		outer = Params{Redirect: "https://evil.example/cb"}
	}
	jar := ""
	if obj != nil {
		jar = "value"
	}
	return JOp{Kind: "JPar", Base: Op{Kind: "Par", Cred: Cred{ID: client, OK: true}, Params: outer}, Jar: jar, Obj: obj, Note: note}
}

func mkBc(r *rand.Rand, client int, obj *RO, note string) JOp {
	outer := Params{}
	switch r.Intn(6) {
	case 0:
		outer = Params{Scopes: "openid", LoginHint: "mallory@example"}
	case 1:
		outer = Params{Scopes: "openid admin"}
	}
	jar := ""
	if obj != nil {
		jar = "value"
	}
	return JOp{Kind: "JBc", Base: Op{Kind: "BcAuthorize", Cred: Cred{ID: client, OK: true}, Params: outer, InitOK: true, Sub: "alice", Granted: "openid"},
		Jar: jar, Obj: obj, Note: note}
}

func init() {
	register(&Suite{Name: "c07obj", Run: func(ctx *RunCtx) {
		jr := &jrunner{ctx: ctx, stats: map[string]int{}}
		r := ctx.R
		chunk := 6
		for _, profile := range []string{"openid", "fapi1", "fapi2"} {
			for _, v := range c07Variants(profile) {
				for _, delivery := range []string{"authorize-value", "authorize-ref", "par", "bc"} {
					var ops []JOp
					var names []string
					flush := func() {
						if len(ops) == 0 {
							return
						}
						jr.run(v, ops, fmt.Sprintf("%s/%s/%s: %s", profile, v.Name, delivery, strings.Join(names, ",")))
						ops, names = nil, nil
					}
					client := 1
					if ctx.Quick() && r.Intn(4) == 0 || !ctx.Quick() && r.Intn(2) == 0 {
						client = 2
					}
					reps := ctx.N(1, 6)
					for rep := 0; rep < reps; rep++ {
						for _, d := range roDevs {
							var o RO
							if delivery == "bc" {
								o = cibaRO(5)
								d.F(&o, 5)
								if o.Params.Redirect != "" || o.Params.RespType != "" {
									o.Params.Redirect, o.Params.RespType = "", ""
								}
							} else {
								o = baseRO(profile, client)
								d.F(&o, client)
								if client == 2 && o.Alg == "AES256" && o.Sig == "SigBy" && v.Name == "two-algs+pins" && r.Intn(2) == 0 {
									// client 2 pins ES384: also try its pinned algorithm
									o.SigKey, o.Alg = clientKey(2, 2), "AES384"
									if o.Kid == kidOf(clientKey(2, 1)) {
										o.Kid = kidOf(clientKey(2, 2))
									}
								}
							}
							oc := o
							switch delivery {
							case "authorize-value":
								ops = append(ops, mkAuthorize(r, profile, client, "value", &oc, true, d.Name))
							case "authorize-ref":
								ops = append(ops, mkAuthorize(r, profile, client, "ref", &oc, r.Intn(12) != 0, d.Name))
							case "par":
								ops = append(ops, mkPar(r, client, &oc, d.Name))
							case "bc":
								ops = append(ops, mkBc(r, 5, &oc, d.Name))
							}
							names = append(names, d.Name)
							if len(ops) >= chunk {
								flush()
							}
						}
						// no object at all; fetch failure
						switch delivery {
						case "authorize-value":
							ops = append(ops, mkAuthorize(r, profile, client, "", nil, true, "no-object"))
						case "authorize-ref":
							ops = append(ops, mkAuthorize(r, profile, client, "ref", nil, true, "fetch-404"))
						case "par":
							ops = append(ops, mkPar(r, client, nil, "no-object"))
						case "bc":
							op := mkBc(r, 5, nil, "no-object")
							op.Base.Params = Params{Scopes: "openid email", LoginHint: "alice@example"}
							ops = append(ops, op)
						}
						names = append(names, "no-object")
						flush()
					}
				}
			}
		}
		ctx.Meta.Rule = "deviation catalogue of request objects (43 deviations of a valid object) x {authorize by value, authorize by reference, par, bc-authorize} x {openid, fapi1, fapi2} x 3 JAR configurations, outer parameters and policy verdicts drawn at random; distinct by projected trace; non-trivial = at least one accepted and one refused request in the history"
		jr.write("mon_C07")
	}})

	register(&Suite{Name: "c07hist", Run: func(ctx *RunCtx) {
		jr := &jrunner{ctx: ctx, stats: map[string]int{}}
		r := ctx.R
		n := ctx.N(150, 4000)
		for i := 0; i < n; i++ {
			profile := []string{"openid", "fapi1", "fapi2"}[i%3]
			vs := c07Variants(profile)
			v := vs[r.Intn(len(vs))]
			if r.Intn(4) == 0 {
				// PAR required by the server
				for k := range v.Opts {
					if v.Opts[k].Name == "WithPAR" {
						v.Opts[k].Name = "WithPARRequired"
					}
				}
				v.Name += "+par-required"
			}
			if r.Intn(4) == 0 {
				v.Static[1].ParReq = true
			}
			var ops []JOp
			type pushedURI struct {
				h      Handle
				client int
			}
			var uris []pushedURI
			nops := 4 + r.Intn(6)
			// run online so that later operations can present the request_uris actually handed out
			spec := WorldSpec{Profile: v.Profile, Opts: v.Opts, Static: v.Static, Flavour: []string{"copy", "alias"}[i%2]}
			jw, err := NewJWorld(spec, v.JC, v.JCl)
			if err != nil {
				panic(err)
			}
			c := JCase{Profile: v.Profile, Opts: v.Opts, JCfg: v.JC, Static: v.Static, JCl: v.JCl}
			do := func(o JOp) JObs {
				obs := jw.Exec(len(ops), o)
				ops = append(ops, o)
				c.Ops = append(c.Ops, o)
				c.Obs = append(c.Obs, obs)
				jr.stats["op:"+o.Kind+"/"+o.Jar]++
				jr.stats["obs:"+obs.Obs.Kind]++
				if obs.Obs.Kind == "Err" {
					jr.stats["err:"+obs.Obs.Err]++
				}
				return obs
			}
			for len(ops) < nops {
				client := 1 + r.Intn(2)
				switch x := r.Intn(20); {
				case x < 6 || len(uris) == 0 && x < 12:
					// push, with or without an object
					var op JOp
					if r.Intn(3) != 0 {
						o := baseRO(profile, client)
						if r.Intn(2) == 0 {
							o.Params.Redirect = "https://shared.example/cb"
						}
						if r.Intn(5) == 0 {
							d := roDevs[r.Intn(len(roDevs))]
							d.F(&o, client)
						}
						if r.Intn(3) == 0 {
							o.Params.State = ""
						}
						op = mkPar(r, client, &o, "push-object")
					} else {
						op = mkPar(r, client, nil, "push-plain")
						op.Base.Params = innerParams(profile, client)
						if r.Intn(2) == 0 {
							op.Base.Params.Redirect = "https://shared.example/cb"
						}
						if r.Intn(3) == 0 {
							op.Base.Params.State = ""
						}
						if r.Intn(4) == 0 {
							op.Base.Params.Redirect = ""
						}
					}
					obs := do(op)
					if obs.Obs.Kind == "Par" {
						uris = append(uris, pushedURI{obs.Obs.H, client})
					}
				case x < 16 && len(uris) > 0:
					// redeem: mostly the latest, by the pushing client or (1 in 4) by the other one
					u := uris[len(uris)-1]
					if r.Intn(3) == 0 {
						u = uris[r.Intn(len(uris))]
					}
					cl := u.client
					if r.Intn(4) == 0 {
						cl = other(u.client)
					}
					op := mkAuthorize(r, profile, cl, "", nil, true, "redeem")
					if r.Intn(12) == 0 {
						o := baseRO(profile, cl)
						op.Jar, op.Obj = "value", &o
					}
					op.Base.Params.RequestURI = u.h
					do(op)
				case x < 18:
					do(JOp{Kind: "Base", Base: Op{Kind: "Tick", D: pick(r, []int{20, 45, 70})}})
				default:
					// an authorization request without request_uri: by value or plain
					if r.Intn(2) == 0 {
						o := baseRO(profile, client)
						do(mkAuthorize(r, profile, client, "value", &o, true, "by-value"))
					} else {
						op := mkAuthorize(r, profile, client, "", nil, true, "plain")
						op.Base.Params = innerParams(profile, client)
						do(op)
					}
				}
			}
			c.Note = fmt.Sprintf("%s/%s history %d", profile, v.Name, i)
			jr.cases = append(jr.cases, c)
		}
		ctx.Meta.Rule = "random push / authorize (pushing or other client, outer parameters, policy verdicts) / reuse / tick histories with two clients, with and without request objects, three profiles, PAR optional or required; distinct by projected trace; non-trivial = at least one accepted and one refused request"
		jr.write("mon_C07")
	}})
}
