package main

// Suites of C07.
//   c07obj  : the deviation catalogue of request objects (signature, key, kid, alg, iss, aud, client_id,
//             exp, nbf, iat, jti, nesting, payload edit, JWE layer) delivered at /authorize by value and by
//             reference, at /par and at /bc-authorize, under the OpenID, FAPI 1.0 and FAPI 2.0 profiles and
//             three JAR configurations (optional / required with 'none' / two algorithms with client pins), every
//             deviation once more inside a JWE where the JWE layer is enabled; then two cross products:
//             the LAYER MATRIX  {no JWE, JWE for the server key, JWE for another key} x {signed, unsigned alg none,
//             unsigned bare, stripped signature, 'none' over signature bytes} x {'none' off / on the server list /
//             by client pin / on the list but pinned away} x {JWE enabled or not} x {JAR optional / required by the
//             server / by the client} x {by value, by reference, par, bc-authorize}, and the NAVIGATION MATRIX
//             {error-producing deviation inside or outside the object} x {where a registered / unregistered /
//             foreign redirect_uri sits: object, query, both, neither} x {by value, by reference};
//   c07hist : push / authorize / reuse / tick histories with two clients (pushing vs other client, expiry,
//             second use, outer parameters) under the three profiles, with and without request objects.
// Every case is evaluated by coqc against Model/Jar.v (Corr/C07.v: check_jcase) together with the
// property monitor mon_C07 on the implementation's observations.

import (
	"encoding/json"
	"fmt"
	"math/rand"
	"os"
	"path/filepath"
	"sort"
	"strings"
)

const jcaseHeader = `From Verif Require Import Base Scope Types Prog Pop Token Authorize System Config Run Jar JarSpec.
Require Import Verif.Corr.C07.
Local Open Scope N_scope.
`

func ip(i int) *int { return &i }

const c07Evil = "https://evil.example/cb"          // registered for nobody
const c07PushedOnly = "https://pushed.example/cb" // registered for nobody, pushed where PAR admits unregistered URIs

func c07Clients(jarReq1 bool) []ClientSpec {
	allResp := []string{"code", "token", "id_token", "id_token token", "code id_token", "code token", "code id_token token"}
	return []ClientSpec{
		{ID: 1, Grants: []string{"authorization_code", "refresh_token", "implicit"}, RespTypes: allResp,
			Redirects: []string{"https://c1.example/cb", "https://c1.example/cb2", "https://shared.example/cb"}, Scopes: "openid email profile", JarReq: jarReq1},
		{ID: 2, Grants: []string{"authorization_code", "refresh_token"}, RespTypes: []string{"code"},
			Redirects: []string{"https://c2.example/cb", "https://shared.example/cb"}, Scopes: "openid email"},
		{ID: 5, Grants: []string{"urn:openid:params:grant-type:ciba", "refresh_token"}, Scopes: "openid email", CibaMode: "poll"},
	}
}

func clientJWKS(c int) []JWK {
	k1, k2 := clientKey(c, 1), clientKey(c, 2)
	return []JWK{{Kid: kidOf(k1), Alg: "AES256", Key: k1}, {Kid: kidOf(k2), Alg: "AES384", Key: k2}}
}

type c07Variant struct {
	Name    string
	Profile string
	Opts    []Opt
	JC      JCfg
	Static  []ClientSpec
	JCl     []JClient
}

func (v c07Variant) has(name string) bool {
	for _, o := range v.Opts {
		if o.Name == name {
			return true
		}
	}
	return false
}

func c07CommonOpts(profile string) []Opt {
	o := []Opt{{Name: "WithScopes", Scopes: serverScopes}, {Name: "WithAuthorizationCodeGrant"}, {Name: "WithRefreshTokenGrant", Z: 600},
		{Name: "WithCIBAGrant"}, {Name: "WithTokenIntrospection"}}
	if profile == "fapi1" {
		o = append(o, Opt{Name: "WithJARM"})
	}
	return o
}

func c07JClients(pin1, pin2, ciba5 string) []JClient {
	return []JClient{{ID: 1, Keys: clientJWKS(1), JarAlg: pin1}, {ID: 2, Keys: clientJWKS(2), JarAlg: pin2}, {ID: 5, Keys: clientJWKS(5), CibaAlg: ciba5}}
}

func c07Variants(profile string) []c07Variant {
	common := func() []Opt { return c07CommonOpts(profile) }
	jcl := c07JClients
	var vs []c07Variant
	// optional JAR, one algorithm, by reference allowed
	vs = append(vs, c07Variant{Name: "optional", Profile: profile,
		// (mTLS aliases configured: the audiences a client assertion may name include them)
		Opts:   append(common(), Opt{Name: "WithPAR", Z: 60}, Opt{Name: "WithJAR"}, Opt{Name: "WithJARByReference"}, Opt{Name: "WithCIBAJAR"}, Opt{Name: "WithImplicitGrant"}, Opt{Name: "WithMTLS"}),
		JC:     JCfg{Algs: []string{"AES256"}, CibaAlgs: []string{"AES256"}},
		Static: c07Clients(false), JCl: jcl("", "", "")})
	// required JAR with 'none' enabled, JWE layer enabled, PAR required for nobody, CIBA JAR required
	vs = append(vs, c07Variant{Name: "required+none+enc", Profile: profile,
		Opts:   append(common(), Opt{Name: "WithPAR", Z: 60}, Opt{Name: "WithJARRequired"}, Opt{Name: "WithCIBAJARRequired"}),
		JC:     JCfg{Algs: []string{"AES256", "ANone"}, Enc: true, CibaAlgs: []string{"AES256"}, Leeway: 30},
		Static: c07Clients(false), JCl: jcl("", "", "")})
	// two algorithms, per-client pins, the client (not the server) requires JAR, by reference allowed
	vs = append(vs, c07Variant{Name: "two-algs+pins", Profile: profile,
		Opts:   append(common(), Opt{Name: "WithPAR", Z: 60}, Opt{Name: "WithJAR"}, Opt{Name: "WithJARByReference"}, Opt{Name: "WithCIBAJAR"}),
		JC:     JCfg{Algs: []string{"AES256", "AES384"}, CibaAlgs: []string{"AES256", "AES384"}},
		Static: c07Clients(true), JCl: jcl("AES256", "AES384", "AES384")})
	return vs
}

func innerParams(profile string, client int) Params {
	p := Params{Redirect: fmt.Sprintf("https://c%d.example/cb", client), RespType: "code", Scopes: "openid email", State: "st-in", Nonce: "n-in"}
	if profile == "fapi1" {
		p.RespMode = "jwt"
	}
	return p
}

func baseRO(profile string, client int) RO {
	k := clientKey(client, 1)
	return RO{Enc: "EncNone", Sig: "SigBy", SigKey: k, Alg: "AES256", Kid: kidOf(k), Iss: client, Aud: []string{"AudForeign", "AudIssuer"},
		Exp: ip(300), Nbf: ip(-10), Iat: ip(-10), Jti: true, ClientID: client, Params: innerParams(profile, client)}
}

func cibaRO(client int) RO {
	k := clientKey(client, 1)
	return RO{Enc: "EncNone", Sig: "SigBy", SigKey: k, Alg: "AES256", Kid: kidOf(k), Iss: client, Aud: []string{"AudForeign", "AudIssuer"},
		Exp: ip(300), Nbf: ip(-10), Iat: ip(-10), Jti: true, ClientID: client, Params: Params{Scopes: "openid email", LoginHint: "alice@example"}}
}

type roDev struct {
	Name string
	F    func(o *RO, client int)
}

func other(client int) int {
	if client == 2 {
		return 1
	}
	return 2
}

var roDevs = []roDev{
	{"valid", func(o *RO, c int) {}},
	{"no-kid", func(o *RO, c int) { o.Kid = 0 }},
	{"foreign-key", func(o *RO, c int) { o.SigKey = keyForeign256 }},
	{"other-clients-key-own-kid", func(o *RO, c int) { o.SigKey = clientKey(other(c), 1) }},
	{"other-clients-key-its-kid", func(o *RO, c int) { o.SigKey = clientKey(other(c), 1); o.Kid = kidOf(o.SigKey) }},
	{"kid-unknown", func(o *RO, c int) { o.Kid = kidUnknown }},
	{"kid-of-another-own-key", func(o *RO, c int) { o.Kid = kidOf(clientKey(c, 2)) }},
	{"es384", func(o *RO, c int) { o.SigKey = clientKey(c, 2); o.Alg = "AES384"; o.Kid = kidOf(o.SigKey) }},
	{"es384-no-kid", func(o *RO, c int) { o.SigKey = clientKey(c, 2); o.Alg = "AES384"; o.Kid = 0 }},
	{"es384-foreign", func(o *RO, c int) { o.SigKey = keyForeign384; o.Alg = "AES384"; o.Kid = kidOf(clientKey(c, 2)) }},
	{"unsigned-none", func(o *RO, c int) { o.Sig = "SigEmpty"; o.SigKey = 0; o.Alg = "ANone"; o.Kid = 0 }},
	{"unsigned-none-bare", func(o *RO, c int) {
		o.Sig = "SigEmpty"
		o.SigKey = 0
		o.Alg = "ANone"
		o.Kid = 0
		o.Iss, o.Aud, o.Exp, o.Nbf, o.Iat, o.Jti = 0, nil, nil, nil, nil, false
	}},
	{"stripped-signature", func(o *RO, c int) { o.Sig = "SigEmpty"; o.SigKey = 0 }},
	{"none-over-signature-bytes", func(o *RO, c int) { o.Sig = "SigInvalid"; o.Alg = "ANone" }},
	{"payload-edited", func(o *RO, c int) { o.Sig = "SigInvalid" }},
	{"iss-other-client", func(o *RO, c int) { o.Iss = other(c) }},
	{"iss-absent", func(o *RO, c int) { o.Iss = 0 }},
	{"iss-not-a-client", func(o *RO, c int) { o.Iss = 99 }},
	{"aud-wrong", func(o *RO, c int) { o.Aud, o.AudForm = []string{"AudForeign"}, "string" }},
	{"aud-absent", func(o *RO, c int) { o.Aud = nil }},
	// the audience near-misses: only the issuer itself, as one of the members, counts
	{"aud-issuer-as-string", func(o *RO, c int) { o.Aud, o.AudForm = []string{"AudIssuer"}, "string" }},
	{"aud-issuer-alone-in-array", func(o *RO, c int) { o.Aud = []string{"AudIssuer"} }},
	{"aud-issuer-last-of-three", func(o *RO, c int) { o.Aud = []string{"AudForeign", "AudToken", "AudIssuer"} }},
	{"aud-empty-array", func(o *RO, c int) { o.Aud, o.AudForm = nil, "array" }},
	{"aud-issuer-trailing-slash", func(o *RO, c int) { o.Aud, o.AudForm = []string{"AudIssuerSlash"}, "string" }},
	{"aud-issuer-other-case", func(o *RO, c int) { o.Aud, o.AudForm = []string{"AudIssuerCase"}, "string" }},
	{"aud-token-endpoint", func(o *RO, c int) { o.Aud, o.AudForm = []string{"AudToken"}, "string" }},
	{"aud-token-endpoint-in-array", func(o *RO, c int) { o.Aud = []string{"AudToken"} }},
	{"aud-authorize-endpoint", func(o *RO, c int) { o.Aud, o.AudForm = []string{"AudAuthorize"}, "string" }},
	{"aud-par-endpoint", func(o *RO, c int) { o.Aud, o.AudForm = []string{"AudPar"}, "string" }},
	{"aud-bc-endpoint", func(o *RO, c int) { o.Aud, o.AudForm = []string{"AudBc"}, "string" }},
	{"aud-request-url", func(o *RO, c int) { o.Aud, o.AudForm = []string{"AudRequestURL"}, "string" }},
	{"aud-mtls-host", func(o *RO, c int) { o.Aud, o.AudForm = []string{"AudMtlsIssuer"}, "string" }},
	{"aud-mtls-token-endpoint", func(o *RO, c int) { o.Aud, o.AudForm = []string{"AudMtlsToken"}, "string" }},
	{"aud-mtls-request-url", func(o *RO, c int) { o.Aud = []string{"AudMtlsRequestURL"} }},
	{"aud-client-id", func(o *RO, c int) { o.Aud, o.AudForm = []string{"AudClient"}, "string" }},
	{"aud-near-miss-among-foreign", func(o *RO, c int) { o.Aud = []string{"AudForeign", "AudToken", "AudClient"} }},
	{"aud-request-url-among-foreign", func(o *RO, c int) { o.Aud = []string{"AudForeign", "AudRequestURL"} }},
	{"aud-every-assertion-audience-but-issuer", func(o *RO, c int) {
		o.Aud = []string{"AudToken", "AudRequestURL", "AudMtlsToken", "AudMtlsRequestURL", "AudMtlsIssuer"}
	}},
	{"client_id-other", func(o *RO, c int) { o.ClientID = other(c) }},
	{"client_id-absent", func(o *RO, c int) { o.ClientID = 0 }},
	{"exp-absent", func(o *RO, c int) { o.Exp = nil }},
	{"exp-expired", func(o *RO, c int) { o.Exp = ip(-120) }},
	{"exp-just-expired-within-leeway", func(o *RO, c int) { o.Exp = ip(-15) }},
	{"exp-too-far", func(o *RO, c int) { o.Exp = ip(7200) }},
	{"nbf-absent", func(o *RO, c int) { o.Nbf = nil }},
	{"nbf-future", func(o *RO, c int) { o.Nbf = ip(600) }},
	{"nbf-too-old", func(o *RO, c int) { o.Nbf = ip(-7200); o.Iat = ip(-7200) }},
	{"iat-absent", func(o *RO, c int) { o.Iat = nil }},
	{"iat-future", func(o *RO, c int) { o.Iat = ip(600) }},
	{"jti-absent", func(o *RO, c int) { o.Jti = false }},
	{"nested-request", func(o *RO, c int) { o.NestedReq = true }},
	{"nested-request_uri", func(o *RO, c int) { o.NestedURI = true }},
	{"nested-both", func(o *RO, c int) { o.NestedReq = true; o.NestedURI = true }},
	{"jwe", func(o *RO, c int) { o.Enc = "EncOk" }},
	{"jwe-for-another-key", func(o *RO, c int) { o.Enc = "EncBad" }},
	{"jwe-key-alg-not-enabled", func(o *RO, c int) { o.Enc, o.EncHow = "EncBad", "keyalg" }},
	{"jwe-content-alg-not-enabled", func(o *RO, c int) { o.Enc, o.EncHow = "EncBad", "contentalg" }},
	{"jwe-without-kid", func(o *RO, c int) { o.Enc, o.EncHow = "EncBad", "nokid" }},
	{"jwe-around-unsigned", func(o *RO, c int) { o.Enc = "EncOk"; o.Sig = "SigEmpty"; o.SigKey = 0; o.Alg = "ANone"; o.Kid = 0 }},
	{"inner-without-state", func(o *RO, c int) { o.Params.State = "" }},
	{"inner-without-redirect", func(o *RO, c int) { o.Params.Redirect = "" }},
	{"inner-scope-not-allowed", func(o *RO, c int) { o.Params.Scopes = "openid admin" }},
	{"inner-redirect-not-registered", func(o *RO, c int) { o.Params.Redirect = c07Evil }},
	{"inner-without-response_type", func(o *RO, c int) { o.Params.RespType = "" }},
}

// parameters outside the object / pushed request at /authorize: a kind (valid or error-producing) and,
// independently of it, where the outer redirect_uri points (so that every error-producing kind also meets an
// unregistered redirect_uri)
func outerParams(r *rand.Rand, profile string, client int) (Params, string) {
	min := Params{RespType: "code", Scopes: "openid"}
	p, name := min, "outer-minimal"
	switch x := r.Intn(24); {
	case x < 8:
	case x < 10:
		p, name = Params{}, "outer-empty"
	case x < 12:
		p.State = "st-out"
		p.Nonce = "n-out"
		name = "outer-state-nonce"
	case x < 14:
		p.Redirect = fmt.Sprintf("https://c%d.example/cb2", client)
		name = "outer-other-redirect"
	case x < 15:
		p.Redirect = c07Evil
		name = "outer-unregistered-redirect"
	case x < 16:
		p.Scopes = "email"
		name = "outer-scope-without-openid"
	case x < 17:
		p.RespType = "code id_token"
		p.Nonce = "n-out"
		name = "outer-other-response_type"
	case x < 18:
		p.Scopes = "openid profile"
		p.State = "st-out"
		name = "outer-more-scope"
	case x < 19:
		p.RespMode = "form_post"
		name = "outer-response_mode"
	case x < 20:
		p.Scopes = "openid admin"
		name = "outer-scope-not-allowed"
	case x < 21:
		p.RespType = "bogus"
		name = "outer-bad-response_type"
	case x < 22:
		p.RespMode = "bogus"
		name = "outer-bad-response_mode"
	case x < 23:
		p.Method = "bogus"
		name = "outer-bad-code_challenge_method"
	default:
		p = innerParams(profile, client)
		p.State = "st-out"
		name = "outer-full"
	}
	if p.Redirect == "" {
		switch r.Intn(10) {
		case 0:
			p.Redirect = c07Evil
			name += "+unregistered-redirect"
		case 1:
			p.Redirect = fmt.Sprintf("https://c%d.example/cb", other(client))
			name += "+other-clients-redirect"
		}
	}
	return p, name
}

func c07Pol(r *rand.Rand) (Pol, bool) {
	switch x := r.Intn(20); {
	case x < 11:
		return Pol{Kind: "PolInProgress"}, true
	case x < 17:
		return Pol{Kind: "PolSuccess", Sub: "alice", Granted: "openid"}, true
	case x < 18:
		return Pol{Kind: "PolFail"}, true
	case x < 19:
		return Pol{Kind: "PolFailWith", Err: "ELoginRequired"}, true
	}
	return Pol{Kind: "PolInProgress"}, false
}

type jrunner struct {
	ctx   *RunCtx
	cases []JCase
	notes []string
	stats map[string]int
	cells map[string]map[string]map[string]int // row -> column -> outcome -> operations
}

// one input_distribution entry per row of the deviation matrix: "row: column => outcomes; ..." -> operations
func (jr *jrunner) foldCells() {
	for row, cols := range jr.cells {
		var names []string
		for c := range cols {
			names = append(names, c)
		}
		sort.Strings(names)
		total := 0
		var parts []string
		for _, c := range names {
			var outs []string
			for _, oc := range []string{"accepted", "error redirected", "refused"} {
				if n := cols[c][oc]; n > 0 {
					outs = append(outs, fmt.Sprintf("%s %d", oc, n))
					total += n
				}
			}
			if c == "" {
				parts = append(parts, strings.Join(outs, ", "))
			} else {
				parts = append(parts, c+" => "+strings.Join(outs, ", "))
			}
		}
		jr.stats[row+": "+strings.Join(parts, "; ")] += total
	}
	jr.cells = nil
}

func (jr *jrunner) run(v c07Variant, ops []JOp, note string) JCase {
	spec := WorldSpec{Profile: v.Profile, Opts: v.Opts, Static: v.Static, Flavour: "copy"}
	if len(jr.cases)%2 == 1 {
		spec.Flavour = "alias"
	}
	jw, err := NewJWorld(spec, v.JC, v.JCl)
	if err != nil {
		panic(fmt.Sprintf("world %s/%s: %v", v.Profile, v.Name, err))
	}
	c := JCase{Profile: v.Profile, Opts: v.Opts, JCfg: v.JC, Static: v.Static, JCl: v.JCl, Note: note}
	for i, o := range ops {
		obs := jw.Exec(i, o)
		c.Ops = append(c.Ops, o)
		c.Obs = append(c.Obs, obs)
		jr.stats["op:"+o.Kind+"/"+o.Jar]++
		jr.stats["obs:"+obs.Obs.Kind]++
		if obs.Obs.Kind == "Err" {
			jr.stats["err:"+obs.Obs.Err]++
		}
		if obs.Obs.Kind == "Nav" && obs.Obs.NErr != "" {
			jr.stats["naverr:"+obs.Obs.NErr]++
		}
		if o.Cell != "" {
			// the covered deviation matrix: Cell = row|column, tallied per outcome
			row, col := o.Cell, ""
			if i := strings.LastIndex(o.Cell, "|"); i >= 0 && strings.Count(o.Cell, "|") >= 2 {
				row, col = o.Cell[:i], o.Cell[i+1:]
			}
			if jr.cells == nil {
				jr.cells = map[string]map[string]map[string]int{}
			}
			if jr.cells[row] == nil {
				jr.cells[row] = map[string]map[string]int{}
			}
			if jr.cells[row][col] == nil {
				jr.cells[row][col] = map[string]int{}
			}
			jr.cells[row][col][c07Outcome(obs.Obs)]++
		}
	}
	jr.cases = append(jr.cases, c)
	return c
}

// outcome classes of the deviation matrix printed into meta.json
func c07Outcome(o Obs) string {
	switch {
	case obsOK(o):
		return "accepted"
	case o.Kind == "Nav":
		return "error redirected"
	}
	return "refused"
}

func obsOK(o Obs) bool {
	switch o.Kind {
	case "Page", "Par", "Ciba":
		return true
	case "Nav":
		return o.NErr == ""
	}
	return false
}

func (jr *jrunner) write(monitor string) {
	ctx := jr.ctx
	per := 120
	for k := 0; k*per < len(jr.cases); k++ {
		hi := (k + 1) * per
		if hi > len(jr.cases) {
			hi = len(jr.cases)
		}
		var b strings.Builder
		b.WriteString(jcaseHeader)
		var names []string
		for i, cs := range jr.cases[k*per : hi] {
			fmt.Fprintf(&b, "(*CASE %d %s*)\nDefinition c_%d : jarcase :=\n%s.\n", k*per+i, strings.ReplaceAll(cs.Note, "*)", ""), k*per+i, cs.coq())
			names = append(names, fmt.Sprintf("c_%d", k*per+i))
		}
		b.WriteString("(*END*)\nDefinition cases : list jarcase := [" + strings.Join(names, "; ") + "].\n")
		b.WriteString("Definition corr := Eval vm_compute in map check_jcase cases.\nPrint corr.\n")
		fmt.Fprintf(&b, "Definition mon := Eval vm_compute in map %s cases.\nPrint mon.\n", monitor)
		name := fmt.Sprintf("cases_%03d.v", k)
		if err := os.WriteFile(filepath.Join(ctx.Out, name), []byte(b.String()), 0o644); err != nil {
			panic(err)
		}
		ctx.Meta.Files = append(ctx.Meta.Files, name)
	}
	ctx.Meta.Cases = len(jr.cases)
	seen := map[string]bool{}
	type jc struct {
		Index int
		Note  string
		Spec  any
		Ops   []JOp
		Obs   []JObs
	}
	var all []jc
	for i, cs := range jr.cases {
		okN, errN := 0, 0
		var sb strings.Builder
		for j, o := range cs.Obs {
			sb.WriteString(cs.Ops[j].Kind + cs.Ops[j].Jar + ":" + o.Obs.Kind + ":" + o.Obs.Err + o.Obs.NErr + ";")
			if obsOK(o.Obs) {
				okN++
			} else if cs.Ops[j].Kind != "Base" {
				errN++
			}
			ctx.Meta.Ops++
		}
		if okN > 0 && errN > 0 {
			seen[cs.Profile+sb.String()] = true
		}
		all = append(all, jc{i, cs.Note, map[string]any{"Profile": cs.Profile, "Opts": cs.Opts, "JCfg": cs.JCfg, "Static": cs.Static, "JClients": cs.JCl}, cs.Ops, cs.Obs})
	}
	ctx.Meta.Distinct = len(seen)
	for i := 0; i < len(jr.cases) && i < 2; i++ {
		cs := jr.cases[i]
		var ops []string
		for j, o := range cs.Ops {
			if j >= 6 {
				break
			}
			ops = append(ops, o.coq()+"  ==>  "+cs.Obs[j].coq())
		}
		ctx.Meta.Samples = append(ctx.Meta.Samples, map[string]any{"note": cs.Note, "options": cList(cs.Opts, Opt.coq), "first_ops": ops})
	}
	jr.foldCells()
	for k, v := range jr.stats {
		ctx.Meta.Dist[k] += v
	}
	b, _ := json.Marshal(all)
	_ = os.WriteFile(filepath.Join(ctx.Out, "cases.json"), b, 0o644)
}

func mkAuthorize(r *rand.Rand, profile string, client int, jar string, obj *RO, https bool, note string) JOp {
	outer, on := outerParams(r, profile, client)
	pol, avail := c07Pol(r)
	return JOp{Kind: "JAuthorize", Base: Op{Kind: "Authorize", Client: client, Params: outer, PolicyAvail: avail, Pol: pol},
		Jar: jar, Obj: obj, RefHTTPS: https, Note: note + "/" + on}
}

func mkPar(r *rand.Rand, client int, obj *RO, note string) JOp {
	outer := Params{}
	switch r.Intn(8) {
	case 0:
		outer = Params{State: "st-out", Scopes: "openid profile", Redirect: fmt.Sprintf("https://c%d.example/cb2", client)}
	case 1:
		outer = Params{Redirect: c07Evil}
	}
	jar := ""
	if obj != nil {
		jar = "value"
	}
	return JOp{Kind: "JPar", Base: Op{Kind: "Par", Cred: Cred{ID: client, OK: true}, Params: outer}, Jar: jar, Obj: obj, Note: note}
}

func mkBc(r *rand.Rand, client int, obj *RO, note string) JOp {
	outer := Params{}
	switch r.Intn(6) {
	case 0:
		outer = Params{Scopes: "openid", LoginHint: "mallory@example"}
	case 1:
		outer = Params{Scopes: "openid admin"}
	}
	jar := ""
	if obj != nil {
		jar = "value"
	}
	return JOp{Kind: "JBc", Base: Op{Kind: "BcAuthorize", Cred: Cred{ID: client, OK: true}, Params: outer, InitOK: true, Sub: "alice", Granted: "openid"},
		Jar: jar, Obj: obj, Note: note}
}

// ---- the layer matrix: JWE layer x inner object kind x 'none' enabled or not x JWE enabled or not x JAR required or not ----
var c07Layers = []string{"EncNone", "EncOk", "EncBad"}
var c07Inner = []string{"valid", "unsigned-none", "unsigned-none-bare", "stripped-signature", "none-over-signature-bytes"}
var c07NoneModes = []string{"off", "on the server list", "by client pin", "on the list but pinned away"}
var c07ReqModes = []string{"optional", "required by the server", "required by the client"}

func c07Dev(name string) roDev {
	for _, d := range roDevs {
		if d.Name == name {
			return d
		}
	}
	panic("no deviation " + name)
}

// the JAR configuration of a matrix cell; client 1 carries the pins (client 2 is never pinned)
func c07MatrixVariant(profile string, none int, enc bool, req int, cibaNone bool) c07Variant {
	o := append(c07CommonOpts(profile), Opt{Name: "WithPAR", Z: 60})
	if req == 1 {
		o = append(o, Opt{Name: "WithJARRequired"})
	} else {
		o = append(o, Opt{Name: "WithJAR"})
	}
	o = append(o, Opt{Name: "WithJARByReference"}, Opt{Name: "WithCIBAJAR"}, Opt{Name: "WithImplicitGrant"})
	jc := JCfg{Algs: []string{"AES256"}, Enc: enc, CibaAlgs: []string{"AES256"}}
	pin1 := ""
	switch none {
	case 1:
		jc.Algs = append(jc.Algs, "ANone")
	case 2:
		pin1 = "ANone"
	case 3:
		jc.Algs = append(jc.Algs, "ANone")
		pin1 = "AES256"
	}
	if cibaNone {
		jc.CibaAlgs = append(jc.CibaAlgs, "ANone")
	}
	encs := "JWE disabled"
	if enc {
		encs = "JWE enabled"
	}
	return c07Variant{Name: fmt.Sprintf("none %s, %s, JAR %s", c07NoneModes[none], encs, c07ReqModes[req]), Profile: profile, Opts: o, JC: jc,
		Static: c07Clients(req == 2), JCl: c07JClients(pin1, "", "")}
}

func c07LayerMatrix(jr *jrunner) {
	ctx, r := jr.ctx, jr.ctx.R
	reps := ctx.N(1, 3)
	cfgIndex := func(none int, enc bool, req int) int {
		k := none*6 + req
		if enc {
			k += 3
		}
		return k
	}
	for pi, profile := range []string{"openid", "fapi1", "fapi2"} {
		for none := range c07NoneModes {
			for _, enc := range []bool{false, true} {
				for req := range c07ReqModes {
					if ctx.Quick() && (cfgIndex(none, enc, req)+int(ctx.Seed))%3 != pi {
						// quick tier: every one of the 24 configurations is run, under one of the three profiles
						// (rotating with the seed; the resolver reads the profile only for the validity window)
						continue
					}
					cibaNone := none == 1
					v := c07MatrixVariant(profile, none, enc, req, cibaNone)
					deliveries := []string{"authorize-value", "authorize-ref", "par"}
					if req == 0 && none <= 1 || !ctx.Quick() {
						deliveries = append(deliveries, "bc") // /bc-authorize reads none of the three switches but CIBAJARSigAlgs
					}
					for rep := 0; rep < reps; rep++ {
						for _, delivery := range deliveries {
							client := 1
							if none <= 1 && r.Intn(4) == 0 {
								client = 2
							}
							var ops []JOp
							for _, layer := range c07Layers {
								for _, inner := range c07Inner {
									var o RO
									if delivery == "bc" {
										o = cibaRO(5)
										c07Dev(inner).F(&o, 5)
									} else {
										o = baseRO(profile, client)
										c07Dev(inner).F(&o, client)
									}
									o.Enc = layer
									if layer == "EncBad" {
										o.EncHow = pick(r, []string{"", "keyalg", "contentalg", "nokid"})
									}
									oc := o
									note := inner + " in " + layer
									var op JOp
									switch delivery {
									case "authorize-value":
										op = mkAuthorize(r, profile, client, "value", &oc, true, note)
									case "authorize-ref":
										op = mkAuthorize(r, profile, client, "ref", &oc, true, note)
									case "par":
										op = mkPar(r, client, &oc, note)
									case "bc":
										op = mkBc(r, 5, &oc, note)
									}
									if delivery == "bc" {
										op.Cell = fmt.Sprintf("matrix|bc-authorize, CIBA none %v|%s|%s", cibaNone, layer, inner)
									} else {
										op.Cell = fmt.Sprintf("matrix|%s|%s|%s", v.Name, layer, inner)
									}
									ops = append(ops, op)
								}
							}
							var op JOp
							switch delivery {
							case "authorize-value":
								op = mkAuthorize(r, profile, client, "", nil, true, "no-object")
							case "authorize-ref":
								op = mkAuthorize(r, profile, client, "ref", nil, true, "fetch-404")
							case "par":
								op = mkPar(r, client, nil, "no-object")
							case "bc":
								op = mkBc(r, 5, nil, "no-object")
								op.Base.Params = Params{Scopes: "openid email", LoginHint: "alice@example"}
							}
							if delivery != "bc" {
								op.Cell = fmt.Sprintf("matrix|%s|no object|-", v.Name)
							}
							ops = append(ops, op)
							half := len(ops) / 2
							for _, part := range [][]JOp{ops[:half], ops[half:]} {
								var ns []string
								for _, o := range part {
									ns = append(ns, strings.SplitN(o.Note, "/", 2)[0])
								}
								jr.run(v, part, fmt.Sprintf("%s/layer matrix: %s/%s: %s", profile, v.Name, delivery, strings.Join(ns, ", ")))
							}
						}
					}
				}
			}
		}
	}
}

// ---- the navigation matrix: error-producing deviation x where which redirect_uri sits ----
type c07ErrDev struct {
	Name string
	F    func(op *JOp)
}

var c07ErrDevs = []c07ErrDev{
	{"no error", func(op *JOp) {}},
	{"nested request", func(op *JOp) { op.Obj.NestedReq = true }},
	{"nested request_uri", func(op *JOp) { op.Obj.NestedURI = true }},
	{"nested request and request_uri", func(op *JOp) { op.Obj.NestedReq, op.Obj.NestedURI = true, true }},
	{"inner scope not allowed", func(op *JOp) { op.Obj.Params.Scopes = "openid admin" }},
	{"inner scope unknown", func(op *JOp) { op.Obj.Params.Scopes = "openid nonsense" }},
	{"inner bad response_type", func(op *JOp) { op.Obj.Params.RespType = "bogus" }},
	{"inner without response_type", func(op *JOp) { op.Obj.Params.RespType = "" }},
	{"inner id_token without nonce", func(op *JOp) { op.Obj.Params.RespType, op.Obj.Params.Nonce = "code id_token", "" }},
	{"inner bad response_mode", func(op *JOp) { op.Obj.Params.RespMode = "bogus" }},
	{"inner query mode for implicit", func(op *JOp) { op.Obj.Params.RespType, op.Obj.Params.RespMode = "id_token", "query" }},
	{"inner bad code_challenge_method", func(op *JOp) { op.Obj.Params.Method = "bogus" }},
	{"outer scope not allowed", func(op *JOp) { op.Base.Params.Scopes = "openid admin" }},
	{"outer scope without openid", func(op *JOp) { op.Base.Params.Scopes = "email" }},
	{"outer bad response_type", func(op *JOp) { op.Base.Params.RespType = "bogus" }},
	{"outer response_type differs", func(op *JOp) { op.Base.Params.RespType, op.Base.Params.Nonce = "code id_token", "n-out" }},
	{"outer without response_type", func(op *JOp) { op.Base.Params.RespType = "" }},
	{"outer bad response_mode", func(op *JOp) { op.Base.Params.RespMode = "bogus" }},
	{"outer bad code_challenge_method", func(op *JOp) { op.Base.Params.Method = "bogus" }},
	{"policy fails", func(op *JOp) { op.Base.PolicyAvail, op.Base.Pol = true, Pol{Kind: "PolFail"} }},
	{"policy fails with an error", func(op *JOp) { op.Base.PolicyAvail, op.Base.Pol = true, Pol{Kind: "PolFailWith", Err: "ELoginRequired"} }},
	{"policy succeeds", func(op *JOp) {
		op.Base.PolicyAvail, op.Base.Pol = true, Pol{Kind: "PolSuccess", Sub: "alice", Granted: "openid"}
	}},
}

// R: registered for the client, R2: another registered one, E: registered for nobody, O: registered for the other
// client only, N: a registered one with a path appended
var c07Placements = []struct{ Name, In, Out string }{
	{"object: registered", "R", ""},
	{"object: unregistered", "E", ""},
	{"query: unregistered", "", "E"},
	{"object: registered, query: unregistered", "R", "E"},
	{"object: unregistered, query: registered", "E", "R"},
	{"nowhere", "", ""},
	{"query: registered", "", "R"},
	{"object: other client's", "O", ""},
	{"query: other client's", "", "O"},
	{"object: registered, query: another registered", "R", "R2"},
	{"object: registered plus a path", "N", ""},
	{"object: unregistered, query: unregistered", "E", "E"},
}

func c07Redirect(kind string, client int) string {
	switch kind {
	case "R":
		return fmt.Sprintf("https://c%d.example/cb", client)
	case "R2":
		return "https://shared.example/cb"
	case "E":
		return c07Evil
	case "O":
		return fmt.Sprintf("https://c%d.example/cb", other(client))
	case "N":
		return fmt.Sprintf("https://c%d.example/cb/x", client)
	}
	return ""
}

func c07NavMatrix(jr *jrunner) {
	ctx, r := jr.ctx, jr.ctx.R
	for _, profile := range []string{"openid", "fapi1", "fapi2"} {
		vs := c07Variants(profile)
		use := []c07Variant{vs[0]}
		if !ctx.Quick() {
			use = append(use, vs[2], c07MatrixVariant(profile, 1, true, 1, false))
		}
		for _, v := range use {
			var ops []JOp
			flush := func() {
				if len(ops) > 0 {
					var ns []string
					for _, o := range ops {
						ns = append(ns, o.Note)
					}
					jr.run(v, ops, fmt.Sprintf("%s/%s/navigation matrix: %s", profile, v.Name, strings.Join(ns, "; ")))
					ops = nil
				}
			}
			for i, d := range c07ErrDevs {
				for j, pl := range c07Placements {
					deliveries := []string{"value"}
					if !ctx.Quick() || (i+j+int(ctx.Seed))%3 == 0 {
						deliveries = append(deliveries, "ref")
					}
					for _, delivery := range deliveries {
						client := 1
						if r.Intn(5) == 0 {
							client = 2
						}
						o := baseRO(profile, client)
						if strings.Contains(v.Name, "none") && r.Intn(2) == 0 {
							c07Dev("unsigned-none").F(&o, client)
						}
						op := mkAuthorize(r, profile, client, delivery, &o, true, d.Name+" / "+pl.Name)
						op.Base.Params = Params{RespType: "code", Scopes: "openid"}
						o.Params.Redirect, op.Base.Params.Redirect = c07Redirect(pl.In, client), c07Redirect(pl.Out, client)
						switch r.Intn(6) {
						case 0:
							// errors and codes delivered by an auto-submitted form
							if profile != "fapi1" {
								o.Params.RespMode = "form_post"
							}
						case 1:
							op.Base.Params.State = "st-out"
						}
						d.F(&op)
						op.Note = d.Name + " / " + pl.Name + " / by " + delivery
						op.Cell = fmt.Sprintf("nav|%s|%s", d.Name, pl.Name)
						ops = append(ops, op)
						if len(ops) >= 8 {
							flush()
						}
					}
				}
			}
			flush()
			// an object that is NOT authentic for the client, carrying an error-producing deviation and a redirect_uri:
			// it must be refused on the spot, whatever else it carries (any navigation means its parameters were used)
			for _, an := range c07Unauthentic {
				for k := 0; k < ctx.N(3, 12); k++ {
					client := 1
					d := c07ErrDevs[1+r.Intn(len(c07ErrDevs)-1)]
					pl := c07Placements[r.Intn(len(c07Placements))]
					delivery := pick(r, []string{"value", "value", "ref"})
					if k == 0 {
						// always: a nested request / request_uri (the one error validateRequestWithJAR itself redirects),
						// with a registered redirect_uri so that nothing else stops the request
						d, pl, delivery = c07ErrDevs[1+r.Intn(3)], c07Placements[0], "value"
					}
					o := baseRO(profile, client)
					c07Dev(an).F(&o, client)
					op := mkAuthorize(r, profile, client, delivery, &o, true, "")
					op.Base.Params = Params{RespType: "code", Scopes: "openid"}
					o.Params.Redirect, op.Base.Params.Redirect = c07Redirect(pl.In, client), c07Redirect(pl.Out, client)
					d.F(&op)
					op.Note = an + " + " + d.Name + " / " + pl.Name + " / by " + delivery
					op.Cell = fmt.Sprintf("nav-unauthentic|%s|%s", an, d.Name)
					ops = append(ops, op)
					if len(ops) >= 8 {
						flush()
					}
				}
			}
			flush()
		}
	}
}

var c07Unauthentic = []string{"client_id-other", "client_id-absent", "iss-other-client", "foreign-key", "other-clients-key-its-kid", "payload-edited",
	"aud-wrong", "aud-token-endpoint", "aud-request-url-among-foreign", "exp-expired", "nbf-future", "unsigned-none", "stripped-signature", "none-over-signature-bytes", "jwe", "jwe-around-unsigned"}

// directed push / redeem pairs: where the pushed request's redirect_uri points (registered, registered nowhere,
// absent) x the redirect_uri sent again at redemption (none, the pushed one, another unregistered one, a registered
// one) x unregistered redirect_uris admitted for PAR or not x pushed as an object or as plain parameters
func c07PushedRedirects(jr *jrunner) {
	r := jr.ctx.R
	for _, profile := range []string{"openid", "fapi1", "fapi2"} {
		for _, unreg := range []bool{false, true} {
			for _, via := range []string{"object", "plain"} {
				for _, pushed := range []string{"R", "P", ""} {
					v := c07Variants(profile)[0]
					if unreg {
						v.Opts = append(v.Opts, Opt{Name: "WithUnregisteredRedirectURIsForPAR"})
						v.Name += "+par-unregistered"
					}
					spec := WorldSpec{Profile: v.Profile, Opts: v.Opts, Static: v.Static, Flavour: "copy"}
					jw, err := NewJWorld(spec, v.JC, v.JCl)
					if err != nil {
						panic(err)
					}
					c := JCase{Profile: v.Profile, Opts: v.Opts, JCfg: v.JC, Static: v.Static, JCl: v.JCl}
					do := func(o JOp) JObs {
						obs := jw.Exec(len(c.Ops), o)
						c.Ops = append(c.Ops, o)
						c.Obs = append(c.Obs, obs)
						jr.stats["op:"+o.Kind+"/"+o.Jar]++
						jr.stats["obs:"+obs.Obs.Kind]++
						return obs
					}
					redirect := func(k string) string {
						if k == "P" {
							return c07PushedOnly
						}
						return c07Redirect(k, 1)
					}
					for _, again := range []string{"", "same", "E", "R2"} {
						var op JOp
						if via == "object" {
							o := baseRO(profile, 1)
							o.Params.Redirect = redirect(pushed)
							op = mkPar(r, 1, &o, "push-object")
							op.Base.Params = Params{}
						} else {
							op = mkPar(r, 1, nil, "push-plain")
							op.Base.Params = innerParams(profile, 1)
							op.Base.Params.Redirect = redirect(pushed)
						}
						obs := do(op)
						if obs.Obs.Kind != "Par" {
							continue
						}
						red := mkAuthorize(r, profile, 1, "", nil, true, "redeem")
						red.Base.Params = Params{RespType: "code", Scopes: "openid", RequestURI: obs.Obs.H}
						switch again {
						case "same":
							red.Base.Params.Redirect = redirect(pushed)
						case "E", "R2":
							red.Base.Params.Redirect = redirect(again)
						}
						if r.Intn(3) == 0 {
							red.Base.Params.Scopes = "openid admin" // an error to be redirected
						}
						x := do(red)
						jr.stats[fmt.Sprintf("pushed|unregistered admitted %v|pushed as %s|pushed redirect_uri %q, at redemption %q => %s", unreg, via, pushed, again, c07Outcome(x.Obs))]++
					}
					c.Note = fmt.Sprintf("%s/%s directed push/redeem, pushed redirect_uri %q as %s", profile, v.Name, redirect(pushed), via)
					jr.cases = append(jr.cases, c)
				}
			}
		}
	}
}

func init() {
	register(&Suite{Name: "c07obj", Run: func(ctx *RunCtx) {
		jr := &jrunner{ctx: ctx, stats: map[string]int{}}
		r := ctx.R
		chunk := 6
		for _, profile := range []string{"openid", "fapi1", "fapi2"} {
			for _, v := range c07Variants(profile) {
				for _, delivery := range []string{"authorize-value", "authorize-ref", "par", "bc"} {
					var ops []JOp
					var names []string
					flush := func() {
						if len(ops) == 0 {
							return
						}
						jr.run(v, ops, fmt.Sprintf("%s/%s/%s: %s", profile, v.Name, delivery, strings.Join(names, ",")))
						ops, names = nil, nil
					}
					client := 1
					if ctx.Quick() && r.Intn(4) == 0 || !ctx.Quick() && r.Intn(2) == 0 {
						client = 2
					}
					reps := ctx.N(1, 6)
					for rep := 0; rep < reps; rep++ {
						for _, d := range roDevs {
							var o RO
							if delivery == "bc" {
								o = cibaRO(5)
								d.F(&o, 5)
								if o.Params.Redirect != "" || o.Params.RespType != "" {
									o.Params.Redirect, o.Params.RespType = "", ""
								}
							} else {
								o = baseRO(profile, client)
								d.F(&o, client)
								if client == 2 && o.Alg == "AES256" && o.Sig == "SigBy" && v.Name == "two-algs+pins" && r.Intn(2) == 0 {
									// client 2 pins ES384: also try its pinned algorithm
									o.SigKey, o.Alg = clientKey(2, 2), "AES384"
									if o.Kid == kidOf(clientKey(2, 1)) {
										o.Kid = kidOf(clientKey(2, 2))
									}
								}
							}
							objs := []RO{o}
							onames := []string{d.Name}
							if v.JC.Enc && o.Enc == "EncNone" && (delivery != "bc" || r.Intn(4) == 0) {
								// the same deviation behind the JWE layer: every guard must see the decrypted object
								w := o
								w.Enc = "EncOk"
								objs, onames = append(objs, w), append(onames, d.Name+"+jwe")
							}
							for k := range objs {
								oc := objs[k]
								switch delivery {
								case "authorize-value":
									ops = append(ops, mkAuthorize(r, profile, client, "value", &oc, true, onames[k]))
								case "authorize-ref":
									ops = append(ops, mkAuthorize(r, profile, client, "ref", &oc, r.Intn(12) != 0, onames[k]))
								case "par":
									ops = append(ops, mkPar(r, client, &oc, onames[k]))
								case "bc":
									ops = append(ops, mkBc(r, 5, &oc, onames[k]))
								}
								ops[len(ops)-1].Cell = "catalogue|" + onames[k]
								names = append(names, onames[k])
								if len(ops) >= chunk {
									flush()
								}
							}
						}
						// no object at all; fetch failure
						switch delivery {
						case "authorize-value":
							ops = append(ops, mkAuthorize(r, profile, client, "", nil, true, "no-object"))
						case "authorize-ref":
							ops = append(ops, mkAuthorize(r, profile, client, "ref", nil, true, "fetch-404"))
						case "par":
							ops = append(ops, mkPar(r, client, nil, "no-object"))
						case "bc":
							op := mkBc(r, 5, nil, "no-object")
							op.Base.Params = Params{Scopes: "openid email", LoginHint: "alice@example"}
							ops = append(ops, op)
						}
						names = append(names, "no-object")
						flush()
					}
				}
			}
		}
		c07LayerMatrix(jr)
		c07NavMatrix(jr)
		ctx.Meta.Rule = fmt.Sprintf("deviation catalogue of request objects (%d deviations of a valid object, each once more inside a JWE where the JWE layer is enabled) x {authorize by value, authorize by reference, par, bc-authorize} x {openid, fapi1, fapi2} x 3 JAR configurations; LAYER MATRIX %d JWE layers x %d inner object kinds x {none: %s} x {JWE enabled, disabled} x {JAR %s} x {by value, by reference, par, bc-authorize} x 3 profiles; NAVIGATION MATRIX %d error-producing deviations (inside / outside the object, policy failure) x %d placements of registered / unregistered / foreign redirect_uris x {by value, by reference} x 3 profiles; outer parameters and policy verdicts drawn at random; distinct by projected trace; non-trivial = at least one accepted and one refused request in the history; the matrix cells with their outcomes are listed in input_distribution (catalogue|..., matrix|..., nav|...)",
			len(roDevs), len(c07Layers), len(c07Inner), strings.Join(c07NoneModes, ", "), strings.Join(c07ReqModes, ", "), len(c07ErrDevs), len(c07Placements))
		jr.write("mon_C07")
	}})

	register(&Suite{Name: "c07hist", Run: func(ctx *RunCtx) {
		jr := &jrunner{ctx: ctx, stats: map[string]int{}}
		r := ctx.R
		c07PushedRedirects(jr)
		n := ctx.N(150, 4000)
		for i := 0; i < n; i++ {
			profile := []string{"openid", "fapi1", "fapi2"}[i%3]
			vs := c07Variants(profile)
			v := vs[r.Intn(len(vs))]
			if r.Intn(4) == 0 {
				// PAR required by the server
				for k := range v.Opts {
					if v.Opts[k].Name == "WithPAR" {
						v.Opts[k].Name = "WithPARRequired"
					}
				}
				v.Name += "+par-required"
			}
			if r.Intn(4) == 0 {
				v.Static[1].ParReq = true
			}
			if r.Intn(4) == 0 {
				// PAR admits redirect_uris that are not registered: such a URI is good for the pushed request only
				v.Opts = append(append([]Opt{}, v.Opts...), Opt{Name: "WithUnregisteredRedirectURIsForPAR"})
				v.Name += "+par-unregistered"
			}
			var ops []JOp
			type pushedURI struct {
				h      Handle
				client int
			}
			var uris []pushedURI
			nops := 4 + r.Intn(6)
			// run online so that later operations can present the request_uris actually handed out
			spec := WorldSpec{Profile: v.Profile, Opts: v.Opts, Static: v.Static, Flavour: []string{"copy", "alias"}[i%2]}
			jw, err := NewJWorld(spec, v.JC, v.JCl)
			if err != nil {
				panic(err)
			}
			c := JCase{Profile: v.Profile, Opts: v.Opts, JCfg: v.JC, Static: v.Static, JCl: v.JCl}
			do := func(o JOp) JObs {
				obs := jw.Exec(len(ops), o)
				ops = append(ops, o)
				c.Ops = append(c.Ops, o)
				c.Obs = append(c.Obs, obs)
				jr.stats["op:"+o.Kind+"/"+o.Jar]++
				jr.stats["obs:"+obs.Obs.Kind]++
				if obs.Obs.Kind == "Err" {
					jr.stats["err:"+obs.Obs.Err]++
				}
				return obs
			}
			for len(ops) < nops {
				client := 1 + r.Intn(2)
				switch x := r.Intn(20); {
				case x < 6 || len(uris) == 0 && x < 12:
					// push, with or without an object
					var op JOp
					if r.Intn(3) != 0 {
						o := baseRO(profile, client)
						if r.Intn(2) == 0 {
							o.Params.Redirect = "https://shared.example/cb"
						}
						if r.Intn(5) == 0 {
							d := roDevs[r.Intn(len(roDevs))]
							d.F(&o, client)
						}
						if r.Intn(3) == 0 {
							o.Params.State = ""
						}
						if r.Intn(6) == 0 {
							o.Params.Redirect = c07PushedOnly
						}
						op = mkPar(r, client, &o, "push-object")
					} else {
						op = mkPar(r, client, nil, "push-plain")
						op.Base.Params = innerParams(profile, client)
						if r.Intn(2) == 0 {
							op.Base.Params.Redirect = "https://shared.example/cb"
						}
						if r.Intn(3) == 0 {
							op.Base.Params.State = ""
						}
						if r.Intn(4) == 0 {
							op.Base.Params.Redirect = ""
						} else if r.Intn(6) == 0 {
							op.Base.Params.Redirect = c07PushedOnly
						}
					}
					obs := do(op)
					if obs.Obs.Kind == "Par" {
						uris = append(uris, pushedURI{obs.Obs.H, client})
					}
				case x < 16 && len(uris) > 0:
					// redeem: mostly the latest, by the pushing client or (1 in 4) by the other one
					u := uris[len(uris)-1]
					if r.Intn(3) == 0 {
						u = uris[r.Intn(len(uris))]
					}
					cl := u.client
					if r.Intn(4) == 0 {
						cl = other(u.client)
					}
					op := mkAuthorize(r, profile, cl, "", nil, true, "redeem")
					if r.Intn(12) == 0 {
						o := baseRO(profile, cl)
						op.Jar, op.Obj = "value", &o
					}
					op.Base.Params.RequestURI = u.h
					if op.Base.Params.Redirect == "" && r.Intn(10) == 0 {
						op.Base.Params.Redirect = c07PushedOnly // allowed only if it is the one of this pushed request
					}
					do(op)
				case x < 18:
					do(JOp{Kind: "Base", Base: Op{Kind: "Tick", D: pick(r, []int{20, 45, 70})}})
				default:
					// an authorization request without request_uri: by value or plain
					// (a URI that was only pushed is not registered: fix 3b355ea)
					if x := r.Intn(5); x < 2 {
						o := baseRO(profile, client)
						if r.Intn(5) == 0 {
							o.Params.Redirect = c07PushedOnly
						}
						do(mkAuthorize(r, profile, client, "value", &o, true, "by-value"))
					} else if x == 2 {
						// by reference: an https request_uri that is NOT a pushed one (where PAR is required it must be
						// looked up as a pushed request and refused; elsewhere the object behind it is used)
						o := baseRO(profile, client)
						do(mkAuthorize(r, profile, client, "ref", &o, true, "by-reference"))
					} else {
						op := mkAuthorize(r, profile, client, "", nil, true, "plain")
						op.Base.Params = innerParams(profile, client)
						if r.Intn(5) == 0 {
							op.Base.Params.Redirect = c07PushedOnly
						}
						do(op)
					}
				}
			}
			c.Note = fmt.Sprintf("%s/%s history %d", profile, v.Name, i)
			jr.cases = append(jr.cases, c)
		}
		ctx.Meta.Rule = "random push / authorize (pushing or other client, outer parameters incl. error-producing ones combined with unregistered redirect_uris, policy verdicts) / reuse / tick histories with two clients, with and without request objects, three profiles, request objects by value and by reference (https request_uris that were never pushed), PAR optional or required (server, client), unregistered redirect_uris admitted for PAR or not (a pushed-only URI presented again in later pushed, by-value and plain requests); distinct by projected trace; non-trivial = at least one accepted and one refused request"
		jr.write("mon_C07")
	}})
}
