package main

// C13, fourth part of the stream: SENDER-CONSTRAINED ARTIFACTS USED WITHOUT THEIR PROOF.
//
// The first three parts vary the bytes of a request; this one varies what the request LACKS relative to
// the state.  For each binding mechanism (DPoP proof, mutual-TLS client certificate - both enabled but
// OPTIONAL on the C13 providers, so that a request without the proof reaches the code that compares
// thumbprints) an artifact is bound at issuance by a valid flow and then used with the mechanism's
// proof
//     right | absent | of another key | malformed | of the OTHER mechanism only | both mechanisms
// at every place that reads the binding:
//     /token refresh_token   (confidential secret_post / public / private_key_jwt / stored secret_basic client)
//     /token authorization_code with a code of a session bound at /par (proof or certificate at the push),
//            by dpop_jkt at /authorize, by dpop_jkt pushed
//     /token CIBA            (bound at /bc-authorize)
//     /userinfo              (GET under either scheme, POST with the token in the body)
//     /introspect, /revoke   (token of a bound grant, of a bound client_credentials grant)
//     Provider.TokenInfoFromRequest (the resource-server entry point; called directly)
// One-time credentials are fresh for every probe; the state is checked to BE bound (the stored grant /
// session carries the thumbprint) so that the family cannot silently degrade.  Oracles: those of
// suite_c13.go (judge) - no panic, complete response, JSON OAuth error with 4xx on API routes, 5xx only
// on injected failures, frame.  Whether a proof-less use is refused is C06's matter; the outcome per
// (context, variant) is only recorded (meta.extra.binding_matrix).

import (
	"bufio"
	"bytes"
	"crypto/ecdsa"
	"crypto/x509"
	"encoding/json"
	"errors"
	"fmt"
	"net/http"
	"net/http/httptest"
	"net/url"
	"runtime/debug"
	"sort"
	"time"

	"github.com/luikyv/go-oidc/pkg/goidc"
)

var c13bMechs = []string{"dpop", "tls"}
var c13bVariants = []string{"right", "absent", "other-key", "malformed", "other-mechanism", "both"}

func (w *c13W) c13bProofBy(key *ecdsa.PrivateKey, method, path, ath string, m c13iMut) string {
	hdr := map[string]any{"typ": "dpop+jwt", "alg": "ES256", "jwk": c13iJWKMap(&key.PublicKey)}
	claims := map[string]any{"jti": fmt.Sprint(w.r.Int63()), "htm": method, "htu": issuer + w.pfx + path, "iat": time.Now().Unix()}
	if ath != "" {
		claims["ath"] = thumb(ath)
	}
	m.apply(hdr, claims)
	return c13iJWS(hdr, claims, key, nil)
}

// the proof of mechanism mech, in variant v, for a request (method, path) presenting access token ath
func (w *c13W) c13bAttach(rq *rawReq, mech, v, method, path, ath string, n int) {
	dpop := func(key *ecdsa.PrivateKey, m c13iMut) {
		rq.Hdr = append(rq.Hdr, [2]string{"DPoP", w.c13bProofBy(key, method, path, ath, m)})
	}
	isDPoP := mech == "dpop"
	switch v {
	case "right":
		if isDPoP {
			dpop(w.ckey, c13iMut{})
		} else {
			rq.Cert = true
		}
	case "absent":
	case "other-key":
		if isDPoP {
			dpop(keyCache[0], c13iMut{})
		} else {
			rq.CertAlt = 1
		}
	case "malformed":
		if isDPoP {
			switch n % 4 {
			case 0:
				rq.Hdr = append(rq.Hdr, [2]string{"DPoP", "not-a-jwt"})
			case 1:
				dpop(w.ckey, c13iMut{"h", "jwk", "remove"})
			case 2:
				rq.Hdr = append(rq.Hdr, [2]string{"DPoP", ""})
			default:
				dpop(w.ckey, c13iMut{"h", "jwk.x", "number"})
			}
		} else {
			rq.CertAlt = 2
		}
	case "other-mechanism":
		if isDPoP {
			rq.Cert = true
		} else {
			dpop(w.ckey, c13iMut{})
		}
	case "both":
		dpop(w.ckey, c13iMut{})
		rq.Cert = true
	}
}

func (w *c13W) c13bDo(rq rawReq) rawRes {
	rq.Fault = -1
	return w.do(rq)
}

// ---- states bound by valid flows ----
// a fresh code for cid of a session bound by mech.  how: par (the mechanism's proof accompanied the
// push) | par-jkt (dpop_jkt pushed) | authorize-jkt (dpop_jkt at /authorize)
func (w *c13W) c13bCode(cid, mech, how string) string {
	w.polMode = "success"
	q := url.Values{"client_id": {cid}, "response_type": {"code"}, "scope": {"openid email offline_access"}, "redirect_uri": {c13Redirect},
		"state": {"st"}, "nonce": {"n1"}, "code_challenge": {thumb(c13iVerifier)}, "code_challenge_method": {"S256"}}
	switch how {
	case "authorize-jkt":
		q.Set("dpop_jkt", c13iThumb(&w.ckey.PublicKey))
	case "par", "par-jkt":
		var h [][2]string
		f := form{}
		for k, v := range q {
			if k != "client_id" {
				f = append(f, kv{k, v[0]})
			}
		}
		sort.Slice(f, func(i, j int) bool { return f[i].K < f[j].K })
		if how == "par-jkt" {
			f = f.set("dpop_jkt", c13iThumb(&w.ckey.PublicKey))
		}
		rq := w.c13iPost("/par", w.auth(cid, f, &h), nil)
		rq.Hdr = append(h, c13iCTForm)
		if how == "par" {
			w.c13bAttach(&rq, mech, "right", "POST", "/par", "", 0)
		}
		res := w.c13bDo(rq)
		uri := jsonField(res.Body, "request_uri")
		if uri == "" {
			panic(fmt.Sprintf("c13 binding: /par of %s (%s, %s) refused: %d %s", cid, mech, how, res.Status, truncate(res.Body, 200)))
		}
		bound := false
		for _, s := range w.stores.AuthnSessions() {
			if s.PushedAuthReqID == uri && (s.JWKThumbprint != "" || s.ClientCertThumbprint != "") {
				bound = true
			}
		}
		if !bound {
			panic(fmt.Sprintf("c13 binding: the session pushed by %s (%s, %s) is not bound", cid, mech, how))
		}
		q = url.Values{"client_id": {cid}, "request_uri": {uri}, "response_type": {"code"}, "scope": {"openid email offline_access"}}
	}
	res := w.c13bDo(rawReq{Method: "GET", Target: w.pfx + "/authorize?" + q.Encode()})
	code := locParam(res.Loc, "code")
	if r := locParam(res.Loc, "response"); r != "" {
		code = jwtClaim(r, "code")
	}
	if code == "" {
		panic(fmt.Sprintf("c13 binding: no code for %s (%s, %s): %d %s %s", cid, mech, how, res.Status, res.Loc, truncate(res.Body, 200)))
	}
	return code
}

func (w *c13W) c13bGrantOf(at, rt string) *goidc.GrantSession {
	for _, g := range w.stores.GrantSessions() {
		if (rt != "" && g.RefreshToken == rt) || (at != "" && g.TokenID == at) {
			g := g
			return &g
		}
	}
	return nil
}

func c13bMustBeBound(g *goidc.GrantSession, mech, what string) {
	if g == nil {
		panic("c13 binding: no grant for " + what)
	}
	if (mech == "dpop" && g.JWKThumbprint == "") || (mech == "tls" && g.ClientCertThumbprint == "") {
		panic(fmt.Sprintf("c13 binding: the grant of %s is not bound by %s", what, mech))
	}
}

// tokens of a grant bound by mech at the redemption of a plain code
func (w *c13W) c13bTokens(cid, mech string) (at, rt string) {
	code := w.c13iCode(cid, "plain")
	var h [][2]string
	f := w.auth(cid, form{{"grant_type", "authorization_code"}, {"code", code}, {"redirect_uri", c13Redirect}, {"code_verifier", c13iVerifier}}, &h)
	rq := w.c13iPost("/token", f, nil)
	rq.Hdr = append(h, c13iCTForm)
	w.c13bAttach(&rq, mech, "right", "POST", "/token", "", 0)
	res := w.c13bDo(rq)
	at, rt = jsonField(res.Body, "access_token"), jsonField(res.Body, "refresh_token")
	if at == "" || rt == "" {
		panic(fmt.Sprintf("c13 binding: no tokens for %s (%s): %d %s", cid, mech, res.Status, truncate(res.Body, 200)))
	}
	c13bMustBeBound(w.c13bGrantOf(at, rt), mech, "the code redemption of "+cid)
	return at, rt
}

func (w *c13W) c13bLive(cache map[string]*c13iGrant, cid, mech string) *c13iGrant {
	key := cid + "/" + mech
	g := cache[key]
	if g == nil || !w.c13iGrantAlive(g.at, g.rt) {
		at, rt := w.c13bTokens(cid, mech)
		g = &c13iGrant{at, rt}
		cache[key] = g
	}
	return g
}

// a client_credentials token bound by mech
func (w *c13W) c13bCCToken(mech string) string {
	var h [][2]string
	f := w.auth("c1", form{{"grant_type", "client_credentials"}, {"scope", "email"}}, &h)
	rq := w.c13iPost("/token", f, nil)
	rq.Hdr = append(h, c13iCTForm)
	w.c13bAttach(&rq, mech, "right", "POST", "/token", "", 0)
	res := w.c13bDo(rq)
	at := jsonField(res.Body, "access_token")
	if at == "" {
		panic(fmt.Sprintf("c13 binding: no client_credentials token (%s): %d %s", mech, res.Status, truncate(res.Body, 200)))
	}
	c13bMustBeBound(w.c13bGrantOf(at, ""), mech, "client_credentials")
	return at
}

// ---- contexts ----
type c13bCtx struct {
	Name  string
	Mechs []string // nil: both
	// Direct: the request goes to Provider.TokenInfoFromRequest instead of the HTTP handler
	Direct bool
	Make   func(w *c13W, mech, v string, n int) rawReq
}

func c13bContexts(cache map[string]*c13iGrant) []c13bCtx {
	refresh := func(cid, what string) c13bCtx {
		return c13bCtx{Name: "refresh_token of a bound grant, " + what, Make: func(w *c13W, mech, v string, n int) rawReq {
			g := w.c13bLive(cache, cid, mech)
			var h [][2]string
			f := w.auth(cid, form{{"grant_type", "refresh_token"}, {"refresh_token", g.rt}}, &h)
			rq := w.c13iPost("/token", f, nil, g.rt)
			rq.Hdr = append(h, c13iCTForm)
			w.c13bAttach(&rq, mech, v, "POST", "/token", "", n)
			return rq
		}}
	}
	code := func(cid, how, what string, mechs []string) c13bCtx {
		return c13bCtx{Name: "code of a session " + what, Mechs: mechs, Make: func(w *c13W, mech, v string, n int) rawReq {
			c := w.c13bCode(cid, mech, how)
			var h [][2]string
			f := w.auth(cid, form{{"grant_type", "authorization_code"}, {"code", c}, {"redirect_uri", c13Redirect}, {"code_verifier", c13iVerifier}}, &h)
			rq := w.c13iPost("/token", f, nil, c)
			rq.Hdr = append(h, c13iCTForm)
			w.c13bAttach(&rq, mech, v, "POST", "/token", "", n)
			return rq
		}}
	}
	userinfo := func(scheme string) c13bCtx {
		return c13bCtx{Name: "GET /userinfo, token of a bound grant, " + scheme + " scheme", Make: func(w *c13W, mech, v string, n int) rawReq {
			g := w.c13bLive(cache, "c1", mech)
			rq := rawReq{Method: "GET", Target: w.pfx + "/userinfo", Hdr: [][2]string{{"Authorization", scheme + " " + g.at}}}
			w.c13bAttach(&rq, mech, v, "GET", "/userinfo", g.at, n)
			return rq
		}}
	}
	tokenAt := func(path, what string, cc bool) c13bCtx {
		return c13bCtx{Name: path + ", " + what, Make: func(w *c13W, mech, v string, n int) rawReq {
			var at string
			if cc {
				at = w.c13bCCToken(mech)
			} else {
				at = w.c13bLive(cache, "c1", mech).at
			}
			var h [][2]string
			f := w.auth("c1", form{{"token", at}}, &h)
			rq := w.c13iPost(path, f, nil)
			rq.Hdr = append(h, c13iCTForm)
			w.c13bAttach(&rq, mech, v, "POST", path, at, n)
			return rq
		}}
	}
	direct := func(what string, cc bool, scheme string) c13bCtx {
		return c13bCtx{Name: "TokenInfoFromRequest, " + what + ", " + scheme + " scheme", Direct: true, Make: func(w *c13W, mech, v string, n int) rawReq {
			var at string
			if cc {
				at = w.c13bCCToken(mech)
			} else {
				at = w.c13bLive(cache, "c1", mech).at
			}
			rq := rawReq{Method: "GET", Target: w.pfx + "/resource", Hdr: [][2]string{{"Authorization", scheme + " " + at}}}
			w.c13bAttach(&rq, mech, v, "GET", "/resource", at, n)
			return rq
		}}
	}
	onlyDPoP := []string{"dpop"}
	return []c13bCtx{
		refresh("c1", "confidential client (client_secret_post)"),
		refresh("c2", "public client"),
		refresh("c3", "private_key_jwt client"),
		refresh("c4", "stored client (client_secret_basic)"),
		code("c1", "par", "bound at /par, confidential client", nil),
		code("c2", "par", "bound at /par, public client", nil),
		code("c3", "par", "bound at /par, private_key_jwt client", nil),
		code("c1", "par-jkt", "with dpop_jkt pushed", onlyDPoP),
		code("c1", "authorize-jkt", "with dpop_jkt at /authorize", onlyDPoP),
		{Name: "auth_req_id of a CIBA session bound at /bc-authorize", Make: func(w *c13W, mech, v string, n int) rawReq {
			w.baMode = "approve"
			var h [][2]string
			rq := w.c13iPost("/bc-authorize", w.auth("c1", form{{"scope", "openid email"}, {"login_hint", "user1"}}, &h), nil)
			rq.Hdr = append(h, c13iCTForm)
			w.c13bAttach(&rq, mech, "right", "POST", "/bc-authorize", "", 0)
			res := w.c13bDo(rq)
			id := jsonField(res.Body, "auth_req_id")
			if id == "" {
				panic(fmt.Sprintf("c13 binding: /bc-authorize (%s) refused: %d %s", mech, res.Status, truncate(res.Body, 200)))
			}
			h = nil
			f := w.auth("c1", form{{"grant_type", "urn:openid:params:grant-type:ciba"}, {"auth_req_id", id}}, &h)
			rq = w.c13iPost("/token", f, nil, id)
			rq.Hdr = append(h, c13iCTForm)
			w.c13bAttach(&rq, mech, v, "POST", "/token", "", n)
			return rq
		}},
		userinfo("Bearer"), userinfo("DPoP"),
		{Name: "POST /userinfo, token of a bound grant in the body", Make: func(w *c13W, mech, v string, n int) rawReq {
			g := w.c13bLive(cache, "c1", mech)
			rq := rawReq{Method: "POST", Target: w.pfx + "/userinfo", Hdr: [][2]string{c13iCTForm}, Body: "access_token=" + url.QueryEscape(g.at)}
			w.c13bAttach(&rq, mech, v, "POST", "/userinfo", g.at, n)
			return rq
		}},
		tokenAt("/introspect", "token of a bound grant", false),
		tokenAt("/introspect", "bound client_credentials token", true),
		tokenAt("/revoke", "token of a bound grant", false),
		direct("token of a bound grant", false, "Bearer"),
		direct("token of a bound grant", false, "DPoP"),
		direct("bound client_credentials token", true, "Bearer"),
	}
}

// Provider.TokenInfoFromRequest called the way a resource server embedding the provider does
func (w *c13W) c13bDirect(r rawReq) (res rawRes) {
	req, err := http.ReadRequest(bufio.NewReader(bytes.NewReader(r.bytes())))
	if err != nil {
		return rawRes{Rejected: true}
	}
	req.RemoteAddr = "192.0.2.1:1234"
	w.cert = nil
	if r.Cert {
		w.cert = certCache[0]
	}
	switch r.CertAlt {
	case 1:
		w.cert = certCache[1]
	case 2:
		w.cert = &x509.Certificate{}
	}
	w.cbFailed = false
	w.stores.BeginRequest(nil, -1)
	rec := httptest.NewRecorder()
	func() {
		defer func() {
			if p := recover(); p != nil {
				res.Panic = fmt.Sprint(p)
				res.Stack = string(debug.Stack())
			}
		}()
		info, err := w.prov.TokenInfoFromRequest(rec, req)
		res.CT = "application/json"
		if err != nil {
			res.Status = 401
			var oe goidc.Error
			code := "invalid_token"
			if errors.As(err, &oe) {
				code = string(oe.Code)
			}
			b, _ := json.Marshal(map[string]any{"error": code, "error_description": truncate(err.Error(), 100)})
			res.Body = string(b)
			return
		}
		res.Status = 200
		b, _ := json.Marshal(map[string]any{"active": info.IsActive, "client_id": info.ClientID, "cnf": info.Confirmation})
		res.Body = string(b)
	}()
	res.CbFailed = w.cbFailed
	return res
}

func c13Binding(ctx *RunCtx) {
	p := &c13iRun{ctx: ctx, kinds: map[string]bool{}, intact: map[string]int{}}
	cache := map[string]*c13iGrant{}
	matrix := map[string]map[string]string{}
	var refusingRight []string
	rounds := ctx.N(1, 6)
	n := 0
	for round := 0; round < rounds; round++ {
		for _, c := range c13bContexts(cache) {
			mechs := c.Mechs
			if mechs == nil {
				mechs = c13bMechs
			}
			for _, mech := range mechs {
				for _, v := range c13bVariants {
					w := p.world()
					w.polMode, w.baMode = "success", "approve"
					n++
					rq := c.Make(w, mech, v, n+round)
					note := fmt.Sprintf("bound by %s | %s | proof %s", mech, c.Name, v)
					var res rawRes
					if c.Direct {
						res = p.c13bProbeDirect(rq, note)
					} else {
						res = p.probe(rq, note)
					}
					row := mech + " | " + c.Name
					if matrix[row] == nil {
						matrix[row] = map[string]string{}
					}
					out := fmt.Sprintf("%d %s", res.Status, jsonField(res.Body, "error"))
					if res.Panic != "" {
						out = "PANIC"
					}
					matrix[row][v] = out
					if v == "right" && (res.Status >= 400 || res.Panic != "") && round == 0 {
						refusingRight = append(refusingRight, row+" = "+out)
					}
					ctx.Meta.Dist["binding:mechanism "+mech]++
					ctx.Meta.Dist["binding:proof "+v]++
					if res.Status >= 400 {
						ctx.Meta.Dist["binding:proof "+v+" refused"]++
					}
				}
			}
			ctx.Meta.Dist["binding:context "+c.Name] += len(mechs) * len(c13bVariants)
		}
	}
	sort.Strings(refusingRight)
	if ctx.Meta.Extra == nil {
		ctx.Meta.Extra = map[string]any{}
	}
	ctx.Meta.Extra["binding_probes"] = p.probes
	ctx.Meta.Extra["binding_matrix"] = matrix
	ctx.Meta.Extra["binding_contexts_refusing_the_right_proof"] = refusingRight
	ctx.Meta.Cases += p.probes
	ctx.Meta.Distinct += len(p.kinds)
}

func (p *c13iRun) c13bProbeDirect(rq rawReq, note string) rawRes {
	w := p.w
	rq.Route = "TokenInfoFromRequest"
	rq.Fault = -1
	rq.Note = note
	before := w.stores.Snapshot()
	res := w.c13bDirect(rq)
	p.probes++
	p.since++
	if res.Rejected {
		return res
	}
	after := w.stores.Snapshot()
	nf := len(p.ctx.Meta.Findings)
	refused := w.judge(p.ctx, rq, res, before, after)
	p.lastRefused = refused
	for i := nf; i < len(p.ctx.Meta.Findings); i++ {
		f := &p.ctx.Meta.Findings[i]
		f.What = note + ": " + f.What
		if m, ok := f.Replay.(map[string]any); ok {
			m["probe"] = note
			m["entry_point"] = "Provider.TokenInfoFromRequest"
		}
	}
	p.ctx.Meta.Dist["route:TokenInfoFromRequest"]++
	p.kinds[fmt.Sprintf("%s|direct %d %s", note, res.Status, jsonField(res.Body, "error"))] = true
	return res
}
