package main

// Suite c15: one-time credentials under racing requests, on the real provider.
//
// For each credential kind (authorization code, refresh token, pushed request_uri - with a policy
// that finishes at once and with one that shows a login page -, CIBA auth_req_id) and rotation
// setting, a fresh provider is set up with ONE live credential (by running the prefix history over
// HTTP), k real HTTP requests presenting it are started in goroutines, and a schedule - a list of
// request indexes - is imposed on their storage-interface calls through the storage decorator's gate:
// every request parks before each storage call; the controller releases exactly one parked request
// per schedule entry and waits until it parks again or finishes (a finished request's entries are
// no-ops; whoever is still in flight after the schedule is drained in index order; every wait has a
// timeout, so a deadlock cannot hang the suite).  Recorded per schedule: which requests succeeded
// and every request's storage-call sequence.
//
//   quick   : ALL interleavings of 2 requests (70 / 20 per scenario) + a sample of 3-request ones
//   thorough: ALL interleavings of 3 requests (34650 / 1680), sampled down to 5000 above that
//
// Correspondence (Corr/C15.v check_race_group_x, storage flavours `copy` and `strict`): the model's run_il_x on the same
// schedule must give the same successes, the same requests succeeding, the same call sequences.
// Monitor (Go side, both storage flavours): two or more successes on one credential (except refresh
// tokens with rotation off, whose re-use the property allows) -> a Finding whose signature is
//   race:<kind>:rotation=<on|any>:<overlap|wider-window|no-overlap>
//   overlap      : no more successes than lookups scheduled before the first consume, counted at the
//                  call positions of the unchanged flow (lookup ... consume window as in the model)
//   wider-window : more than that, but the observed lookups did precede the first observed consume
//                  (the window of the running code is wider than the model's)
//   no-overlap   : more successes than observed lookups before the first observed end of a window
//                  (consume call or, without one, completion of the request) - e.g. a credential that
//                  is not consumed at all, so that even serial presentations succeed
// Only `overlap` is a known finding (K1-K4: the storage interfaces offer no atomic take).
// Storage flavours: copy and alias (stores.go) and STRICT (suite_c15strict.go: Delete of something absent is an
// error) - copy and strict are compared with the model (Corr/C15.v check_race_group_x over RaceStrict.sem_of).
// On the strict flavour, where the consume is a Delete, two winners are named
//   race:<kind>:strict-store:<class>              (never known: a request went on although its delete failed)
// END TO END: after racing /authorize requests every code / callback id handed out is redeemed / continued;
// two or more TOKEN RESPONSES out of one request_uri are named
//   race:<kind>:several-token-responses           (never known)
// MIXED VERDICTS (suite_c15mixed.go, Model/RaceMixed.v): c15Scenario.Verdicts gives every racing CIBA poll its own answer of the
// embedder's validation function (handed over when the gate releases that poll); one more approved poll follows the race;
// two token responses over race + follow-up are named
//   race:auth_req_id:mixed-verdicts:several-token-responses   (never known)

import (
	"context"
	"encoding/json"
	"fmt"
	"math/rand"
	"net/http"
	"net/http/httptest"
	"net/url"
	"os"
	"path/filepath"
	"sort"
	"strings"
	"sync"
	"time"
)

// ---------------------------------------------------------------- scenarios
type c15Scenario struct {
	Kind     string // code refresh request_uri request_uri_page auth_req_id
	SigKind  string // kind as it appears in signatures
	Coq      string // the scenario of Model/Race.v (applied to the rotation flag)
	Rotation bool
	Lookup   CallKind
	Consume  CallKind
	// the unchanged flow, as in the model (Race.solo_calls / lookup_pos / consume_pos; Corr/C15.v checks
	// that the model agrees): storage calls of one accepted request, position of the lookup, of the consume
	N, L, C int
	Prefix  []Op
	// the consuming request, given the observations of the prefix
	Race func(prefixObs []Obs) Op
	// the credential is one-time under this rotation setting
	OneTime bool
	// request_uri scenarios with a response type of their own (Model/RaceUri.v scn_uri): the client that may use every
	// response type, the implicit grant enabled; "" = the scenarios of Model/Race.v (client c15Client, c15Opts)
	RespType string
	// quick tier: run this scenario only with this rotation setting (nil: with both) - the authorization endpoint
	// never looks at the rotation flag, the thorough tier runs both all the same
	QuickRot *bool
	// MIXED VERDICTS (suite_c15mixed.go, Model/RaceMixed.v): racing CIBA polls, poll i being answered Verdicts[i] by the
	// embedder's ValidateBackAuthFunc; after the race one more poll, approved, presents the auth_req_id (nil: every
	// request carries the verdict of the race op)
	Verdicts []string
}

// the client of the request_uri x response-type scenarios (RaceUri.ru_client)
var c15RespTypes = []string{"code", "id_token", "token", "code id_token", "code token", "id_token token", "code id_token token"}
var c15ClientAll = ClientSpec{ID: 1, Grants: []string{"authorization_code", "refresh_token", "implicit", "urn:openid:params:grant-type:ciba"},
	RespTypes: c15RespTypes, Redirects: []string{"https://c1.example/cb"}, Scopes: "openid email", CibaMode: "poll"}

func (sc c15Scenario) spec(flavour string) WorldSpec {
	if flavour == "strict" { // the copy stores, made strict after the prefix (suite_c15strict.go)
		flavour = "copy"
	}
	if sc.RespType == "" {
		return WorldSpec{Profile: "openid", Opts: c15Opts(sc.Rotation), Dyn: []ClientSpec{c15Client}, Flavour: flavour}
	}
	return WorldSpec{Profile: "openid", Opts: append(c15Opts(sc.Rotation), Opt{Name: "WithImplicitGrant"}), Dyn: []ClientSpec{c15ClientAll}, Flavour: flavour}
}

func c15RtContains(rt, part string) bool {
	for _, x := range strings.Fields(rt) {
		if x == part {
			return true
		}
	}
	return false
}

// the request_uri presented with every response type (RaceUri.scn_uri): with `token` / `id_token` in it the
// authorization endpoint itself issues the artifacts - AFTER it consumed the pushed session
func c15UriScenarios(rotation bool) []c15Scenario {
	var l []c15Scenario
	for i, rt := range c15RespTypes {
		rt := rt
		ps := Params{Redirect: "https://c1.example/cb", RespType: rt, Scopes: "openid email", State: "st", Nonce: "n-1"}
		sc := c15Scenario{Kind: "request_uri[" + rt + "]", SigKind: "request_uri_implicit:rotation=any", Coq: "scn_uri " + cS(rt), Rotation: rotation,
			Lookup: KAGet, Consume: KADel, N: 4, L: 1, C: 3, OneTime: true, RespType: rt,
			Prefix: []Op{{Kind: "Par", Cred: c15Cred, Params: ps}},
			Race: func(p []Obs) Op {
				o := Op{Kind: "Authorize", Client: 1, Params: ps, PolicyAvail: true, Pol: c15Pol}
				o.Params.RequestURI = p[0].H
				return o
			}}
		if rt == "code" {
			sc.SigKind = "request_uri:rotation=any"
		}
		if c15RtContains(rt, "code") {
			sc.Consume = KASave
		}
		if c15RtContains(rt, "token") {
			sc.N = 5
		}
		q := i%2 == 0
		sc.QuickRot = &q
		l = append(l, sc)
	}
	return l
}

var c15Client = ClientSpec{ID: 1, Grants: []string{"authorization_code", "refresh_token", "urn:openid:params:grant-type:ciba"},
	RespTypes: []string{"code"}, Redirects: []string{"https://c1.example/cb"}, Scopes: "openid email", CibaMode: "poll"}

func c15Opts(rotation bool) []Opt {
	o := []Opt{{Name: "WithScopes", Scopes: []Scope{{ID: "openid"}, {ID: "email"}}}, {Name: "WithAuthorizationCodeGrant"},
		// the embedder's issue-refresh-token function answers "no" for a refreshed grant info (grant type
		// refresh_token): rotation must not depend on it (Model/Race.v rc_opts)
		{Name: "WithRefreshTokenGrant", Z: 600, S: "IssueCodeOnly"}}
	if rotation {
		o = append(o, Opt{Name: "WithRefreshTokenRotation"})
	}
	return append(o, Opt{Name: "WithPAR", Z: 60}, Opt{Name: "WithCIBAGrant"}, Opt{Name: "WithTokenLifetime", Z: 300})
}

var c15Params = Params{Redirect: "https://c1.example/cb", RespType: "code", Scopes: "openid email", State: "st"}
var c15Cred = Cred{ID: 1, OK: true}
var c15Pol = Pol{Kind: "PolSuccess", Sub: "alice", Granted: "openid email"}

func c15Token(grant string) Op {
	return Op{Kind: "Token", Cred: c15Cred, Grant: grant, HG: "HgOk", BA: "BaApprove"}
}

func c15Scenarios(rotation bool) []c15Scenario {
	authorize := Op{Kind: "Authorize", Client: 1, Params: c15Params, PolicyAvail: true, Pol: c15Pol}
	par := Op{Kind: "Par", Cred: c15Cred, Params: c15Params}
	rot := "any"
	return []c15Scenario{
		{Kind: "code", SigKind: "code:rotation=" + rot, Coq: "scn_code", Rotation: rotation, Lookup: KAGet, Consume: KADel, N: 4, L: 1, C: 2, OneTime: true,
			Prefix: []Op{authorize},
			Race: func(p []Obs) Op {
				o := c15Token("authorization_code")
				o.Code, o.Redirect = p[0].NCode, "https://c1.example/cb"
				return o
			}},
		{Kind: "refresh", SigKind: "refresh:rotation=" + map[bool]string{true: "on", false: "off"}[rotation], Coq: "scn_refresh",
			Rotation: rotation, Lookup: KGGet, Consume: KGSave, N: 3, L: 1, C: 2, OneTime: rotation,
			Prefix: []Op{authorize, func() Op {
				o := c15Token("authorization_code")
				o.Code, o.Redirect = mint(0, KCode), "https://c1.example/cb"
				return o
			}()},
			Race: func(p []Obs) Op {
				o := c15Token("refresh_token")
				o.Refresh = p[1].Rt
				return o
			}},
		{Kind: "request_uri", SigKind: "request_uri:rotation=" + rot, Coq: "scn_par", Rotation: rotation, Lookup: KAGet, Consume: KASave, N: 4, L: 1, C: 3, OneTime: true,
			Prefix: []Op{par},
			Race: func(p []Obs) Op {
				o := authorize
				o.Params.RequestURI = p[0].H
				return o
			}},
		{Kind: "request_uri_page", SigKind: "request_uri:rotation=" + rot, Coq: "scn_par_page", Rotation: rotation, Lookup: KAGet, Consume: KASave, N: 3, L: 1, C: 2, OneTime: true,
			Prefix: []Op{par},
			Race: func(p []Obs) Op {
				o := authorize
				o.Params.RequestURI = p[0].H
				o.Pol = Pol{Kind: "PolInProgress"}
				return o
			}},
		{Kind: "auth_req_id", SigKind: "auth_req_id:rotation=" + rot, Coq: "scn_ciba", Rotation: rotation, Lookup: KAGet, Consume: KADel, N: 4, L: 1, C: 2, OneTime: true,
			Prefix: []Op{{Kind: "BcAuthorize", Cred: c15Cred, Params: Params{Scopes: "openid email", LoginHint: "alice"}, InitOK: true, Sub: "alice", Granted: "openid email"}},
			Race: func(p []Obs) Op {
				o := c15Token("urn:openid:params:grant-type:ciba")
				o.AuthReq = p[0].H
				return o
			}},
	}
}

func c15ObsAccepted(o Obs) bool {
	switch o.Kind {
	case "Par", "Ciba":
		return true
	}
	return c15Success(o)
}

// a request "obtains tokens (or starts an authorization)" - Race.is_success
func c15Success(o Obs) bool {
	switch o.Kind {
	case "Tokens", "Page":
		return true
	case "Nav":
		return o.NErr == ""
	}
	return false
}

// ---------------------------------------------------------------- schedules
// every sequence in which index i occurs counts[i] times, in the order of Race.all_interleavings
func c15Interleavings(counts []int) [][]int {
	total := 0
	for _, c := range counts {
		total += c
	}
	var out [][]int
	cur := make([]int, 0, total)
	left := append([]int(nil), counts...)
	var rec func()
	rec = func() {
		if len(cur) == total {
			out = append(out, append([]int(nil), cur...))
			return
		}
		for i := range left {
			if left[i] > 0 {
				left[i]--
				cur = append(cur, i)
				rec()
				cur = cur[:len(cur)-1]
				left[i]++
			}
		}
	}
	rec()
	return out
}

// a uniformly random interleaving
func c15RandomSchedule(r *rand.Rand, k, n int) []int {
	s := make([]int, 0, k*n)
	for i := 0; i < k; i++ {
		for j := 0; j < n; j++ {
			s = append(s, i)
		}
	}
	r.Shuffle(len(s), func(a, b int) { s[a], s[b] = s[b], s[a] })
	return s
}

// position of the (c+1)-th entry of request i (len(sched) if none) - Race.occ_pos
func c15OccPos(sched []int, i, c int) int {
	for p, j := range sched {
		if j == i {
			if c == 0 {
				return p
			}
			c--
		}
	}
	return len(sched)
}

// Race.lookups_before_first_consume
func c15WindowCount(sched []int, k, L, C int) int {
	first := len(sched)
	for i := 0; i < k; i++ {
		if p := c15OccPos(sched, i, C); p < first {
			first = p
		}
	}
	n := 0
	for i := 0; i < k; i++ {
		if c15OccPos(sched, i, L) < first {
			n++
		}
	}
	return n
}

// ---------------------------------------------------------------- imposing a schedule on real requests
type c15Event struct {
	req  int // 0-based
	done bool
	kind CallKind
	rel  chan struct{}
}

type c15Step struct {
	Req  int
	Kind CallKind
}

type c15Run struct {
	Kind, Flavour string
	Rotation      bool
	K             int
	Sched         []int
	OK            []bool
	Logs          [][]CallKind
	Trace         []c15Step // global order of the storage calls actually performed
	Status        []int
	Obs           []Obs
	PrefixObs     []Obs
	RaceOp        Op
	Spec          WorldSpec
	Err           string // harness-level failure (timeout, prefix refused)
	Window        int    // lookups scheduled before the first consume, at the flow's call positions
	ObsWindow     int    // observed: requests whose lookup call was performed before the first consume call performed
	// END TO END (racing /authorize requests): after the race every code / callback id handed out was redeemed /
	// continued, in request order or (Rev) in the reverse order; E2E[i]: request i's artifact ended in a token response
	Follow bool
	Rev    bool
	E2E    []bool
	E2EObs []Obs
	// mixed verdicts: per racing poll, then the follow-up poll: answered with tokens
	Verdicts  []string
	Mixed     []bool
	FollowObs Obs
}

func (r *c15Run) mixedTokens() int {
	n := 0
	for _, b := range r.Mixed {
		if b {
			n++
		}
	}
	return n
}

// the storage reports an error for a Delete of something absent (suite_c15strict.go)
func (r *c15Run) strict() bool { return r.Flavour == "strict" }

func (r *c15Run) e2eTokens() int {
	n := 0
	for _, b := range r.E2E {
		if b {
			n++
		}
	}
	return n
}

const c15Timeout = 20 * time.Second

func (w *World) c15Request(o Op, req int) *http.Request {
	pfx := w.prefix()
	var r *http.Request
	switch o.Kind {
	case "Token":
		v := url.Values{}
		w.applyCred(o.Cred, v)
		v.Set("grant_type", o.Grant)
		if o.Code != 0 {
			v.Set("code", w.concrete(o.Code))
		}
		if o.Redirect != "" {
			v.Set("redirect_uri", o.Redirect)
		}
		if o.Refresh != 0 {
			v.Set("refresh_token", w.concrete(o.Refresh))
		}
		if o.AuthReq != 0 {
			v.Set("auth_req_id", w.concrete(o.AuthReq))
		}
		w.hg, w.ba = o.HG, o.BA
		r = httptest.NewRequest("POST", pfx+"/token", strings.NewReader(v.Encode()))
		r.Header.Set("Content-Type", "application/x-www-form-urlencoded")
	case "Authorize":
		w.polAvail, w.pol = o.PolicyAvail, o.Pol
		v := url.Values{}
		v.Set("client_id", clientName(o.Client))
		o.Params.values(w, v)
		r = httptest.NewRequest("GET", pfx+"/authorize?"+v.Encode(), nil)
	default:
		panic("c15: race op " + o.Kind)
	}
	return r.WithContext(context.WithValue(r.Context(), reqKey{}, req))
}

// c15Execute: fresh world, prefix, k racing requests under the schedule.
func c15Execute(sc c15Scenario, flavour string, k int, sched []int, rev bool) (run c15Run) {
	run = c15Run{Kind: sc.Kind, Flavour: flavour, Rotation: sc.Rotation, K: k, Sched: sched, Rev: rev, Verdicts: sc.Verdicts}
	spec := sc.spec(flavour)
	run.Spec = spec
	w, err := NewWorld(spec)
	if err != nil {
		run.Err = "world: " + err.Error()
		return
	}
	for i, o := range sc.Prefix {
		w.step = i
		ob := w.Exec(o)
		run.PrefixObs = append(run.PrefixObs, ob)
		if !c15ObsAccepted(ob) {
			run.Err = fmt.Sprintf("prefix operation %d refused: %s", i, truncate(ob.Raw, 200))
			return
		}
	}
	w.step = len(sc.Prefix)
	run.RaceOp = sc.Race(run.PrefixObs)
	w.Stores.BeginRequest(nil, -1)
	if flavour == "strict" {
		c15MakeStrict(w.Stores)
	}

	events := make(chan c15Event, 4*k)
	var abort bool
	var amu sync.Mutex
	w.Stores.gate = func(req int, kind CallKind) {
		if req <= 0 {
			return
		}
		amu.Lock()
		a := abort
		amu.Unlock()
		if a {
			return
		}
		rel := make(chan struct{})
		events <- c15Event{req: req - 1, kind: kind, rel: rel}
		select {
		case <-rel:
		case <-time.After(2 * c15Timeout):
		}
	}
	defer func() { w.Stores.gate = nil }()

	recs := make([]*httptest.ResponseRecorder, k)
	reqs := make([]*http.Request, k)
	for i := 0; i < k; i++ {
		recs[i] = httptest.NewRecorder()
		reqs[i] = w.c15Request(run.RaceOp, i+1)
	}
	h := w.provider().Handler()
	panics := make([]any, k)
	for i := 0; i < k; i++ {
		go func(i int) {
			defer func() {
				if r := recover(); r != nil {
					panics[i] = r
				}
				events <- c15Event{req: i, done: true}
			}()
			h.ServeHTTP(recs[i], reqs[i])
		}(i)
	}
	parked := make([]*c15Event, k)
	done := make([]bool, k)
	run.Logs = make([][]CallKind, k)
	fail := func(msg string) {
		run.Err = msg
		amu.Lock()
		abort = true
		amu.Unlock()
		for _, p := range parked {
			if p != nil {
				close(p.rel)
			}
		}
	}
	// wait for the next event of a request that is running
	await := func() bool {
		select {
		case e := <-events:
			if e.done {
				done[e.req] = true
			} else {
				ev := e
				parked[e.req] = &ev
			}
			return true
		case <-time.After(c15Timeout):
			return false
		}
	}
	// every request runs up to its first storage call
	for n := 0; n < k; n++ {
		if !await() {
			fail("timeout waiting for the requests to reach their first storage call")
			return
		}
	}
	release := func(i int) bool {
		p := parked[i]
		parked[i] = nil
		if sc.Verdicts != nil {
			// exactly one request runs between two gates: the embedder's validation function (world.go reads w.ba)
			// answers this request with ITS verdict (ordered with the request's goroutine by the close of p.rel)
			w.ba = sc.Verdicts[i]
		}
		run.Logs[i] = append(run.Logs[i], p.kind)
		run.Trace = append(run.Trace, c15Step{i, p.kind})
		close(p.rel)
		return await()
	}
	for _, i := range sched {
		if i < 0 || i >= k || done[i] || parked[i] == nil {
			continue
		}
		if !release(i) {
			fail(fmt.Sprintf("timeout after releasing request %d", i))
			return
		}
	}
	for i := 0; i < k; i++ {
		for n := 0; !done[i] && n < 64; n++ {
			if parked[i] == nil || !release(i) {
				fail(fmt.Sprintf("timeout draining request %d", i))
				return
			}
		}
	}
	w.Stores.gate = nil
	run.OK = make([]bool, k)
	run.Status = make([]int, k)
	for i := 0; i < k; i++ {
		var ob Obs
		if run.RaceOp.Kind == "Token" {
			ob = w.absJSON(recs[i], panics[i], "token")
		} else {
			ob = w.absAuthorize(recs[i], panics[i])
		}
		run.Obs = append(run.Obs, ob)
		run.OK[i] = c15Success(ob)
		run.Status[i] = ob.Status
	}
	// MIXED VERDICTS: the follow-up poll, approved, served alone after the race (RaceMixed.mx_follow_up)
	if sc.Verdicts != nil {
		w.step = len(sc.Prefix) + k
		fu := run.RaceOp
		fu.BA = "BaApprove"
		run.FollowObs = w.Exec(fu)
		run.Mixed = append(append([]bool{}, run.OK...), run.FollowObs.Kind == "Tokens")
	}
	// END TO END: what the artifacts handed out by racing /authorize requests are worth afterwards
	// (RaceStrict.e2e_outcomes): every callback id is continued with a policy that succeeds, every code is
	// redeemed at the token endpoint, one request after the other
	if run.RaceOp.Kind == "Authorize" {
		run.Follow = true
		run.E2E = make([]bool, k)
		run.E2EObs = make([]Obs, k)
		for j := 0; j < k; j++ {
			i := j
			if rev {
				i = k - 1 - j
			}
			w.step = len(sc.Prefix) + k + 2*j
			ob := run.Obs[i]
			if !run.OK[i] {
				continue
			}
			code := ob.NCode
			if ob.Kind == "Page" {
				cb := w.Exec(Op{Kind: "Callback", Cb: ob.H, Pol: c15Pol})
				run.E2EObs[i] = cb
				code = 0
				if cb.Kind == "Nav" && cb.NErr == "" {
					code = cb.NCode
				}
			} else if ob.Kind != "Nav" {
				continue
			}
			if code == 0 {
				continue
			}
			w.step = len(sc.Prefix) + k + 2*j + 1
			t := c15Token("authorization_code")
			t.Code, t.Redirect = code, "https://c1.example/cb"
			tk := w.Exec(t)
			run.E2EObs[i] = tk
			run.E2E[i] = tk.Kind == "Tokens"
		}
	}
	return
}

func (r *c15Run) successes() int {
	n := 0
	for _, b := range r.OK {
		if b {
			n++
		}
	}
	return n
}

// observed window: the number of requests whose lookup call was performed before the first observed
// end of a window - a request's window ends at its consume call or, if it performs none, when it completes
func c15ObservedWindow(tr []c15Step, k int, lookup, consume CallKind) int {
	first := len(tr)
	for i := 0; i < k; i++ {
		end, last, seenLookup := -1, -1, false
		for p, s := range tr {
			if s.Req != i {
				continue
			}
			last = p
			if s.Kind == lookup {
				seenLookup = true
			}
			if s.Kind == consume && seenLookup && end < 0 {
				end = p
			}
		}
		if end < 0 {
			end = last + 1 // completion: just after its last call
		}
		if seenLookup && end < first {
			first = end
		}
	}
	n := 0
	seen := map[int]bool{}
	for p, s := range tr {
		if p >= first {
			break
		}
		if s.Kind == lookup && !seen[s.Req] {
			seen[s.Req] = true
			n++
		}
	}
	return n
}

func c15Pos(log []CallKind, k CallKind) int {
	for i, x := range log {
		if x == k {
			return i
		}
	}
	return len(log)
}

// ---------------------------------------------------------------- printing
func c15Kinds(l []CallKind) string {
	return cList(l, func(k CallKind) string { return fmt.Sprintf("%d", int(k)) })
}

func (r *c15Run) coq() string {
	return fmt.Sprintf("mkRaceObsX %s %s %s %d %s %s", cList(r.Sched, func(i int) string { return fmt.Sprintf("%d", i) }),
		cList(r.OK, cB), cList(r.Logs, c15Kinds), r.Window, cB(r.Rev), cList(r.E2E, cB))
}

var c15KindCoq = map[CallKind]string{KCGet: "KCGet", KCSave: "KCSave", KCDel: "KCDel", KASave: "KASave", KAGet: "KAGet", KADel: "KADel",
	KGSave: "KGSave", KGGet: "KGGet", KGDel: "KGDel", KGDelByCode: "KGDelByCode"}

func c15ScnCoq(sc c15Scenario, spec WorldSpec, prefix []Op, race Op) string {
	return fmt.Sprintf("(mkRaceScn POpenID\n  %s\n  %s\n  %s\n  %s\n  (%s) %s %s)", cList(spec.Opts, Opt.coq), cList(spec.Static, ClientSpec.coq),
		cList(spec.Dyn, ClientSpec.coq), cList(prefix, Op.coq), race.coq(), c15KindCoq[sc.Lookup], c15KindCoq[sc.Consume])
}

const c15Header = `From Verif Require Import Base Scope Types Prog Pop Token Authorize System Config Race RaceUri RaceStrict.
From Verif.Corr Require Import C15.
Local Open Scope N_scope.
`

type c15Group struct {
	sc         c15Scenario
	k          int
	exhaustive bool
	runs       []c15Run
}

func (g *c15Group) coq(name string) string {
	var b strings.Builder
	r0 := g.runs[0]
	fmt.Fprintf(&b, "Definition %s : racegroupx := mkRaceGroupX (%s %s)\n %s\n %d %s %s %s\n [", name, g.sc.Coq, cB(g.sc.Rotation),
		c15ScnCoq(g.sc, r0.Spec, g.sc.Prefix, r0.RaceOp), g.k, cB(g.exhaustive), cB(r0.strict()), cB(r0.Follow))
	for i := range g.runs {
		if i > 0 {
			b.WriteString(";\n  ")
		}
		b.WriteString(g.runs[i].coq())
	}
	b.WriteString("].\n")
	return b.String()
}

// ---------------------------------------------------------------- the suite
func c15Signature(sc c15Scenario, run *c15Run) string {
	class := "overlap"
	if run.successes() > run.Window {
		if run.successes() <= run.ObsWindow {
			class = "wider-window"
		} else {
			class = "no-overlap"
		}
	}
	if run.strict() && sc.Consume == KADel {
		// on a strict storage the delete is a take: two winners mean that a request went on although ITS delete failed
		return "race:" + sc.SigKind + ":strict-store:" + class
	}
	return "race:" + sc.SigKind + ":" + class
}

// what the winners were given by the authorization endpoint itself: access tokens, codes; grant sessions saved
func c15Artifacts(run *c15Run) (tokens, codes, grants int) {
	for i, o := range run.Obs {
		if i < len(run.OK) && run.OK[i] && o.Kind == "Nav" {
			if o.NAt != 0 {
				tokens++
			}
			if o.NCode != 0 {
				codes++
			}
		}
	}
	for _, s := range run.Trace {
		if s.Kind == KGSave {
			grants++
		}
	}
	return
}

func c15Replay(sc c15Scenario, run *c15Run) map[string]any {
	var logs [][]string
	for _, l := range run.Logs {
		var s []string
		for _, k := range l {
			s = append(s, c15KindCoq[k])
		}
		logs = append(logs, s)
	}
	var trace []string
	for _, s := range run.Trace {
		trace = append(trace, fmt.Sprintf("%d:%s", s.Req, c15KindCoq[s.Kind]))
	}
	var raw []string
	for _, o := range run.Obs {
		raw = append(raw, truncate(o.Raw, 160))
	}
	tokens, codes, grants := c15Artifacts(run)
	var e2eRaw []string
	for _, o := range run.E2EObs {
		e2eRaw = append(e2eRaw, truncate(o.Raw, 120))
	}
	return map[string]any{"suite": "c15", "kind": sc.Kind, "rotation": sc.Rotation, "flavour": run.Flavour, "requests": run.K,
		"access_tokens_handed_out_by_the_authorization_endpoint": tokens, "codes_handed_out": codes, "grant_sessions_saved": grants,
		"schedule": run.Sched, "succeeded": run.OK, "status": run.Status, "storage_calls_per_request": logs, "storage_calls_in_order": trace,
		"lookups_before_first_consume_at_model_positions": run.Window, "lookups_before_first_consume_observed": run.ObsWindow,
		"follow_ups_reversed": run.Rev, "ended_in_token_response": run.E2E, "token_responses_end_to_end": run.e2eTokens(), "follow_up_responses": e2eRaw,
		"verdicts": run.Verdicts, "tokens_per_racing_poll_then_follow_up": run.Mixed, "token_responses_race_and_follow_up": run.mixedTokens(), "follow_up_poll_response": truncate(run.FollowObs.Raw, 120),
		"prefix": cList(sc.Prefix, Op.coq), "racing_request": run.RaceOp.coq(), "responses": raw,
		"Spec": run.Spec, "Ops": append(append([]Op{}, sc.Prefix...), run.RaceOp)}
}

func c15RunAll(sc c15Scenario, flavour string, k int, scheds [][]int, L, C int) []c15Run {
	runs := make([]c15Run, len(scheds))
	var wg sync.WaitGroup
	sem := make(chan struct{}, 8)
	for i := range scheds {
		wg.Add(1)
		sem <- struct{}{}
		go func(i int) {
			defer wg.Done()
			defer func() { <-sem }()
			// the follow-ups (end to end) are made in request order on even schedule indexes, in reverse order on odd ones
			r := c15Execute(sc, flavour, k, scheds[i], i%2 == 1)
			if r.Err != "" { // once more, in case the machine was busy
				r = c15Execute(sc, flavour, k, scheds[i], i%2 == 1)
			}
			r.Window = c15WindowCount(scheds[i], k, L, C)
			r.ObsWindow = c15ObservedWindow(r.Trace, k, sc.Lookup, sc.Consume)
			runs[i] = r
		}(i)
	}
	wg.Wait()
	return runs
}

func init() {
	register(&Suite{Name: "c15", Run: func(ctx *RunCtx) {
		// warm the key / hash caches before worlds are built concurrently
		if _, err := NewWorld(WorldSpec{Profile: "openid", Opts: c15Opts(true), Dyn: []ClientSpec{c15Client}, Flavour: "copy"}); err != nil {
			panic(err)
		}
		var groups []*c15Group
		findings := map[string]Finding{}
		distinct := map[string]bool{}
		var jcases []map[string]any
		harnessErrs := 0
		addFinding := func(sig, what string, replay any) {
			if _, ok := findings[sig]; !ok {
				findings[sig] = Finding{Property: "C15", Signature: sig, What: what, Replay: replay}
			}
		}
		for _, rotation := range []bool{true, false} {
			for _, sc := range append(c15Scenarios(rotation), c15UriScenarios(rotation)...) {
				if ctx.Quick() && sc.QuickRot != nil && *sc.QuickRot != rotation {
					continue
				}
				// a request served alone on the real provider must succeed
				solo := c15Execute(sc, "copy", 1, nil, false)
				if solo.Err == "" && solo.OK[0] && solo.Follow && (sc.RespType == "" || c15RtContains(sc.RespType, "code")) && !solo.E2E[0] {
					addFinding("harness:c15:solo-e2e:"+sc.Kind, fmt.Sprintf("the %s scenario served alone: the code / callback id handed out does not end in a token response: %s", sc.Kind, truncate(solo.E2EObs[0].Raw, 200)), c15Replay(sc, &solo))
					continue
				}
				if solo.Err != "" || !solo.OK[0] {
					addFinding("harness:c15:solo:"+sc.Kind, fmt.Sprintf("the %s scenario does not work on the real provider when served alone: %s %v", sc.Kind, solo.Err, solo.Status), c15Replay(sc, &solo))
					continue
				}
				n, L, C := sc.N, sc.L, sc.C
				if len(solo.Logs[0]) != n || c15Pos(solo.Logs[0], sc.Lookup) != L || c15Pos(solo.Logs[0], sc.Consume) != C {
					ctx.Meta.Dist["solo-flow-differs-from-model/"+sc.Kind]++
				}
				type plan struct {
					k          int
					scheds     [][]int
					exhaustive bool
				}
				var plans []plan
				counts := func(k int) []int {
					c := make([]int, k)
					for i := range c {
						c[i] = n
					}
					return c
				}
				if ctx.Quick() {
					plans = append(plans, plan{2, c15Interleavings(counts(2)), true})
					var sample [][]int
					for i := 0; i < 24; i++ {
						sample = append(sample, c15RandomSchedule(ctx.R, 3, n))
					}
					plans = append(plans, plan{3, sample, false})
				} else {
					plans = append(plans, plan{2, c15Interleavings(counts(2)), true})
					all := c15Interleavings(counts(3))
					if len(all) > 5000 {
						ctx.R.Shuffle(len(all), func(a, b int) { all[a], all[b] = all[b], all[a] })
						all = all[:5000]
						sort.Slice(all, func(a, b int) bool { return fmt.Sprint(all[a]) < fmt.Sprint(all[b]) })
						plans = append(plans, plan{3, all, false})
					} else {
						plans = append(plans, plan{3, all, true})
					}
				}
				for _, pl := range plans {
					for _, flavour := range []string{"copy", "strict", "alias"} {
						scheds := pl.scheds
						if flavour == "alias" && len(scheds) > 400 {
							scheds = scheds[:400]
						}
						if flavour == "strict" && len(scheds) > 600 {
							// (thorough tier, three requests) the strict flavour is compared on every interleaving of two requests
							// and on a sample of 600 of three, spread evenly over the enumeration (the theorems cover all of them)
							var sub [][]int
							for i := 0; i < 600; i++ {
								sub = append(sub, scheds[i*len(scheds)/600])
							}
							scheds = sub
						}
						if flavour == "alias" && ctx.Quick() && sc.RespType != "" && len(scheds) > 80 {
							// (the alias flavour is only monitored; the response-type scenarios differ from one another
							// in what is issued after the consume, not in the window) every third schedule
							var sub [][]int
							for i := 0; i < len(scheds); i += 3 {
								sub = append(sub, scheds[i])
							}
							scheds = sub
						}
						runs := c15RunAll(sc, flavour, pl.k, scheds, L, C)
						var good []c15Run
						for i := range runs {
							r := &runs[i]
							if r.Err != "" {
								harnessErrs++
								addFinding("harness:c15:"+sc.Kind, fmt.Sprintf("the scheduler could not impose a schedule on the real requests (%s): %s", sc.Kind, r.Err), c15Replay(sc, r))
								continue
							}
							ctx.Meta.Dist[fmt.Sprintf("%s/rotation=%v/%s/k=%d/successes=%d", sc.Kind, sc.Rotation, flavour, pl.k, r.successes())]++
							// the monitor, on the implementation's observations alone
							if r.Follow {
								ctx.Meta.Dist[fmt.Sprintf("%s/%s/k=%d/end-to-end-token-responses=%d", sc.Kind, flavour, pl.k, r.e2eTokens())]++
							}
							// END TO END: more than one token response out of one request_uri (each racing request kept a
							// redeemable code / a live callback id of its own)
							if sc.OneTime && r.Follow && r.e2eTokens() >= 2 {
								addFinding("race:"+sc.SigKind+":several-token-responses",
									fmt.Sprintf("%d TOKEN RESPONSES out of one %s: after %d racing /authorize requests (rotation=%v, storage=%s, schedule %v, %d of them succeeded) every code / callback id handed out was redeemed / continued (reverse order: %v) and %v of them ended in tokens - on the unchanged flow the racing requests save under the pushed session's id, later saves overwrite earlier ones and at most one code stays redeemable",
										r.e2eTokens(), sc.Kind, pl.k, sc.Rotation, flavour, r.Sched, r.successes(), r.Rev, r.E2E), c15Replay(sc, r))
							}
							if sc.OneTime && r.successes() >= 2 {
								sig := c15Signature(sc, r)
								what := fmt.Sprintf("%d of %d racing requests presenting one %s succeeded (rotation=%v, storage=%s, schedule %v: %d lookups scheduled before the first consume at the flow's call positions, %d observed)",
									r.successes(), pl.k, sc.Kind, sc.Rotation, flavour, r.Sched, r.Window, r.ObsWindow)
								if r.strict() && sc.Consume == KADel {
									what += "; the storage is STRICT (its Delete reports an error when nothing was deleted): only one of the deletes succeeded, a request whose delete failed was answered with tokens all the same"
								}
								if sc.RespType != "" {
									tk, cd, gr := c15Artifacts(r)
									what += fmt.Sprintf("; the authorization endpoint handed out %d access tokens and %d codes, %d grant sessions were saved", tk, cd, gr)
								}
								addFinding(sig, what, c15Replay(sc, r))
							}
							if flavour != "alias" {
								good = append(good, *r)
								key := fmt.Sprintf("%s/%s/%v/%d/%v/%v/%v", sc.Kind, flavour, sc.Rotation, pl.k, r.OK, r.Logs, r.E2E)
								if r.successes() > 0 && r.successes() < pl.k {
									distinct[key] = true
								}
							}
						}
						if flavour == "alias" || len(good) == 0 {
							continue
						}
						// groups of at most 300 schedules per definition
						for lo := 0; lo < len(good); lo += 300 {
							hi := lo + 300
							if hi > len(good) {
								hi = len(good)
							}
							g := &c15Group{sc: sc, k: pl.k, exhaustive: pl.exhaustive && lo == 0 && hi == len(good) && len(good) == len(pl.scheds) && len(scheds) == len(pl.scheds), runs: good[lo:hi]}
							groups = append(groups, g)
							for i := range g.runs {
								r := &g.runs[i]
								ops := append([]Op{}, sc.Prefix...)
								obs := append([]Obs{}, r.PrefixObs...)
								for j := 0; j < pl.k; j++ {
									ops = append(ops, r.RaceOp)
									obs = append(obs, r.Obs[j])
								}
								for j := range obs {
									obs[j].Raw = truncate(obs[j].Raw, 60)
								}
								jcases = append(jcases, map[string]any{"Note": fmt.Sprintf("%s rotation=%v storage=%s k=%d schedule=%v succeeded=%v end-to-end=%v", sc.Kind, sc.Rotation, flavour, pl.k, r.Sched, r.OK, r.E2E),
									"Spec": r.Spec, "Ops": ops, "Obs": obs, "Race": c15Replay(sc, r)})
							}
						}
					}
				}
			}
		}
		// case files: groups packed into files of about 300 schedules
		var cur []*c15Group
		curN, fileNo, total := 0, 0, 0
		flush := func() {
			if len(cur) == 0 {
				return
			}
			var b strings.Builder
			b.WriteString(c15Header)
			var names []string
			for i, g := range cur {
				name := fmt.Sprintf("g_%d", i)
				b.WriteString(g.coq(name))
				names = append(names, "check_race_group_x "+name)
			}
			fmt.Fprintf(&b, "Definition corr := Eval vm_compute in (%s)%%list.\nPrint corr.\n", strings.Join(names, " ++ "))
			name := fmt.Sprintf("cases_%03d.v", fileNo)
			if err := os.WriteFile(filepath.Join(ctx.Out, name), []byte(b.String()), 0o644); err != nil {
				panic(err)
			}
			ctx.Meta.Files = append(ctx.Meta.Files, name)
			fileNo++
			cur, curN = nil, 0
		}
		for _, g := range groups {
			if curN > 0 && curN+len(g.runs) > 320 {
				flush()
			}
			cur = append(cur, g)
			curN += len(g.runs)
			total += len(g.runs)
		}
		flush()
		b, _ := json.Marshal(jcases)
		_ = os.WriteFile(filepath.Join(ctx.Out, "cases.json"), b, 0o644)
		ctx.Meta.Cases = total
		ctx.Meta.Ops = total
		ctx.Meta.Distinct = len(distinct)
		ctx.Meta.Rule = "one case = one schedule imposed on k real concurrent requests presenting one credential, on the copy storage and on the STRICT storage (Delete of something absent is an error), followed for racing /authorize requests by the redemption / continuation of every code / callback id handed out (token responses per request_uri counted) (5 scenarios x rotation on/off + the pushed request_uri with each of the 7 response types - implicit and hybrid ones: access token, ID token and grant session issued by the authorization endpoint - quick: one rotation setting each; quick: every interleaving of 2 requests + 24 random interleavings of 3; thorough: every interleaving of 3, sampled to 5000); distinct by (scenario, k, who succeeded, call sequences); non-trivial = at least one request accepted and one refused"
		var sigs []string
		for s := range findings {
			sigs = append(sigs, s)
		}
		sort.Strings(sigs)
		for _, s := range sigs {
			ctx.Meta.Findings = append(ctx.Meta.Findings, findings[s])
		}
		for i := 0; i < len(jcases) && len(ctx.Meta.Samples) < 2; i += 37 {
			ctx.Meta.Samples = append(ctx.Meta.Samples, map[string]any{"note": jcases[i]["Note"], "race": jcases[i]["Race"]})
		}
		ctx.Meta.Extra = map[string]any{"schedules_not_imposed": harnessErrs, "storage_flavours_compared_with_model": []string{"copy", "strict"}, "storage_flavours_monitored": []string{"copy", "strict", "alias"}}
	}})

	replayers["c15"] = func(path string) int {
		b, err := os.ReadFile(path)
		if err != nil {
			fmt.Fprintln(os.Stderr, err)
			return 2
		}
		var rp struct {
			Replay *struct {
				Kind     string `json:"kind"`
				Rotation bool   `json:"rotation"`
				Flavour  string `json:"flavour"`
				Requests int    `json:"requests"`
				Schedule []int  `json:"schedule"`
				Rev      bool   `json:"follow_ups_reversed"`
				Verdicts []string `json:"verdicts"`
			} `json:"replay"`
			Race *struct {
				Kind     string `json:"kind"`
				Rotation bool   `json:"rotation"`
				Flavour  string `json:"flavour"`
				Requests int    `json:"requests"`
				Schedule []int  `json:"schedule"`
				Rev      bool   `json:"follow_ups_reversed"`
				Verdicts []string `json:"verdicts"`
			} `json:"Race"`
			Kind     string `json:"kind"`
			Rotation bool   `json:"rotation"`
			Flavour  string `json:"flavour"`
			Requests int    `json:"requests"`
			Schedule []int  `json:"schedule"`
			Rev      bool   `json:"follow_ups_reversed"`
			Verdicts []string `json:"verdicts"`
		}
		if err := json.Unmarshal(b, &rp); err != nil {
			fmt.Fprintln(os.Stderr, err)
			return 2
		}
		kind, rot, fl, k, sched, rev, verdicts := rp.Kind, rp.Rotation, rp.Flavour, rp.Requests, rp.Schedule, rp.Rev, rp.Verdicts
		if rp.Replay != nil {
			kind, rot, fl, k, sched, rev, verdicts = rp.Replay.Kind, rp.Replay.Rotation, rp.Replay.Flavour, rp.Replay.Requests, rp.Replay.Schedule, rp.Replay.Rev, rp.Replay.Verdicts
		} else if rp.Race != nil {
			kind, rot, fl, k, sched, rev, verdicts = rp.Race.Kind, rp.Race.Rotation, rp.Race.Flavour, rp.Race.Requests, rp.Race.Schedule, rp.Race.Rev, rp.Race.Verdicts
		}
		for _, sc := range append(c15Scenarios(rot), c15UriScenarios(rot)...) {
			if sc.Kind != kind {
				continue
			}
			if len(verdicts) == k && k > 0 {
				sc.Verdicts = verdicts
			}
			r := c15Execute(sc, fl, k, sched, rev)
			r.Window = c15WindowCount(sched, k, sc.L, sc.C)
			r.ObsWindow = c15ObservedWindow(r.Trace, k, sc.Lookup, sc.Consume)
			m := c15Replay(sc, &r)
			delete(m, "Spec")
			delete(m, "Ops")
			out, _ := json.MarshalIndent(m, "", " ")
			fmt.Println(string(out))
			if r.Err != "" {
				fmt.Println("error:", r.Err)
			}
			return 0
		}
		fmt.Fprintln(os.Stderr, "c15 replay: unknown kind", kind)
		return 2
	}
}
