package main

// Suite c14 — storage failures and crashes fail closed.
// For every flow of DESIGN.md Appendix A: the request is served by the REAL provider through the
// fault-injecting storage decorator with an error (or a not-found on reads) injected at every
// storage-call position, singly and in PAIRS (a second fault at every later position the singly-faulted run
// reaches and at two positions beyond its last call), and is aborted before every
// position (crash), after which a FRESH provider instance over the same stores is asked again for
// every credential.  Recorded per run: the answer, the decorator's call log, the store afterwards
// and the answers after the restart.  Corr/C14.v runs the model on the same pre-history and plan
// (run_from, then run_fault_log / run_prefix_log) and compares; mon_C14 reads the C14 clauses off
// the implementation's observations alone.

import (
	"encoding/json"
	"fmt"
	"io"
	"net/http"
	"net/http/httptest"
	"os"
	"path/filepath"
	"sort"
	"strings"
	"sync"

	"github.com/luikyv/go-oidc/pkg/goidc"
)

// ---- Gallina printers ----
var c14KindCoq = []string{"KCGet", "KCSave", "KCDel", "KASave", "KAGet", "KADel", "KGSave", "KGGet", "KGDel", "KGDelByCode"}
var c14FaultCoq = []string{"FNone", "FErr", "FMiss"}

type c14Fault struct {
	Pos int
	F   Fault
}
type c14SnapA struct{ Client, Par, Cb, Ciba, Code Handle }
type c14SnapG struct{ Client, Token, Refresh, Code Handle }

type c14Case struct {
	Base    Case
	Op      Op
	Plan    []c14Fault
	Crash   int // -1: no crash
	Obs     *Obs
	Log     []CallKind
	Sess    []c14SnapA
	Grants  []c14SnapG
	Post    []Op
	PostObs []Obs
	Note    string
	Flow    string
	// the embedder's page had been written before the failed session save
	PageFirst bool
}

func c14Plan(p []c14Fault) string {
	return cList(p, func(f c14Fault) string { return fmt.Sprintf("(%d%%nat, %s)", f.Pos, c14FaultCoq[f.F]) })
}
func c14Log(l []CallKind) string {
	return cList(l, func(k CallKind) string { return c14KindCoq[k] })
}
func c14Crash(k int) string {
	if k < 0 {
		return "None"
	}
	return fmt.Sprintf("(Some %d%%nat)", k)
}

func (c c14Case) coq() string {
	obs := "None"
	if c.Obs != nil {
		obs = "(Some (" + c.Obs.coq() + "))"
	}
	var b strings.Builder
	fmt.Fprintf(&b, "(mkFC\n %s\n (%s)\n %s %s\n %s\n %s\n %s\n %s\n [", c.Base.coq(), c.Op.coq(), c14Plan(c.Plan), c14Crash(c.Crash), obs, c14Log(c.Log),
		cList(c.Sess, func(s c14SnapA) string {
			return fmt.Sprintf("mkSnapA %s %s %s %s %s", cN(s.Client), cN(s.Par), cN(s.Cb), cN(s.Ciba), cN(s.Code))
		}),
		cList(c.Grants, func(g c14SnapG) string {
			return fmt.Sprintf("mkSnapG %s %s %s %s", cN(g.Client), cN(g.Token), cN(g.Refresh), cN(g.Code))
		}))
	for i, o := range c.Post {
		if i > 0 {
			b.WriteString(";\n  ")
		}
		b.WriteString(o.coq())
	}
	b.WriteString("]\n [")
	for i, o := range c.PostObs {
		if i > 0 {
			b.WriteString(";\n  ")
		}
		b.WriteString(o.coq())
	}
	b.WriteString("])")
	return b.String()
}

// ---- worlds ----
func c14Spec(dyn, rotation bool) WorldSpec {
	opts := []Opt{
		{Name: "WithScopes", Scopes: serverScopes},
		{Name: "WithAuthorizationCodeGrant"}, {Name: "WithImplicitGrant"}, {Name: "WithClientCredentialsGrant"},
		{Name: "WithRefreshTokenGrant", Z: 600}, {Name: "WithCIBAGrant"}, {Name: "WithPAR", Z: 60},
		{Name: "WithTokenIntrospection"}, {Name: "WithTokenRevocation"}, {Name: "WithTokenLifetime", Z: 300},
		{Name: "WithJWTBearerGrant"},
	}
	if rotation {
		opts = append(opts, Opt{Name: "WithRefreshTokenRotation"})
	}
	clients := append(baseClients(nil), cibaClients()...)
	spec := WorldSpec{Profile: "openid", Opts: opts, Flavour: "copy"}
	if dyn {
		spec.Dyn = clients
	} else {
		spec.Static = clients
	}
	return spec
}

// ---- scenarios ----
type c14Scn struct {
	Name string
	Spec WorldSpec
	Pre  []Op
	Tgt  Op
	Post []Op
}

// c14Builder runs the pre-history once, fault free, to learn the handles later operations present.
type c14Builder struct {
	w   *World
	pre []Op
}

func (b *c14Builder) do(o Op) Obs {
	b.w.step = len(b.pre)
	x := b.w.Exec(o)
	b.pre = append(b.pre, o)
	return x
}

func c14OK(id int) Cred { return Cred{ID: id, OK: true} }

func c14AtKind(jwt bool) int {
	if jwt {
		return KAtJwt
	}
	return KAtOpaque
}

func c14Scenarios(dyn, rotation bool, cl int) []c14Scn {
	// cl: the interactive client (1: opaque tokens, 2: JWT tokens)
	jwt := cl == 2
	redirect := fmt.Sprintf("https://c%d.example/cb", cl)
	spec := c14Spec(dyn, rotation)
	var out []c14Scn
	add := func(name string, build func(b *c14Builder) (Op, []Op)) {
		w, err := NewWorld(spec)
		if err != nil {
			panic(err)
		}
		b := &c14Builder{w: w}
		tgt, post := build(b)
		out = append(out, c14Scn{Name: name, Spec: spec, Pre: b.pre, Tgt: tgt, Post: post})
	}
	pCode := Params{Redirect: redirect, RespType: "code", Scopes: "openid email", State: "st-1", Nonce: "n-1"}
	success := Pol{Kind: "PolSuccess", Sub: "alice", Granted: "openid email"}
	authorize := func(p Params, pol Pol) Op {
		return Op{Kind: "Authorize", Client: cl, Params: p, PolicyAvail: true, Pol: pol}
	}
	tokenCode := func(code Handle) Op {
		return Op{Kind: "Token", Grant: "authorization_code", Cred: c14OK(cl), Code: code, Redirect: redirect, HG: "HgOk", BA: "BaApprove"}
	}
	intro := func(h Handle) Op {
		return Op{Kind: "Introspect", Cred: c14OK(cl), Tok: PTok{Kind: "PExact", H: h}, Allowed: true}
	}
	// the handles operation n mints
	at := func(n int) Handle { return mint(n, c14AtKind(jwt)) }
	rt := func(n int) Handle { return mint(n, KRefresh) }

	add("token/authorization_code", func(b *c14Builder) (Op, []Op) {
		nav := b.do(authorize(pCode, success))
		t := tokenCode(nav.NCode)
		return t, []Op{t, intro(at(1)), intro(rt(1))}
	})
	add("token/authorization_code-replay", func(b *c14Builder) (Op, []Op) {
		nav := b.do(authorize(pCode, success))
		t := tokenCode(nav.NCode)
		b.do(t)
		return t, []Op{t, intro(at(1)), intro(rt(1))}
	})
	add("token/refresh_token", func(b *c14Builder) (Op, []Op) {
		nav := b.do(authorize(pCode, success))
		tk := b.do(tokenCode(nav.NCode))
		t := Op{Kind: "Token", Grant: "refresh_token", Cred: c14OK(cl), Refresh: tk.Rt, HG: "HgOk", BA: "BaApprove"}
		return t, []Op{t, intro(at(1)), intro(at(2)), intro(rt(1)), intro(rt(2))}
	})
	add("token/refresh_token-expired", func(b *c14Builder) (Op, []Op) {
		nav := b.do(authorize(pCode, success))
		tk := b.do(tokenCode(nav.NCode))
		b.do(Op{Kind: "Tick", D: 700})
		t := Op{Kind: "Token", Grant: "refresh_token", Cred: c14OK(cl), Refresh: tk.Rt, HG: "HgOk", BA: "BaApprove"}
		return t, []Op{t, intro(rt(1))}
	})
	add("token/client_credentials", func(b *c14Builder) (Op, []Op) {
		t := Op{Kind: "Token", Grant: "client_credentials", Cred: c14OK(cl), Scope: "email", HG: "HgOk", BA: "BaApprove"}
		return t, []Op{intro(at(0))}
	})
	// jwt-bearer (c2 is registered for it and for refresh_token; a request that names nobody is served for the
	// anonymous client and makes no client lookup at all)
	add("token/jwt-bearer", func(b *c14Builder) (Op, []Op) {
		t := Op{Kind: "Token", Grant: jwtBearerGrant, Cred: c14OK(2), Scope: "openid email", Assertion: "ok:alice", HG: "HgOk", BA: "BaApprove"}
		return t, []Op{Op{Kind: "Introspect", Cred: c14OK(cl), Tok: PTok{Kind: "PExact", H: mint(0, KAtJwt)}, Allowed: true},
			Op{Kind: "Introspect", Cred: c14OK(cl), Tok: PTok{Kind: "PExact", H: rt(0)}, Allowed: true}}
	})
	add("token/jwt-bearer-anonymous", func(b *c14Builder) (Op, []Op) {
		t := Op{Kind: "Token", Grant: jwtBearerGrant, Scope: "openid admin", Assertion: "ok:alice", HG: "HgOk", BA: "BaApprove"}
		return t, []Op{Op{Kind: "Introspect", Cred: c14OK(cl), Tok: PTok{Kind: "PExact", H: mint(0, KAtOpaque)}, Allowed: true}}
	})
	for _, ba := range []string{"BaApprove", "BaDeny", "BaPending"} {
		ba := ba
		add("token/ciba-"+ba, func(b *c14Builder) (Op, []Op) {
			bc := b.do(Op{Kind: "BcAuthorize", Cred: c14OK(5), Params: Params{Scopes: "openid email", LoginHint: "alice"}, InitOK: true, Sub: "alice", Granted: "openid email"})
			t := Op{Kind: "Token", Grant: "urn:openid:params:grant-type:ciba", Cred: c14OK(5), AuthReq: bc.H, HG: "HgOk", BA: ba}
			t2 := t
			t2.BA = "BaApprove"
			return t, []Op{t2, Op{Kind: "Introspect", Cred: c14OK(5), Tok: PTok{Kind: "PExact", H: mint(1, KAtOpaque)}, Allowed: true}}
		})
	}
	add("introspect/access_token", func(b *c14Builder) (Op, []Op) {
		tk := b.do(Op{Kind: "Token", Grant: "client_credentials", Cred: c14OK(cl), Scope: "email", HG: "HgOk", BA: "BaApprove"})
		return intro(tk.At), []Op{intro(tk.At)}
	})
	add("introspect/refresh_token", func(b *c14Builder) (Op, []Op) {
		nav := b.do(authorize(pCode, success))
		tk := b.do(tokenCode(nav.NCode))
		return intro(tk.Rt), []Op{intro(tk.Rt)}
	})
	add("revoke/access_token", func(b *c14Builder) (Op, []Op) {
		tk := b.do(Op{Kind: "Token", Grant: "client_credentials", Cred: c14OK(cl), Scope: "email", HG: "HgOk", BA: "BaApprove"})
		return Op{Kind: "Revoke", Cred: c14OK(cl), Tok: PTok{Kind: "PExact", H: tk.At}, Allowed: true}, []Op{intro(tk.At)}
	})
	add("revoke/refresh_token", func(b *c14Builder) (Op, []Op) {
		nav := b.do(authorize(pCode, success))
		tk := b.do(tokenCode(nav.NCode))
		return Op{Kind: "Revoke", Cred: c14OK(cl), Tok: PTok{Kind: "PExact", H: tk.Rt}, Allowed: true}, []Op{intro(tk.At), intro(tk.Rt)}
	})
	add("userinfo", func(b *c14Builder) (Op, []Op) {
		nav := b.do(authorize(pCode, success))
		tk := b.do(tokenCode(nav.NCode))
		u := Op{Kind: "UserInfo", Tok: PTok{Kind: "PExact", H: tk.At}, HasHeader: true}
		return u, []Op{u}
	})
	add("par", func(b *c14Builder) (Op, []Op) {
		p := Op{Kind: "Par", Cred: c14OK(cl), Params: pCode}
		return p, []Op{authorize(Params{RequestURI: mint(0, KParUri)}, success)}
	})
	add("authorize/code", func(b *c14Builder) (Op, []Op) {
		return authorize(pCode, success), []Op{tokenCode(mint(0, KCode))}
	})
	if cl == 1 {
		pTok := pCode
		pTok.RespType = "token"
		add("authorize/implicit-token", func(b *c14Builder) (Op, []Op) {
			return authorize(pTok, success), []Op{intro(at(0))}
		})
		pHy := pCode
		pHy.RespType = "code token"
		add("authorize/code-token", func(b *c14Builder) (Op, []Op) {
			return authorize(pHy, success), []Op{tokenCode(mint(0, KCode)), intro(at(0))}
		})
	}
	add("authorize/in-progress", func(b *c14Builder) (Op, []Op) {
		return authorize(pCode, Pol{Kind: "PolInProgress"}), []Op{{Kind: "Callback", Cb: mint(0, KCallback), Pol: success}}
	})
	add("authorize/failure", func(b *c14Builder) (Op, []Op) {
		return authorize(pCode, Pol{Kind: "PolFail"}), []Op{authorize(pCode, Pol{Kind: "PolFail"})}
	})
	add("authorize/par", func(b *c14Builder) (Op, []Op) {
		pr := b.do(Op{Kind: "Par", Cred: c14OK(cl), Params: pCode})
		a := authorize(Params{RequestURI: pr.H}, success)
		return a, []Op{a, tokenCode(mint(1, KCode))}
	})
	add("authorize/par-refused", func(b *c14Builder) (Op, []Op) {
		pr := b.do(Op{Kind: "Par", Cred: c14OK(cl), Params: pCode})
		a := Op{Kind: "Authorize", Client: 3, Params: Params{RequestURI: pr.H}, PolicyAvail: true, Pol: success}
		return a, []Op{authorize(Params{RequestURI: pr.H}, success)}
	})
	add("callback/code", func(b *c14Builder) (Op, []Op) {
		pg := b.do(authorize(pCode, Pol{Kind: "PolInProgress"}))
		c := Op{Kind: "Callback", Cb: pg.H, Pol: success}
		return c, []Op{c, tokenCode(mint(1, KCode))}
	})
	if cl == 1 {
		pIT := pCode
		pIT.RespType = "id_token token"
		add("callback/implicit-token", func(b *c14Builder) (Op, []Op) {
			pg := b.do(authorize(pIT, Pol{Kind: "PolInProgress"}))
			c := Op{Kind: "Callback", Cb: pg.H, Pol: success}
			return c, []Op{c, intro(at(1))}
		})
	}
	add("callback/in-progress", func(b *c14Builder) (Op, []Op) {
		pg := b.do(authorize(pCode, Pol{Kind: "PolInProgress"}))
		return Op{Kind: "Callback", Cb: pg.H, Pol: Pol{Kind: "PolInProgress"}}, []Op{{Kind: "Callback", Cb: pg.H, Pol: success}}
	})
	add("callback/failure", func(b *c14Builder) (Op, []Op) {
		pg := b.do(authorize(pCode, Pol{Kind: "PolInProgress"}))
		c := Op{Kind: "Callback", Cb: pg.H, Pol: Pol{Kind: "PolFail"}}
		return c, []Op{{Kind: "Callback", Cb: pg.H, Pol: success}}
	})
	add("bc-authorize", func(b *c14Builder) (Op, []Op) {
		bc := Op{Kind: "BcAuthorize", Cred: c14OK(5), Params: Params{Scopes: "openid email", LoginHint: "alice"}, InitOK: true, Sub: "alice", Granted: "openid email"}
		return bc, []Op{{Kind: "Token", Grant: "urn:openid:params:grant-type:ciba", Cred: c14OK(5), AuthReq: mint(0, KAuthReq), HG: "HgOk", BA: "BaApprove"}}
	})
	for _, c := range []int{7, 6, 5} {
		c := c
		mode := map[int]string{7: "push", 6: "ping", 5: "poll"}[c]
		p := Params{Scopes: "openid email", LoginHint: "alice"}
		if c != 5 {
			p.NotifToken = unknownBase + 5000
		}
		add("notify-success/"+mode, func(b *c14Builder) (Op, []Op) {
			bc := b.do(Op{Kind: "BcAuthorize", Cred: c14OK(c), Params: p, InitOK: true, Sub: "alice", Granted: "openid email"})
			n := Op{Kind: "NotifyOk", AuthReq: bc.H, HG: "HgOk"}
			return n, []Op{n}
		})
		if c != 5 {
			add("notify-failure/"+mode, func(b *c14Builder) (Op, []Op) {
				bc := b.do(Op{Kind: "BcAuthorize", Cred: c14OK(c), Params: p, InitOK: true, Sub: "alice", Granted: "openid email"})
				return Op{Kind: "NotifyFail", AuthReq: bc.H}, []Op{{Kind: "NotifyOk", AuthReq: bc.H, HG: "HgOk"}}
			})
		}
	}
	return out
}

// ---- running one variant ----
func (w *World) c14TokenHandle(tokenID string) Handle {
	if h, ok := w.str2h[tokenID]; ok {
		return h
	}
	// the jti of a JWT access token the world has seen
	for s, h := range w.str2h {
		if strings.Count(s, ".") == 2 && jwtClaim(s, "jti") == tokenID {
			jh := h - KAtJwt + KJti
			w.name(tokenID, jh)
			return jh
		}
	}
	if len(tokenID) == 36 && strings.Count(tokenID, "-") == 4 {
		return w.handleOf(tokenID, KJti)
	}
	return w.handleOf(tokenID, KAtOpaque)
}

func (w *World) c14Snapshot() ([]c14SnapA, []c14SnapG) {
	var as []c14SnapA
	var gs []c14SnapG
	ss := w.Stores.AuthnSessions()
	sort.Slice(ss, func(i, j int) bool { return ss[i].ID < ss[j].ID })
	for _, s := range ss {
		as = append(as, c14SnapA{Client: Handle(clientNum(s.ClientID)), Par: w.handleOf(s.PushedAuthReqID, KParUri), Cb: w.handleOf(s.CallbackID, KCallback),
			Ciba: w.handleOf(s.CIBAAuthID, KAuthReq), Code: w.handleOf(s.AuthCode, KCode)})
	}
	gg := w.Stores.GrantSessions()
	sort.Slice(gg, func(i, j int) bool { return gg[i].ID < gg[j].ID })
	for _, g := range gg {
		gs = append(gs, c14SnapG{Client: Handle(clientNum(g.ClientID)), Token: w.c14TokenHandle(g.TokenID), Refresh: w.handleOf(g.RefreshToken, KRefresh),
			Code: w.handleOf(g.AuthorizationCode, KCode)})
	}
	return as, gs
}

// execFaulty serves one operation under a plan / crash point; crashed = the decorator aborted it
func (w *World) c14ExecFaulty(o Op, plan []c14Fault, crashAt int) (obs *Obs, crashed bool) {
	m := map[int]Fault{}
	for _, f := range plan {
		m[f.Pos] = f.F
	}
	w.Stores.BeginRequest(m, crashAt)
	defer func() {
		if r := recover(); r != nil {
			if _, ok := r.(crashSentinel); ok {
				obs, crashed = nil, true
				return
			}
			panic(r)
		}
	}()
	x := w.ExecWith(o)
	return &x, false
}

// The embedder's Authenticate function writes the interactive page itself and only then does the
// library save the session.  When that save fails the library answers an error, but the page is
// already on the wire: the body is the page followed by the error document.  The library's answer
// (the error) is what the model speaks about; the page that went out first is reported as a finding.
func c14PageThenError(x *Obs) (string, bool) {
	if x == nil || x.Kind != "Page" {
		return "", false
	}
	i := strings.Index(x.Raw, `{"error"`)
	if i < 0 {
		return "", false
	}
	var m map[string]any
	if json.Unmarshal([]byte(x.Raw[i:]), &m) != nil {
		return "", false
	}
	e, _ := m["error"].(string)
	return e, true
}

func c14Run(sc c14Scn, plan []c14Fault, crashAt int, note string) c14Case {
	if jwtbSpecHasGrant(sc.Spec) {
		// worlds with the jwt-bearer grant share the package-level anonymous client of internal/token, which
		// NewWorld puts back into its start-of-process state (jwtb_anon.go): one such world at a time
		jwtbWorldMu.Lock()
		defer jwtbWorldMu.Unlock()
	}
	w, err := NewWorld(sc.Spec)
	if err != nil {
		panic(err)
	}
	base := Case{Profile: sc.Spec.Profile, Opts: sc.Spec.Opts, Static: sc.Spec.Static, Dyn: sc.Spec.Dyn, Note: note}
	for i, o := range sc.Pre {
		w.step = i
		base.Ops = append(base.Ops, o)
		base.Obs = append(base.Obs, w.Exec(o))
	}
	w.step = len(sc.Pre)
	obs, _ := w.c14ExecFaulty(sc.Tgt, plan, crashAt)
	pageFirst := false
	if e, ok := c14PageThenError(obs); ok {
		obs = &Obs{Kind: "Err", Err: ecode(e), Status: obs.Status, Raw: obs.Raw}
		pageFirst = true
	}
	log := w.Stores.Log()
	w.Stores.BeginRequest(nil, -1)
	sess, grants := w.c14Snapshot()
	// restart: a fresh provider instance over the same stores
	p, err := w.newProvider()
	if err != nil {
		panic(err)
	}
	w.prov = p
	c := c14Case{Base: base, Op: sc.Tgt, Plan: plan, Crash: crashAt, Obs: obs, Log: log, Sess: sess, Grants: grants, Note: note, Flow: sc.Name, PageFirst: pageFirst}
	for j, o := range sc.Post {
		w.step = len(sc.Pre) + 1 + j
		c.Post = append(c.Post, o)
		c.PostObs = append(c.PostObs, w.Exec(o))
	}
	return c
}

// c14Parallel: f(0..n-1) on eight goroutines, results in index order
func c14Parallel[T any](n int, f func(i int) T) []T {
	out := make([]T, n)
	var wg sync.WaitGroup
	sem := make(chan struct{}, 8)
	var pmu sync.Mutex
	var pnc any
	for i := 0; i < n; i++ {
		wg.Add(1)
		sem <- struct{}{}
		go func(i int) {
			defer wg.Done()
			defer func() { <-sem }()
			defer func() {
				if r := recover(); r != nil {
					pmu.Lock()
					pnc = r
					pmu.Unlock()
				}
			}()
			out[i] = f(i)
		}(i)
	}
	wg.Wait()
	if pnc != nil {
		panic(pnc)
	}
	return out
}

func c14FaultsAt(pos int, k CallKind) []c14Fault {
	fs := []c14Fault{{pos, FErr}}
	if k.isRead() {
		fs = append(fs, c14Fault{pos, FMiss})
	}
	return fs
}

// ---- DCR ----
type c14DcrCase struct {
	Pre    []Handle
	N      int
	OpKind string // Create Update Read Delete
	Cid    Handle
	TokOK  bool
	Valid  bool
	Secret bool
	Rotate bool
	Plan   []c14Fault
	Crash  int
	Obs    *c14DcrObs
	Log    []CallKind
	Post   []Handle
	Note   string
}
type c14DcrObs struct {
	Kind             string // Err Doc Deleted
	Created          bool
	Cid, Secret, Tok Handle
	Status           int
}

func (c c14DcrCase) coq() string {
	op := map[string]string{"Create": "DfCreate", "Update": "DfUpdate", "Read": "DfRead", "Delete": "DfDelete"}[c.OpKind]
	obs := "None"
	if c.Obs != nil {
		switch c.Obs.Kind {
		case "Err":
			obs = "(Some DfErr)"
		case "Deleted":
			obs = "(Some DfDeleted)"
		default:
			obs = fmt.Sprintf("(Some (DfDoc %s %s %s %s))", cB(c.Obs.Created), cN(c.Obs.Cid), cN(c.Obs.Secret), cN(c.Obs.Tok))
		}
	}
	return fmt.Sprintf("(mkDC [] %s %d%%nat (%s (mkDfReq %s %s %s %s %s)) %s %s %s %s %s)", cList(c.Pre, cN), c.N, op,
		cN(c.Cid), cB(c.TokOK), cB(c.Valid), cB(c.Secret), cB(c.Rotate), c14Plan(c.Plan), c14Crash(c.Crash), obs, c14Log(c.Log), cList(c.Post, cN))
}

const c14GoodDoc = `{"redirect_uris":["https://a.example/cb"],"grant_types":["client_credentials"],"token_endpoint_auth_method":"client_secret_post","scope":"openid"}`
const c14BadDoc = `{"redirect_uris":["https://a.example/cb"],"grant_types":["password"],"token_endpoint_auth_method":"client_secret_post"}`

func c14DcrServe(w *c12World, method, path, bearer, body string) (status int, m map[string]any, crashed bool) {
	var rd io.Reader
	if body != "" {
		rd = strings.NewReader(body)
	}
	req := httptest.NewRequest(method, path, rd)
	if body != "" {
		req.Header.Set("Content-Type", "application/json")
	}
	if bearer != "" {
		req.Header.Set("Authorization", "Bearer "+bearer)
	}
	rec := httptest.NewRecorder()
	func() {
		defer func() {
			if r := recover(); r != nil {
				if _, ok := r.(crashSentinel); ok {
					crashed = true
					return
				}
				panic(r)
			}
		}()
		w.handler.ServeHTTP(rec, req)
	}()
	if crashed {
		return 0, nil, true
	}
	_ = json.Unmarshal(rec.Body.Bytes(), &m)
	return rec.Code, m, false
}

// one DCR variant: a client is registered fault free (operation 0), then the target operation 1
func c14DcrRun(rotation bool, kind string, tokOK, valid bool, plan []c14Fault, crashAt int, note string) c14DcrCase {
	w, err := newC12World(c12Srv{Rotation: rotation, Grants: []string{gCC}, AuthMethods: []string{"client_secret_post"}, Scopes: []string{"openid"}, IdtSigAlgs: []string{"ES256"}}, "copy")
	if err != nil {
		panic(err)
	}
	c := c14DcrCase{OpKind: kind, TokOK: tokOK, Valid: valid, Secret: true, Rotate: rotation, Plan: plan, Crash: crashAt, Note: note}
	name := func(s string, kind int, step int) Handle {
		if s == "" {
			return 0
		}
		if h, ok := w.str2h[s]; ok {
			return h
		}
		h := mint(step, kind)
		w.name(s, h)
		return h
	}
	ids := func(step int) []Handle {
		var hs []Handle
		for _, id := range w.clientIDs() {
			hs = append(hs, name(id, KClientId, step))
		}
		return hs
	}
	var cid, tok string
	if kind != "Create" {
		w.stores.BeginRequest(nil, -1)
		st, m, _ := c14DcrServe(w, "POST", "/register", "", c14GoodDoc)
		if st != 201 {
			panic(fmt.Sprintf("c14: DCR create failed: %d %v", st, m))
		}
		cid, _ = m["client_id"].(string)
		tok, _ = m["registration_access_token"].(string)
		name(cid, KClientId, 0)
		name(tok, KRegToken, 0)
		c.N = 1
		c.Cid = w.str2h[cid]
	}
	c.Pre = ids(0)
	m := map[int]Fault{}
	for _, f := range plan {
		m[f.Pos] = f.F
	}
	bearer := tok
	if !tokOK {
		bearer = "wrong-registration-token"
	}
	doc := c14GoodDoc
	if !valid {
		doc = c14BadDoc
	}
	w.stores.BeginRequest(m, crashAt)
	var st int
	var resp map[string]any
	var crashed bool
	switch kind {
	case "Create":
		st, resp, crashed = c14DcrServe(w, "POST", "/register", "", doc)
	case "Update":
		st, resp, crashed = c14DcrServe(w, "PUT", "/register/"+cid, bearer, doc)
	case "Read":
		st, resp, crashed = c14DcrServe(w, "GET", "/register/"+cid, bearer, "")
	case "Delete":
		st, resp, crashed = c14DcrServe(w, "DELETE", "/register/"+cid, bearer, "")
	}
	c.Log = w.stores.Log()
	w.stores.BeginRequest(nil, -1)
	if !crashed {
		o := &c14DcrObs{Status: st}
		switch {
		case st == 204:
			o.Kind = "Deleted"
		case st == 200 || st == 201:
			o.Kind = "Doc"
			o.Created = st == 201
			s := func(k string) string { v, _ := resp[k].(string); return v }
			o.Cid = name(s("client_id"), KClientId, c.N)
			o.Secret = name(s("client_secret"), KSecret, c.N)
			o.Tok = name(s("registration_access_token"), KRegToken, c.N)
		default:
			o.Kind = "Err"
		}
		c.Obs = o
	}
	c.Post = ids(c.N)
	return c
}

// ---- the suite ----
const c14Header = `From Verif Require Import Base Scope Types Prog Pop Token Authorize System Config Run FaultLog DcrFault FaultSpec.
From Verif.Corr Require Import C14.
Local Open Scope N_scope.
`

func c14WriteFiles(ctx *RunCtx, cases []c14Case, dcr []c14DcrCase) {
	per := 60
	nf := 0
	for k := 0; k*per < len(cases); k++ {
		hi := (k + 1) * per
		if hi > len(cases) {
			hi = len(cases)
		}
		var b strings.Builder
		b.WriteString(c14Header)
		var names []string
		for i, cs := range cases[k*per : hi] {
			fmt.Fprintf(&b, "(*CASE %d %s*)\nDefinition c_%d : faultcase :=\n%s.\n", k*per+i, cs.Note, k*per+i, cs.coq())
			names = append(names, fmt.Sprintf("c_%d", k*per+i))
		}
		b.WriteString("(*END*)\nDefinition cases : list faultcase := [" + strings.Join(names, "; ") + "].\n")
		b.WriteString("Definition corr := Eval vm_compute in map (check_fault_case false) cases.\nPrint corr.\n")
		b.WriteString("Definition mon := Eval vm_compute in map mon_C14 cases.\nPrint mon.\n")
		name := fmt.Sprintf("cases_%03d.v", nf)
		nf++
		if err := os.WriteFile(filepath.Join(ctx.Out, name), []byte(b.String()), 0o644); err != nil {
			panic(err)
		}
		ctx.Meta.Files = append(ctx.Meta.Files, name)
	}
	if len(dcr) > 0 {
		var b strings.Builder
		b.WriteString(c14Header)
		var names []string
		for i, cs := range dcr {
			fmt.Fprintf(&b, "(*CASE %d %s*)\nDefinition d_%d : dcrcase :=\n%s.\n", len(cases)+i, cs.Note, i, cs.coq())
			names = append(names, fmt.Sprintf("d_%d", i))
		}
		b.WriteString("(*END*)\nDefinition cases : list dcrcase := [" + strings.Join(names, "; ") + "].\n")
		b.WriteString("Definition corr := Eval vm_compute in map check_dcr_case cases.\nPrint corr.\n")
		b.WriteString("Definition mon := Eval vm_compute in map mon_C14_dcr cases.\nPrint mon.\n")
		name := fmt.Sprintf("cases_%03d.v", nf)
		if err := os.WriteFile(filepath.Join(ctx.Out, name), []byte(b.String()), 0o644); err != nil {
			panic(err)
		}
		ctx.Meta.Files = append(ctx.Meta.Files, name)
	}
	// cases.json, in the order of the case files
	type jc struct {
		Index int
		Note  string
		Spec  any
		Ops   any
		Obs   any
	}
	var all []jc
	for i, cs := range cases {
		ops := append(append([]Op{}, cs.Base.Ops...), cs.Op)
		ops = append(ops, cs.Post...)
		all = append(all, jc{i, cs.Note, map[string]any{"World": WorldSpec{Profile: cs.Base.Profile, Opts: cs.Base.Opts, Static: cs.Base.Static, Dyn: cs.Base.Dyn, Flavour: "copy"},
			"FaultedOpIndex": len(cs.Base.Ops), "Plan": cs.Plan, "CrashBeforeCall": cs.Crash}, ops,
			map[string]any{"Pre": cs.Base.Obs, "Faulted": cs.Obs, "Log": c14Log(cs.Log), "Sessions": cs.Sess, "Grants": cs.Grants, "AfterRestart": cs.PostObs}})
	}
	for i, cs := range dcr {
		all = append(all, jc{len(cases) + i, cs.Note, map[string]any{"DCR": cs.OpKind, "Plan": cs.Plan, "CrashBeforeCall": cs.Crash, "TokenOK": cs.TokOK, "Valid": cs.Valid, "Rotation": cs.Rotate},
			cs.OpKind, map[string]any{"Answer": cs.Obs, "Log": c14Log(cs.Log), "ClientsBefore": cs.Pre, "ClientsAfter": cs.Post}})
	}
	b, _ := json.Marshal(all)
	_ = os.WriteFile(filepath.Join(ctx.Out, "cases.json"), b, 0o644)
}

func init() {
	register(&Suite{Name: "c14", Run: func(ctx *RunCtx) {
		var cases []c14Case
		var dcr []c14DcrCase
		dist := ctx.Meta.Dist
		distinct := map[string]bool{}
		addCase := func(c c14Case) {
			cases = append(cases, c)
			ctx.Meta.CaseNotes = append(ctx.Meta.CaseNotes, c.Note)
			ctx.Meta.Ops += len(c.Base.Ops) + 1 + len(c.Post)
			dist["flow:"+c.Flow]++
			switch {
			case c.Crash >= 0 && c.Obs == nil:
				dist["kind:crash"]++
			case len(c.Plan) == 0:
				dist["kind:fault-free"]++
			case len(c.Plan) == 1:
				dist["kind:single-fault"]++
			default:
				dist["kind:fault-pair"]++
			}
			if c.Obs != nil {
				dist["answer:"+c.Obs.Kind]++
				if c.Obs.Kind == "Err" {
					dist["answer:Err:"+c.Obs.Err]++
				}
			}
			if c.PageFirst {
				ctx.Meta.Findings = append(ctx.Meta.Findings, Finding{Property: "C14", Signature: "authorize:in-progress:page-before-failed-save",
					What: "the interactive page written by the embedder's Authenticate function (status 200, with the callback id) was already sent when SaveAuthnSession failed; the library's internal_error document follows it in the same body (" + c.Note + ")",
					Replay: map[string]any{"World": WorldSpec{Profile: c.Base.Profile, Opts: c.Base.Opts, Static: c.Base.Static, Dyn: c.Base.Dyn, Flavour: "copy"},
						"Ops": append(append([]Op{}, c.Base.Ops...), c.Op), "Plan": c.Plan, "Body": truncate(c.Obs.Raw, 300)}})
			}
			if len(c.Plan) > 0 || c.Crash >= 0 {
				k := c.Flow + "|" + c14Plan(c.Plan) + "|" + c14Crash(c.Crash) + "|" + c14Log(c.Log)
				if c.Obs != nil {
					k += "|" + c.Obs.Kind + c.Obs.Err
				}
				distinct[k] = true
			}
		}
		// configurations: static / dynamic clients (CGet positions exist only for dynamic ones),
		// opaque / JWT tokens, refresh rotation on / off; the seed decides which combinations the
		// quick tier runs, the thorough tier runs all
		type cfg struct {
			dyn, rot bool
			cl       int
		}
		all := []cfg{{false, false, 1}, {true, true, 2}, {true, false, 1}, {false, true, 2}, {false, true, 1}, {true, false, 2}, {true, true, 1}, {false, false, 2}}
		var cfgs []cfg
		if ctx.Quick() {
			i := ctx.R.Intn(4)
			cfgs = []cfg{all[(2*i)%8], all[(2*i+1)%8]}
			// one static and one dynamic configuration, one opaque and one JWT client
		} else {
			cfgs = all
		}
		// every run builds its own world: the runs of one phase are independent and made on several goroutines
		// (results in the order of the jobs; the scenario builders above have warmed the key / hash caches)
		type single struct {
			sc  c14Scn
			tag string
			f   c14Fault
			one c14Case
		}
		for _, cf := range cfgs {
			scs := c14Scenarios(cf.dyn, cf.rot, cf.cl)
			tags := make([]string, len(scs))
			for i, sc := range scs {
				tags[i] = fmt.Sprintf("%s[dyn=%v rot=%v c%d]", sc.Name, cf.dyn, cf.rot, cf.cl)
			}
			bases := c14Parallel(len(scs), func(i int) c14Case { return c14Run(scs[i], nil, -1, tags[i]+" fault-free") })
			// phase 1: single faults at every position, crash before every position
			var jobs []func() c14Case
			var singles []single
			var isSingle []int // job index -> index into singles, -1
			crashToo := make([]bool, len(scs))
			for i, sc := range scs {
				sc, tag, L := sc, tags[i], bases[i].Log
				for pos, k := range L {
					for _, f := range c14FaultsAt(pos, k) {
						f, note := f, fmt.Sprintf("%s fault %s@%d(%s)", tag, c14FaultCoq[f.F], pos, c14KindCoq[k])
						isSingle = append(isSingle, len(singles))
						singles = append(singles, single{sc: sc, tag: tag, f: f})
						jobs = append(jobs, func() c14Case { return c14Run(sc, []c14Fault{f}, -1, note) })
					}
				}
				// crash before every position (position len(L) = after the last call: the request completes)
				for pos := range L {
					pos, note := pos, fmt.Sprintf("%s crash-before-call %d(%s)", tag, pos, c14KindCoq[L[pos]])
					isSingle = append(isSingle, -1)
					jobs = append(jobs, func() c14Case { return c14Run(sc, nil, pos, note) })
				}
				crashToo[i] = !ctx.Quick() || ctx.R.Intn(6) == 0
			}
			res := c14Parallel(len(jobs), func(i int) c14Case { return jobs[i]() })
			scIdx := map[string]int{}
			for i := range scs {
				scIdx[tags[i]] = i
			}
			for i := range scs {
				addCase(bases[i])
			}
			for j, c := range res {
				addCase(c)
				if isSingle[j] >= 0 {
					singles[isSingle[j]].one = c
				}
			}
			// phase 2: PAIRS of faults in one request - for every single fault, a second fault at every LATER position:
			// the positions the singly-faulted run reaches (its error path may perform storage calls the fault-free
			// path does not) and two positions BEYOND its last call, so that a storage call which only a changed error
			// path performs (a re-read after a failed delete ...) is hit as well; error x error, error x not-found,
			// not-found x error (thorough: not-found x not-found too).  Beyond the log the kind of the call is not
			// known: both fault kinds are planned (a not-found planned on a write is no fault, for the decorator and
			// for the model alike).  A pair whose second position is not reached is the singly-faulted run again and
			// is not kept.  Thorough (quick: one scenario in six): a fault followed by a crash.
			jobs = nil
			var second []int
			for _, sg := range singles {
				sg := sg
				oneLog := sg.one.Log
				for pos2 := sg.f.Pos + 1; pos2 < len(oneLog)+2; pos2++ {
					var fs []c14Fault
					if pos2 < len(oneLog) {
						fs = c14FaultsAt(pos2, oneLog[pos2])
					} else {
						fs = []c14Fault{{pos2, FErr}, {pos2, FMiss}}
					}
					for _, f2 := range fs {
						if ctx.Quick() && sg.f.F == FMiss && f2.F == FMiss {
							continue
						}
						f2, note := f2, fmt.Sprintf("%s faults %s@%d %s@%d", sg.tag, c14FaultCoq[sg.f.F], sg.f.Pos, c14FaultCoq[f2.F], pos2)
						second = append(second, pos2)
						jobs = append(jobs, func() c14Case { return c14Run(sg.sc, []c14Fault{sg.f, f2}, -1, note) })
					}
				}
				if crashToo[scIdx[sg.tag]] {
					for pos2 := sg.f.Pos + 1; pos2 < len(oneLog); pos2++ {
						pos2, note := pos2, fmt.Sprintf("%s fault %s@%d then crash-before-call %d", sg.tag, c14FaultCoq[sg.f.F], sg.f.Pos, pos2)
						second = append(second, -1)
						jobs = append(jobs, func() c14Case { return c14Run(sg.sc, []c14Fault{sg.f}, pos2, note) })
					}
				}
			}
			res = c14Parallel(len(jobs), func(i int) c14Case { return jobs[i]() })
			for j, c := range res {
				if second[j] >= 0 && len(c.Log) <= second[j] {
					dist["kind:fault-pair-second-position-not-reached(not kept)"]++
					continue
				}
				addCase(c)
			}
		}
		// DCR: create / update / read / delete, every position, every fault kind, crash points, and PAIRS: a second
		// fault at every later position of the singly-faulted run and two positions beyond it (remove() performs
		// Client, Delete: a plan that names call 2 is inert on the unchanged code and hits the re-read of a remove()
		// that looks the client up again after a failed delete)
		type dcrV struct {
			rot          bool
			kind         string
			tokOK, valid bool
			tag          string
		}
		var dvs []dcrV
		for _, rot := range []bool{false, true} {
			for _, v := range []struct {
				kind         string
				tokOK, valid bool
			}{{"Create", true, true}, {"Create", true, false}, {"Update", true, true}, {"Update", false, true}, {"Update", true, false},
				{"Read", true, true}, {"Read", false, true}, {"Delete", true, true}, {"Delete", false, true}} {
				dvs = append(dvs, dcrV{rot, v.kind, v.tokOK, v.valid, fmt.Sprintf("dcr/%s[rot=%v tok=%v valid=%v]", v.kind, rot, v.tokOK, v.valid)})
			}
		}
		dbases := c14Parallel(len(dvs), func(i int) c14DcrCase {
			v := dvs[i]
			return c14DcrRun(v.rot, v.kind, v.tokOK, v.valid, nil, -1, v.tag+" fault-free")
		})
		type dsingle struct {
			v dcrV
			f c14Fault
		}
		var djobs []func() c14DcrCase
		var dsingles []dsingle
		var dIsSingle []int
		for i, v := range dvs {
			v := v
			for pos, k := range dbases[i].Log {
				for _, f := range c14FaultsAt(pos, k) {
					f, note := f, fmt.Sprintf("%s fault %s@%d(%s)", v.tag, c14FaultCoq[f.F], pos, c14KindCoq[k])
					dIsSingle = append(dIsSingle, len(dsingles))
					dsingles = append(dsingles, dsingle{v, f})
					djobs = append(djobs, func() c14DcrCase { return c14DcrRun(v.rot, v.kind, v.tokOK, v.valid, []c14Fault{f}, -1, note) })
				}
				pos, note := pos, fmt.Sprintf("%s crash-before-call %d", v.tag, pos)
				dIsSingle = append(dIsSingle, -1)
				djobs = append(djobs, func() c14DcrCase { return c14DcrRun(v.rot, v.kind, v.tokOK, v.valid, nil, pos, note) })
			}
		}
		dres := c14Parallel(len(djobs), func(i int) c14DcrCase { return djobs[i]() })
		dcr = append(dcr, dbases...)
		dcr = append(dcr, dres...)
		djobs = nil
		for j, one := range dres {
			if dIsSingle[j] < 0 {
				continue
			}
			sg := dsingles[dIsSingle[j]]
			for pos2 := sg.f.Pos + 1; pos2 < len(one.Log)+2; pos2++ {
				var fs []c14Fault
				if pos2 < len(one.Log) {
					fs = c14FaultsAt(pos2, one.Log[pos2])
				} else {
					fs = []c14Fault{{pos2, FErr}, {pos2, FMiss}}
				}
				for _, f2 := range fs {
					v, f, f2 := sg.v, sg.f, f2
					note := fmt.Sprintf("%s faults %s@%d %s@%d", v.tag, c14FaultCoq[f.F], f.Pos, c14FaultCoq[f2.F], pos2)
					djobs = append(djobs, func() c14DcrCase { return c14DcrRun(v.rot, v.kind, v.tokOK, v.valid, []c14Fault{f, f2}, -1, note) })
				}
			}
		}
		dcr = append(dcr, c14Parallel(len(djobs), func(i int) c14DcrCase { return djobs[i]() })...)
		for _, d := range dcr {
			ctx.Meta.CaseNotes = append(ctx.Meta.CaseNotes, d.Note)
			dist["flow:dcr/"+d.OpKind]++
			if len(d.Plan) == 2 {
				dist["kind:dcr-fault-pair"]++
			}
			if d.Obs != nil {
				dist["answer:dcr:"+d.Obs.Kind]++
				distinct[d.Note+"|"+d.Obs.Kind] = true
			} else {
				dist["kind:crash"]++
			}
		}
		c14WriteFiles(ctx, cases, dcr)
		ctx.Meta.Cases = len(cases) + len(dcr)
		ctx.Meta.Distinct = len(distinct)
		ctx.Meta.Rule = "every flow of DESIGN Appendix A (token x authorization_code, replayed code, refresh_token, expired refresh token, client_credentials, jwt-bearer for an authenticated client and for nobody (the anonymous client), CIBA approve/deny/pending; introspect; revoke; userinfo; par; authorize plain / implicit / hybrid / in progress / failure / PAR / refused PAR; callback code / implicit / in progress / failure; bc-authorize; NotifyCIBASuccess push/ping/poll; NotifyCIBAFailure; DCR create/update/read/delete) x static and dynamic clients x every storage-call position x {error, not-found on reads} singly and in pairs (second fault at every later position of the singly-faulted run and two positions beyond its last call; error x error, error x not-found, not-found x error; pairs whose second position is not reached are not kept), x every crash point with a restarted provider, thorough (quick: one scenario in six): fault-then-crash; distinct = distinct (flow, plan, crash point, call log, answer class) among the faulted runs"
		if len(cases) > 0 {
			s := cases[len(cases)/3]
			ctx.Meta.Samples = append(ctx.Meta.Samples, map[string]any{"note": s.Note, "faulted_op": s.Op.coq(), "plan": c14Plan(s.Plan), "crash": s.Crash, "log": c14Log(s.Log)})
		}
	}})
}

var _ = goidc.GrantClientCredentials
var _ = http.StatusOK

// replay of a c14 case (replays/C14-*.json as written by ./check): the pre-history, the operation
// under its plan / crash point, a restart, then the remaining operations
func init() {
	replayers["c14"] = func(path string) int {
		b, err := os.ReadFile(path)
		if err != nil {
			fmt.Fprintln(os.Stderr, err)
			return 2
		}
		var rp struct {
			What string
			Spec struct {
				World           WorldSpec
				FaultedOpIndex  int
				Plan            []c14Fault
				CrashBeforeCall int
				DCR             string
				TokenOK, Valid  bool
				Rotation        bool
			}
			Ops json.RawMessage
		}
		if err := json.Unmarshal(b, &rp); err != nil {
			fmt.Fprintln(os.Stderr, err)
			return 2
		}
		fmt.Println(rp.What)
		if rp.Spec.DCR != "" {
			c := c14DcrRun(rp.Spec.Rotation, rp.Spec.DCR, rp.Spec.TokenOK, rp.Spec.Valid, rp.Spec.Plan, rp.Spec.CrashBeforeCall, "replay")
			fmt.Printf("DCR %s plan=%s crash=%s\n  clients before %v\n  => %+v\n  log %s\n  clients after %v\n", rp.Spec.DCR, c14Plan(c.Plan), c14Crash(c.Crash), c.Pre, c.Obs, c14Log(c.Log), c.Post)
			return 0
		}
		var ops []Op
		if err := json.Unmarshal(rp.Ops, &ops); err != nil {
			fmt.Fprintln(os.Stderr, err)
			return 2
		}
		rp.Spec.World.Flavour = "copy"
		w, err := NewWorld(rp.Spec.World)
		if err != nil {
			fmt.Fprintln(os.Stderr, err)
			return 2
		}
		for i, o := range ops {
			w.step = i
			if i == rp.Spec.FaultedOpIndex {
				obs, crashed := w.c14ExecFaulty(o, rp.Spec.Plan, rp.Spec.CrashBeforeCall)
				log := w.Stores.Log()
				w.Stores.BeginRequest(nil, -1)
				fmt.Printf("%3d %s\n      UNDER plan=%s crash-before-call=%s\n", i, o.coq(), c14Plan(rp.Spec.Plan), c14Crash(rp.Spec.CrashBeforeCall))
				if crashed {
					fmt.Printf("      => (request aborted, no answer)\n")
				} else {
					fmt.Printf("      => %s   [%d] %s\n", obs.coq(), obs.Status, truncate(obs.Raw, 200))
				}
				sess, grants := w.c14Snapshot()
				fmt.Printf("      storage calls: %s\n      sessions after: %+v\n      grants after: %+v\n      -- restart: fresh provider over the same stores --\n", c14Log(log), sess, grants)
				p, err := w.newProvider()
				if err != nil {
					panic(err)
				}
				w.prov = p
				continue
			}
			obs := w.Exec(o)
			fmt.Printf("%3d %s\n      => %s   [%d] %s\n", i, o.coq(), obs.coq(), obs.Status, truncate(obs.Raw, 200))
		}
		return 0
	}
}
