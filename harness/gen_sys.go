package main

// Generator of structured, mostly-valid histories over the system operations, with a tunable
// rate of deviations.  It runs online: each operation is executed against the real provider as
// soon as it is chosen, so later choices can use the artifacts actually handed out.

import (
	"math/rand"
)

type art struct {
	H       Handle
	Client  int
	Step    int
	Used    bool
	Params  Params
	Granted string
	Sub     string
	GrantedRes []string // resources the owner granted (for client_credentials: requested)
}

type SysGen struct {
	R       *rand.Rand
	W       *World
	Ops     []Op
	Obs     []Obs
	codes   []*art
	cbs     []*art
	pars    []*art
	ats     []*art
	rts     []*art
	cibas   []*art
	Weights map[string]int
	DevRate int // percent of requests that carry a deviation
	stats   map[string]int
	authd   *authdGen // RFC 9396 decoration of the random moves (gen_authd.go); nil outside Run
}

var scopePool = []string{"openid", "email", "profile", "offline_access", "pay:1", "pay:2", "admin"}

// resource indicators: what a world may configure, and URIs no world configures (a foreign host, a
// near miss of a configured one, a case variant)
var resourcePool = []string{"https://rs.example/api", "https://rs.example/files", "https://pay.example"}
var foreignResources = []string{"https://evil.example/rs", "https://rs.example/api/", "https://RS.example/api", "https://rs.example"}

// the resources the world configured (nil: resource indicators are off)
func (g *SysGen) serverResources() []string {
	for _, o := range g.W.Spec.Opts {
		if o.Name == "WithResourceIndicators" || o.Name == "WithResourceIndicatorsRequired" {
			return append([]string{o.S}, o.L...)
		}
	}
	return nil
}

func subList(r *rand.Rand, l []string) []string {
	var out []string
	for _, x := range l {
		if r.Intn(2) == 0 {
			out = append(out, x)
		}
	}
	return out
}

// resources for an authorization / backchannel request
func (g *SysGen) randAuthResources() []string {
	cfgd := g.serverResources()
	if cfgd == nil {
		if g.chance(8) {
			return []string{pick(g.R, resourcePool)} // ignored when the feature is off
		}
		return nil
	}
	if g.R.Intn(5) < 2 && !g.has("WithResourceIndicatorsRequired") || g.chance(g.DevRate/3) {
		return nil
	}
	out := subList(g.R, cfgd)
	if len(out) == 0 {
		out = []string{pick(g.R, cfgd)}
	}
	if g.chance(g.DevRate / 2) {
		out = append(out, pick(g.R, append(append([]string{}, foreignResources...), resourcePool...)))
	}
	g.R.Shuffle(len(out), func(i, j int) { out[i], out[j] = out[j], out[i] })
	return out
}

// what the resource owner grants for a request that asked for req
func (g *SysGen) randGrantedResources(req []string) []string {
	switch x := g.R.Intn(10); {
	case x < 6:
		return append([]string(nil), req...)
	case x < 8:
		return subList(g.R, req)
	case x < 9:
		return nil
	}
	// the owner's decision is not confined to the request
	return append(append([]string(nil), req...), pick(g.R, append(append([]string{}, resourcePool...), foreignResources[0])))
}

// resources for a token request against a grant whose owner granted `granted`
func (g *SysGen) randTokenResources(granted []string) []string {
	cfgd := g.serverResources()
	if cfgd == nil {
		if g.chance(8) {
			return []string{pick(g.R, resourcePool)}
		}
		return nil
	}
	switch x := g.R.Intn(12); {
	case x < 4:
		return nil
	case x < 8:
		out := subList(g.R, granted)
		if len(out) == 0 && len(granted) > 0 {
			out = []string{pick(g.R, granted)}
		}
		return out
	case x < 10:
		// more than was granted: a configured resource the owner did not grant (also when nothing was granted)
		return append(append([]string(nil), granted...), pick(g.R, cfgd))
	case x < 11:
		return []string{pick(g.R, cfgd)}
	}
	return append(subList(g.R, granted), pick(g.R, foreignResources))
}

func pick[T any](r *rand.Rand, l []T) T { return l[r.Intn(len(l))] }

func (g *SysGen) chance(pct int) bool { return g.R.Intn(100) < pct }

// ---- world templates ----
func baseClients(r *rand.Rand) []ClientSpec {
	allResp := []string{"code", "token", "id_token", "id_token token", "code id_token", "code token", "code id_token token"}
	cs := []ClientSpec{
		{ID: 1, Grants: []string{"authorization_code", "refresh_token", "client_credentials", "implicit"}, RespTypes: allResp,
			Redirects: []string{"https://c1.example/cb", "https://c1.example/cb2?x=1"}, Scopes: "openid email profile offline_access pay"},
		// c2 and c4 are also registered for the jwt-bearer grant: c2 gets JWT access tokens and may refresh, c4 is
		// pairwise (opaque tokens outside client_credentials) and has no refresh_token grant
		{ID: 2, Grants: []string{"authorization_code", "refresh_token", "client_credentials", jwtBearerGrant}, RespTypes: []string{"code"},
			Redirects: []string{"https://c2.example/cb"}, Scopes: "openid email pay", JWT: true},
		{ID: 3, Public: true, Grants: []string{"authorization_code", "refresh_token", "implicit"}, RespTypes: allResp,
			Redirects: []string{"https://c3.example/cb"}, Scopes: "openid profile",
			DetailTypesSet: true, DetailTypes: []string{"payment_initiation", "account_information"}}, // registered authorization_data_types
		{ID: 4, Grants: []string{"authorization_code", "client_credentials", jwtBearerGrant}, RespTypes: []string{"code"},
			Redirects: []string{"https://c4.example/cb"}, Scopes: "openid email", JWT: true, Pairwise: true},
		// a public client whose only business is the jwt-bearer grant (no redirect URI: it never shows up
		// at the authorization endpoint); `pay` is a prefix scope, `profile_x` no scope of the server
		{ID: 14, Public: true, Grants: []string{jwtBearerGrant, "refresh_token"}, Scopes: "openid profile pay profile_x"},
	}
	return cs
}

const jwtBearerGrant = "urn:ietf:params:oauth:grant-type:jwt-bearer"

// Clients whose grant_types and response_types are NOT aligned (possible for static clients and for
// clients written through the ClientManager; DCR refuses them): hybrid response types without the
// implicit grant, the implicit grant without its response types, the code response type without the
// authorization_code grant.  The authorization endpoint itself has to keep each grant type and
// response type to the clients registered for it.
func misalignedClients() []ClientSpec {
	allResp := []string{"code", "token", "id_token", "id_token token", "code id_token", "code token", "code id_token token"}
	return []ClientSpec{
		{ID: 10, Grants: []string{"authorization_code", "refresh_token"}, RespTypes: allResp,
			Redirects: []string{"https://c10.example/cb"}, Scopes: "openid email profile"},
		{ID: 11, Grants: []string{"authorization_code", "implicit", "refresh_token"}, RespTypes: []string{"code"},
			Redirects: []string{"https://c11.example/cb"}, Scopes: "openid email", JWT: true},
		{ID: 12, Grants: []string{"implicit", "refresh_token", "client_credentials"}, RespTypes: allResp,
			Redirects: []string{"https://c12.example/cb"}, Scopes: "openid email profile"},
		{ID: 13, Public: true, Grants: []string{"authorization_code"}, RespTypes: []string{"code", "code token", "code id_token"},
			Redirects: []string{"https://c13.example/cb"}, Scopes: "openid profile"},
	}
}

func cibaClients() []ClientSpec {
	return []ClientSpec{
		{ID: 5, Grants: []string{"urn:openid:params:grant-type:ciba", "refresh_token"}, Scopes: "openid email", CibaMode: "poll"},
		{ID: 6, Grants: []string{"urn:openid:params:grant-type:ciba", "refresh_token"}, Scopes: "openid email", CibaMode: "ping"},
		{ID: 7, Grants: []string{"urn:openid:params:grant-type:ciba"}, Scopes: "openid email profile", CibaMode: "push", JWT: true},
		{ID: 8, Grants: []string{"urn:openid:params:grant-type:ciba", "authorization_code"}, RespTypes: []string{"code"},
			Redirects: []string{"https://c8.example/cb"}, Scopes: "openid", CibaMode: "poll", UserCode: true},
	}
}

var serverScopes = []Scope{{ID: "openid"}, {ID: "email"}, {ID: "profile"}, {ID: "offline_access"}, {ID: "pay", Prefix: "pay:", Dyn: true}, {ID: "admin"}}

func randomSpec(r *rand.Rand, flavour string, want map[string]bool) WorldSpec {
	opts := []Opt{
		{Name: "WithScopes", Scopes: serverScopes},
		{Name: "WithAuthorizationCodeGrant"}, {Name: "WithClientCredentialsGrant"},
		{Name: "WithTokenIntrospection"}, {Name: "WithTokenRevocation"},
		{Name: "WithTokenLifetime", Z: pick(r, []int{40, 80, 300})},
	}
	if want["implicit"] || r.Intn(2) == 0 {
		opts = append(opts, Opt{Name: "WithImplicitGrant"})
	}
	if want["resources"] || r.Intn(2) == 0 {
		name := "WithResourceIndicators"
		if r.Intn(8) == 0 {
			name = "WithResourceIndicatorsRequired"
		}
		first := pick(r, resourcePool)
		var rest []string
		for _, x := range resourcePool {
			if r.Intn(3) != 0 { // may repeat the first one: appendIfNotIn
				rest = append(rest, x)
			}
		}
		opts = append(opts, Opt{Name: name, S: first, L: rest})
	}
	opts = append(opts, authdRandomOpts(r, want)...)
	if want["refresh"] || r.Intn(4) != 0 {
		opts = append(opts, Opt{Name: "WithRefreshTokenGrant", Z: pick(r, []int{200, 400, 1000}),
			S: pick(r, []string{"", "", "", "IssueIfOffline", "IssueCodeOnly"})})
		if r.Intn(2) == 0 {
			opts = append(opts, Opt{Name: "WithRefreshTokenRotation"})
		}
	}
	if want["pkce"] || r.Intn(2) == 0 {
		name := "WithPKCE"
		if r.Intn(4) == 0 {
			name = "WithPKCERequired"
		}
		// the default method alone, or both methods with either default
		switch r.Intn(5) {
		case 0:
			opts = append(opts, Opt{Name: name, S: "S256", L: []string{"plain"}})
		case 1:
			opts = append(opts, Opt{Name: name, S: "plain", L: []string{"S256"}})
		case 2, 3:
			opts = append(opts, Opt{Name: name, S: "S256"})
		case 4:
			opts = append(opts, Opt{Name: name, S: "plain"})
		}
	}
	if want["par"] || r.Intn(2) == 0 {
		name := "WithPAR"
		if r.Intn(5) == 0 {
			name = "WithPARRequired"
		}
		opts = append(opts, Opt{Name: name, Z: pick(r, []int{20, 60})})
		if r.Intn(2) == 0 {
			opts = append(opts, Opt{Name: "WithUnregisteredRedirectURIsForPAR"})
		}
	}
	if want["jwtbearer"] || r.Intn(3) == 0 {
		opts = append(opts, Opt{Name: "WithJWTBearerGrant"})
		if r.Intn(3) == 0 {
			opts = append(opts, Opt{Name: "WithJWTBearerGrantClientAuthnRequired"})
		}
	}
	if r.Intn(3) == 0 {
		opts = append(opts, Opt{Name: "WithAuthenticationSessionTimeout", Z: pick(r, []int{100, 500})})
	}
	if r.Intn(4) == 0 {
		opts = append(opts, Opt{Name: "WithOpenIDScopeRequired"})
	}
	if r.Intn(4) == 0 {
		opts = append(opts, Opt{Name: "WithIssuerResponseParameter"})
	}
	clients := baseClients(r)
	if want["misaligned"] {
		clients = append(clients, misalignedClients()...)
	}
	if want["ciba"] || r.Intn(3) == 0 {
		opts = append(opts, Opt{Name: "WithCIBAGrant"})
		if r.Intn(2) == 0 {
			opts = append(opts, Opt{Name: "WithCIBALifetime", Z: pick(r, []int{30, 120})})
		}
		if r.Intn(2) == 0 {
			opts = append(opts, Opt{Name: "WithCIBAUserCode"})
		}
		clients = append(clients, cibaClients()...)
	}
	if r.Intn(5) == 0 {
		clients[0].ParReq = true
	}
	// shuffle the option order: the model's build must not depend on it more than the code does
	r.Shuffle(len(opts), func(i, j int) { opts[i], opts[j] = opts[j], opts[i] })
	spec := WorldSpec{Profile: "openid", Opts: opts, Flavour: flavour}
	if want["dynamic"] {
		spec.Dyn = clients
	} else {
		spec.Static = clients
	}
	return spec
}

func (g *SysGen) has(opt string) bool {
	for _, o := range g.W.Spec.Opts {
		if o.Name == opt {
			return true
		}
	}
	return false
}
func (g *SysGen) optZ(opt string, def int) int {
	for _, o := range g.W.Spec.Opts {
		if o.Name == opt {
			return o.Z
		}
	}
	return def
}

func (g *SysGen) clients() []ClientSpec {
	if len(g.W.Spec.Static) > 0 {
		return g.W.Spec.Static
	}
	return g.W.Spec.Dyn
}
func (g *SysGen) client(id int) *ClientSpec { return g.W.clientSpec(id) }

func (g *SysGen) do(o Op) Obs {
	o = authdDecorate(g, o)
	if o.Kind == "Par" && o.Params.Redirect != "" {
		// the provider re-encodes the query of the URI it redirects to (x=1/x -> x=1%2Fx): every pushed URI is
		// a known spelling for the observation of the navigation target (navObs undoes the re-encoding)
		g.W.extraTargets = append(g.W.extraTargets, o.Params.Redirect)
	}
	g.W.step = len(g.Ops)
	obs := g.W.Exec(o)
	authdLearn(g, o, obs)
	g.Ops = append(g.Ops, o)
	g.Obs = append(g.Obs, obs)
	g.stats["op:"+o.Kind]++
	g.stats["obs:"+obs.Kind]++
	if obs.Kind == "Err" {
		g.stats["err:"+obs.Err]++
	}
	return obs
}

func (g *SysGen) cred(id int) Cred {
	c := Cred{ID: id, OK: true}
	if g.chance(g.DevRate / 3) {
		switch g.R.Intn(3) {
		case 0:
			c.OK = false
		case 1:
			c.ID = 0
		case 2:
			c.ID = 9 // not registered
		}
	}
	return c
}

func subScopes(r *rand.Rand, granted string) string {
	var out []string
	for _, s := range splitSp(granted) {
		if r.Intn(2) == 0 {
			out = append(out, s)
		}
	}
	return joinSp(out)
}

func splitSp(s string) []string {
	var out []string
	cur := ""
	for _, c := range s {
		if c == ' ' {
			if cur != "" {
				out = append(out, cur)
			}
			cur = ""
		} else {
			cur += string(c)
		}
	}
	if cur != "" {
		out = append(out, cur)
	}
	return out
}
func joinSp(l []string) string {
	s := ""
	for i, x := range l {
		if i > 0 {
			s += " "
		}
		s += x
	}
	return s
}

func (g *SysGen) randScopes(c *ClientSpec) string {
	var out []string
	for _, s := range splitSp(c.Scopes) {
		if g.R.Intn(3) != 0 {
			if s == "pay" {
				s = pick(g.R, []string{"pay:1", "pay:22"})
			}
			out = append(out, s)
		}
	}
	if g.chance(g.DevRate / 2) {
		out = append(out, pick(g.R, []string{"admin", "emai", "openid_x", "pay", "OPENID"}))
	}
	g.R.Shuffle(len(out), func(i, j int) { out[i], out[j] = out[j], out[i] })
	return joinSp(out)
}

func (g *SysGen) randParams(c *ClientSpec) Params {
	p := Params{}
	if len(c.Redirects) > 0 {
		p.Redirect = pick(g.R, c.Redirects)
	}
	if len(c.RespTypes) > 0 {
		p.RespType = pick(g.R, c.RespTypes)
	}
	if c.ID >= 10 && c.ID <= 13 && g.R.Intn(3) == 0 {
		// a client of misalignedClients: every response type, registered for it or not
		p.RespType = pick(g.R, []string{"code", "token", "id_token", "id_token token", "code id_token", "code token", "code id_token token"})
	}
	p.Scopes = g.randScopes(c)
	p.Resources = g.randAuthResources()
	if g.R.Intn(4) != 0 {
		p.State = pick(g.R, []string{"st-1", "st-2", "s t&x=1", "st-3",
			// values a browser would read as markup if the form_post document did not escape them
			`x"/></form><script>document.forms[0].action="https://evil.example/cb"</script>`,
			`'"><form action=https://evil.example/cb><b>`, "a&amp;b<i>+%3C"})
	}
	if g.R.Intn(3) != 0 {
		p.Nonce = pick(g.R, []string{"n-1", "n-2"})
	}
	if g.R.Intn(4) == 0 {
		p.RespMode = pick(g.R, []string{"query", "fragment", "form_post", "jwt", "query.jwt"})
	}
	if g.has("WithPKCE") || g.has("WithPKCERequired") || g.chance(10) {
		if g.R.Intn(4) != 0 {
			v := PK{Kind: 1, N: g.R.Intn(3) + 1, LenOK: true}
			switch g.R.Intn(3) {
			case 0:
				p.Challenge, p.Method = PK{Kind: 2, Inner: &v}, "S256"
			case 1:
				p.Challenge, p.Method = v, "plain"
			case 2:
				p.Challenge = PK{Kind: 2, Inner: &v} // default method applies
				if g.R.Intn(2) == 0 {
					p.Challenge = v
				}
			}
		}
	}
	if g.chance(g.DevRate) {
		switch g.R.Intn(9) {
		case 0:
			p.Redirect = pick(g.R, []string{"https://evil.example/cb", p.Redirect + "/x", "https://c1.example/CB", "https://c1.example:443/cb", "http://c1.example/cb", "https://c1.example/cb?x=1", "https://c1.example/cb2",
				// the URIs that mvPar pushes where unregistered URIs are permitted for PAR: a plain request must still be refused
				"https://unregistered.example/cb", "https://other.example/x?y=1", "https://c1.example/cb%2F", "https://user@c1.example/cb"})
		case 1:
			p.Redirect = ""
		case 2:
			p.RespType = pick(g.R, []string{"", "code token", "token", "id_token", "bogus", "code code"})
		case 3:
			p.RespMode = pick(g.R, []string{"query", "bogus", "jwt", "form_post.jwt"})
		case 4:
			p.Method = pick(g.R, []string{"S512", "plain", "S256"})
		case 5:
			p.Scopes = pick(g.R, []string{"", "admin", "openid admin", "email", " openid", "openid  email"})
		case 6:
			p.Nonce = ""
		case 7:
			p.Challenge = PK{}
		case 8:
			p.State = ""
		}
	}
	return p
}

func (g *SysGen) randPol(c *ClientSpec, p Params) Pol {
	switch x := g.R.Intn(100); {
	case x < 60:
		granted := p.Scopes
		if g.R.Intn(3) == 0 {
			granted = subScopes(g.R, p.Scopes)
		}
		return Pol{Kind: "PolSuccess", Sub: pick(g.R, []string{"alice", "bob"}), Granted: granted, Resources: g.randGrantedResources(p.Resources)}
	case x < 82:
		return Pol{Kind: "PolInProgress"}
	case x < 93:
		return Pol{Kind: "PolFail"}
	default:
		return Pol{Kind: "PolFailWith", Err: pick(g.R, []string{"ELoginRequired", "EAccessDenied", "EInvalidRequest"})}
	}
}

func (g *SysGen) learnNav(o Obs, client int, p Params, pol Pol) {
	if o.Kind == "Nav" {
		if o.NCode != 0 {
			g.codes = append(g.codes, &art{H: o.NCode, Client: client, Step: len(g.Ops), Params: p, Granted: pol.Granted, Sub: pol.Sub, GrantedRes: pol.Resources})
		}
		if o.NAt != 0 {
			g.ats = append(g.ats, &art{H: o.NAt, Client: client, Granted: pol.Granted, GrantedRes: pol.Resources})
		}
	}
	if o.Kind == "Page" && o.H != 0 {
		g.cbs = append(g.cbs, &art{H: o.H, Client: client, Params: p})
	}
}

func (g *SysGen) authClients() []ClientSpec {
	var out []ClientSpec
	for _, c := range g.clients() {
		if len(c.Redirects) > 0 {
			out = append(out, c)
		}
	}
	return out
}

func (g *SysGen) mvAuthorize() {
	cs := g.authClients()
	c := pick(g.R, cs)
	p := g.randParams(&c)
	pol := g.randPol(&c, p)
	op := Op{Kind: "Authorize", Client: c.ID, Params: p, PolicyAvail: !g.chance(g.DevRate / 4), Pol: pol, Post: g.R.Intn(4) == 0}
	if g.chance(g.DevRate / 4) {
		op.Client = pick(g.R, []int{0, 9})
	}
	// through a pushed request?
	if len(g.pars) > 0 && g.R.Intn(3) == 0 {
		a := pick(g.R, g.pars)
		op.Params = Params{RequestURI: a.H}
		op.Client = a.Client
		if g.chance(g.DevRate) {
			op.Client = pick(g.R, cs).ID
		}
		if g.R.Intn(2) == 0 { // outer parameters too
			op.Params.Scopes = a.Params.Scopes
			op.Params.RespType = a.Params.RespType
			op.Params.State = pick(g.R, []string{"", "outer-state"})
			if g.chance(g.DevRate) {
				// an outer redirect_uri and an outer invalid parameter, independently: the redirect URI may
				// be only inside the pushed request
				if g.R.Intn(2) == 0 {
					op.Params.Redirect = pick(g.R, []string{"https://evil.example/cb", a.Params.Redirect, "https://unregistered.example/cb", pick(g.R, g.client(a.Client).Redirects)})
				}
				if g.R.Intn(3) != 0 {
					op.Params.Scopes = pick(g.R, []string{"admin", "openid", a.Params.Scopes})
				}
				if g.R.Intn(4) == 0 {
					op.Params.RespMode = pick(g.R, []string{"bogus", "query"})
				}
			}
		}
		if a.Params.Redirect == "" && op.Params.Redirect == "" && g.R.Intn(4) != 0 {
			if c := g.client(a.Client); c != nil && len(c.Redirects) > 0 {
				op.Params.Redirect = pick(g.R, append([]string{"https://evil.example/cb", "https://unregistered.example/cb"}, c.Redirects...))
			}
		}
		p = a.Params
		if p.Redirect == "" {
			p.Redirect = op.Params.Redirect
		}
		a.Used = true
	}
	o := g.do(op)
	g.learnNav(o, op.Client, p, pol)
}

func (g *SysGen) mvCallback() {
	var cb Handle = unknownBase + 1
	var a *art
	if len(g.cbs) > 0 && !g.chance(g.DevRate/2) {
		a = pick(g.R, g.cbs)
		cb = a.H
	}
	var pol Pol
	client := 0
	var p Params
	if a != nil {
		c := g.client(a.Client)
		client, p = a.Client, a.Params
		if c != nil {
			pol = g.randPol(c, a.Params)
		}
	} else {
		pol = Pol{Kind: "PolSuccess", Sub: "mallory", Granted: "openid"}
	}
	o := g.do(Op{Kind: "Callback", Cb: cb, Pol: pol})
	g.learnNav(o, client, p, pol)
}

func (g *SysGen) mvPar() {
	c := pick(g.R, g.authClients())
	p := g.randParams(&c)
	if g.has("WithUnregisteredRedirectURIsForPAR") && g.R.Intn(3) == 0 {
		p.Redirect = pick(g.R, []string{"https://unregistered.example/cb", "https://other.example/x?y=1"})
		g.W.extraTargets = append(g.W.extraTargets, p.Redirect)
	}
	if g.R.Intn(6) == 0 {
		p.Redirect = "" // the redirect_uri may come with the authorization request instead
	}
	o := g.do(Op{Kind: "Par", Cred: g.cred(c.ID), Params: p})
	if o.Kind == "Par" {
		g.pars = append(g.pars, &art{H: o.H, Client: c.ID, Params: p})
	}
}

func (g *SysGen) learnTokens(o Obs, client int, granted string, grantedRes []string) {
	if o.Kind != "Tokens" {
		return
	}
	if o.At != 0 {
		g.ats = append(g.ats, &art{H: o.At, Client: client, Granted: granted, GrantedRes: grantedRes})
	}
	if o.Rt != 0 {
		g.rts = append(g.rts, &art{H: o.Rt, Client: client, Granted: granted, GrantedRes: grantedRes})
	}
}

func (g *SysGen) hgba() (string, string) {
	hg := "HgOk"
	if g.chance(g.DevRate / 5) {
		hg = pick(g.R, []string{"HgDeny", "HgFail"})
	}
	return hg, "BaApprove"
}

func (g *SysGen) mvTokenCode() {
	op := Op{Kind: "Token", Grant: "authorization_code", Verifier: PK{}}
	op.HG, op.BA = g.hgba()
	var a *art
	if len(g.codes) > 0 && !g.chance(g.DevRate/3) {
		a = pick(g.R, g.codes)
		// prefer fresh codes
		for i := 0; i < 2 && a.Used; i++ {
			a = pick(g.R, g.codes)
		}
		op.Code = a.H
		op.Cred = g.cred(a.Client)
		op.Redirect = a.Params.Redirect
		ch := a.Params.Challenge
		switch ch.Kind {
		case 1:
			op.Verifier = ch
		case 2:
			op.Verifier = *ch.Inner
		}
		if g.chance(g.DevRate) {
			switch g.R.Intn(8) {
			case 0:
				op.Cred = Cred{ID: pick(g.R, g.clients()).ID, OK: true}
			case 1:
				op.Redirect = pick(g.R, []string{"", "https://evil.example/cb", a.Params.Redirect + "/"})
			case 2:
				op.Verifier = PK{Kind: 1, N: 9, LenOK: true}
			case 3:
				op.Verifier = PK{}
			case 4:
				op.Verifier = PK{Kind: 1, N: ch.N + 1, LenOK: false}
			case 5:
				op.Scope = pick(g.R, []string{"admin", a.Granted + " admin", "openid"})
			case 6:
				if ch.Kind != 0 {
					op.Verifier = ch // the challenge itself as verifier
				}
			case 7:
				op.Verifier = PK{Kind: 2, Inner: &PK{Kind: 1, N: 1, LenOK: true}}
			}
		} else if g.R.Intn(4) == 0 {
			op.Scope = subScopes(g.R, a.Granted)
		}
		if ch.Kind != 0 && a.Params.Method == "" && g.R.Intn(3) == 0 {
			// the method was left to the server's default: the verifier that fits the OTHER reading of the
			// challenge, the challenge string itself, a wrong one, none
			switch g.R.Intn(4) {
			case 0:
				op.Verifier = ch
			case 1:
				op.Verifier = PK{Kind: 1, N: 7, LenOK: true}
			case 2:
				op.Verifier = PK{}
			case 3:
				op.Verifier = PK{Kind: 2, Inner: &PK{Kind: ch.Kind, N: ch.N, LenOK: ch.LenOK, Inner: ch.Inner}}
			}
		}
		op.Resources = g.randTokenResources(a.GrantedRes)
		a.Used = true
	} else {
		op.Code = unknownBase + Handle(g.R.Intn(5)+1)
		op.Cred = g.cred(pick(g.R, g.clients()).ID)
		op.Redirect = "https://c1.example/cb"
		if g.R.Intn(5) == 0 {
			op.Code = 0
		}
	}
	o := g.do(op)
	if a != nil {
		g.learnTokens(o, a.Client, a.Granted, a.GrantedRes)
	}
}

func (g *SysGen) mvRefresh() {
	op := Op{Kind: "Token", Grant: "refresh_token"}
	op.HG, op.BA = g.hgba()
	var a *art
	if len(g.rts) > 0 && !g.chance(g.DevRate/3) {
		a = pick(g.R, g.rts)
		op.Refresh = a.H
		op.Cred = g.cred(a.Client)
		switch g.R.Intn(4) {
		case 0:
			op.Scope = subScopes(g.R, a.Granted)
		case 1:
			if g.chance(g.DevRate * 2) {
				op.Scope = a.Granted + " admin"
			}
		case 2:
			// a superset of the grant that stays inside the client's registration, or any
			// registered selection: must be refused unless it is within the grant
			if c := g.client(a.Client); c != nil {
				if g.R.Intn(2) == 0 {
					op.Scope = g.randScopes(c)
				} else {
					extra := pick(g.R, splitSp(c.Scopes))
					if extra == "pay" {
						extra = "pay:1"
					}
					op.Scope = joinSp(append(splitSp(a.Granted), extra))
				}
			}
		}
		if g.chance(g.DevRate / 2) {
			op.Cred = Cred{ID: pick(g.R, g.clients()).ID, OK: true}
		}
		op.Resources = g.randTokenResources(a.GrantedRes)
	} else {
		op.Refresh = unknownBase + Handle(g.R.Intn(5)+1)
		op.Cred = g.cred(pick(g.R, g.clients()).ID)
		if g.R.Intn(5) == 0 {
			op.Refresh = 0
		}
		if len(g.ats) > 0 && g.R.Intn(3) == 0 {
			op.Refresh = pick(g.R, g.ats).H // an access token where a refresh token belongs
		}
	}
	o := g.do(op)
	if a != nil {
		g.learnTokens(o, a.Client, a.Granted, a.GrantedRes)
	}
}

func (g *SysGen) mvCC() {
	c := pick(g.R, g.clients())
	op := Op{Kind: "Token", Grant: "client_credentials", Cred: g.cred(c.ID), Scope: g.randScopes(&c)}
	op.HG, op.BA = g.hgba()
	// owner-less grant: anything the server configured may be asked for, nothing else
	op.Resources = g.randTokenResources(g.serverResources())
	o := g.do(op)
	g.learnTokens(o, c.ID, op.Scope, op.Resources)
}

// jwt-bearer (RFC 7523): clients registered / not registered for the grant with right, wrong and absent
// credentials, an unknown client id and NO client identification at all (the anonymous client, where the
// embedder allows it); assertions the embedder's handler accepts, refuses, and none; scopes inside and
// outside the registration (substring, superstring, superset, a scope the server lacks), resources.
func (g *SysGen) mvJwtBearer() {
	var regd, other []ClientSpec
	for _, c := range g.clients() {
		if hasStr(c.Grants, jwtBearerGrant) {
			regd = append(regd, c)
		} else {
			other = append(other, c)
		}
	}
	op := Op{Kind: "Token", Grant: jwtBearerGrant}
	op.HG, op.BA = g.hgba()
	sub := pick(g.R, []string{"alice", "bob", "carol"})
	op.Assertion = "ok:" + sub
	if g.chance(g.DevRate / 2) {
		op.Assertion = pick(g.R, []string{"", "refused-by-the-embedder", "ok", "OK:" + sub})
	}
	// who asks
	var c *ClientSpec
	switch x := g.R.Intn(10); {
	case x < 5 && len(regd) > 0:
		cc := pick(g.R, regd)
		c = &cc
		op.Cred = g.cred(c.ID)
	case x < 7 && len(other) > 0:
		cc := pick(g.R, other)
		c = &cc
		op.Cred = Cred{ID: c.ID, OK: true}
	case x < 8 && len(regd) > 0:
		cc := pick(g.R, regd)
		c = &cc
		op.Cred = Cred{ID: c.ID, OK: false} // public clients are let through with any secret
	default:
		op.Cred = Cred{} // nobody: no client_id, no secret
	}
	// what for
	if c != nil {
		op.Scope = g.randScopes(c)
		if g.chance(g.DevRate / 2) {
			// a superset of the registration inside the server's scopes, a scope only the server knows
			op.Scope = joinSp(append(splitSp(op.Scope), pick(g.R, []string{"admin", "offline_access", "profile", "email", "profile_x"})))
		}
	} else {
		// the anonymous client may ask for every scope of the server, nothing else
		var all []string
		for _, sc := range serverScopes {
			if g.R.Intn(3) != 0 {
				id := sc.ID
				if sc.Dyn {
					id = pick(g.R, []string{"pay:1", "pay:77"})
				}
				all = append(all, id)
			}
		}
		if g.chance(g.DevRate) {
			all = append(all, pick(g.R, []string{"pay", "opnid", "admin_x", "openid_x", "OPENID", "no-such-scope"}))
		}
		g.R.Shuffle(len(all), func(i, j int) { all[i], all[j] = all[j], all[i] })
		op.Scope = joinSp(all)
	}
	if g.R.Intn(6) == 0 {
		op.Scope = ""
	}
	op.Resources = g.randTokenResources(g.serverResources())
	o := g.do(op)
	// the issued tokens: later moves introspect / userinfo / refresh / revoke them
	g.learnTokens(o, op.Cred.ID, op.Scope, op.Resources)
}

func hasStr(l []string, x string) bool {
	for _, y := range l {
		if y == x {
			return true
		}
	}
	return false
}

func (g *SysGen) randTok() (PTok, *art) {
	var pool []*art
	pool = append(pool, g.ats...)
	if g.R.Intn(3) == 0 {
		pool = append(pool, g.rts...)
	}
	if g.R.Intn(8) == 0 {
		pool = append(pool, g.codes...)
	}
	if len(pool) == 0 || g.chance(g.DevRate/4) {
		if g.R.Intn(4) == 0 {
			return PTok{Kind: "PEmpty"}, nil
		}
		return PTok{Kind: "PExact", H: unknownBase + Handle(g.R.Intn(5)+1)}, nil
	}
	a := pick(g.R, pool)
	if g.chance(g.DevRate) {
		if g.R.Intn(3) == 0 {
			return PTok{Kind: "PJti", H: a.H}, a
		}
		return PTok{Kind: "PForged", H: a.H, Forge: pick(g.R, []string{"FTrunc", "FExt", "FResign", "FAlgNone", "FEdit", "FOtherIss", "FSibling"})}, a
	}
	return PTok{Kind: "PExact", H: a.H}, a
}

func (g *SysGen) mvQuery() {
	tok, a := g.randTok()
	c := pick(g.R, g.clients()).ID
	if a != nil && a.Client != 0 && g.R.Intn(3) != 0 { // (a token of the anonymous jwt-bearer client has no owner to ask)
		c = a.Client
	}
	hint := ""
	if g.R.Intn(3) == 0 {
		hint = pick(g.R, []string{"access_token", "refresh_token", "bogus"})
	}
	switch x := g.R.Intn(10); {
	case x < 4:
		g.do(Op{Kind: "Introspect", Cred: g.cred(c), Tok: tok, Allowed: !g.chance(g.DevRate / 3), Hint: hint})
	case x < 6:
		g.do(Op{Kind: "Revoke", Cred: g.cred(c), Tok: tok, Allowed: !g.chance(g.DevRate / 3), Hint: hint})
	case x < 8:
		g.do(Op{Kind: "UserInfo", Tok: tok, HasHeader: !g.chance(g.DevRate / 3)})
	case x < 9:
		g.do(Op{Kind: "TokenInfo", Tok: tok})
	default:
		g.do(Op{Kind: "TokenInfoReq", Tok: tok, HasHeader: !g.chance(g.DevRate / 3)})
	}
}

// Tick: amounts around the lifetimes in play, bumped away from any stored boundary so that the
// real clock's second granularity cannot decide an outcome.
func (g *SysGen) mvTick() {
	cands := []int{7, 25, 55, 65, 105, g.optZ("WithTokenLifetime", 300) + 5, g.optZ("WithTokenLifetime", 300) - 5,
		g.optZ("WithRefreshTokenGrant", 600) + 5, g.optZ("WithAuthenticationSessionTimeout", 1800) + 5,
		g.optZ("WithPAR", 60) + 3, g.optZ("WithCIBALifetime", 60) + 3, g.optZ("WithCIBALifetime", 60) - 4,
		// into the last token lifetime before the absolute expiry of a grant, then just past it
		g.optZ("WithRefreshTokenGrant", 600) - 8, g.optZ("WithRefreshTokenGrant", 600) - g.optZ("WithTokenLifetime", 300)/2, 12}
	d := pick(g.R, cands)
	if d <= 0 {
		d = 5
	}
	g.doTick(d)
}

func (g *SysGen) doTick(d int) {
	nowReal := int(nowUnix())
	for tries := 0; tries < 20; tries++ {
		bad := false
		for _, ts := range g.W.Stores.Timestamps() {
			diff := (ts - d) - nowReal
			if diff >= -3 && diff <= 3 {
				bad = true
				break
			}
		}
		if !bad {
			break
		}
		d += 7
	}
	g.do(Op{Kind: "Tick", D: d})
}

// ---- CIBA ----
func (g *SysGen) cibaClientList() []ClientSpec {
	var out []ClientSpec
	for _, c := range g.clients() {
		if c.CibaMode != "" {
			out = append(out, c)
		}
	}
	return out
}

func (g *SysGen) mvBcAuthorize() {
	cs := g.cibaClientList()
	if len(cs) == 0 {
		return
	}
	c := pick(g.R, cs)
	if g.chance(g.DevRate / 2) {
		c = pick(g.R, g.clients())
	}
	p := Params{Scopes: g.randScopes(&c), LoginHint: pick(g.R, []string{"alice", "bob"}), Resources: g.randAuthResources()}
	if c.CibaMode == "ping" || c.CibaMode == "push" || g.chance(10) {
		p.NotifToken = unknownBase + 5000 + Handle(len(g.Ops))
	}
	if c.UserCode && g.R.Intn(2) == 0 || g.chance(g.DevRate/2) {
		p.UserCode = "1234"
	}
	if g.chance(g.DevRate) {
		switch g.R.Intn(3) {
		case 0:
			p.LoginHint = ""
		case 1:
			p.NotifToken = 0
		case 2:
			p.Scopes = "admin"
		}
	}
	granted := p.Scopes
	if g.R.Intn(3) == 0 {
		granted = subScopes(g.R, p.Scopes)
	}
	op := Op{Kind: "BcAuthorize", Cred: g.cred(c.ID), Params: p, InitOK: !g.chance(g.DevRate / 2), Sub: p.LoginHint, Granted: granted,
		GrantedRes: g.randGrantedResources(p.Resources)}
	o := g.do(op)
	if o.Kind == "Ciba" {
		g.cibas = append(g.cibas, &art{H: o.H, Client: c.ID, Params: p, Granted: granted, GrantedRes: op.GrantedRes})
	}
}

func (g *SysGen) mvCibaPoll() {
	op := Op{Kind: "Token", Grant: "urn:openid:params:grant-type:ciba", HG: "HgOk"}
	op.BA = pick(g.R, []string{"BaApprove", "BaApprove", "BaPending", "BaPending", "BaSlowDown", "BaDeny", "BaFail", "BaNarrow"})
	if g.chance(g.DevRate / 4) {
		op.HG = pick(g.R, []string{"HgDeny", "HgFail"})
	}
	var a *art
	if len(g.cibas) > 0 && !g.chance(g.DevRate/3) {
		a = pick(g.R, g.cibas)
		op.AuthReq = a.H
		op.Cred = g.cred(a.Client)
		if g.chance(g.DevRate) {
			op.Cred = Cred{ID: pick(g.R, g.clients()).ID, OK: true}
		}
		if g.R.Intn(4) == 0 {
			op.Scope = subScopes(g.R, a.Granted)
		}
		if g.chance(g.DevRate / 2) {
			op.Scope = a.Granted + " admin"
		}
		op.Resources = g.randTokenResources(a.GrantedRes)
	} else {
		op.AuthReq = unknownBase + Handle(g.R.Intn(5)+1)
		op.Cred = g.cred(pick(g.R, g.clients()).ID)
		if g.R.Intn(5) == 0 {
			op.AuthReq = 0
		}
	}
	o := g.do(op)
	if a != nil {
		granted := a.Granted
		if op.BA == "BaNarrow" {
			granted = "openid" // what the validation callback left of the grant
		}
		g.learnTokens(o, a.Client, granted, a.GrantedRes)
	}
}

func (g *SysGen) mvNotify() {
	var h Handle = unknownBase + 3
	var a *art
	if len(g.cibas) > 0 && !g.chance(g.DevRate/3) {
		a = pick(g.R, g.cibas)
		h = a.H
	}
	if g.R.Intn(3) == 0 {
		g.do(Op{Kind: "NotifyFail", AuthReq: h, HG: "HgOk"})
		return
	}
	hg := "HgOk"
	if g.chance(g.DevRate / 4) {
		hg = "HgDeny"
	}
	o := g.do(Op{Kind: "NotifyOk", AuthReq: h, HG: hg})
	if a != nil {
		for _, n := range o.Notifs {
			if n.At != 0 {
				g.ats = append(g.ats, &art{H: n.At, Client: a.Client, Granted: a.Granted, GrantedRes: a.GrantedRes})
			}
			if n.Rt != 0 {
				g.rts = append(g.rts, &art{H: n.Rt, Client: a.Client, Granted: a.Granted, GrantedRes: a.GrantedRes})
			}
		}
	}
}

// one history
func (g *SysGen) Run(nops int) {
	type mv struct {
		name string
		f    func()
		ok   func() bool
	}
	yes := func() bool { return true }
	g.authd = authdNewGen(g)
	moves := []mv{
		{"authorize", g.mvAuthorize, yes},
		{"callback", g.mvCallback, func() bool { return len(g.cbs) > 0 || g.R.Intn(6) == 0 }},
		{"par", g.mvPar, func() bool { return g.has("WithPAR") || g.has("WithPARRequired") || g.R.Intn(10) == 0 }},
		{"code", g.mvTokenCode, func() bool { return len(g.codes) > 0 || g.R.Intn(6) == 0 }},
		{"refresh", g.mvRefresh, func() bool { return len(g.rts) > 0 || g.R.Intn(6) == 0 }},
		{"cc", g.mvCC, yes},
		{"jwtbearer", g.mvJwtBearer, func() bool { return g.has("WithJWTBearerGrant") || g.R.Intn(10) == 0 }},
		{"query", g.mvQuery, yes},
		{"tick", g.mvTick, yes},
		{"bc", g.mvBcAuthorize, func() bool { return g.has("WithCIBAGrant") || g.R.Intn(10) == 0 }},
		{"poll", g.mvCibaPoll, func() bool { return len(g.cibas) > 0 || g.R.Intn(8) == 0 }},
		{"notify", g.mvNotify, func() bool { return len(g.cibas) > 0 || g.R.Intn(12) == 0 }},
	}
	total := 0
	for _, m := range moves {
		total += g.Weights[m.name]
	}
	for len(g.Ops) < nops {
		x := g.R.Intn(total)
		for _, m := range moves {
			if x < g.Weights[m.name] {
				if m.ok() {
					before := len(g.Ops)
					m.f()
					_ = before
				}
				break
			}
			x -= g.Weights[m.name]
		}
	}
}

func defaultWeights() map[string]int {
	return map[string]int{"authorize": 14, "callback": 8, "par": 6, "code": 14, "refresh": 10, "cc": 4, "jwtbearer": 5, "query": 18, "tick": 8, "bc": 5, "poll": 7, "notify": 3}
}

func NewSysGen(r *rand.Rand, spec WorldSpec) (*SysGen, error) {
	w, err := NewWorld(spec)
	if err != nil {
		return nil, err
	}
	return &SysGen{R: r, W: w, Weights: defaultWeights(), DevRate: 25, stats: map[string]int{}}, nil
}

func (g *SysGen) Case(note string) Case {
	return Case{Profile: g.W.Spec.Profile, Opts: g.W.Spec.Opts, Static: g.W.Spec.Static, Dyn: g.W.Spec.Dyn, Ops: g.Ops, Obs: g.Obs, Note: note}
}
