package main

// Suite c18, third part — what the comparison of answers cannot see.
//
//  (1) the CLAIMS of every JWT access token issued (token endpoint, authorization endpoint, CIBA push
//      notification) are part of the compared transcript: all claims, the time dependent ones
//      (jti, iat, exp, nbf, auth_time, *_at) by presence only, server-minted strings by the name the
//      world gave them, so that the same abstract history gives the same normalised claim set in all
//      four executions.  A difference is the finding "<operation kind>:access_token_claims".
//  (2) READ-ONLY endpoints (introspection, userinfo, the TokenInfo helpers, discovery, jwks) must not
//      write: a deep snapshot (the JSON document of every stored authentication session, grant session
//      and client, and of the static client objects of the configuration) taken before such a request
//      must equal the one taken after it - under the aliasing storage, where a write into an object
//      handed out by the storage shows without any Save, and under the copying storage, where only
//      Save / Delete show.  Finding "C18:read-only-endpoint-wrote:<endpoint>".
//  (3) the maps of the stored sessions and grants (additional token / id token / userinfo claims, the
//      embedder's store, granted and active resources) are part of the storage digest compared
//      between executions (c18DeepPart, appended to the lines of c18Digest).
//  (4) directed histories and a generator dimension that put read-only requests BETWEEN the state
//      changing steps of a flow (code -> token -> [read-only] -> refresh -> [read-only] -> refresh
//      with a narrowed scope -> ...), with JWT and opaque access tokens.

import (
	"context"
	"crypto/sha256"
	"encoding/base64"
	"encoding/json"
	"errors"
	"fmt"
	"math/rand"
	"net/http"
	"net/http/httptest"
	"os"
	"sort"
	"strings"

	"github.com/luikyv/go-oidc/pkg/goidc"
	"github.com/luikyv/go-oidc/pkg/provider"
)

// pseudo-operations: requests the model's op type does not have (histories with them: Go side only)
const (
	c18OpDiscovery     = "C18Discovery"     // GET /.well-known/openid-configuration
	c18OpJwks          = "C18Jwks"          // GET /jwks
	c18OpTokenInfoJSON = "C18TokenInfoJSON" // Tok: the provider's TokenInfo helper, its answer serialised as a resource server would log / forward it
)

// the read-only endpoint an operation is a request to ("" when it may write)
func c18ReadOnlyEndpoint(o Op) string {
	switch o.Kind {
	case "Introspect":
		return "introspect"
	case "UserInfo":
		return "userinfo"
	case "TokenInfo":
		return "token-info"
	case "TokenInfoReq":
		return "token-info-from-request"
	case c18OpTokenInfoJSON:
		return "token-info-json"
	case c18OpDiscovery:
		return "discovery"
	case c18OpJwks:
		return "jwks"
	}
	return ""
}

func c18ExecReadOnlyPseudo(w *World, o Op) Obs {
	pfx := w.prefix()
	switch o.Kind {
	case c18OpDiscovery, c18OpJwks:
		path := "/.well-known/openid-configuration"
		if o.Kind == c18OpJwks {
			path = "/jwks"
		}
		rec, pan := w.serve("GET", pfx+path, nil, nil)
		if pan != nil {
			if _, ok := pan.(crashSentinel); ok {
				panic(pan)
			}
			return Obs{Kind: "Panic", Raw: fmt.Sprint(pan)}
		}
		raw := rec.Body.String()
		if rec.Code >= 400 {
			return Obs{Kind: "Err", Err: "EOther", Status: rec.Code, Raw: raw}
		}
		// the documents are a function of the configuration: the same bytes in every execution
		var m map[string]any
		_ = json.Unmarshal([]byte(raw), &m)
		b, _ := json.Marshal(m)
		sum := sha256.Sum256(b)
		return Obs{Kind: "Ok", Status: rec.Code, Raw: raw, Scope: fmt.Sprintf("members=%d sha256=%s", len(m), base64.RawURLEncoding.EncodeToString(sum[:8]))}
	case c18OpTokenInfoJSON:
		var info goidc.TokenInfo
		var err error
		var pan any
		func() {
			defer func() { pan = recover() }()
			info, err = w.provider().TokenInfo(context.Background(), w.ptokString(o.Tok))
		}()
		if pan != nil {
			if _, ok := pan.(crashSentinel); ok {
				panic(pan)
			}
			return Obs{Kind: "Panic", Raw: fmt.Sprint(pan)}
		}
		if err != nil {
			return w.absInfo(info, err)
		}
		b, err := json.Marshal(info)
		if err != nil {
			return Obs{Kind: "Err", Err: "EOther", Raw: err.Error()}
		}
		rec := httptest.NewRecorder()
		rec.WriteHeader(200)
		_, _ = rec.Write(b)
		return w.absJSON(rec, nil, "intro")
	}
	panic("c18: read-only pseudo-operation " + o.Kind)
}

// ---- an embedder that attaches additional claims to the grants it accepts ----
// The scripted HandleGrantFunc of the generic world (world.go) only accepts or refuses.  Histories
// flagged with c18FlagClaims (an entry of the history's ExtraTargets list, so that it travels with
// replays; it never matches a navigation target) run in worlds whose HandleGrantFunc - same answers
// as the generic one - also writes token / id token / userinfo claims into the GrantInfo it is
// handed, the way the library's documentation suggests.  On a refresh that GrantInfo shares its
// maps with the stored grant.  Such histories are compared on the Go side only.
const c18FlagClaims = "c18:embedder-sets-claims"

// Found by this suite and REPAIRED (defect D26, fix ae6db20; VERIF_C18_NO_HYBRID_CLAIMS=1 leaves the hybrid
// histories out): before the fix, in a hybrid flow (response type code + token / id_token)
// the implicit grant stored by the authorization endpoint and the authentication session kept for the
// code share their three claim maps (internal/authorize/authorize.go implicitGrantInfo); when the code
// is redeemed, authorizationCodeGrantInfo hands the same maps to the embedder's HandleGrantFunc, whose
// additions then show in the stored implicit grant under the aliasing storage (introspection of the
// first access token answers the new members) and not under the copying one.  Without the switch the
// flagged worlds have no hybrid flows: the directed hybrid history is left out and the clients of the
// generated worlds lose their hybrid response types.
var c18HybridClaims = os.Getenv("VERIF_C18_NO_HYBRID_CLAIMS") == "" // on by default since the defect was repaired (D26)

func c18HasFlag(extra []string, flag string) bool {
	for _, e := range extra {
		if e == flag {
			return true
		}
	}
	return false
}

// switch the world to that embedder (the provider of a long-lived instance is built again)
func c18EnableEmbedderClaims(w *World) {
	w.c18r().EmbedderClaims = true
	p, err := w.newProvider()
	if err != nil {
		panic(err)
	}
	w.prov = p
}

func c18EmbedderClaimsOpts(w *World) []provider.ProviderOption {
	if w.c18 == nil || !w.c18.EmbedderClaims {
		return nil
	}
	return []provider.ProviderOption{provider.WithHandleGrantFunc(func(_ *http.Request, gi *goidc.GrantInfo) error {
		switch w.hg { // as in world.go
		case "HgDeny":
			return goidc.NewError(goidc.ErrorCodeAccessDenied, "grant denied by the embedder")
		case "HgFail":
			return errors.New("embedder failure")
		}
		set := func(m *map[string]any, k string, v any) {
			if *m == nil {
				*m = map[string]any{}
			}
			(*m)[k] = v
		}
		set(&gi.AdditionalTokenClaims, "tenant", "tenant-of-"+gi.ClientID)
		set(&gi.AdditionalTokenClaims, "granted_by", string(gi.GrantType))
		set(&gi.AdditionalTokenClaims, "scope_count", len(strings.Fields(gi.ActiveScopes)))
		set(&gi.AdditionalTokenClaims, "entitlements", map[string]any{"level": 2, "of": strings.Fields(gi.GrantedScopes)})
		set(&gi.AdditionalIDTokenClaims, "tenant", "tenant-of-"+gi.ClientID)
		set(&gi.AdditionalUserInfoClaims, "tenant", "tenant-of-"+gi.ClientID)
		set(&gi.AdditionalUserInfoClaims, "email", gi.Subject+"@example.com")
		return nil
	})}
}

// ---- normalisation of JSON values: the same abstract history gives the same value in every execution ----
func c18TimeMember(k string) bool {
	switch k {
	case "jti", "iat", "exp", "nbf", "auth_time":
		return true
	}
	return strings.HasSuffix(k, "_at")
}

func (w *World) c18NormString(s string, jti map[string]Handle) string {
	if s == "" {
		return s
	}
	if h, ok := w.str2h[s]; ok {
		return "<h" + cN(h) + ">"
	}
	if h, ok := jti[s]; ok {
		return "<jti" + cN(h) + ">"
	}
	if w.c18 != nil {
		for n, reg := range w.c18.Dcr {
			if reg != nil && reg.ID != "" && strings.Contains(s, reg.ID) {
				s = strings.ReplaceAll(s, reg.ID, fmt.Sprintf("dcr%d", n))
			}
		}
	}
	return s
}

// v: a value that went through encoding/json (maps, slices, strings, float64, bool, nil)
func (w *World) c18NormValue(v any, jti map[string]Handle) any {
	switch x := v.(type) {
	case map[string]any:
		out := map[string]any{}
		for k, e := range x {
			if c18TimeMember(k) {
				out[k] = "<present>"
				continue
			}
			out[k] = w.c18NormValue(e, jti)
		}
		return out
	case []any:
		out := make([]any, len(x))
		for i, e := range x {
			out[i] = w.c18NormValue(e, jti)
		}
		return out
	case string:
		return w.c18NormString(x, jti)
	}
	return v
}

// canonical text of any value as its JSON document reads (nil and empty: "{}")
func (w *World) c18NormJSON(v any, jti map[string]Handle) string {
	b, err := json.Marshal(v)
	if err != nil {
		return "unserialisable: " + err.Error()
	}
	var g any
	if err := json.Unmarshal(b, &g); err != nil {
		return "unreadable: " + err.Error()
	}
	switch x := g.(type) {
	case nil:
		return "{}"
	case map[string]any:
		if len(x) == 0 {
			return "{}"
		}
	case []any:
		if len(x) == 0 {
			return "{}"
		}
	}
	nb, _ := json.Marshal(w.c18NormValue(g, jti))
	return string(nb)
}

// ---- (1) the claims of the JWT access tokens an operation handed out ----
func c18JWTClaims(tok string) map[string]any {
	parts := strings.Split(tok, ".")
	if len(parts) != 3 {
		return nil
	}
	b, err := base64.RawURLEncoding.DecodeString(parts[1])
	if err != nil {
		return nil
	}
	var m map[string]any
	if json.Unmarshal(b, &m) != nil {
		return nil
	}
	return m
}

func (w *World) c18ClaimsOf(h Handle) string {
	if h == 0 {
		return ""
	}
	m := c18JWTClaims(w.h2str[h])
	if m == nil {
		return ""
	}
	if s, ok := m["client_id"].(string); ok {
		m["client_id"] = w.c18ClientLabel(s)
	}
	if s, ok := m["sub"].(string); ok {
		m["sub"] = w.c18ClientLabel(s)
	}
	return w.c18NormJSON(m, nil)
}

// one line per JWT access token in the answer: token response, navigation (implicit / hybrid), CIBA push
func (w *World) c18TokenClaims(o Obs) []string {
	var out []string
	add := func(where string, h Handle) {
		if s := w.c18ClaimsOf(h); s != "" {
			out = append(out, where+" "+s)
		}
	}
	add("access_token", o.At)
	add("authorization-response access_token", o.NAt)
	for i, n := range o.Notifs {
		add(fmt.Sprintf("notification %d access_token", i), n.At)
	}

	// every member of the JSON answer of a read-only endpoint (the projected observation keeps the members
	// the model knows; additional claims the embedder attached to the grant travel here as well)
	if (o.Kind == "Intro" || o.Kind == "UserInfo") && o.Status == 200 && strings.HasPrefix(o.Raw, "{") {
		var m map[string]any
		if json.Unmarshal([]byte(o.Raw), &m) == nil {
			if s, ok := m["client_id"].(string); ok {
				m["client_id"] = w.c18ClientLabel(s)
			}
			if s, ok := m["sub"].(string); ok {
				m["sub"] = w.c18ClientLabel(s)
			}
			out = append(out, c18AnswerPrefix+w.c18NormJSON(m, nil))
		}
	}
	return out
}

const c18AnswerPrefix = "answer members "

// (field, detail) of the first difference between the lines of two executions for one operation
func c18ClaimsDiff(a, b []string) (string, string) {
	field := func(l string) string {
		if strings.HasPrefix(l, c18AnswerPrefix) {
			return "answer_members"
		}
		return "access_token_claims"
	}
	for i := 0; i < len(a) || i < len(b); i++ {
		switch {
		case i >= len(a):
			return field(b[i]), "nothing  VERSUS  " + b[i]
		case i >= len(b):
			return field(a[i]), a[i] + "  VERSUS  nothing"
		case a[i] != b[i]:
			return field(a[i]), a[i] + "  VERSUS  " + b[i]
		}
	}
	return "", ""
}

// ---- (2) deep snapshot of everything stored ----
func (s *jstore[T]) c18Docs(prefix string, into map[string]string) {
	s.mu.Lock()
	defer s.mu.Unlock()
	for k, b := range s.m {
		into[prefix+k] = string(b)
	}
}

// The one member left out: `jwks` of a client that publishes its keys at jwks_uri.  FetchPublicJWKS caches
// the fetched document on the object it is called on (pkg/goidc/client.go) and the in-memory client
// manager clears it again on every lookup (internal/storage/client.go Client): a cache that no request
// can observe, filled by any authenticated request, read-only or not.
func c18ClientDoc(c *goidc.Client) string {
	cp := *c
	if cp.PublicJWKSURI != "" {
		cp.PublicJWKS = nil
	}
	b, _ := json.Marshal(&cp)
	return string(b)
}

func c18DeepSnapshot(w *World) map[string]string {
	out := map[string]string{}
	st := w.Stores
	if st.Flavour == "alias" {
		for id, v := range st.aliasA.Sessions {
			b, _ := json.Marshal(v)
			out["authn-session/"+id] = string(b)
		}
		for id, v := range st.aliasG.Sessions {
			b, _ := json.Marshal(v)
			out["grant-session/"+id] = string(b)
		}
		for id, v := range st.aliasC.Clients {
			out["client/"+id] = c18ClientDoc(v)
		}
	} else {
		st.copyA.c18Docs("authn-session/", out)
		st.copyG.c18Docs("grant-session/", out)
		tmp := map[string]string{}
		st.copyC.c18Docs("client/", tmp)
		for k, doc := range tmp {
			var c goidc.Client
			if json.Unmarshal([]byte(doc), &c) == nil {
				out[k] = c18ClientDoc(&c)
			} else {
				out[k] = doc
			}
		}
	}
	// the client objects of the configuration (the ones a long-lived instance was given)
	for _, cs := range w.Spec.Static {
		if c := w.clients[cs.ID]; c != nil {
			out["static-client/"+c.ID] = c18ClientDoc(c)
		}
	}
	return out
}

// what changed between two snapshots, member by member ("" = nothing)
func c18SnapshotDiff(before, after map[string]string) string {
	var keys []string
	for k := range before {
		keys = append(keys, k)
	}
	for k := range after {
		if _, ok := before[k]; !ok {
			keys = append(keys, k)
		}
	}
	sort.Strings(keys)
	var out []string
	for _, k := range keys {
		b, okb := before[k]
		a, oka := after[k]
		switch {
		case !oka:
			out = append(out, k+" was deleted")
		case !okb:
			out = append(out, k+" was created: "+truncate(a, 300))
		case a != b:
			var mb, ma map[string]any
			_ = json.Unmarshal([]byte(b), &mb)
			_ = json.Unmarshal([]byte(a), &ma)
			var ms []string
			for m := range mb {
				ms = append(ms, m)
			}
			for m := range ma {
				if _, ok := mb[m]; !ok {
					ms = append(ms, m)
				}
			}
			sort.Strings(ms)
			var ch []string
			for _, m := range ms {
				x, _ := json.Marshal(mb[m])
				y, _ := json.Marshal(ma[m])
				if string(x) != string(y) {
					ch = append(ch, fmt.Sprintf("%s: %s -> %s", m, truncate(string(x), 200), truncate(string(y), 200)))
				}
			}
			out = append(out, k+" changed {"+strings.Join(ch, "; ")+"}")
		}
	}
	return strings.Join(out, "; ")
}

// ---- (3) the part of a stored session / grant the digest of suite_c18.go did not show ----
func (w *World) c18DeepGrant(g *goidc.GrantSession, jti map[string]Handle) string {
	return fmt.Sprintf(" active_res=%q granted_res=%q active_details=%s granted_details=%s token_claims=%s id_token_claims=%s userinfo_claims=%s store=%s",
		[]string(g.ActiveResources), []string(g.GrantedResources), w.c18NormJSON(g.ActiveAuthDetails, jti), w.c18NormJSON(g.GrantedAuthDetails, jti),
		w.c18NormJSON(g.AdditionalTokenClaims, jti), w.c18NormJSON(g.AdditionalIDTokenClaims, jti), w.c18NormJSON(g.AdditionalUserInfoClaims, jti), w.c18NormJSON(g.Store, jti))
}

func (w *World) c18DeepSession(s *goidc.AuthnSession, jti map[string]Handle) string {
	return fmt.Sprintf(" granted_res=%q granted_details=%s resources=%q token_claims=%s id_token_claims=%s userinfo_claims=%s store=%s id_token_hint_claims=%s",
		[]string(s.GrantedResources), w.c18NormJSON(s.GrantedAuthDetails, jti), []string(s.Resources),
		w.c18NormJSON(s.AdditionalTokenClaims, jti), w.c18NormJSON(s.AdditionalIDTokenClaims, jti), w.c18NormJSON(s.AdditionalUserInfoClaims, jti),
		w.c18NormJSON(s.Storage, jti), w.c18NormJSON(s.IDTokenHintClaims, jti))
}

// ---- (4) histories with read-only requests between the state changing steps ----

// every client issues JWT access tokens
func c18AllJWT(cs []ClientSpec) []ClientSpec {
	out := append([]ClientSpec(nil), cs...)
	for i := range out {
		out[i].JWT = true
	}
	return out
}

type c18RoBuilder struct {
	ops    []Op
	pseudo bool // also the requests outside the model's op type (discovery, jwks, the serialised TokenInfo)
}

func (b *c18RoBuilder) add(o Op) int { b.ops = append(b.ops, o); return len(b.ops) - 1 }

// the read-only requests about one access token and one refresh token, by the owner and by another client
func (b *c18RoBuilder) block(owner, other Cred, at, rt Handle) {
	exact := func(h Handle) PTok { return PTok{Kind: "PExact", H: h} }
	b.add(Op{Kind: "Introspect", Cred: owner, Tok: exact(at), Allowed: true})
	if rt != 0 {
		b.add(Op{Kind: "Introspect", Cred: owner, Tok: exact(rt), Allowed: true})
	}
	b.add(Op{Kind: "UserInfo", Tok: exact(at), HasHeader: true})
	b.add(Op{Kind: "TokenInfo", Tok: exact(at)})
	b.add(Op{Kind: "TokenInfoReq", Tok: exact(at), HasHeader: true})
	if b.pseudo {
		b.add(Op{Kind: c18OpTokenInfoJSON, Tok: exact(at)})
		if rt != 0 {
			b.add(Op{Kind: c18OpTokenInfoJSON, Tok: exact(rt)})
		}
		b.add(Op{Kind: c18OpDiscovery})
		b.add(Op{Kind: c18OpJwks})
	}
	b.add(Op{Kind: "Introspect", Cred: other, Tok: exact(at), Allowed: true})
	b.add(Op{Kind: "Introspect", Cred: owner, Tok: exact(at), Allowed: false}) // refused
	b.add(Op{Kind: "Introspect", Cred: owner, Tok: PTok{Kind: "PJti", H: at}, Allowed: true})
}

func c18ReadOnlyCorpus(r *rand.Rand) []c18History {
	var out []c18History
	base := []Opt{{Name: "WithScopes", Scopes: serverScopes}, {Name: "WithAuthorizationCodeGrant"}, {Name: "WithClientCredentialsGrant"},
		{Name: "WithRefreshTokenGrant", Z: 1000}, {Name: "WithTokenIntrospection"}, {Name: "WithTokenRevocation"}, {Name: "WithTokenLifetime", Z: 300},
		{Name: "WithImplicitGrant"}, {Name: "WithCIBAGrant"}}
	pol := Pol{Kind: "PolSuccess", Sub: "alice", Granted: "openid email"}
	names := map[bool]string{false: "static-clients", true: "stored-clients"}
	for _, dynamic := range []bool{false, true} {
		for _, rotation := range []bool{false, true} {
			for vi, variant := range []string{"jwt", "jwt+helpers", "opaque", "jwt+helpers+embedder-claims", "opaque+embedder-claims"} {
				opts := append([]Opt(nil), base...)
				if rotation {
					opts = append(opts, Opt{Name: "WithRefreshTokenRotation"})
				}
				cl := append(baseClients(r), cibaClients()...)
				atKind := KAtOpaque
				helpers := strings.Contains(variant, "helpers")
				var extra []string
				if strings.Contains(variant, "embedder-claims") {
					extra = []string{c18FlagClaims}
				}
				if !strings.HasPrefix(variant, "opaque") {
					cl, atKind = c18AllJWT(cl), KAtJwt
				} else {
					for i := range cl {
						cl[i].JWT = false
					}
				}
				spec := WorldSpec{Profile: "openid", Opts: opts}
				if dynamic {
					spec.Dyn = cl
				} else {
					spec.Static = cl
				}
				tag := fmt.Sprintf("/%s/%s/rotation=%v", variant, names[dynamic], rotation)
				// the code flow of client 1 (all response types) or 2, alternating
				cid := 1 + (vi+map[bool]int{false: 0, true: 1}[rotation])%2
				owner, other := Cred{ID: cid, OK: true}, Cred{ID: 3 - cid, OK: true}
				redirect := fmt.Sprintf("https://c%d.example/cb", cid)
				b := &c18RoBuilder{pseudo: helpers}
				b.add(Op{Kind: "Authorize", Client: cid, Params: Params{Redirect: redirect, RespType: "code", Scopes: "openid email", State: "s"}, PolicyAvail: true, Pol: pol})
				k := b.add(Op{Kind: "Token", Grant: "authorization_code", Cred: owner, Code: mint(0, KCode), Redirect: redirect, HG: "HgOk", BA: "BaApprove"})
				at, rt := mint(k, atKind), mint(k, KRefresh)
				b.block(owner, other, at, rt)
				for _, step := range []struct{ scope, hg string }{{"", "HgOk"}, {"openid", "HgOk"}, {"openid", "HgDeny"}, {"openid email", "HgOk"}, {"email", "HgOk"}} {
					k = b.add(Op{Kind: "Token", Grant: "refresh_token", Cred: owner, Refresh: rt, Scope: step.scope, HG: step.hg, BA: "BaApprove"})
					if step.hg == "HgOk" {
						at = mint(k, atKind)
						if rotation {
							rt = mint(k, KRefresh)
						}
					}
					b.block(owner, other, at, rt)
				}
				// the client's own token, then the end of the user's token
				k = b.add(Op{Kind: "Token", Grant: "client_credentials", Cred: owner, Scope: "openid", HG: "HgOk", BA: "BaApprove"})
				b.block(owner, other, mint(k, atKind), 0)
				b.add(Op{Kind: "Revoke", Cred: owner, Tok: PTok{Kind: "PExact", H: at}, Allowed: true})
				b.block(owner, other, at, rt)
				out = append(out, c18History{Note: "corpus:read-only:code-refresh" + tag, Spec: spec, Ops: b.ops, Extra: extra})

				if strings.HasPrefix(variant, "opaque") || rotation {
					continue
				}
				if extra == nil || c18HybridClaims {
					out = append(out, c18History{Note: "corpus:read-only:hybrid" + tag, Spec: spec, Ops: c18RoHybrid(helpers, atKind, pol), Extra: extra})
				}
				out = append(out, c18History{Note: "corpus:read-only:ciba" + tag, Spec: spec, Ops: c18RoCiba(helpers, atKind), Extra: extra})
			}
		}
	}
	return out
}

// implicit / hybrid: the first access token comes from the authorization endpoint (client 1)
func c18RoHybrid(helpers bool, atKind int, pol Pol) []Op {
	b := &c18RoBuilder{pseudo: helpers}
	c1, c2 := Cred{ID: 1, OK: true}, Cred{ID: 2, OK: true}
	k := b.add(Op{Kind: "Authorize", Client: 1, Params: Params{Redirect: "https://c1.example/cb", RespType: "code id_token token", Scopes: "openid email", State: "s", Nonce: "n-1"}, PolicyAvail: true, Pol: pol})
	b.block(c1, c2, mint(k, atKind), 0)
	k2 := b.add(Op{Kind: "Token", Grant: "authorization_code", Cred: c1, Code: mint(k, KCode), Redirect: "https://c1.example/cb", HG: "HgOk", BA: "BaApprove"})
	b.block(c1, c2, mint(k2, atKind), mint(k2, KRefresh))
	k3 := b.add(Op{Kind: "Token", Grant: "refresh_token", Cred: c1, Refresh: mint(k2, KRefresh), Scope: "openid", HG: "HgOk", BA: "BaApprove"})
	b.block(c1, c2, mint(k3, atKind), mint(k2, KRefresh))
	// the first access token again: its grant must not have changed when the code was redeemed
	b.add(Op{Kind: "Introspect", Cred: c1, Tok: PTok{Kind: "PExact", H: mint(k, atKind)}, Allowed: true})
	b.add(Op{Kind: "UserInfo", Tok: PTok{Kind: "PExact", H: mint(k, atKind)}, HasHeader: true})
	return b.ops
}

// CIBA, poll (client 5, with a refresh token) and push (client 7: the token travels in the notification)
func c18RoCiba(helpers bool, atKind int) []Op {
	b := &c18RoBuilder{pseudo: helpers}
	c1, c5, c7 := Cred{ID: 1, OK: true}, Cred{ID: 5, OK: true}, Cred{ID: 7, OK: true}
	k := b.add(Op{Kind: "BcAuthorize", Cred: c5, Params: Params{Scopes: "openid email", LoginHint: "alice"}, InitOK: true, Sub: "alice", Granted: "openid email"})
	k2 := b.add(Op{Kind: "Token", Grant: "urn:openid:params:grant-type:ciba", Cred: c5, AuthReq: mint(k, KAuthReq), HG: "HgOk", BA: "BaApprove"})
	b.block(c5, c1, mint(k2, atKind), mint(k2, KRefresh))
	k3 := b.add(Op{Kind: "Token", Grant: "refresh_token", Cred: c5, Refresh: mint(k2, KRefresh), Scope: "openid", HG: "HgOk", BA: "BaApprove"})
	b.block(c5, c1, mint(k3, atKind), mint(k2, KRefresh))
	k = b.add(Op{Kind: "BcAuthorize", Cred: c7, Params: Params{Scopes: "openid email", LoginHint: "alice", NotifToken: unknownBase + 5007}, InitOK: true, Sub: "alice", Granted: "openid email"})
	k2 = b.add(Op{Kind: "NotifyOk", AuthReq: mint(k, KAuthReq), HG: "HgOk"})
	b.block(c7, c1, mint(k2, atKind), 0)
	return b.ops
}

// generated: the online generator over a world whose clients (all, or some) issue JWT access tokens,
// run in segments; between two segments a burst of read-only requests about tokens that are alive,
// followed by a refresh, so that whatever a read-only request left behind is used
func c18GenerateReadOnly(r *rand.Rand, k int) c18History {
	prof := c18Profiles[[]int{0, 3, 2, 0}[k%4]] // code+refresh, tokens, ciba, code+refresh
	want := map[string]bool{}
	for f, v := range prof.Want {
		want[f] = v
	}
	dynamic := k%2 == 1
	want["dynamic"] = dynamic
	gen := c18Execs[(k/2)%len(c18Execs)]
	spec := randomSpec(r, gen.Flavour, want)
	spec.FreshPer = gen.Fresh
	jwt := func(cs []ClientSpec) []ClientSpec {
		if k%3 != 2 {
			return c18AllJWT(cs)
		}
		out := append([]ClientSpec(nil), cs...)
		for i := range out {
			out[i].JWT = r.Intn(2) == 0
		}
		return out
	}
	if dynamic {
		spec.Dyn = jwt(spec.Dyn)
	} else {
		spec.Static = jwt(spec.Static)
	}
	pseudoOK := k%4 == 3              // these histories are compared on the Go side only ...
	embedder := pseudoOK && k%8 == 7  // ... half of them with an embedder that attaches claims to the grants
	if embedder && !c18HybridClaims { // (see c18HybridClaims: no hybrid flows there - no client has a hybrid response type)
		noHybrid := func(cs []ClientSpec) {
			for i := range cs {
				var rts []string
				for _, rt := range cs[i].RespTypes {
					if rt == "code" || !strings.Contains(rt, "code") {
						rts = append(rts, rt)
					}
				}
				cs[i].RespTypes = rts
			}
		}
		noHybrid(spec.Static)
		noHybrid(spec.Dyn)
	}
	g, err := NewSysGen(r, spec)
	if err != nil {
		panic(err)
	}
	if embedder {
		c18EnableEmbedderClaims(g.W)
	}
	for name, v := range prof.Weights {
		g.Weights[name] = v
	}
	g.Weights["tick"] = 3
	g.DevRate = prof.Dev / 2
	pseudo := func(o Op) {
		g.W.step = len(g.Ops)
		g.Obs = append(g.Obs, c18ExecOp(g.W, o))
		g.Ops = append(g.Ops, o)
	}
	burst := func() {
		var pool []*art
		pool = append(pool, g.ats...)
		pool = append(pool, g.rts...)
		if len(pool) == 0 {
			return
		}
		for n := 1 + r.Intn(3); n > 0; n-- {
			a := pool[len(pool)-1-r.Intn(min(len(pool), 4))] // the recent ones are alive
			tok := PTok{Kind: "PExact", H: a.H}
			for m := 1 + r.Intn(3); m > 0; m-- {
				switch x := r.Intn(12); {
				case x < 5:
					g.do(Op{Kind: "Introspect", Cred: Cred{ID: a.Client, OK: true}, Tok: tok, Allowed: true})
				case x < 7:
					g.do(Op{Kind: "UserInfo", Tok: tok, HasHeader: true})
				case x < 8:
					g.do(Op{Kind: "TokenInfo", Tok: tok})
				case x < 9:
					g.do(Op{Kind: "TokenInfoReq", Tok: tok, HasHeader: true})
				case x < 10:
					g.do(Op{Kind: "Introspect", Cred: g.cred(pick(r, g.clients()).ID), Tok: tok, Allowed: r.Intn(4) != 0})
				default:
					if pseudoOK {
						pseudo(Op{Kind: pick(r, []string{c18OpTokenInfoJSON, c18OpTokenInfoJSON, c18OpDiscovery, c18OpJwks}), Tok: tok})
					} else {
						g.do(Op{Kind: "Introspect", Cred: Cred{ID: a.Client, OK: true}, Tok: tok, Allowed: true})
					}
				}
			}
		}
		if len(g.rts) > 0 {
			g.mvRefresh()
		}
	}
	segs := 5
	for s := 1; s <= segs; s++ {
		g.Run(len(g.Ops) + prof.Nops/segs)
		burst()
	}
	note := fmt.Sprintf("read-only:%s#%d/%s/generated-under:%s", prof.Name, k, map[bool]string{false: "static-clients", true: "stored-clients"}[dynamic], gen)
	spec.Flavour, spec.FreshPer = "", false
	extra := g.W.extraTargets
	if g.W.c18r().EmbedderClaims {
		extra = append(append([]string(nil), extra...), c18FlagClaims)
		note += "/embedder-claims"
	}
	return c18History{Note: note, Spec: spec, Ops: g.Ops, Extra: extra}
}
