package main

import "fmt"

// Deterministic scenario matrices added after the third round of seeded changes (DESIGN.md section 12).

// clients of the redirect matrix: c1 has three registered URIs (plain, with a query, ending in a slash)
func redirectMatrixClients(ctx *RunCtx) []ClientSpec {
	cs := baseClients(ctx.R)
	cs[0].Redirects = []string{"https://c1.example/cb", "https://c1.example/cb2?x=1", "https://c1.example/dir/"}
	return cs
}

// C02 / C03: every registered redirect URI of a client with several, and for each of them the near misses
// that differ by ONE detail (a trailing slash added or removed, case, default port, scheme, userinfo,
// percent-encoding, an extra or missing query, a path suffix), at GET and POST /authorize with a succeeding
// policy, with an error that is redirected (invalid scope), and under form_post; every code obtained is
// then redeemed naming the URI of the request, each OTHER registered URI of the same client, the near
// misses of the request's URI, and none.
func scenarioRedirectMatrix(ctx *RunCtx) {
	for _, fl := range []string{"copy", "alias"} {
		opts := []Opt{{Name: "WithScopes", Scopes: serverScopes}, {Name: "WithAuthorizationCodeGrant"}, {Name: "WithTokenLifetime", Z: 300}}
		g, err := NewSysGen(ctx.R, WorldSpec{Profile: "openid", Flavour: fl, Static: redirectMatrixClients(ctx), Opts: opts})
		if err != nil {
			panic(err)
		}
		registered := []string{"https://c1.example/cb", "https://c1.example/cb2?x=1", "https://c1.example/dir/"}
		near := func(u string) []string {
			l := []string{u + "/", u + "/x", u + "?y=1", u + "#f", "https://C1.example" + u[len("https://c1.example"):],
				"https://c1.example:443" + u[len("https://c1.example"):], "http" + u[len("https"):],
				"https://user@c1.example" + u[len("https://c1.example"):], "https://c1.example/%63" + u[len("https://c1.example/c"):]}
			if u[len(u)-1] == '/' {
				l = append(l, u[:len(u)-1])
			}
			if i := indexByte(u, '?'); i >= 0 {
				l = append(l, u[:i])
			}
			return l
		}
		cred := Cred{ID: 1, OK: true}
		pol := Pol{Kind: "PolSuccess", Sub: "alice", Granted: "openid email"}
		n := 0
		for _, reg := range registered {
			for _, u := range append([]string{reg}, near(reg)...) {
				n++
				p := Params{Redirect: u, RespType: "code", Scopes: "openid email", State: "st-1"}
				if n%3 == 0 {
					p.RespMode = "form_post"
				}
				nav := g.do(Op{Kind: "Authorize", Client: 1, Params: p, PolicyAvail: true, Pol: pol, Post: n%2 == 0})
				bad := p
				bad.Scopes = "openid admin" // redirected error if the URI is accepted, local error otherwise
				g.do(Op{Kind: "Authorize", Client: 1, Params: bad, PolicyAvail: true, Pol: pol})
				if nav.Kind != "Nav" || nav.NCode == 0 {
					continue
				}
				// the code is bound to the URI of ITS request: try the others first, the right one last
				tries := []string{}
				for _, o := range registered {
					if o != u {
						tries = append(tries, o)
					}
				}
				tries = append(tries, u+"/", "")
				for _, t := range tries {
					nv := g.do(Op{Kind: "Authorize", Client: 1, Params: p, PolicyAvail: true, Pol: pol})
					if nv.Kind == "Nav" && nv.NCode != 0 {
						g.do(Op{Kind: "Token", Grant: "authorization_code", Cred: cred, Code: nv.NCode, Redirect: t, HG: "HgOk", BA: "BaApprove"})
					}
				}
				g.do(Op{Kind: "Token", Grant: "authorization_code", Cred: cred, Code: nav.NCode, Redirect: u, HG: "HgOk", BA: "BaApprove"})
			}
		}
		ctx.AddCase(g.Case("scenario:redirect-matrix/" + fl))
		ctx.AddStats(g.stats)
	}
}

func indexByte(s string, c byte) int {
	for i := 0; i < len(s); i++ {
		if s[i] == c {
			return i
		}
	}
	return -1
}

// C03: token requests that carry NO code (or one never handed out) while sessions without a code are stored:
// an interaction in progress (the policy has not finished: its session has an empty code), a pushed request
// waiting to be redeemed, a CIBA request; and while grants that did not come from a code exist
// (client_credentials): nothing may be redeemed, nothing may be revoked.
func scenarioEmptyCode(ctx *RunCtx) {
	for _, fl := range []string{"copy", "alias"} {
		opts := []Opt{{Name: "WithScopes", Scopes: serverScopes}, {Name: "WithAuthorizationCodeGrant"}, {Name: "WithClientCredentialsGrant"},
			{Name: "WithPAR", Z: 60}, {Name: "WithCIBAGrant"}, {Name: "WithTokenIntrospection"}, {Name: "WithTokenLifetime", Z: 300}}
		g, err := NewSysGen(ctx.R, WorldSpec{Profile: "openid", Flavour: fl, Static: append(baseClients(ctx.R), cibaClients()...), Opts: opts})
		if err != nil {
			panic(err)
		}
		cred := Cred{ID: 1, OK: true}
		p := Params{Redirect: "https://c1.example/cb", RespType: "code", Scopes: "openid email", State: "st-1"}
		cc := g.do(Op{Kind: "Token", Grant: "client_credentials", Cred: cred, Scope: "email", HG: "HgOk", BA: "BaApprove"})
		page := g.do(Op{Kind: "Authorize", Client: 1, Params: p, PolicyAvail: true, Pol: Pol{Kind: "PolInProgress"}})
		g.do(Op{Kind: "Par", Cred: cred, Params: p})
		g.do(Op{Kind: "BcAuthorize", Cred: Cred{ID: 5, OK: true}, Params: Params{Scopes: "openid email", LoginHint: "alice"}, InitOK: true, Sub: "alice", Granted: "openid email"})
		for _, code := range []Handle{0, unknownBase + 1} {
			for _, rd := range []string{p.Redirect, ""} {
				g.do(Op{Kind: "Token", Grant: "authorization_code", Cred: cred, Code: code, Redirect: rd, HG: "HgOk", BA: "BaApprove"})
			}
		}
		if cc.Kind == "Tokens" {
			g.do(Op{Kind: "Introspect", Cred: cred, Tok: PTok{Kind: "PExact", H: cc.At}, Allowed: true})
		}
		if page.Kind == "Page" { // the interaction is still there and finishes
			fin := g.do(Op{Kind: "Callback", Cb: page.H, Pol: Pol{Kind: "PolSuccess", Sub: "alice", Granted: "openid email"}})
			g.do(Op{Kind: "Token", Grant: "authorization_code", Cred: cred, Code: fin.NCode, Redirect: p.Redirect, HG: "HgOk", BA: "BaApprove"})
		}
		ctx.AddCase(g.Case("scenario:empty-code/" + fl))
		ctx.AddStats(g.stats)
	}
}

// C16: the request's lifetime and the retryable answers.  Per delivery mode (poll, ping): any number of
// pending / slow_down polls leave the request usable (an approving poll then yields tokens - monitor clause 8),
// and once the lifetime has elapsed nothing yields tokens, whatever the embedder's validation says (clause 7).
func scenarioCibaLifetime(ctx *RunCtx) {
	for _, fl := range []string{"copy", "alias"} {
		for _, id := range []int{5, 6} {
			for _, late := range []bool{false, true} {
				for _, waits := range [][]string{{"BaPending"}, {"BaSlowDown"}, {"BaPending", "BaSlowDown", "BaSlowDown", "BaPending"}} {
					opts := []Opt{{Name: "WithScopes", Scopes: serverScopes}, {Name: "WithCIBAGrant"}, {Name: "WithCIBALifetime", Z: 120},
						{Name: "WithRefreshTokenGrant", Z: 600}, {Name: "WithTokenLifetime", Z: 80}}
					g, err := NewSysGen(ctx.R, WorldSpec{Profile: "openid", Flavour: fl, Static: append(baseClients(ctx.R), cibaClients()...), Opts: opts})
					if err != nil {
						panic(err)
					}
					cred := Cred{ID: id, OK: true}
					p := Params{Scopes: "openid email", LoginHint: "alice"}
					if id == 6 {
						p.NotifToken = unknownBase + 5000
					}
					bc := g.do(Op{Kind: "BcAuthorize", Cred: cred, Params: p, InitOK: true, Sub: "alice", Granted: "openid email"})
					if bc.Kind != "Ciba" {
						panic(fmt.Sprintf("c16 lifetime scenario: no auth_req_id: %+v", bc))
					}
					poll := func(ba string) {
						g.do(Op{Kind: "Token", Grant: "urn:openid:params:grant-type:ciba", Cred: cred, AuthReq: bc.H, HG: "HgOk", BA: ba})
					}
					for _, w := range waits {
						poll(w)
						g.doTick(7)
					}
					if id == 6 {
						g.do(Op{Kind: "NotifyOk", AuthReq: bc.H, HG: "HgOk"})
					}
					if late {
						g.doTick(125)
						poll("BaPending")
					}
					poll("BaApprove")
					poll("BaApprove")
					ctx.AddCase(g.Case(fmt.Sprintf("scenario:ciba-lifetime/c%d/late=%v/%d-waits/%s", id, late, len(waits), fl)))
					ctx.AddStats(g.stats)
				}
			}
		}
	}
}

// C10: "an expired refresh token is refused and its grant is removed".  The grant's access token outlives
// the grant's absolute expiry (token lifetime longer than what is left of the grant); after the refused
// refresh, the access token issued under the grant must be dead at every acceptor.
func scenarioExpiredGrantRemoved(ctx *RunCtx) {
	for _, fl := range []string{"copy", "alias"} {
		for _, rotation := range []bool{false, true} {
			opts := []Opt{{Name: "WithScopes", Scopes: serverScopes}, {Name: "WithAuthorizationCodeGrant"},
				{Name: "WithRefreshTokenGrant", Z: 200}, {Name: "WithTokenIntrospection"}, {Name: "WithTokenLifetime", Z: 300}}
			if rotation {
				opts = append(opts, Opt{Name: "WithRefreshTokenRotation"})
			}
			g, err := NewSysGen(ctx.R, WorldSpec{Profile: "openid", Flavour: fl, Static: baseClients(ctx.R), Opts: opts})
			if err != nil {
				panic(err)
			}
			cred := Cred{ID: 1, OK: true}
			p := Params{Redirect: "https://c1.example/cb", RespType: "code", Scopes: "openid email", State: "st-1"}
			nav := g.do(Op{Kind: "Authorize", Client: 1, Params: p, PolicyAvail: true, Pol: Pol{Kind: "PolSuccess", Sub: "alice", Granted: "openid email"}})
			tok := g.do(Op{Kind: "Token", Grant: "authorization_code", Cred: cred, Code: nav.NCode, Redirect: p.Redirect, HG: "HgOk", BA: "BaApprove"})
			if tok.Kind != "Tokens" || tok.Rt == 0 {
				panic(fmt.Sprintf("c10 expired-grant scenario: no refresh token: %+v", tok))
			}
			g.doTick(150)
			rt, at := tok.Rt, tok.At
			if o := g.do(Op{Kind: "Token", Grant: "refresh_token", Cred: cred, Refresh: rt, HG: "HgOk", BA: "BaApprove"}); o.Kind == "Tokens" {
				at = o.At // lives 300 s, the grant only 50 more
				if o.Rt != 0 {
					rt = o.Rt
				}
			}
			g.doTick(60) // past the absolute expiry of the grant, inside the access token's lifetime
			present := func() {
				ex := PTok{Kind: "PExact", H: at}
				g.do(Op{Kind: "Introspect", Cred: cred, Tok: ex, Allowed: true})
				g.do(Op{Kind: "UserInfo", Tok: ex, HasHeader: true})
				g.do(Op{Kind: "TokenInfo", Tok: ex})
			}
			g.do(Op{Kind: "Token", Grant: "refresh_token", Cred: cred, Refresh: rt, HG: "HgOk", BA: "BaApprove"})
			present()
			g.do(Op{Kind: "Introspect", Cred: cred, Tok: PTok{Kind: "PExact", H: rt}, Allowed: true})
			g.do(Op{Kind: "Token", Grant: "refresh_token", Cred: cred, Refresh: rt, HG: "HgOk", BA: "BaApprove"})
			ctx.AddCase(g.Case(fmt.Sprintf("scenario:expired-grant-removed/rotation=%v/%s", rotation, fl)))
			ctx.AddStats(g.stats)
		}
	}
}

// C17: resumption with identifiers nobody was handed - white space only (the mux delivers them as a
// non-empty path segment), while sessions WITHOUT a callback id are stored: a finished flow holding its
// code, a pushed request, a CIBA request.  Nothing may be resumed (monitor clause 5).
func scenarioBlankCallback(ctx *RunCtx) {
	for _, fl := range []string{"copy", "alias"} {
		opts := []Opt{{Name: "WithScopes", Scopes: serverScopes}, {Name: "WithAuthorizationCodeGrant"}, {Name: "WithPAR", Z: 60}, {Name: "WithCIBAGrant"},
			{Name: "WithTokenLifetime", Z: 300}}
		g, err := NewSysGen(ctx.R, WorldSpec{Profile: "openid", Flavour: fl, Static: append(baseClients(ctx.R), cibaClients()...), Opts: opts})
		if err != nil {
			panic(err)
		}
		cred := Cred{ID: 1, OK: true}
		p := Params{Redirect: "https://c1.example/cb", RespType: "code", Scopes: "openid email", State: "state-of-alice"}
		pol := Pol{Kind: "PolSuccess", Sub: "alice", Granted: "openid email"}
		page := g.do(Op{Kind: "Authorize", Client: 1, Params: p, PolicyAvail: true, Pol: Pol{Kind: "PolInProgress"}})
		fin := g.do(Op{Kind: "Callback", Cb: page.H, Pol: pol}) // finished: the session now holds the code, no callback id
		g.do(Op{Kind: "Par", Cred: cred, Params: p})
		g.do(Op{Kind: "BcAuthorize", Cred: Cred{ID: 5, OK: true}, Params: Params{Scopes: "openid email", LoginHint: "bob"}, InitOK: true, Sub: "bob", Granted: "openid email"})
		for i := range blankIDs {
			g.do(Op{Kind: "Callback", Cb: blankBase + Handle(i), Pol: Pol{Kind: "PolSuccess", Sub: "mallory", Granted: "openid"}})
		}
		g.do(Op{Kind: "Callback", Cb: unknownBase + 4, Pol: pol})
		g.do(Op{Kind: "Token", Grant: "authorization_code", Cred: cred, Code: fin.NCode, Redirect: p.Redirect, HG: "HgOk", BA: "BaApprove"})
		ctx.AddCase(g.Case("scenario:blank-callback/" + fl))
		ctx.AddStats(g.stats)
	}
}

// C10: "a refresh can narrow ... and later refreshes may return to the full grant": a grant over three
// resources, narrowed to every non-empty subset in turn (prefix and non-prefix ones, one and two members,
// every order), each narrowing followed by a refresh for each single resource of the ORIGINAL grant and by
// a refresh naming nothing (whose audience is the full grant again).
func scenarioReturnToFullGrant(ctx *RunCtx) {
	rs := []string{"https://api.example/a", "https://api.example/b", "https://api.example/c"}
	subsets := [][]string{{rs[2]}, {rs[1]}, {rs[0]}, {rs[2], rs[0]}, {rs[1], rs[2]}, {rs[2], rs[1]}, {rs[0], rs[1]}}
	for _, fl := range []string{"copy", "alias"} {
		for _, client := range []int{1, 2} { // opaque and JWT (aud visible) access tokens
			opts := []Opt{{Name: "WithScopes", Scopes: serverScopes}, {Name: "WithAuthorizationCodeGrant"},
				{Name: "WithRefreshTokenGrant", Z: 600}, {Name: "WithTokenIntrospection"}, {Name: "WithTokenLifetime", Z: 80},
				{Name: "WithResourceIndicators", S: rs[0], L: []string{rs[1], rs[2]}}}
			g, err := NewSysGen(ctx.R, WorldSpec{Profile: "openid", Flavour: fl, Static: baseClients(ctx.R), Opts: opts})
			if err != nil {
				panic(err)
			}
			cred := Cred{ID: client, OK: true}
			redirect := fmt.Sprintf("https://c%d.example/cb", client)
			p := Params{Redirect: redirect, RespType: "code", Scopes: "openid email", State: "st-1", Resources: rs}
			nav := g.do(Op{Kind: "Authorize", Client: client, Params: p, PolicyAvail: true, Pol: Pol{Kind: "PolSuccess", Sub: "alice", Granted: "openid email", Resources: rs}})
			tok := g.do(Op{Kind: "Token", Grant: "authorization_code", Cred: cred, Code: nav.NCode, Redirect: redirect, HG: "HgOk", BA: "BaApprove"})
			if tok.Kind != "Tokens" || tok.Rt == 0 {
				panic(fmt.Sprintf("c10 full-grant scenario: no refresh token: %+v", tok))
			}
			rt := tok.Rt
			refresh := func(res []string) {
				o := g.do(Op{Kind: "Token", Grant: "refresh_token", Cred: cred, Refresh: rt, Resources: res, HG: "HgOk", BA: "BaApprove"})
				if o.Kind == "Tokens" {
					if o.Rt != 0 {
						rt = o.Rt
					}
					g.do(Op{Kind: "Introspect", Cred: cred, Tok: PTok{Kind: "PExact", H: o.At}, Allowed: true})
				}
			}
			for _, sub := range subsets {
				refresh(sub)
				for _, one := range rs {
					refresh([]string{one})
				}
				refresh(nil)
			}
			ctx.AddCase(g.Case(fmt.Sprintf("scenario:return-to-full-grant/c%d/%s", client, fl)))
			ctx.AddStats(g.stats)
		}
	}
}

// C04 / C10 / C16: the grant is fixed when the user approves.  A ValidateBackAuthFunc that approves AND narrows
// the session's granted scopes (BaNarrow: openid of openid email) is followed by polls naming nothing, the
// kept scope, the dropped scope and the full original list; tokens that come out are refreshed with the
// dropped scope and with nothing.  The request validation must see the grant as the callback left it.
func scenarioCibaNarrowedAtApproval(ctx *RunCtx) {
	for _, fl := range []string{"copy", "alias"} {
		for _, id := range []int{5, 6} { // poll, ping
			opts := []Opt{{Name: "WithScopes", Scopes: serverScopes}, {Name: "WithCIBAGrant"}, {Name: "WithRefreshTokenGrant", Z: 600},
				{Name: "WithTokenIntrospection"}, {Name: "WithTokenLifetime", Z: 80}}
			g, err := NewSysGen(ctx.R, WorldSpec{Profile: "openid", Flavour: fl, Static: append(baseClients(ctx.R), cibaClients()...), Opts: opts})
			if err != nil {
				panic(err)
			}
			cred := Cred{ID: id, OK: true}
			for _, scope := range []string{"", "openid", "email", "openid email", "email openid"} {
				for _, ba := range []string{"BaNarrow", "BaApprove"} {
					p := Params{Scopes: "openid email", LoginHint: "alice"}
					if id != 5 {
						p.NotifToken = unknownBase + 5100
					}
					bc := g.do(Op{Kind: "BcAuthorize", Cred: cred, Params: p, InitOK: true, Sub: "alice", Granted: "openid email"})
					if bc.Kind != "Ciba" {
						panic(fmt.Sprintf("ciba narrowing scenario: no auth_req_id: %+v", bc))
					}
					o := g.do(Op{Kind: "Token", Grant: "urn:openid:params:grant-type:ciba", Cred: cred, AuthReq: bc.H, Scope: scope, HG: "HgOk", BA: ba})
					if o.Kind == "Tokens" {
						g.do(Op{Kind: "Introspect", Cred: cred, Tok: PTok{Kind: "PExact", H: o.At}, Allowed: true})
						if o.Rt != 0 {
							r1 := g.do(Op{Kind: "Token", Grant: "refresh_token", Cred: cred, Refresh: o.Rt, Scope: "email", HG: "HgOk", BA: "BaApprove"})
							rt := o.Rt
							if r1.Kind == "Tokens" && r1.Rt != 0 {
								rt = r1.Rt
							}
							g.do(Op{Kind: "Token", Grant: "refresh_token", Cred: cred, Refresh: rt, HG: "HgOk", BA: "BaApprove"})
						}
					}
					// the request is consumed either way
					g.do(Op{Kind: "Token", Grant: "urn:openid:params:grant-type:ciba", Cred: cred, AuthReq: bc.H, HG: "HgOk", BA: "BaApprove"})
				}
			}
			ctx.AddCase(g.Case(fmt.Sprintf("scenario:ciba-narrowed-at-approval/c%d/%s", id, fl)))
			ctx.AddStats(g.stats)
		}
	}
}

// C02: a redirect URI that is acceptable only because it was PUSHED is a one-time allowance of that pushed
// request.  For both storage flavours (the registered client object is shared under `alias`): the plain
// request naming the URI before anything was pushed, after the push, after the redemption of the pushed request
// and after the code was redeemed - each with a succeeding policy and with an error that would be redirected.
func scenarioPushedUnregisteredRedirect(ctx *RunCtx) {
	for _, fl := range []string{"copy", "alias"} {
		opts := []Opt{{Name: "WithScopes", Scopes: serverScopes}, {Name: "WithAuthorizationCodeGrant"}, {Name: "WithPAR", Z: 60},
			{Name: "WithUnregisteredRedirectURIsForPAR"}, {Name: "WithTokenLifetime", Z: 300}}
		g, err := NewSysGen(ctx.R, WorldSpec{Profile: "openid", Flavour: fl, Static: baseClients(ctx.R), Opts: opts})
		if err != nil {
			panic(err)
		}
		cred := Cred{ID: 1, OK: true}
		pol := Pol{Kind: "PolSuccess", Sub: "alice", Granted: "openid email"}
		for _, u := range []string{"https://unregistered.example/cb", "https://other.example/x?y=1"} {
			g.W.extraTargets = append(g.W.extraTargets, u)
			p := Params{Redirect: u, RespType: "code", Scopes: "openid email", State: "st-1"}
			plain := func() {
				g.do(Op{Kind: "Authorize", Client: 1, Params: p, PolicyAvail: true, Pol: pol})
				bad := p
				bad.Scopes = "openid admin"
				g.do(Op{Kind: "Authorize", Client: 1, Params: bad, PolicyAvail: true, Pol: pol})
			}
			plain()
			par := g.do(Op{Kind: "Par", Cred: cred, Params: p})
			plain()
			if par.Kind != "Par" {
				continue
			}
			nav := g.do(Op{Kind: "Authorize", Client: 1, Params: Params{RequestURI: par.H, RespType: "code", Scopes: "openid email", State: "st-1"}, PolicyAvail: true, Pol: pol})
			plain()
			if nav.Kind == "Nav" && nav.NCode != 0 {
				g.do(Op{Kind: "Token", Grant: "authorization_code", Cred: cred, Code: nav.NCode, Redirect: u, HG: "HgOk", BA: "BaApprove"})
			}
			plain()
			// a second push of the same URI whose redemption fails (no policy): the allowance must not survive it either
			par2 := g.do(Op{Kind: "Par", Cred: cred, Params: p})
			if par2.Kind == "Par" {
				g.do(Op{Kind: "Authorize", Client: 1, Params: Params{RequestURI: par2.H, RespType: "code", Scopes: "openid email", State: "st-1"}, PolicyAvail: false, Pol: pol})
				plain()
			}
		}
		ctx.AddCase(g.Case("scenario:pushed-unregistered-redirect/" + fl))
		ctx.AddStats(g.stats)
	}
}

// C17 (and C07): a pushed request whose interaction is IN PROGRESS.  The request_uri is consumed when the
// interaction starts: replaying it while the policy waits, a request without request_uri (PAR required and
// optional), the callback, the replay after the code was issued and the callback again.  The two users carry
// different state values, so that an answer built from the other session is visible in the navigation.
func scenarioPushedFlowInProgress(ctx *RunCtx) {
	for _, fl := range []string{"copy", "alias"} {
		for _, parOpt := range []string{"WithPAR", "WithPARRequired"} {
			opts := []Opt{{Name: "WithScopes", Scopes: serverScopes}, {Name: "WithAuthorizationCodeGrant"}, {Name: parOpt, Z: 60},
				{Name: "WithTokenLifetime", Z: 300}}
			g, err := NewSysGen(ctx.R, WorldSpec{Profile: "openid", Flavour: fl, Static: baseClients(ctx.R), Opts: opts})
			if err != nil {
				panic(err)
			}
			cred := Cred{ID: 1, OK: true}
			pa := Params{Redirect: "https://c1.example/cb", RespType: "code", Scopes: "openid email", State: "state-of-alice", Nonce: "n-alice"}
			pb := Params{Redirect: "https://c1.example/cb2?x=1", RespType: "code", Scopes: "openid", State: "state-of-bob", Nonce: "n-bob"}
			alice := Pol{Kind: "PolSuccess", Sub: "alice", Granted: "openid email"}
			bob := Pol{Kind: "PolSuccess", Sub: "bob", Granted: "openid"}
			redeem := func(h Handle, pol Pol) Obs {
				return g.do(Op{Kind: "Authorize", Client: 1, Params: Params{RequestURI: h, RespType: "code", Scopes: "openid email", State: "state-of-alice"}, PolicyAvail: true, Pol: pol})
			}
			par := g.do(Op{Kind: "Par", Cred: cred, Params: pa})
			if par.Kind != "Par" {
				panic(fmt.Sprintf("pushed-flow scenario: push refused: %+v", par))
			}
			page := redeem(par.H, Pol{Kind: "PolInProgress"})
			redeem(par.H, bob)                          // the request_uri again while the policy waits
			redeem(par.H, Pol{Kind: "PolInProgress"})   // ... and with a policy that would wait too
			g.do(Op{Kind: "Authorize", Client: 1, Params: pb, PolicyAvail: true, Pol: bob}) // no request_uri at all
			noURI := pb
			noURI.Redirect = ""
			g.do(Op{Kind: "Authorize", Client: 1, Params: noURI, PolicyAvail: true, Pol: bob})
			if page.Kind == "Page" {
				fin := g.do(Op{Kind: "Callback", Cb: page.H, Pol: alice})
				redeem(par.H, bob)
				g.do(Op{Kind: "Authorize", Client: 1, Params: noURI, PolicyAvail: true, Pol: bob})
				g.do(Op{Kind: "Callback", Cb: page.H, Pol: bob})
				if fin.Kind == "Nav" && fin.NCode != 0 {
					g.do(Op{Kind: "Token", Grant: "authorization_code", Cred: cred, Code: fin.NCode, Redirect: pa.Redirect, HG: "HgOk", BA: "BaApprove"})
				}
			}
			ctx.AddCase(g.Case(fmt.Sprintf("scenario:pushed-flow-in-progress/%s/%s", parOpt, fl)))
			ctx.AddStats(g.stats)
		}
	}
}
