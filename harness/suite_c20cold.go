package main

// C20, two more phases of the workload (run inside the -race binary by c20Work; see suite_c20work.go):
//
//  COLD START.  The two long-lived providers of suite_c20work.go are created once and warmed up: what only happens
//  on the FIRST requests of a provider instance is seen once per process at best.  This phase builds many fresh
//  providers (static clients only - no DCR, so every client object a request can reach is one held by the
//  configuration itself; default in-memory storage) and hits each immediately with 2..8 concurrent FIRST requests
//  (client_credentials, /par, /introspect) of static private_key_jwt clients that publish their keys at jwks_uri
//  (and of one with inline jwks, one with a secret).  The jwks endpoint is the round tripper below; in one round out
//  of three it holds the first fetches until all have arrived (all requests are then between "nothing cached" and
//  "fetched"), in another the requests run freely, in the third half of them start a little later (a late first
//  request against the traces of an early one).  Every goroutine of this phase runs under c20ColdRequest, which is
//  how a race report of this phase is recognised (suite_c20.go: a write to a client object is then a write to a
//  STATIC client, signature suffix [static-client]).
//
//  FAPI.  The long-lived providers use the OpenID profile only.  Two more providers, FAPI 1.0 (hybrid flow
//  `code id_token`, nonce) and FAPI 2.0 (`code`), both with PAR REQUIRED, PKCE required (S256), private_key_jwt
//  clients, refresh-token rotation and the default in-memory storage, serve PAR -> /authorize?request_uri ->
//  callbacks -> /token (-> refresh, introspection, userinfo) flows of several static clients on 4..16 goroutines;
//  request_uris, callback ids and codes are handed from one goroutine to the others as in the OpenID worlds.
//  Under these profiles the authorization request works on the pushed session ALONE (outer parameters are not
//  merged), the path on which the handler must not keep the stored object.  Handler families and outcomes of
//  these providers carry the suffix @fapi1 / @fapi2 and are part of the coverage assertion (family x profile).

import (
	"context"
	"encoding/json"
	"fmt"
	"io"
	mrand "math/rand"
	"net/http"
	"net/http/httptest"
	"net/url"
	"strings"
	"sync"
	"sync/atomic"
	"time"

	"github.com/go-jose/go-jose/v4"
	"github.com/luikyv/go-oidc/pkg/goidc"
	"github.com/luikyv/go-oidc/pkg/provider"
)

// ------------------------------------------------------------------ FAPI worlds

var c20FapiProfiles = []string{"fapi1", "fapi2"}

func newC20FapiWorld(profile string) (*c20W, error) {
	w := &c20W{name: strings.ToUpper(profile), rot: true, pool: map[string][]string{}, suffix: "@" + profile, profile: profile, flows: c20FapiFlows}
	w.ckey = genKey()
	pub := jose.JSONWebKey{Key: &w.ckey.PublicKey, KeyID: "ck1", Algorithm: "ES256", Use: "sig"}
	w.jwks, _ = json.Marshal(jose.JSONWebKeySet{Keys: []jose.JSONWebKey{pub}})
	srvKey := genKey()
	srv := goidc.JSONWebKeySet{Keys: []goidc.JSONWebKey{{Key: srvKey, KeyID: "srv-es256", Algorithm: "ES256", Use: "sig"}}}
	prof := goidc.ProfileFAPI2
	grants := []goidc.GrantType{goidc.GrantAuthorizationCode, goidc.GrantRefreshToken, goidc.GrantClientCredentials}
	rts := []goidc.ResponseType{goidc.ResponseTypeCode}
	if profile == "fapi1" {
		prof = goidc.ProfileFAPI1
		grants = append(grants, goidc.GrantImplicit)
		rts = append(rts, goidc.ResponseTypeCodeAndIDToken)
	}
	var statics []*goidc.Client
	for i := 1; i <= 6; i++ {
		c := &goidc.Client{ID: fmt.Sprintf("f%d", i)}
		c.TokenAuthnMethod = goidc.ClientAuthnPrivateKeyJWT
		c.TokenAuthnSigAlg = goidc.ES256
		c.PublicJWKS = w.jwks
		c.GrantTypes = grants
		c.ResponseTypes = rts
		c.RedirectURIs = c20URIs(1 + i%3)
		c.ScopeIDs = c20Scopes
		statics = append(statics, c)
	}
	opts := []provider.ProviderOption{
		// no With*Storage option: the provider's DEFAULT in-memory managers (internal/storage)
		provider.WithScopes(goidc.ScopeOpenID, goidc.NewScope("email"), goidc.ScopeOfflineAccess),
		provider.WithIDTokenSignatureAlgs(goidc.ES256),
		provider.WithAuthorizationCodeGrant(), provider.WithClientCredentialsGrant(),
		provider.WithRefreshTokenGrant(func(*goidc.Client, goidc.GrantInfo) bool { return true }, 600),
		provider.WithRefreshTokenRotation(),
		provider.WithPARRequired(60),
		provider.WithPKCERequired(goidc.CodeChallengeMethodSHA256),
		provider.WithPrivateKeyJWTSignatureAlgs(goidc.ES256),
		provider.WithTokenAuthnMethods(goidc.ClientAuthnPrivateKeyJWT),
		provider.WithTokenIntrospection(func(*goidc.Client) bool { return true }, goidc.ClientAuthnPrivateKeyJWT),
		provider.WithHTTPClientFunc(func(context.Context) *http.Client { return &http.Client{Transport: c20rt{w}} }),
		provider.WithTokenOptions(func(gi goidc.GrantInfo, c *goidc.Client) goidc.TokenOptions {
			return goidc.NewOpaqueTokenOptions(goidc.DefaultOpaqueTokenLength, 300)
		}),
		provider.WithPolicy(c20Policy()),
	}
	if profile == "fapi1" {
		opts = append(opts, provider.WithImplicitGrant())
	}
	for _, c := range statics {
		opts = append(opts, provider.WithStaticClient(c))
	}
	p, err := provider.New(prof, issuer, func(context.Context) (goidc.JSONWebKeySet, error) { return srv, nil }, opts...)
	if err != nil {
		return nil, err
	}
	c20Decorate(&p)
	w.p = p
	w.h = p.Handler()
	for _, c := range statics {
		w.shared = append(w.shared, c20client{id: c.ID, static: true, uris: c.RedirectURIs, auth: "pkjwt"})
	}
	return w, nil
}

// PAR -> /authorize?request_uri -> callbacks -> code -> (replay); some flows are abandoned after the push or after a
// page, another goroutine carries on; sometimes another client presents the request_uri
func (g *c20G) flowFapiAuthorize() {
	c, ok := g.pickClient(nil)
	if !ok {
		return
	}
	steps := 1 + g.r.Intn(3)
	state := fmt.Sprintf("n%d", steps)
	if g.r.Intn(8) == 0 {
		state = fmt.Sprintf("f%d", steps)
	}
	redirect := c.uris[g.r.Intn(len(c.uris))]
	rt := "code"
	if g.w.profile == "fapi1" {
		rt = "code id_token"
	}
	q := url.Values{"client_id": {c.id}, "response_type": {rt}, "scope": {c20Scopes}, "redirect_uri": {redirect},
		"state": {state}, "nonce": {"n"}, "code_challenge": {thumb(c20Verifier)}, "code_challenge_method": {"S256"}}
	m := g.form("par", "/par", g.authn(c, q))
	g.outcome("par", m)
	ru := str(m, "request_uri")
	if ru == "" {
		return
	}
	g.w.put("request_uri", ru+"|"+c.id+"|"+redirect)
	if g.r.Intn(6) == 0 {
		g.w.put("request_uri-open", ru+"|"+c.id+"|"+redirect)
		return // left to another goroutine
	}
	if g.r.Intn(12) == 0 {
		if o, ok := g.pickClient(func(o c20client) bool { return o.id != c.id }); ok {
			rec := g.call("authorize-foreign-request_uri", "GET", "/authorize?"+g.w.outer(o.id, ru).Encode(), "", "", nil)
			g.count(fmt.Sprintf("authorize-foreign-request_uri:%d", rec.Code))
			return
		}
	}
	rec := g.call("authorize", "GET", "/authorize?"+g.w.outer(c.id, ru).Encode(), "", "", nil)
	g.carryOn("authorize", "callback", rec, c, redirect, true)
}

// flowURIBurst: ONE fresh request_uri redeemed by 2..4 goroutines AT ONCE (the K3 window on purpose): every one of
// them finds the pushed session, continues with its own copy of it, has initAuthnSession record the nonce claim and
// the policy store its step (state n2/n3: the first step shows a page after StoreParameter) - on copies that must
// share nothing with each other or with the stored session, maps included (defect D24).  The short-lived goroutines
// carry logs of their own; the parent follows one of the answers to the code.
func (g *c20G) flowURIBurst() {
	c, ok := g.pickClient(nil)
	if !ok {
		return
	}
	redirect := c.uris[g.r.Intn(len(c.uris))]
	rt := "code"
	if g.w.profile == "fapi1" {
		rt = "code id_token"
	}
	state := fmt.Sprintf("n%d", 2+g.r.Intn(2))
	q := url.Values{"client_id": {c.id}, "response_type": {rt}, "scope": {c20Scopes}, "redirect_uri": {redirect},
		"state": {state}, "nonce": {"n"}, "code_challenge": {thumb(c20Verifier)}, "code_challenge_method": {"S256"}}
	m := g.form("par", "/par", g.authn(c, q))
	g.outcome("par", m)
	ru := str(m, "request_uri")
	if ru == "" {
		return
	}
	n := 2 + g.r.Intn(3)
	g.w.mu.Lock()
	g.w.burstSeq++
	seq := g.w.burstSeq
	g.w.mu.Unlock()
	kids := make([]*c20G, n)
	recs := make([]*httptest.ResponseRecorder, n)
	target := "/authorize?" + g.w.outer(c.id, ru).Encode()
	var wg sync.WaitGroup
	start := make(chan struct{})
	for i := range kids {
		kids[i] = &c20G{w: g.w, r: mrand.New(mrand.NewSource(g.r.Int63())), log: &c20glog{g: 500000 + seq*8 + i, cnt: map[string]int{}}, base: g.base, deadline: g.deadline}
		wg.Add(1)
		go func(i int) {
			defer wg.Done()
			<-start
			recs[i] = kids[i].call("request_uri-burst", "GET", target, "", "", nil)
		}(i)
	}
	close(start)
	wg.Wait()
	pages := 0
	for i, k := range kids {
		if strings.HasPrefix(recs[i].Body.String(), "PAGE cb=") {
			pages++
		}
		_ = k
	}
	g.count(fmt.Sprintf("request_uri-burst:requests=%d:pages=%d", n, pages))
	if pages >= 2 {
		g.count("request_uri-burst:several-in-the-window")
	}
	g.w.mu.Lock()
	for _, k := range kids {
		g.w.extraLogs = append(g.w.extraLogs, k.log)
	}
	g.w.mu.Unlock()
	for i := range kids {
		if strings.HasPrefix(recs[i].Body.String(), "PAGE cb=") {
			g.carryOn("request_uri-burst", "callback", recs[i], c, redirect, false)
			return
		}
	}
}

var c20FapiFlows = []c20Flow{
	{"fapi-authorize", 40, (*c20G).flowFapiAuthorize},
	{"request_uri-burst", 6, (*c20G).flowURIBurst},
	{"shared-artifacts", 14, (*c20G).flowShared},
	{"refresh", 14, (*c20G).flowRefresh},
	{"introspect", 10, (*c20G).flowIntrospect},
	{"userinfo", 10, (*c20G).flowUserinfo},
	{"client_credentials", 6, (*c20G).flowClientCredentials},
}

// what each FAPI provider must have served concurrently, and answered
var c20FapiFamilies = []string{"par", "authorize", "callback", "request_uri-shared", "request_uri-burst", "code", "code-replay", "refresh-rotation", "introspect", "userinfo"}
var c20FapiOutcomes = []string{"request_uri-burst:several-in-the-window", "par:ok", "authorize:code:steps=1", "authorize:code:steps=2", "authorize:in-progress", "code:ok", "refresh-rotation:ok"}

// ------------------------------------------------------------------ cold start

type c20ColdRT struct {
	jwks    []byte
	hold    bool
	want    int32
	arrived atomic.Int32
	all     chan struct{}
	fetches atomic.Int32
}

func (t *c20ColdRT) RoundTrip(r *http.Request) (*http.Response, error) {
	if strings.HasSuffix(r.URL.Path, "/jwks.json") {
		t.fetches.Add(1)
		if t.hold {
			if t.arrived.Add(1) == t.want {
				close(t.all)
			}
			select {
			case <-t.all:
			case <-time.After(250 * time.Millisecond):
			}
		}
		return &http.Response{StatusCode: 200, Body: io.NopCloser(strings.NewReader(string(t.jwks))), Header: http.Header{}}, nil
	}
	return &http.Response{StatusCode: 204, Body: io.NopCloser(strings.NewReader("")), Header: http.Header{}}, nil
}

type c20ColdKit struct {
	w      *c20W // key material shared by all the cold providers (creating keys is what is expensive)
	srv    goidc.JSONWebKeySet
	hashed string
}

func newC20ColdKit() *c20ColdKit {
	k := &c20ColdKit{w: &c20W{name: "C"}}
	k.w.ckey = genKey()
	pub := jose.JSONWebKey{Key: &k.w.ckey.PublicKey, KeyID: "ck1", Algorithm: "ES256", Use: "sig"}
	k.w.jwks, _ = json.Marshal(jose.JSONWebKeySet{Keys: []jose.JSONWebKey{pub}})
	k.srv = goidc.JSONWebKeySet{Keys: []goidc.JSONWebKey{{Key: genKey(), KeyID: "srv-es256", Algorithm: "ES256", Use: "sig"}}}
	k.hashed = bcryptOf(c13Secret)
	return k
}

// a fresh provider: static clients only, default storage
func (k *c20ColdKit) provider(rt *c20ColdRT) (*c20W, error) {
	w := &c20W{name: "C", rot: false, pool: map[string][]string{}, suffix: "@cold", profile: "openid", ckey: k.w.ckey, jwks: k.w.jwks}
	mk := func(id string, method goidc.ClientAuthnType, jwksURI bool) *goidc.Client {
		c := &goidc.Client{ID: id}
		c.TokenAuthnMethod = method
		c.GrantTypes = []goidc.GrantType{goidc.GrantAuthorizationCode, goidc.GrantClientCredentials}
		c.ResponseTypes = []goidc.ResponseType{goidc.ResponseTypeCode}
		c.RedirectURIs = c20URIs(1)
		c.ScopeIDs = c20Scopes
		switch {
		case method == goidc.ClientAuthnSecretPost:
			c.HashedSecret = k.hashed
		case jwksURI:
			c.TokenAuthnSigAlg = goidc.ES256
			c.PublicJWKSURI = "https://" + id + ".example/jwks.json"
		default:
			c.TokenAuthnSigAlg = goidc.ES256
			c.PublicJWKS = k.w.jwks
		}
		return c
	}
	statics := []*goidc.Client{mk("cj1", goidc.ClientAuthnPrivateKeyJWT, true), mk("cj2", goidc.ClientAuthnPrivateKeyJWT, true),
		mk("ci1", goidc.ClientAuthnPrivateKeyJWT, false), mk("cp1", goidc.ClientAuthnSecretPost, false)}
	opts := []provider.ProviderOption{
		provider.WithScopes(goidc.ScopeOpenID, goidc.NewScope("email"), goidc.ScopeOfflineAccess),
		provider.WithIDTokenSignatureAlgs(goidc.ES256),
		provider.WithAuthorizationCodeGrant(), provider.WithClientCredentialsGrant(),
		provider.WithPAR(60), provider.WithPKCE(goidc.CodeChallengeMethodSHA256),
		provider.WithPrivateKeyJWTSignatureAlgs(goidc.ES256),
		provider.WithTokenAuthnMethods(goidc.ClientAuthnSecretPost, goidc.ClientAuthnPrivateKeyJWT),
		provider.WithTokenIntrospection(func(*goidc.Client) bool { return true }, goidc.ClientAuthnSecretPost, goidc.ClientAuthnPrivateKeyJWT),
		provider.WithHTTPClientFunc(func(context.Context) *http.Client { return &http.Client{Transport: rt} }),
		provider.WithTokenOptions(func(gi goidc.GrantInfo, c *goidc.Client) goidc.TokenOptions {
			return goidc.NewOpaqueTokenOptions(goidc.DefaultOpaqueTokenLength, 300)
		}),
		provider.WithPolicy(c20Policy()),
	}
	for _, c := range statics {
		opts = append(opts, provider.WithStaticClient(c))
	}
	p, err := provider.New(goidc.ProfileOpenID, issuer, func(context.Context) (goidc.JSONWebKeySet, error) { return k.srv, nil }, opts...)
	if err != nil {
		return nil, err
	}
	c20Decorate(&p)
	w.p = p
	w.h = p.Handler()
	for _, c := range statics {
		cc := c20client{id: c.ID, static: true, uris: c.RedirectURIs, auth: "pkjwt"}
		if c.TokenAuthnMethod == goidc.ClientAuthnSecretPost {
			cc.auth, cc.secret = "post", c13Secret
		}
		w.shared = append(w.shared, cc)
	}
	return w, nil
}

// c20ColdRequest: ONE first request of a static client against a provider that has served nothing yet.
// (Race reports whose stack goes through this function belong to the cold-start phase: suite_c20.go.)
//
//go:noinline
func c20ColdRequest(g *c20G, c c20client, kind int, delay time.Duration) {
	if delay > 0 {
		time.Sleep(delay)
	}
	switch kind {
	case 0:
		m := g.form("cold-start-token", "/token", g.authn(c, url.Values{"grant_type": {"client_credentials"}, "scope": {"email"}}))
		g.outcome("cold-start-token", m)
	case 1:
		q := url.Values{"response_type": {"code"}, "scope": {c20Scopes}, "redirect_uri": {c.uris[0]}, "state": {"n1"}, "nonce": {"n"},
			"code_challenge": {thumb(c20Verifier)}, "code_challenge_method": {"S256"}}
		m := g.form("cold-start-par", "/par", g.authn(c, q))
		g.outcome("cold-start-par", m)
	default:
		m := g.form("cold-start-introspect", "/introspect", g.authn(c, url.Values{"token": {"no-such-token"}}))
		if _, ok := m["active"]; ok {
			g.count("cold-start-introspect:ok")
		} else {
			g.outcome("cold-start-introspect", m)
		}
	}
}

// c20ColdStart runs `rounds` fresh providers; returns the logs of its goroutines
func c20ColdStart(seed int64, rounds int, base time.Time) (logs []*c20glog, stats map[string]int) {
	kit := newC20ColdKit()
	stats = map[string]int{}
	r := mrand.New(mrand.NewSource(seed*7919 + 17))
	for round := 0; round < rounds; round++ {
		n := 2 + r.Intn(7) // 2..8 concurrent first requests
		mode := round % 3  // 0 held at the jwks endpoint, 1 free, 2 staggered
		rt := &c20ColdRT{jwks: kit.w.jwks, hold: mode == 0, all: make(chan struct{})}
		w, err := kit.provider(rt)
		if err != nil {
			panic(err)
		}
		// who asks what: mostly the jwks_uri clients, so that several first fetches of ONE client object meet
		type ask struct {
			c     c20client
			kind  int
			delay time.Duration
		}
		asks := make([]ask, n)
		uriAsks := int32(0)
		hot := w.shared[r.Intn(2)]
		for i := range asks {
			c := hot
			switch k := r.Intn(10); {
			case k >= 9:
				c = w.shared[3] // secret
			case k >= 8:
				c = w.shared[2] // inline jwks
			case k >= 6:
				c = w.shared[r.Intn(2)]
			}
			asks[i] = ask{c: c, kind: r.Intn(3)}
			if mode == 2 && i >= (n+1)/2 {
				asks[i].delay = time.Duration(1+r.Intn(4)) * time.Millisecond
			}
			if strings.HasPrefix(c.id, "cj") {
				uriAsks++
			}
		}
		rt.want = uriAsks
		if uriAsks == 0 {
			rt.hold = false
		}
		var wg sync.WaitGroup
		gs := make([]*c20G, n)
		for i := range gs {
			gs[i] = &c20G{w: w, r: mrand.New(mrand.NewSource(seed*100003 + int64(round*16+i))), log: &c20glog{g: 900000 + round*16 + i, cnt: map[string]int{}}, base: base}
			wg.Add(1)
			go func(g *c20G, a ask) {
				defer wg.Done()
				c20ColdRequest(g, a.c, a.kind, a.delay)
			}(gs[i], asks[i])
		}
		wg.Wait()
		for _, g := range gs {
			logs = append(logs, g.log)
		}
		stats["cold-start/rounds"]++
		stats[fmt.Sprintf("cold-start/mode=%s", []string{"held-at-jwks_uri", "free", "staggered"}[mode])]++
		stats[fmt.Sprintf("cold-start/concurrent-first-requests=%d", n)]++
		if f := rt.fetches.Load(); f >= 2 {
			stats["cold-start/rounds-with-2+-fetches-of-jwks_uri"]++
		}
		if mode == 0 && uriAsks >= 2 && rt.arrived.Load() == uriAsks {
			stats["cold-start/rounds-with-all-first-fetches-in-flight-together"]++
		}
	}
	return logs, stats
}
