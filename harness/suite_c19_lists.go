package main

// C19, suite c19lists: the client-authentication METHOD lists of the three endpoints and every
// signing / encryption ALGORITHM list option are inputs here. For generated option lists (each list
// option with and without its enabling option, each endpoint's method list independently, JWT
// based methods on one endpoint only, refused arguments) the REAL provider is built, its discovery
// document is compared member by member with Discovery2.document2, and the lists are PROBED:
//   - authn probes: clients registered with private_key_jwt / client_secret_jwt at exactly one
//     endpoint send a valid assertion signed with each algorithm of a universe;
//   - artifact probes: clients registered with signing / key-encryption / content-encryption
//     algorithms obtain an ID token, a userinfo response and a JWT-secured authorization response.
// The case file compares every observation with the gates of Model/Discovery2.v; the property
// (advertised => accepted, not advertised => refused / absent) is evaluated on the observations
// alone, in Coq (mon_c19l) and, to name the member and the probe, here (meta.Findings).

import (
	"crypto/ecdsa"
	"crypto/elliptic"
	"crypto/rand"
	"crypto/rsa"
	"encoding/json"
	"fmt"
	"net/http"
	"net/url"
	"os"
	"path/filepath"
	"sort"
	"strings"
	"time"

	"github.com/go-jose/go-jose/v4"
	"github.com/go-jose/go-jose/v4/jwt"
	"github.com/luikyv/go-oidc/pkg/goidc"
	"github.com/luikyv/go-oidc/pkg/provider"
)

// ---- a list-taking option with its real arguments ----
type c19lOpt struct {
	Name string // the name of the Go option
	D    string // first (default) argument
	L    []string
}

var c19lCoqName = map[string]string{
	"WithTokenAuthnMethods": "WithTokenAuthnMethods", "WithTokenIntrospection": "WithTokenIntrospectionM",
	"WithTokenRevocation": "WithTokenRevocationM", "WithPrivateKeyJWTSignatureAlgs": "WithPrivateKeyJWTSignatureAlgs",
	"WithSecretJWTSignatureAlgs": "WithSecretJWTSignatureAlgs", "WithIDTokenSignatureAlgs": "WithIDTokenSignatureAlgs",
	"WithIDTokenEncryption": "WithIDTokenEncryption", "WithIDTokenContentEncryptionAlgs": "WithIDTokenContentEncryptionAlgs",
	"WithUserInfoSignatureAlgs": "WithUserInfoSignatureAlgs", "WithUserInfoEncryption": "WithUserInfoEncryption",
	"WithUserInfoContentEncryptionAlgs": "WithUserInfoContentEncryptionAlgs", "WithJAR": "WithJARAlgs",
	"WithJAREncryption": "WithJAREncryption", "WithJARContentEncryptionAlgs": "WithJARContentEncryptionAlgs",
	"WithJARM": "WithJARMAlgs", "WithJARMEncryption": "WithJARMEncryption",
	"WithJARMContentEncryptionAlgs": "WithJARMContentEncryptionAlgs", "WithDPoP": "WithDPoPAlgs", "WithCIBAJAR": "WithCIBAJARAlgs",
}

func (o c19lOpt) coq() string {
	return fmt.Sprintf("%s %s %s", c19lCoqName[o.Name], cS(o.D), cList(o.L, cS))
}
func (o c19lOpt) String() string { return fmt.Sprintf("%s(%s)", o.Name, strings.Join(append([]string{o.D}, o.L...), ",")) }

func c19lSig(l []string) []goidc.SignatureAlgorithm {
	var r []goidc.SignatureAlgorithm
	for _, x := range l {
		r = append(r, goidc.SignatureAlgorithm(x))
	}
	return r
}
func c19lMeth(l []string) []goidc.ClientAuthnType {
	var r []goidc.ClientAuthnType
	for _, x := range l {
		r = append(r, goidc.ClientAuthnType(x))
	}
	return r
}
func c19lKey(l []string) []goidc.KeyEncryptionAlgorithm {
	var r []goidc.KeyEncryptionAlgorithm
	for _, x := range l {
		r = append(r, goidc.KeyEncryptionAlgorithm(x))
	}
	return r
}
func c19lCenc(l []string) []goidc.ContentEncryptionAlgorithm {
	var r []goidc.ContentEncryptionAlgorithm
	for _, x := range l {
		r = append(r, goidc.ContentEncryptionAlgorithm(x))
	}
	return r
}

func (o c19lOpt) provider() provider.ProviderOption {
	allowed := func(*goidc.Client) bool { return true }
	sa, sl := goidc.SignatureAlgorithm(o.D), c19lSig(o.L)
	ka, kl := goidc.KeyEncryptionAlgorithm(o.D), c19lKey(o.L)
	ca, cl := goidc.ContentEncryptionAlgorithm(o.D), c19lCenc(o.L)
	switch o.Name {
	case "WithTokenAuthnMethods":
		return provider.WithTokenAuthnMethods(goidc.ClientAuthnType(o.D), c19lMeth(o.L)...)
	case "WithTokenIntrospection":
		return provider.WithTokenIntrospection(allowed, goidc.ClientAuthnType(o.D), c19lMeth(o.L)...)
	case "WithTokenRevocation":
		return provider.WithTokenRevocation(allowed, goidc.ClientAuthnType(o.D), c19lMeth(o.L)...)
	case "WithPrivateKeyJWTSignatureAlgs":
		return provider.WithPrivateKeyJWTSignatureAlgs(sa, sl...)
	case "WithSecretJWTSignatureAlgs":
		return provider.WithSecretJWTSignatureAlgs(sa, sl...)
	case "WithIDTokenSignatureAlgs":
		return provider.WithIDTokenSignatureAlgs(sa, sl...)
	case "WithIDTokenEncryption":
		return provider.WithIDTokenEncryption(ka, kl...)
	case "WithIDTokenContentEncryptionAlgs":
		return provider.WithIDTokenContentEncryptionAlgs(ca, cl...)
	case "WithUserInfoSignatureAlgs":
		return provider.WithUserInfoSignatureAlgs(sa, sl...)
	case "WithUserInfoEncryption":
		return provider.WithUserInfoEncryption(ka, kl...)
	case "WithUserInfoContentEncryptionAlgs":
		return provider.WithUserInfoContentEncryptionAlgs(ca, cl...)
	case "WithJAR":
		return provider.WithJAR(sa, sl...)
	case "WithJAREncryption":
		return provider.WithJAREncryption(ka, kl...)
	case "WithJARContentEncryptionAlgs":
		return provider.WithJARContentEncryptionAlgs(ca, cl...)
	case "WithJARM":
		return provider.WithJARM(sa, sl...)
	case "WithJARMEncryption":
		return provider.WithJARMEncryption(ka, kl...)
	case "WithJARMContentEncryptionAlgs":
		return provider.WithJARMContentEncryptionAlgs(ca, cl...)
	case "WithDPoP":
		return provider.WithDPoP(sa, sl...)
	case "WithCIBAJAR":
		return provider.WithCIBAJAR(sa, sl...)
	}
	panic("c19lists: unknown option " + o.Name)
}

// ---- keys ----
type c19lKeySet struct {
	srvES384 *ecdsa.PrivateKey
	srvRSA   *rsa.PrivateKey
	clRSA    *rsa.PrivateKey
	clES256  *ecdsa.PrivateKey
	clES384  *ecdsa.PrivateKey
	clJWKS   json.RawMessage
}

var c19lKeyCache *c19lKeySet

func c19lKeys() *c19lKeySet {
	if c19lKeyCache != nil {
		return c19lKeyCache
	}
	k := &c19lKeySet{}
	k.srvES384, _ = ecdsa.GenerateKey(elliptic.P384(), rand.Reader)
	k.srvRSA, _ = rsa.GenerateKey(rand.Reader, 2048)
	k.clRSA, _ = rsa.GenerateKey(rand.Reader, 2048)
	k.clES256, _ = ecdsa.GenerateKey(elliptic.P256(), rand.Reader)
	k.clES384, _ = ecdsa.GenerateKey(elliptic.P384(), rand.Reader)
	set := jose.JSONWebKeySet{Keys: []jose.JSONWebKey{
		{Key: &k.clRSA.PublicKey, KeyID: "c-rs256", Algorithm: "RS256", Use: "sig"},
		{Key: &k.clRSA.PublicKey, KeyID: "c-ps256", Algorithm: "PS256", Use: "sig"},
		{Key: &k.clES256.PublicKey, KeyID: "c-es256", Algorithm: "ES256", Use: "sig"},
		{Key: &k.clES384.PublicKey, KeyID: "c-es384", Algorithm: "ES384", Use: "sig"},
		{Key: &k.clRSA.PublicKey, KeyID: "c-oaep256", Algorithm: "RSA-OAEP-256", Use: "enc"},
		{Key: &k.clRSA.PublicKey, KeyID: "c-oaep", Algorithm: "RSA-OAEP", Use: "enc"},
	}}
	k.clJWKS, _ = json.Marshal(set)
	c19lKeyCache = k
	return k
}

const c19lSecret = "c19lists-client-secret-that-is-long-enough-for-hs512-0123456789abcdef"
const c19lRedirect = "https://lx.example/cb"

var c19lPkAlgs = []string{"RS256", "PS256", "ES256", "ES384"}
var c19lHsAlgs = []string{"HS256", "HS384"}
var c19lEndpoints = []string{"AToken", "AIntrospect", "ARevoke"}

// ---- probe records ----
type c19lAuthn struct {
	Ep     string // AToken | AIntrospect | ARevoke
	Method string
	ClAlg  string
	Alg    string
	OK     bool
	Status int
	Body   string
}

func (p c19lAuthn) coq() string {
	return fmt.Sprintf("mkAP %s %s %s %s %s", p.Ep, cS(p.Method), cS(p.ClAlg), cS(p.Alg), cB(p.OK))
}

type c19lArt struct {
	Art     string // AIdToken | AUserInfo | AJarm
	Sig     string
	Key     string
	Cenc    string
	Present bool
	Enc     bool
	GotKey  string
	GotCenc string
	GotSig  string // "" = plain JSON
	Raw     string
	claims  string
}

func (p c19lArt) coq() string {
	got := "None"
	if p.Present {
		enc := "None"
		if p.Enc {
			enc = fmt.Sprintf("(Some (%s, %s))", cS(p.GotKey), cS(p.GotCenc))
		}
		got = fmt.Sprintf("(Some (%s, %s))", enc, cS(p.GotSig))
	}
	return fmt.Sprintf("mkXP %s %s %s %s %s", p.Art, cS(p.Sig), cS(p.Key), cS(p.Cenc), got)
}

type c19lCfg struct {
	Base  []Opt
	Extra []c19lOpt
	Note  string
}

type c19lCase struct {
	Cfg   c19lCfg
	Built bool
	Doc   []docMember
	Raw   string
	Authn []c19lAuthn
	Art   []c19lArt
}

func (c c19lCfg) optsCoq() string {
	parts := []string{`WithIDTokenSignatureAlgs "ES256" []`, `WithTokenAuthnMethods "client_secret_post" ["none"]`}
	for _, o := range c.Base {
		parts = append(parts, "O ("+o.coq()+")")
	}
	for _, o := range c.Extra {
		parts = append(parts, o.coq())
	}
	return "[" + strings.Join(parts, ";\n   ") + "]"
}

func (c c19lCase) coq() string {
	return fmt.Sprintf("(mkC19L POpenID\n  %s\n  %s\n  %s\n  %s\n  %s)", c.Cfg.optsCoq(), cB(c.Built),
		cList(c.Doc, func(m docMember) string { return "(" + cS(m.Name) + ", " + m.V.coq() + ")" }),
		cList(c.Authn, c19lAuthn.coq), cList(c.Art, c19lArt.coq))
}

// ---- probe clients ----
func c19lAuthnClientID(ep, method, clAlg string) string {
	return "la-" + strings.ToLower(ep[1:]) + "-" + method + "-" + clAlg
}

func c19lAuthnClient(ep, method, clAlg string) *goidc.Client {
	c := &goidc.Client{ID: c19lAuthnClientID(ep, method, clAlg)}
	c.GrantTypes = []goidc.GrantType{goidc.GrantClientCredentials}
	c.ScopeIDs = "openid email"
	c.PublicJWKS = c19lKeys().clJWKS
	c.Secret = c19lSecret
	c.HashedSecret = bcryptOf(c19lSecret)
	m, a := goidc.ClientAuthnType(method), goidc.SignatureAlgorithm(clAlg)
	c.TokenAuthnMethod = goidc.ClientAuthnSecretPost
	switch ep {
	case "AToken":
		c.TokenAuthnMethod, c.TokenAuthnSigAlg = m, a
	case "AIntrospect":
		c.TokenIntrospectionAuthnMethod, c.TokenIntrospectionAuthnSigAlg = m, a
	case "ARevoke":
		c.TokenRevocationAuthnMethod, c.TokenRevocationAuthnSigAlg = m, a
	}
	return c
}

type c19lArtSpec struct{ Sig, Key, Cenc string }

// the registrations of the artifact probe clients: the cross product of the key and content
// encryption algorithms of the universe (content algorithm "" = the server's default), and clients
// without a key algorithm; the signing algorithms rotate
var c19lArtSpecs = []c19lArtSpec{
	{"", "", ""}, {"ES384", "", "A128GCM"},
	{"ES256", "RSA-OAEP-256", ""}, {"", "RSA-OAEP-256", "A128CBC-HS256"}, {"PS256", "RSA-OAEP-256", "A128GCM"}, {"ES256", "RSA-OAEP-256", "A256GCM"},
	{"RS256", "RSA-OAEP", ""}, {"ES256", "RSA-OAEP", "A128CBC-HS256"}, {"ES384", "RSA-OAEP", "A128GCM"}, {"", "RSA-OAEP", "A256GCM"},
}

func c19lArtClient(i int, s c19lArtSpec, jarm bool) *goidc.Client {
	c := &goidc.Client{ID: fmt.Sprintf("lx-%d", i), HashedSecret: bcryptOf(c19lSecret)}
	c.TokenAuthnMethod = goidc.ClientAuthnSecretPost
	c.GrantTypes = []goidc.GrantType{goidc.GrantAuthorizationCode, goidc.GrantImplicit}
	c.ResponseTypes = []goidc.ResponseType{"code", "token", "id_token", "id_token token"}
	c.RedirectURIs = []string{c19lRedirect}
	c.ScopeIDs = "openid email"
	c.PublicJWKS = c19lKeys().clJWKS
	sa, ka, ca := goidc.SignatureAlgorithm(s.Sig), goidc.KeyEncryptionAlgorithm(s.Key), goidc.ContentEncryptionAlgorithm(s.Cenc)
	// a client with authorization_signed_response_alg gets EVERY authorization response as a JWT
	// (redirect.go redirectResponse), so the JARM registration lives in a client of its own
	if jarm {
		c.ID = fmt.Sprintf("lj-%d", i)
		c.JARMSigAlg, c.JARMKeyEncAlg, c.JARMContentEncAlg = sa, ka, ca
		return c
	}
	c.IDTokenSigAlg, c.UserInfoSigAlg = sa, sa
	c.IDTokenKeyEncAlg, c.UserInfoKeyEncAlg = ka, ka
	c.IDTokenContentEncAlg, c.UserInfoContentEncAlg = ca, ca
	return c
}

// ---- running one configuration ----
var c19lCurrent *c19lCfg
var c19lJarmErrWrapped int

func c19lExtraOpts(w *World) []provider.ProviderOption {
	var out []provider.ProviderOption
	if c19lCurrent == nil {
		return nil
	}
	for _, o := range c19lCurrent.Extra {
		out = append(out, o.provider())
	}
	for _, ep := range c19lEndpoints {
		for _, m := range []string{"private_key_jwt", "client_secret_jwt"} {
			out = append(out, provider.WithStaticClient(c19lAuthnClient(ep, m, "")))
		}
		out = append(out, provider.WithStaticClient(c19lAuthnClient(ep, "private_key_jwt", "ES256")))
	}
	for i, s := range c19lArtSpecs {
		out = append(out, provider.WithStaticClient(c19lArtClient(i, s, false)), provider.WithStaticClient(c19lArtClient(i, s, true)))
	}
	return out
}

func c19lAssertion(clientID, alg string, seq int) string {
	k := c19lKeys()
	var key any
	kid := ""
	switch alg {
	case "RS256":
		key, kid = k.clRSA, "c-rs256"
	case "PS256":
		key, kid = k.clRSA, "c-ps256"
	case "ES256":
		key, kid = k.clES256, "c-es256"
	case "ES384":
		key, kid = k.clES384, "c-es384"
	default: // HS*
		key = []byte(c19lSecret)
	}
	so := (&jose.SignerOptions{}).WithType("JWT")
	if kid != "" {
		so = so.WithHeader("kid", kid)
	}
	signer, err := jose.NewSigner(jose.SigningKey{Algorithm: jose.SignatureAlgorithm(alg), Key: key}, so)
	if err != nil {
		panic(err)
	}
	now := time.Now()
	claims := map[string]any{"iss": clientID, "sub": clientID, "aud": issuer, "jti": fmt.Sprintf("jti-%s-%d", clientID, seq),
		"iat": now.Unix(), "exp": now.Add(120 * time.Second).Unix()}
	s, err := jwt.Signed(signer).Claims(claims).Serialize()
	if err != nil {
		panic(err)
	}
	return s
}

func c19lEndpointPath(ep string) string {
	return map[string]string{"AToken": "/token", "AIntrospect": "/introspect", "ARevoke": "/revoke"}[ep]
}

func (w *World) c19lAuthnProbe(ep, method, clAlg, alg string, seq int) c19lAuthn {
	id := c19lAuthnClientID(ep, method, clAlg)
	v := url.Values{}
	v.Set("client_id", id)
	v.Set("client_assertion_type", "urn:ietf:params:oauth:client-assertion-type:jwt-bearer")
	v.Set("client_assertion", c19lAssertion(id, alg, seq))
	if ep == "AToken" {
		v.Set("grant_type", "client_credentials")
		v.Set("scope", "email")
	} else {
		v.Set("token", "c19lists-not-a-token-but-long-enough-to-look-like-one-0123456789")
	}
	w.Stores.BeginRequest(nil, -1)
	w.hg = "HgOk"
	rec, pan := w.serve("POST", w.prefix()+c19lEndpointPath(ep), v, nil)
	p := c19lAuthn{Ep: ep, Method: method, ClAlg: clAlg, Alg: alg}
	if pan != nil {
		p.Body = fmt.Sprint("panic: ", pan)
		return p
	}
	p.Status, p.Body = rec.Code, truncate(rec.Body.String(), 200)
	// authenticated: the request got past clientutil.Authenticated (which only answers invalid_client);
	// a disabled endpoint is ServeMux's 404
	p.OK = rec.Code != 404 && !strings.Contains(rec.Body.String(), `"invalid_client"`) && rec.Code < 500
	return p
}

var c19lAllKeyAlgs = []jose.KeyAlgorithm{jose.RSA_OAEP_256, jose.RSA_OAEP, jose.RSA1_5, jose.ECDH_ES}
var c19lAllCencs = []jose.ContentEncryption{jose.A128CBC_HS256, jose.A192CBC_HS384, jose.A256CBC_HS512, jose.A128GCM, jose.A192GCM, jose.A256GCM}
var c19lAllSigs = []jose.SignatureAlgorithm{jose.RS256, jose.RS384, jose.RS512, jose.PS256, jose.PS384, jose.PS512, jose.ES256, jose.ES384, jose.ES512, jose.EdDSA, jose.HS256}

// classify a compact JWT: encrypted with (alg, enc)? signed with which algorithm?
func c19lClassify(p *c19lArt, tok string) {
	p.Present, p.Raw = true, truncate(tok, 120)
	if strings.Count(tok, ".") == 4 {
		jwe, err := jose.ParseEncrypted(tok, c19lAllKeyAlgs, c19lAllCencs)
		if err != nil {
			p.Enc, p.GotKey = true, "unparsable: "+err.Error()
			return
		}
		p.Enc, p.GotKey = true, jwe.Header.Algorithm
		if e, ok := jwe.Header.ExtraHeaders["enc"].(string); ok {
			p.GotCenc = e
		}
		plain, err := jwe.Decrypt(c19lKeys().clRSA)
		if err != nil {
			p.GotSig = "undecryptable: " + err.Error()
			return
		}
		tok = string(plain)
	}
	jws, err := jose.ParseSigned(tok, c19lAllSigs)
	if err != nil || len(jws.Signatures) != 1 {
		p.GotSig = "unparsable"
		return
	}
	p.GotSig = jws.Signatures[0].Header.Algorithm
	p.claims = string(jws.UnsafePayloadWithoutVerification())
}

func (w *World) c19lArtProbes(i int, s c19lArtSpec) []c19lArt {
	id := fmt.Sprintf("lx-%d", i)
	mk := func(a string) c19lArt { return c19lArt{Art: a, Sig: s.Sig, Key: s.Key, Cenc: s.Cenc} }
	idt, ui, jarm := mk("AIdToken"), mk("AUserInfo"), mk("AJarm")
	authorize := func(id, rt, mode string) url.Values {
		v := url.Values{}
		v.Set("client_id", id)
		v.Set("response_type", rt)
		v.Set("scope", "openid email")
		v.Set("redirect_uri", c19lRedirect)
		v.Set("nonce", "n-1")
		v.Set("state", "st-1")
		if mode != "" {
			v.Set("response_mode", mode)
		}
		w.Stores.BeginRequest(nil, -1)
		w.polAvail, w.pol, w.hg = true, Pol{Kind: "PolSuccess", Sub: "alice", Granted: "openid email"}, "HgOk"
		rec, pan := w.serve("GET", w.prefix()+"/authorize?"+v.Encode(), nil, nil)
		if pan != nil || rec == nil {
			return nil
		}
		loc := rec.Header().Get("Location")
		if k := strings.Index(loc, "#"); k >= 0 {
			q, _ := url.ParseQuery(loc[k+1:])
			return q
		}
		if u, err := url.Parse(loc); err == nil && loc != "" {
			return u.Query()
		}
		return nil
	}
	at := ""
	if q := authorize(id, "id_token token", ""); q != nil {
		if t := q.Get("id_token"); t != "" {
			c19lClassify(&idt, t)
		}
		at = q.Get("access_token")
	}
	if at != "" {
		w.Stores.BeginRequest(nil, -1)
		rec, pan := w.serve("GET", w.prefix()+"/userinfo", nil, http.Header{"Authorization": {"Bearer " + at}})
		if pan == nil && rec != nil && rec.Code == 200 {
			body := strings.TrimSpace(rec.Body.String())
			if strings.HasPrefix(body, "{") {
				ui.Present, ui.Raw = true, truncate(body, 120)
			} else {
				c19lClassify(&ui, body)
			}
		}
	}
	if q := authorize(fmt.Sprintf("lj-%d", i), "code", "jwt"); q != nil {
		if t := q.Get("response"); t != "" {
			c19lClassify(&jarm, t)
			// an ERROR delivered as a response JWT (a client with authorization_signed_response_alg gets
			// one even when JARM is disabled) is a refusal, not the artifact
			if !strings.Contains(jarm.claims, `"code"`) {
				c19lJarmErrWrapped++
				jarm = mk("AJarm")
			}
		}
	}
	return []c19lArt{idt, ui, jarm}
}

func c19lDocSet(doc []docMember, name string) ([]string, bool) {
	for _, m := range doc {
		if m.Name == name {
			return m.V.L, true
		}
	}
	return nil, false
}

func c19lIn(x string, l []string) bool {
	for _, y := range l {
		if x == y {
			return true
		}
	}
	return false
}

func c19lFamily(method string, l []string) []string {
	var out []string
	for _, a := range l {
		if (method == "client_secret_jwt") == strings.HasPrefix(a, "HS") {
			out = append(out, a)
		}
	}
	return out
}

var c19lMethodsName = map[string]string{"AToken": "token_endpoint_auth_methods_supported",
	"AIntrospect": "introspection_endpoint_auth_methods_supported", "ARevoke": "revocation_endpoint_auth_methods_supported"}
var c19lSigAlgsName = map[string]string{"AToken": "token_endpoint_auth_signing_alg_values_supported",
	"AIntrospect": "introspection_endpoint_auth_signing_alg_values_supported", "ARevoke": "revocation_endpoint_auth_signing_alg_values_supported"}
var c19lKeyName = map[string]string{"AIdToken": "id_token_encryption_alg_values_supported",
	"AUserInfo": "userinfo_encryption_alg_values_supported", "AJarm": "authorization_encryption_alg_values_supported"}
var c19lCencName = map[string]string{"AIdToken": "id_token_encryption_enc_values_supported",
	"AUserInfo": "userinfo_encryption_enc_values_supported", "AJarm": "authorization_encryption_enc_values_supported"}
var c19lSigName = map[string]string{"AIdToken": "id_token_signing_alg_values_supported",
	"AUserInfo": "userinfo_signing_alg_values_supported", "AJarm": "authorization_signing_alg_values_supported"}

// the property on the observations (the same rules as Corr/C19Lists.v clause_authn / clause_art),
// here only to NAME the metadata member and the probe in the finding
func c19lJudge(ctx *RunCtx, k *c19lCase) {
	report := func(sig, what string, probe any) {
		ctx.Meta.Findings = append(ctx.Meta.Findings, Finding{Property: "C19", Signature: sig,
			What:   what + " under " + k.Cfg.Note,
			Replay: map[string]any{"base_options": k.Cfg.Base, "list_options": k.Cfg.Extra, "document": json.RawMessage(k.Raw), "probe": probe}})
	}
	for _, p := range k.Authn {
		methods, _ := c19lDocSet(k.Doc, c19lMethodsName[p.Ep])
		if !c19lIn(p.Method, methods) {
			continue
		}
		algs, _ := c19lDocSet(k.Doc, c19lSigAlgsName[p.Ep])
		adv := c19lFamily(p.Method, algs)
		where := fmt.Sprintf("%s=%v advertises %s, %s=%v", c19lMethodsName[p.Ep], methods, p.Method, c19lSigAlgsName[p.Ep], algs)
		if p.ClAlg == "" {
			if len(adv) == 0 {
				any := false
				for _, q := range k.Authn {
					if q.Ep == p.Ep && q.Method == p.Method && q.OK {
						any = true
					}
				}
				if !any {
					report(fmt.Sprintf("c19lists:%s:%s:no-signing-alg-accepted", c19lMethodsName[p.Ep], p.Method),
						fmt.Sprintf("%s: the method is advertised without any signing algorithm and every %s assertion at %s is refused (%s: %d %s)",
							where, p.Method, c19lEndpointPath(p.Ep), p.Alg, p.Status, p.Body), p)
				} else if p.OK {
					report(fmt.Sprintf("c19lists:%s:%s:unadvertised-alg-accepted", c19lSigAlgsName[p.Ep], p.Method),
						fmt.Sprintf("%s: an assertion signed with %s, which is not advertised, authenticated at %s", where, p.Alg, c19lEndpointPath(p.Ep)), p)
				}
				continue
			}
			if c19lIn(p.Alg, adv) && !p.OK {
				report(fmt.Sprintf("c19lists:%s:%s:advertised-alg-refused", c19lSigAlgsName[p.Ep], p.Method),
					fmt.Sprintf("%s: a valid %s assertion signed with the advertised %s is refused at %s (%d %s)", where, p.Method, p.Alg, c19lEndpointPath(p.Ep), p.Status, p.Body), p)
			}
			if !c19lIn(p.Alg, adv) && p.OK {
				report(fmt.Sprintf("c19lists:%s:%s:unadvertised-alg-accepted", c19lSigAlgsName[p.Ep], p.Method),
					fmt.Sprintf("%s: an assertion signed with %s, which is not advertised, authenticated at %s", where, p.Alg, c19lEndpointPath(p.Ep)), p)
			}
			continue
		}
		if !c19lIn(p.ClAlg, adv) {
			continue
		}
		if p.Alg == p.ClAlg && !p.OK {
			report(fmt.Sprintf("c19lists:%s:%s:registered-advertised-alg-refused", c19lSigAlgsName[p.Ep], p.Method),
				fmt.Sprintf("%s: the client registered %s there and its %s assertion is refused at %s (%d %s)", where, p.ClAlg, p.Alg, c19lEndpointPath(p.Ep), p.Status, p.Body), p)
		}
		if p.Alg != p.ClAlg && p.OK {
			report(fmt.Sprintf("c19lists:%s:%s:other-than-registered-alg-accepted", c19lSigAlgsName[p.Ep], p.Method),
				fmt.Sprintf("%s: the client registered %s there but an assertion signed with %s authenticated at %s", where, p.ClAlg, p.Alg, c19lEndpointPath(p.Ep)), p)
		}
	}
	for _, p := range k.Art {
		advKey, _ := c19lDocSet(k.Doc, c19lKeyName[p.Art])
		advCenc, _ := c19lDocSet(k.Doc, c19lCencName[p.Art])
		advSig, hasSig := c19lDocSet(k.Doc, c19lSigName[p.Art])
		art := map[string]string{"AIdToken": "ID token", "AUserInfo": "userinfo response", "AJarm": "JWT-secured authorization response"}[p.Art]
		where := fmt.Sprintf("%s=%v, %s=%v", c19lKeyName[p.Art], advKey, c19lCencName[p.Art], advCenc)
		client := fmt.Sprintf("client registered (signing %q, encryption alg %q, enc %q)", p.Sig, p.Key, p.Cenc)
		if !p.Present {
			if p.Art == "AJarm" && hasSig {
				report("c19lists:"+c19lSigName[p.Art]+":advertised-but-refused", fmt.Sprintf("%s is advertised but response_mode=jwt yields no response for the %s", c19lSigName[p.Art], client), p)
			}
			continue
		}
		if p.Art == "AJarm" && !hasSig {
			report("c19lists:"+c19lSigName[p.Art]+":absent-but-issued", fmt.Sprintf("%s is absent but a %s was issued to the %s", c19lSigName[p.Art], art, client), p)
			continue
		}
		if p.Sig != "" && !c19lIn(p.Sig, advSig) {
			continue
		}
		if p.Sig != "" && p.GotSig != p.Sig {
			report("c19lists:"+c19lSigName[p.Art]+":advertised-alg-not-used", fmt.Sprintf("%s=%v: the %s got a %s signed with %q", c19lSigName[p.Art], advSig, client, art, p.GotSig), p)
			continue
		}
		if len(advKey) == 0 && len(advCenc) == 0 || p.Key == "" {
			if p.Enc {
				report("c19lists:"+c19lKeyName[p.Art]+":unadvertised-encryption", fmt.Sprintf("%s: the %s got an ENCRYPTED %s (%s, %s)", where, client, art, p.GotKey, p.GotCenc), p)
			}
			continue
		}
		if p.Art == "AUserInfo" && p.Sig == "" {
			continue
		}
		keyOK := c19lIn(p.Key, advKey) || len(advKey) == 0
		cencOK := c19lIn(p.Cenc, advCenc)
		if p.Cenc == "" {
			cencOK = c19lIn(p.Key, advKey)
		}
		if !keyOK || !cencOK {
			continue
		}
		member := c19lKeyName[p.Art]
		if len(advKey) == 0 {
			member = c19lCencName[p.Art]
		}
		if !p.Enc {
			report("c19lists:"+member+":advertised-encryption-not-applied",
				fmt.Sprintf("%s: the %s asked for advertised encryption algorithms and got a %s that is NOT encrypted (signed with %q)", where, client, art, p.GotSig), p)
		} else if p.GotKey != p.Key || (p.Cenc != "" && p.GotCenc != p.Cenc) || (p.Cenc == "" && !c19lIn(p.GotCenc, advCenc)) {
			report("c19lists:"+member+":advertised-encryption-not-applied",
				fmt.Sprintf("%s: the %s got a %s encrypted with (%s, %s)", where, client, art, p.GotKey, p.GotCenc), p)
		}
	}
}

func c19lRun(ctx *RunCtx, cfg c19lCfg) c19lCase {
	k := c19lCase{Cfg: cfg}
	c19lCurrent = &cfg
	defer func() { c19lCurrent = nil }()
	w, err := NewWorld(WorldSpec{Profile: "openid", Opts: cfg.Base, Flavour: "copy"})
	if err != nil {
		ctx.Meta.Dist["configuration refused by provider.New"]++
		return k
	}
	k.Built = true
	ks := c19lKeys()
	w.srvKeys = goidc.JSONWebKeySet{Keys: []goidc.JSONWebKey{
		{Key: serverKeyCache, KeyID: "srv-es256", Algorithm: "ES256", Use: "sig"},
		{Key: ks.srvES384, KeyID: "srv-es384", Algorithm: "ES384", Use: "sig"},
		{Key: ks.srvRSA, KeyID: "srv-ps256", Algorithm: "PS256", Use: "sig"},
		{Key: ks.srvRSA, KeyID: "srv-rs256", Algorithm: "RS256", Use: "sig"}}}
	w.allowed = true
	doc, raw, err := fetchDoc(w)
	if err != nil {
		ctx.Meta.Findings = append(ctx.Meta.Findings, Finding{Property: "C19", Signature: "discovery-document-unreadable",
			What: "GET /.well-known/openid-configuration did not return a JSON document under " + cfg.Note, Replay: map[string]any{"base_options": cfg.Base, "list_options": cfg.Extra, "body": raw}})
		return k
	}
	k.Doc, k.Raw = doc, raw
	seq := 0
	for _, ep := range c19lEndpoints {
		_, enabled := c19lDocSet(doc, map[string]string{"AToken": "token_endpoint", "AIntrospect": "introspection_endpoint", "ARevoke": "revocation_endpoint"}[ep])
		for _, m := range []string{"private_key_jwt", "client_secret_jwt"} {
			algs := c19lPkAlgs
			if m == "client_secret_jwt" {
				algs = c19lHsAlgs
			}
			for i, a := range algs {
				if !enabled && i > 0 {
					break // a disabled endpoint answers 404 whatever is sent: one probe per method
				}
				seq++
				k.Authn = append(k.Authn, w.c19lAuthnProbe(ep, m, "", a, seq))
			}
		}
		if enabled {
			for _, a := range []string{"ES256", "RS256"} {
				seq++
				k.Authn = append(k.Authn, w.c19lAuthnProbe(ep, "private_key_jwt", "ES256", a, seq))
			}
		}
	}
	for i, s := range c19lArtSpecs {
		k.Art = append(k.Art, w.c19lArtProbes(i, s)...)
	}
	c19lJudge(ctx, &k)
	return k
}

const c19lHeader = `From Verif Require Import Base Scope Types Config Discovery Config2 Discovery2.
From Verif.Corr Require Import C19 C19Lists.
Local Open Scope N_scope.
`

// ---- the configurations ----
func c19lConfigs(ctx *RunCtx) []c19lCfg {
	r := ctx.R
	grants := []Opt{{Name: "WithScopes", Scopes: serverScopes}, {Name: "WithAuthorizationCodeGrant"}, {Name: "WithImplicitGrant"}, {Name: "WithClientCredentialsGrant"}}
	base := func(more ...Opt) []Opt { return append(append([]Opt(nil), grants...), more...) }
	var out []c19lCfg
	add := func(note string, b []Opt, e ...c19lOpt) {
		out = append(out, c19lCfg{Base: b, Extra: e, Note: note})
	}
	o := func(name, d string, l ...string) c19lOpt { return c19lOpt{Name: name, D: d, L: l} }
	add("defaults of the harness", base())

	// (1) every list option x its enabling option, 2 x 2 (the option that both enables and lists: alone)
	type pairing struct {
		list    c19lOpt
		enabler *c19lOpt
		baseEn  *Opt
	}
	pairs := []pairing{
		{o("WithIDTokenContentEncryptionAlgs", "A128GCM", "A256GCM"), &c19lOpt{Name: "WithIDTokenEncryption", D: "RSA-OAEP-256", L: []string{"RSA-OAEP"}}, nil},
		{o("WithUserInfoContentEncryptionAlgs", "A256GCM", "A128CBC-HS256"), &c19lOpt{Name: "WithUserInfoEncryption", D: "RSA-OAEP", L: nil}, nil},
		{o("WithJARMContentEncryptionAlgs", "A128GCM"), &c19lOpt{Name: "WithJARMEncryption", D: "RSA-OAEP-256"}, nil},
		{o("WithJARMEncryption", "RSA-OAEP-256", "RSA-OAEP"), &c19lOpt{Name: "WithJARM", D: "ES256", L: []string{"PS256"}}, nil},
		{o("WithJARContentEncryptionAlgs", "A256GCM"), &c19lOpt{Name: "WithJAREncryption", D: "RSA-OAEP-256"}, nil},
		{o("WithJAREncryption", "RSA-OAEP-256", "RSA-OAEP"), &c19lOpt{Name: "WithJAR", D: "ES256", L: []string{"PS256", "none"}}, nil},
		{o("WithCIBAJAR", "PS256", "ES256"), nil, &Opt{Name: "WithCIBAGrant"}},
		{o("WithPrivateKeyJWTSignatureAlgs", "ES256", "PS256"), &c19lOpt{Name: "WithTokenAuthnMethods", D: "private_key_jwt", L: []string{"client_secret_post"}}, nil},
		{o("WithUserInfoSignatureAlgs", "ES256", "ES384"), &c19lOpt{Name: "WithUserInfoEncryption", D: "RSA-OAEP-256"}, nil},
	}
	for _, p := range pairs {
		for mask := 1; mask < 4; mask++ {
			b := base()
			var e []c19lOpt
			if mask&2 != 0 {
				if p.enabler != nil {
					e = append(e, *p.enabler)
				} else {
					b = base(*p.baseEn)
				}
			}
			if mask&1 != 0 {
				e = append(e, p.list)
			}
			if r.Intn(2) == 0 {
				for i, j := 0, len(e)-1; i < j; i, j = i+1, j-1 {
					e[i], e[j] = e[j], e[i]
				}
			}
			add(fmt.Sprintf("list option %s x its enabling option, mask %d", p.list.Name, mask), b, e...)
		}
	}
	// (2) options that enable and list at once, with lists of their own
	for _, e := range []c19lOpt{
		o("WithIDTokenSignatureAlgs", "PS256", "ES256", "ES384"), o("WithIDTokenEncryption", "RSA-OAEP"), o("WithUserInfoEncryption", "RSA-OAEP-256", "RSA-OAEP"),
		o("WithDPoP", "ES256", "PS256", "EdDSA"), o("WithJARM", "PS256"), o("WithJAR", "RS256", "ES256"),
	} {
		add("single list option "+e.Name, base(), e)
	}
	// (3) JWT based methods at ONE endpoint only, each endpoint's list independently, with and without
	// the other endpoints, with and without explicit algorithms
	jwtMethods := [][]string{{"private_key_jwt"}, {"client_secret_jwt"}, {"private_key_jwt", "client_secret_jwt"}, {"client_secret_basic", "private_key_jwt"}}
	for _, ep := range []string{"WithTokenAuthnMethods", "WithTokenIntrospection", "WithTokenRevocation"} {
		for _, ms := range jwtMethods {
			for _, others := range []int{0, 1, 2} {
				// others: 0 = the other optional endpoints are disabled, 1 = enabled with the harness's
				// secret_post/none lists, 2 = enabled with another JWT method
				var b []Opt
				var e []c19lOpt
				for _, other := range []string{"WithTokenIntrospection", "WithTokenRevocation"} {
					if other == ep {
						continue
					}
					switch others {
					case 1:
						b = append(b, Opt{Name: other})
					case 2:
						e = append(e, o(other, "client_secret_post", "client_secret_jwt"))
					}
				}
				e = append(e, o(ep, ms[0], ms[1:]...))
				explicit := r.Intn(3) == 0
				if explicit {
					e = append(e, o("WithPrivateKeyJWTSignatureAlgs", pick(r, []string{"ES256", "PS256", "ES384"}), pick(r, [][]string{nil, {"RS256"}, {"ES256", "ES384"}})...))
				}
				add(fmt.Sprintf("JWT methods %v at %s only (others: %d, explicit algs: %v)", ms, ep, others, explicit), base(b...), shuffledL(ctx, e)...)
			}
		}
	}
	// (4) arguments the options refuse
	for _, e := range []c19lOpt{
		o("WithSecretJWTSignatureAlgs", "HS256"), o("WithSecretJWTSignatureAlgs", "HS256", "HS384"), o("WithPrivateKeyJWTSignatureAlgs", "HS256"),
		o("WithPrivateKeyJWTSignatureAlgs", "ES256", "none"), o("WithPrivateKeyJWTSignatureAlgs", "ES256", "HS512"), o("WithJARM", "none"),
		o("WithJARM", "ES256", "none"), o("WithDPoP", "ES256", "none"), o("WithDPoP", "none"),
	} {
		add("refused argument "+e.String(), base(), o("WithTokenAuthnMethods", "client_secret_jwt", "private_key_jwt"), e)
	}
	// (5) random combinations
	sigs := []string{"ES256", "ES384", "PS256", "RS256"}
	keys := []string{"RSA-OAEP-256", "RSA-OAEP"}
	cencs := []string{"A128CBC-HS256", "A128GCM", "A256GCM"}
	meths := []string{"client_secret_post", "none", "private_key_jwt", "client_secret_jwt", "client_secret_basic"}
	some := func(l []string) (string, []string) {
		d := pick(r, l)
		var rest []string
		for _, x := range l {
			if r.Intn(3) == 0 {
				rest = append(rest, x)
			}
		}
		return d, rest
	}
	rnd := func(name string, l []string) c19lOpt { d, rest := some(l); return c19lOpt{Name: name, D: d, L: rest} }
	n := ctx.N(70, 1500)
	for i := 0; i < n; i++ {
		var b []Opt
		var e []c19lOpt
		for _, name := range []string{"WithTokenIntrospection", "WithTokenRevocation"} {
			switch r.Intn(4) {
			case 0:
				b = append(b, Opt{Name: name})
			case 1, 2:
				e = append(e, rnd(name, meths))
			}
		}
		if r.Intn(2) == 0 {
			e = append(e, rnd("WithTokenAuthnMethods", meths))
		}
		if r.Intn(3) == 0 {
			e = append(e, rnd("WithPrivateKeyJWTSignatureAlgs", sigs))
		}
		for _, x := range []struct {
			name string
			l    []string
			p    int
		}{
			{"WithIDTokenSignatureAlgs", sigs, 3}, {"WithIDTokenEncryption", keys, 2}, {"WithIDTokenContentEncryptionAlgs", cencs, 2},
			{"WithUserInfoSignatureAlgs", sigs, 2}, {"WithUserInfoEncryption", keys, 2}, {"WithUserInfoContentEncryptionAlgs", cencs, 2},
			{"WithJAREncryption", keys, 3}, {"WithJARContentEncryptionAlgs", cencs, 3},
			{"WithJARMEncryption", keys, 2}, {"WithJARMContentEncryptionAlgs", cencs, 2},
		} {
			if r.Intn(x.p) == 0 {
				e = append(e, rnd(x.name, x.l))
			}
		}
		for _, x := range []struct {
			name string
			l    []string
		}{{"WithJAR", sigs}, {"WithJARM", sigs}, {"WithDPoP", sigs}, {"WithCIBAJAR", sigs}} {
			switch r.Intn(4) {
			case 0:
				b = append(b, Opt{Name: x.name})
			case 1:
				e = append(e, rnd(x.name, x.l))
			}
		}
		if r.Intn(2) == 0 {
			b = append(b, Opt{Name: "WithCIBAGrant"})
		}
		if r.Intn(5) == 0 {
			b = append(b, Opt{Name: "WithMTLS"})
		}
		add("random", base(shuffled(r, b)...), shuffledL(ctx, e)...)
	}
	return out
}

func shuffledL(ctx *RunCtx, e []c19lOpt) []c19lOpt {
	out := append([]c19lOpt(nil), e...)
	ctx.R.Shuffle(len(out), func(i, j int) { out[i], out[j] = out[j], out[i] })
	return out
}

func init() {
	register(&Suite{Name: "c19lists", Run: func(ctx *RunCtx) {
		extraProviderOpts = c19lExtraOpts
		defer func() { extraProviderOpts = nil }()
		var cases []c19lCase
		for _, cfg := range c19lConfigs(ctx) {
			var parts []string
			for _, b := range cfg.Base[4:] {
				parts = append(parts, b.coq())
			}
			for _, e := range cfg.Extra {
				parts = append(parts, e.String())
			}
			cfg.Note = cfg.Note + " [" + strings.Join(parts, "; ") + "]"
			k := c19lRun(ctx, cfg)
			cases = append(cases, k)
			ctx.Meta.Ops += len(k.Authn) + len(k.Art)
			c19lMatrix(ctx, &k)
		}
		per := 40
		for f := 0; f*per < len(cases); f++ {
			hi := (f + 1) * per
			if hi > len(cases) {
				hi = len(cases)
			}
			var b strings.Builder
			b.WriteString(c19lHeader)
			var names []string
			for i, cs := range cases[f*per : hi] {
				fmt.Fprintf(&b, "(*CASE %d*)\nDefinition c_%d : c19lcase :=\n%s.\n", f*per+i, f*per+i, cs.coq())
				names = append(names, fmt.Sprintf("c_%d", f*per+i))
			}
			b.WriteString("Definition cases : list c19lcase := [" + strings.Join(names, "; ") + "].\n")
			b.WriteString("Definition corr := Eval vm_compute in map check_c19l cases.\nPrint corr.\n")
			b.WriteString("Definition mon := Eval vm_compute in map mon_c19l cases.\nPrint mon.\n")
			name := fmt.Sprintf("cases_%03d.v", f)
			if err := os.WriteFile(filepath.Join(ctx.Out, name), []byte(b.String()), 0o644); err != nil {
				panic(err)
			}
			ctx.Meta.Files = append(ctx.Meta.Files, name)
		}
		ctx.Meta.Cases = len(cases)
		seen := map[string]bool{}
		var jc []map[string]any
		for i, c := range cases {
			var sb strings.Builder
			for _, m := range c.Doc {
				if m.V.Kind == "set" {
					l := append([]string(nil), m.V.L...)
					sort.Strings(l)
					sb.WriteString(m.Name + "=" + strings.Join(l, ",") + ";")
				}
			}
			okN, noN := 0, 0
			for _, p := range c.Authn {
				sb.WriteString(fmt.Sprint(p.OK))
				if p.OK {
					okN++
				} else {
					noN++
				}
			}
			for _, p := range c.Art {
				sb.WriteString(p.GotKey + p.GotCenc + p.GotSig + ";")
			}
			if !c.Built || (okN > 0 && noN > 0) {
				seen[sb.String()+fmt.Sprint(c.Built, c.Cfg.Extra)] = true
			}
			jc = append(jc, map[string]any{"Index": i, "Note": c.Cfg.Note,
				"Spec": map[string]any{"Profile": "openid", "Opts": c.Cfg.Base, "ListOpts": c.Cfg.Extra},
				"Ops":  "authn probes 1.., artifact probes 501.. (see Obs)",
				"Obs":  map[string]any{"built": c.Built, "document": json.RawMessage(orNull(c.Raw)), "authn_probes": c.Authn, "artifact_probes": c.Art}})
			if i == 1 || i == 40 {
				ctx.Meta.Samples = append(ctx.Meta.Samples, map[string]any{"note": c.Cfg.Note, "options": c.Cfg.optsCoq(), "document": json.RawMessage(orNull(c.Raw)),
					"authn_probes": c.Authn, "artifact_probes": len(c.Art)})
			}
			ctx.Meta.CaseNotes = append(ctx.Meta.CaseNotes, c.Cfg.Note)
		}
		ctx.Meta.Distinct = len(seen)
		ctx.Meta.Dist["not flagged: JWT response mode refused, the ERROR delivered as a signed response JWT"] = c19lJarmErrWrapped
		ctx.Meta.Rule = "option lists over the method / algorithm list options of provider.New (2x2 of every list option with its enabling option, JWT methods at one endpoint only x state of the other endpoints, refused arguments, random combinations); distinct by (list members of the document, answers of the probes), non-trivial = refused configuration or at least one authenticated and one refused assertion"
		jb, _ := json.Marshal(jc)
		_ = os.WriteFile(filepath.Join(ctx.Out, "cases.json"), jb, 0o644)
	}})
}

func orNull(s string) string {
	if strings.TrimSpace(s) == "" {
		return "null"
	}
	return s
}

// the covered option matrix, for meta.json's input_distribution
func c19lMatrix(ctx *RunCtx, k *c19lCase) {
	d := ctx.Meta.Dist
	has := func(name string) bool {
		for _, e := range k.Cfg.Extra {
			if e.Name == name {
				return true
			}
		}
		return false
	}
	hasB := func(name string) bool { return hasOpt(k.Cfg.Base, name) }
	yn := func(b bool) string {
		if b {
			return "set"
		}
		return "unset"
	}
	if !k.Built {
		for _, e := range k.Cfg.Extra {
			d["refused: contains "+e.Name]++
		}
		return
	}
	for _, x := range [][2]string{
		{"WithIDTokenContentEncryptionAlgs", "WithIDTokenEncryption"}, {"WithUserInfoContentEncryptionAlgs", "WithUserInfoEncryption"},
		{"WithJARMContentEncryptionAlgs", "WithJARMEncryption"}, {"WithJARMEncryption", "WithJARM"}, {"WithJARContentEncryptionAlgs", "WithJAREncryption"},
		{"WithJAREncryption", "WithJAR"}, {"WithCIBAJAR", "WithCIBAGrant"}, {"WithUserInfoEncryption", "WithUserInfoSignatureAlgs"},
	} {
		d[fmt.Sprintf("matrix %s %s / %s %s", x[0], yn(has(x[0]) || hasB(x[0])), x[1], yn(has(x[1]) || hasB(x[1])))]++
	}
	for _, n := range []string{"WithTokenAuthnMethods", "WithTokenIntrospection", "WithTokenRevocation", "WithPrivateKeyJWTSignatureAlgs", "WithIDTokenSignatureAlgs",
		"WithUserInfoSignatureAlgs", "WithJAR", "WithJARM", "WithDPoP", "WithCIBAJAR"} {
		switch {
		case has(n):
			d["option "+n+" with generated lists"]++
		case hasB(n):
			d["option "+n+" with the harness's fixed list"]++
		default:
			d["option "+n+" absent"]++
		}
	}
	// which endpoints advertise a JWT based method
	var eps []string
	for _, ep := range c19lEndpoints {
		ms, _ := c19lDocSet(k.Doc, c19lMethodsName[ep])
		if c19lIn("private_key_jwt", ms) || c19lIn("client_secret_jwt", ms) {
			eps = append(eps, strings.ToLower(ep[1:]))
		}
	}
	d["JWT based method advertised at: ["+strings.Join(eps, ",")+"]"]++
	for _, p := range k.Authn {
		ms, _ := c19lDocSet(k.Doc, c19lMethodsName[p.Ep])
		algs, _ := c19lDocSet(k.Doc, c19lSigAlgsName[p.Ep])
		reg := "no alg registered"
		if p.ClAlg != "" {
			reg = fmt.Sprintf("registered alg advertised=%v is the one used=%v", c19lIn(p.ClAlg, algs), p.ClAlg == p.Alg)
		}
		d[fmt.Sprintf("authn probe %s %s (%s): method advertised=%v alg advertised=%v -> authenticated=%v", strings.ToLower(p.Ep[1:]), p.Method, reg, c19lIn(p.Method, ms), c19lIn(p.Alg, algs), p.OK)]++
	}
	for _, p := range k.Art {
		ak, _ := c19lDocSet(k.Doc, c19lKeyName[p.Art])
		ac, _ := c19lDocSet(k.Doc, c19lCencName[p.Art])
		asked := "no encryption asked"
		if p.Key != "" {
			asked = fmt.Sprintf("alg advertised=%v enc advertised=%v", c19lIn(p.Key, ak), p.Cenc == "" || c19lIn(p.Cenc, ac))
		}
		got := "absent"
		if p.Present {
			got = "plain"
			if p.GotSig != "" {
				got = "signed"
			}
			if p.Enc {
				got = "encrypted"
			}
		}
		d[fmt.Sprintf("artifact probe %s: %s -> %s", strings.ToLower(p.Art[1:]), asked, got)]++
	}
}
