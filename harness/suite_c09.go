package main

// C09 — no response discloses private keys, secret hashes or another party's secrets.
//
// Recognisable secrets are planted (private JWK members of the server keys; bcrypt hashes of client
// secrets and registration tokens; plain client secrets; codes, tokens and request URIs of other
// clients; a secret embedded in the text of injected storage / callback failures) and EVERY response
// body and header is scanned:
//   a. mixed histories of the system generator (World.serve hook), each followed by a round of
//      re-executed operations with a storage failure injected at every call position;
//   b. DCR create / read / update / delete histories on their own provider, with storage and
//      HandleDynamicClient failures: hashes never, a secret / registration token only in the one
//      response that creates or rotates it, nothing of another client;
//   c. GET /jwks and discovery for key sets of every asymmetric type (RSA, EC P-256/384/521), given
//      with and without private parts, sig and enc use, plus a symmetric key, CROSSED with every
//      provider option that changes how keys are handled - WithSignFunc, WithDecryptFunc, both,
//      neither; JAR / ID-token+userinfo / JARM encryption on and off - and with the path prefix;
//      in each cell also a token request (signing path, also when signing must fail) and, where
//      JAR encryption is on, an encrypted request object (decryption path): public members only,
//      and the served set is compared with Model/ArtifactsX.v public_jwks_x (CMeta cases);
//   d. every way a client comes to have a pairwise subject (subject_type=pairwise; subject_type
//      absent under a provider whose DEFAULT subject type is pairwise; either with a sector
//      identifier; with and without a pairwise function) and every way it does not, x every grant
//      (code, refresh, implicit and hybrid, client_credentials, jwt-bearer; CIBA through the
//      mixed histories of a., whose worlds draw the same subject configurations) with token
//      options asking for JWT: opaque, except client_credentials.  The same responses are
//      compared with Model/Artifacts.v make / token_options (CAuthz / CToken cases).
// Findings are "<endpoint>:<atom class>".  The mixed histories are also written as model cases and
// the theorem's monitor (Corr/C09.v mon_C09) is evaluated on the implementation's trace.

import (
	"bytes"
	"context"
	"crypto"
	"crypto/ecdsa"
	"crypto/rsa"
	"encoding/base64"
	"encoding/json"
	"errors"
	"fmt"
	"io"
	"net/http"
	"net/http/httptest"
	"net/url"
	"os"
	"path/filepath"
	"regexp"
	"sort"
	"strings"

	"github.com/go-jose/go-jose/v4"
	"github.com/luikyv/go-oidc/pkg/goidc"
	"github.com/luikyv/go-oidc/pkg/provider"
)

const plantedFailureSecret = "PLANTED-FAILURE-SECRET-dsn-admin-hunter2"

type planted struct {
	class string
	value string
	owner string // "" : nobody may ever see it
}

type c09Scan struct {
	findings map[string]Finding
	static   []planted           // never allowed in any response
	cred     map[string]string   // credential string -> owning client
	stats    map[string]int
	history  []string            // request lines of the current history, for the replay
}

func newScan() *c09Scan {
	return &c09Scan{findings: map[string]Finding{}, cred: map[string]string{}, stats: map[string]int{}}
}

func (s *c09Scan) fail(endpoint, class, what string, replay map[string]any) {
	sig := endpoint + ":" + class
	s.stats["FAILED "+sig]++
	if _, ok := s.findings[sig]; ok {
		return
	}
	if replay == nil {
		replay = map[string]any{}
	}
	h := s.history
	if len(h) > 40 {
		h = h[len(h)-40:]
	}
	replay["requests_so_far"] = append([]string(nil), h...)
	s.findings[sig] = Finding{Property: "C09", Signature: sig, What: endpoint + ": " + what, Replay: replay}
}

// private members of a key as they would appear in a JWK
func privateMembers(key any) map[string]string {
	b, err := json.Marshal(jose.JSONWebKey{Key: key, KeyID: "x"})
	if err != nil {
		return nil
	}
	var m map[string]any
	_ = json.Unmarshal(b, &m)
	out := map[string]string{}
	for _, name := range []string{"d", "p", "q", "dp", "dq", "qi", "k"} {
		if v, ok := m[name].(string); ok && len(v) >= 8 {
			out[name] = v
		}
	}
	return out
}

func endpointOf(target string) string {
	p := target
	if i := strings.IndexAny(p, "?#"); i >= 0 {
		p = p[:i]
	}
	for _, e := range []string{"/authorize", "/token", "/par", "/userinfo", "/introspect", "/revoke", "/bc-authorize", "/register", "/jwks", "/.well-known"} {
		if strings.Contains(p, e) {
			return strings.TrimPrefix(e, "/")
		}
	}
	return "other"
}

func responseText(rec *httptest.ResponseRecorder) string {
	var b strings.Builder
	fmt.Fprintf(&b, "%d\n", rec.Code)
	var names []string
	for k := range rec.Header() {
		names = append(names, k)
	}
	sort.Strings(names)
	for _, k := range names {
		for _, v := range rec.Header()[k] {
			b.WriteString(k + ": " + v + "\n")
			if u, err := url.QueryUnescape(v); err == nil && u != v {
				b.WriteString(k + "(unescaped): " + u + "\n")
			}
		}
	}
	b.WriteString("\n")
	b.Write(rec.Body.Bytes())
	return b.String()
}

var credFields = regexp.MustCompile(`"(access_token|refresh_token|request_uri|auth_req_id)"\s*:\s*"([^"]+)"`)
var navFields = regexp.MustCompile(`[?&#](code|access_token)=([^&#\s"]+)`)
var formFields = regexp.MustCompile(`name="(code|access_token)" value="([^"]+)"`)
var pageField = regexp.MustCompile(`PAGE (cb)=(\S+)`)

// scanGeneric: the checks common to every response
func (s *c09Scan) scanGeneric(endpoint, text string, presented string, requester string, replay map[string]any) {
	s.stats["responses"]++
	s.stats["responses:"+endpoint]++
	for _, p := range s.static {
		if p.value != "" && strings.Contains(text, p.value) {
			if p.owner != "" && p.owner == requester {
				continue
			}
			if p.owner != "" && strings.Contains(presented, p.value) {
				continue
			}
			s.fail(endpoint, p.class, fmt.Sprintf("the response contains a planted %s (%s...)", p.class, truncate(p.value, 12)), replay)
		}
	}
	// bcrypt strings of any origin
	if i := strings.Index(text, "$2a$"); i >= 0 {
		s.fail(endpoint, "secret-hash", "the response contains a bcrypt hash", replay)
	}
	// credentials of other clients
	for c, owner := range s.cred {
		if owner != "" && owner != requester && !strings.Contains(presented, c) && strings.Contains(text, c) {
			s.fail(endpoint, "foreign-credential", fmt.Sprintf("the response to %q contains a credential minted for %q", requester, owner), replay)
		}
	}
	// learn new credentials: they belong to the requester
	for _, re := range []*regexp.Regexp{credFields, navFields, formFields, pageField} {
		for _, m := range re.FindAllStringSubmatch(text, -1) {
			v := m[2]
			if u, err := url.QueryUnescape(v); err == nil {
				v = u
			}
			if _, known := s.cred[v]; !known && len(v) >= 16 {
				s.cred[v] = requester
			}
		}
	}
}

// pairwise clients never receive a JWT access token, except from client_credentials
func (s *c09Scan) checkPairwise(endpoint, text string, pairwise bool, how string, grant string, replay map[string]any) {
	var ats []string
	for _, re := range []*regexp.Regexp{credFields, navFields, formFields} {
		for _, m := range re.FindAllStringSubmatch(text, -1) {
			if m[1] == "access_token" {
				ats = append(ats, m[2])
			}
		}
	}
	for _, at := range ats {
		s.stats["access_tokens_seen"]++
		isJWT := strings.Count(at, ".") == 2
		if pairwise {
			s.stats["access_tokens_seen(pairwise client)"]++
			s.stats["matrix/pairwise | "+how+" | grant="+grant]++
		}
		if pairwise && isJWT && grant != "client_credentials" {
			sub := jwtClaim(at, "sub")
			s.stats["FAILED pairwise-jwt | "+how+" | grant="+grant]++
			s.fail(endpoint, "pairwise-jwt", fmt.Sprintf("a client whose subject is pairwise (%s) received a JWT access token (grant %q) whose sub is the raw subject %q", how, grant, sub), replay)
		}
	}
}

// ---- a. mixed histories ----
func (s *c09Scan) worldHook(w *World, method, target string, form url.Values, hdr http.Header, rec *httptest.ResponseRecorder) {
	if rec == nil {
		return
	}
	text := responseText(rec)
	presented := target + " " + form.Encode() + " " + fmt.Sprint(hdr)
	if u, err := url.QueryUnescape(presented); err == nil {
		presented += " " + u
	}
	requester := form.Get("client_id")
	if requester == "" {
		if u, err := url.Parse(target); err == nil {
			requester = u.Query().Get("client_id")
		}
	}
	if requester == "" {
		// callback / userinfo: the requester is whoever owns the credential presented
		for c, owner := range s.cred {
			if strings.Contains(presented, c) {
				requester = owner
			}
		}
		if requester == "" && strings.Contains(target, "/authorize/") {
			requester = "user-agent:" + target
		}
	}
	line := method + " " + target + " " + form.Encode()
	s.history = append(s.history, truncate(line, 300))
	replay := map[string]any{"request": line, "response": truncate(text, 1500), "options": cList(w.Spec.Opts, Opt.coq)}
	ep := endpointOf(target)
	s.scanGeneric(ep, text, presented, requester, replay)
	// other clients' plain secrets
	for _, cs := range append(append([]ClientSpec{}, w.Spec.Static...), w.Spec.Dyn...) {
		sec := clientSecret(cs.ID)
		if strings.Contains(text, sec) && !strings.Contains(presented, sec) {
			s.fail(ep, "client-secret", "the response contains a client secret that was not presented", replay)
		}
	}
	if ep == "token" || ep == "authorize" {
		pw, how := false, ""
		if cs := w.clientSpec(clientNum(requester)); cs != nil {
			pw = cs.Pairwise
			how = "subject_type=pairwise"
			if cs.SubTypeAbsent {
				how = "subject_type absent, default subject type pairwise"
			}
		}
		grant := form.Get("grant_type")
		if ep == "authorize" {
			grant = "implicit"
		}
		s.checkPairwise(ep, text, pw, how, grant, replay)
	}
	// an internal failure must come out as internal_error without the text (checked by the planted string)
	if strings.Contains(text, "injected storage failure") {
		s.fail(ep, "error-text", "the text of a storage failure is echoed in the response", replay)
	}
}

func (s *c09Scan) plantWorld(w *World) {
	s.static = nil
	for name, v := range privateMembers(serverKeyCache) {
		s.static = append(s.static, planted{class: "private-jwk-member-" + name, value: v})
	}
	s.static = append(s.static, planted{class: "error-text", value: plantedFailureSecret})
	for _, cs := range append(append([]ClientSpec{}, w.Spec.Static...), w.Spec.Dyn...) {
		if !cs.Public {
			s.static = append(s.static, planted{class: "secret-hash", value: bcryptOf(clientSecret(cs.ID))})
		}
	}
	s.cred = map[string]string{}
	s.history = nil
}

func c09Mixed(ctx *RunCtx, s *c09Scan) {
	n := ctx.N(120, 2500)
	saved := errInjected
	errInjected = errors.New("injected storage failure: " + plantedFailureSecret)
	defer func() { errInjected = saved; serveHook = nil; extraProviderOpts = nil }()
	serveHook = s.worldHook
	for i := 0; i < n; i++ {
		fl := []string{"copy", "alias"}[i%2]
		want := map[string]bool{"refresh": i%2 == 0, "implicit": true, "ciba": i%3 == 0, "par": i%2 == 1}
		if i%5 == 0 {
			want["dynamic"] = true
		}
		spec := randomSpec(ctx.R, fl, want)
		variant := c09SubjectVariant(ctx, &spec, i)
		g, err := NewSysGen(ctx.R, spec)
		if err != nil {
			panic(err)
		}
		s.stats["matrix/mixed histories | "+variant]++
		s.plantWorld(g.W)
		g.DevRate = 30
		g.Run(30)
		ctx.AddCase(g.Case(fmt.Sprintf("c09#%d/%s [%s]", i, fl, variant)))
		ctx.AddStats(g.stats)
		// fault round: re-execute operations of the history with the k-th storage call failing with a
		// plain error whose text embeds a secret (not part of the model case)
		ops := g.Ops
		for j := 0; j < 14 && len(ops) > 0; j++ {
			o := ops[ctx.R.Intn(len(ops))]
			if o.Kind == "Tick" || o.Kind == "TokenInfo" || o.Kind == "TokenInfoReq" || o.Kind == "NotifyOk" || o.Kind == "NotifyFail" {
				continue
			}
			g.W.step = len(g.Ops) + j
			g.W.Stores.BeginRequest(map[int]Fault{ctx.R.Intn(5): FErr}, -1)
			func() {
				defer func() { _ = recover() }()
				obs := g.W.ExecWith(o)
				s.stats["fault-round:"+obs.Kind+":"+obs.Err]++
			}()
		}
	}
}

// c09SubjectVariant rewrites the clients of a world so that every way of being (or not being) pairwise
// occurs: the model sees only the EFFECTIVE subject type (ClientSpec.Pairwise -> c_pairwise), the real
// registration says it in one of the ways the code distinguishes.
//   0: default public (the generator's world): subject_type=pairwise spelled out on some clients
//   1: default PAIRWISE: clients without subject_type are pairwise; some spell out public, some pairwise
//   2: default public: more clients pairwise and configured for JWT; the others spell out public
func c09SubjectVariant(ctx *RunCtx, spec *WorldSpec, i int) string {
	extraProviderOpts = nil
	cls := spec.Static
	if len(spec.Dyn) > 0 {
		cls = spec.Dyn
	}
	switch i % 3 {
	case 1:
		extraProviderOpts = func(*World) []provider.ProviderOption {
			return []provider.ProviderOption{provider.WithSubIdentifierTypes(goidc.SubIdentifierPairwise, goidc.SubIdentifierPublic)}
		}
		for j := range cls {
			c := &cls[j]
			switch {
			case c.Pairwise && ctx.R.Intn(2) == 0: // stays spelled out
			case ctx.R.Intn(4) == 0:
				c.Pairwise, c.SubTypePublic = false, true
			default:
				c.Pairwise, c.SubTypeAbsent = true, true
			}
			if ctx.R.Intn(2) == 0 {
				c.JWT = true
			}
		}
		return "default subject type pairwise"
	case 2:
		for j := range cls {
			c := &cls[j]
			if ctx.R.Intn(3) == 0 {
				c.Pairwise = true
			} else if !c.Pairwise {
				c.SubTypePublic = ctx.R.Intn(2) == 0
			}
			if ctx.R.Intn(2) == 0 {
				c.JWT = true
			}
		}
		return "default subject type public, more pairwise and JWT clients"
	}
	return "default subject type public"
}

// ---- b. DCR ----
type dcrClient struct {
	id, secret, regToken string
	secrets              []string // every secret ever handed out for it
	regTokens            []string
	deleted              bool
}

type c09Dcr struct {
	s       *c09Scan
	stores  *Stores
	h       http.Handler
	hookErr error
	clients []*dcrClient
	once    map[string]int // secret / token -> number of responses that carried it
}

func (d *c09Dcr) do(method, path string, body any, bearer string, who *dcrClient, rotating bool, plan map[int]Fault) (int, map[string]any) {
	var rd io.Reader
	var raw []byte
	if body != nil {
		raw, _ = json.Marshal(body)
		rd = bytes.NewReader(raw)
	}
	req := httptest.NewRequest(method, path, rd)
	if body != nil {
		req.Header.Set("Content-Type", "application/json")
	}
	if bearer != "" {
		req.Header.Set("Authorization", "Bearer "+bearer)
	}
	rec := httptest.NewRecorder()
	d.stores.BeginRequest(plan, -1)
	d.h.ServeHTTP(rec, req)
	text := responseText(rec)
	line := method + " " + path + " " + string(raw) + " bearer=" + truncate(bearer, 12)
	d.s.history = append(d.s.history, truncate(line, 300))
	replay := map[string]any{"request": line, "response": truncate(text, 2000), "fault_plan": fmt.Sprint(plan)}
	requester := ""
	if who != nil {
		requester = who.id
	}
	// hashes now in the store: never in any response
	d.s.static = d.s.static[:0]
	d.s.static = append(d.s.static, planted{class: "error-text", value: plantedFailureSecret})
	d.eachClient(func(c *goidc.Client) {
		if c.HashedSecret != "" {
			d.s.static = append(d.s.static, planted{class: "secret-hash", value: c.HashedSecret})
		}
		if c.HashedRegistrationAccessToken != "" {
			d.s.static = append(d.s.static, planted{class: "registration-token-hash", value: c.HashedRegistrationAccessToken})
		}
	})
	d.s.scanGeneric("register", text, bearer+" "+string(raw), requester, replay)
	var m map[string]any
	_ = json.Unmarshal(rec.Body.Bytes(), &m)
	// secrets and registration tokens of every client: only in the response that minted them
	for _, c := range d.clients {
		for _, sec := range c.secrets {
			if strings.Contains(text, sec) {
				d.s.fail("register", "client-secret", fmt.Sprintf("a client secret minted earlier appears again (%s %s)", method, path), replay)
			}
		}
		for _, tok := range c.regTokens {
			if strings.Contains(text, tok) {
				d.s.fail("register", "registration-token", fmt.Sprintf("a registration access token minted earlier appears again (%s %s)", method, path), replay)
			}
		}
	}
	sec, _ := m["client_secret"].(string)
	tok, _ := m["registration_access_token"].(string)
	if (sec != "" || tok != "") && !(rec.Code == 201 || (rec.Code == 200 && method == "PUT")) {
		d.s.fail("register", "client-secret", fmt.Sprintf("a secret or registration token is returned by %s (status %d), which neither creates nor rotates it", method, rec.Code), replay)
	}
	if tok != "" && method == "PUT" && !rotating {
		d.s.fail("register", "registration-token", "an update returned a registration token although rotation is off", replay)
	}
	d.s.stats[fmt.Sprintf("dcr:%s:%d", method, rec.Code)]++
	return rec.Code, m
}

func c09DcrHistories(ctx *RunCtx, s *c09Scan) {
	r := ctx.R
	n := ctx.N(16, 300)
	saved := errInjected
	errInjected = errors.New("injected storage failure: " + plantedFailureSecret)
	defer func() { errInjected = saved }()
	k := c08Keys()
	for i := 0; i < n; i++ {
		rotation := i%2 == 0
		d := &c09Dcr{s: s, stores: NewStores("copy")}
		s.cred = map[string]string{}
		s.history = []string{fmt.Sprintf("DCR history %d, rotation=%v", i, rotation)}
		opts := []provider.ProviderOption{
			provider.WithClientStorage(d.stores.Clients()),
			provider.WithScopes(goidc.ScopeOpenID, goidc.NewScope("email")),
			provider.WithAuthorizationCodeGrant(), provider.WithClientCredentialsGrant(),
			provider.WithTokenAuthnMethods(goidc.ClientAuthnSecretPost, goidc.ClientAuthnSecretBasic, goidc.ClientAuthnSecretJWT, goidc.ClientAuthnPrivateKeyJWT, goidc.ClientAuthnNone),
			provider.WithPrivateKeyJWTSignatureAlgs(goidc.ES256),
			provider.WithIDTokenSignatureAlgs(goidc.ES256),
			provider.WithTokenIntrospection(func(*goidc.Client) bool { return true }, goidc.ClientAuthnSecretPost, goidc.ClientAuthnSecretBasic, goidc.ClientAuthnSecretJWT),
			provider.WithDCR(func(_ *http.Request, m *goidc.ClientMetaInfo) error { return d.hookErr },
				func(_ *http.Request, tok string) error {
					if tok == "initial-token-bad" {
						return errors.New("initial token refused: " + plantedFailureSecret)
					}
					return nil
				}),
		}
		if rotation {
			opts = append(opts, provider.WithDCRTokenRotation())
		}
		jwks := goidc.JSONWebKeySet{Keys: []goidc.JSONWebKey{{Key: k.ec256, KeyID: "srv-es256", Algorithm: "ES256", Use: "sig"}}}
		p, err := provider.New(goidc.ProfileOpenID, issuer, func(context.Context) (goidc.JSONWebKeySet, error) { return jwks, nil }, opts...)
		if err != nil {
			panic(err)
		}
		d.h = p.Handler()
		clientJWKS, _ := json.Marshal(jose.JSONWebKeySet{Keys: []jose.JSONWebKey{{Key: &k.clientEC.PublicKey, KeyID: "c-ec", Algorithm: "ES256", Use: "sig"}}})
		meta := func() map[string]any {
			m := map[string]any{"redirect_uris": []string{"https://dyn.example/cb"}, "grant_types": []string{"authorization_code", "client_credentials"},
				"response_types": []string{"code"}, "scope": "openid email", "client_name": fmt.Sprintf("dyn-%d", r.Intn(100))}
			switch r.Intn(5) {
			case 0:
				m["token_endpoint_auth_method"] = "client_secret_post"
			case 1:
				m["token_endpoint_auth_method"] = "client_secret_basic"
			case 2:
				m["token_endpoint_auth_method"] = "client_secret_jwt"
				m["token_endpoint_auth_signing_alg"] = "HS256"
			case 3:
				m["token_endpoint_auth_method"] = "private_key_jwt"
				m["token_endpoint_auth_signing_alg"] = "ES256"
				m["jwks"] = json.RawMessage(clientJWKS)
			default:
				m["token_endpoint_auth_method"] = "none"
				m["grant_types"] = []string{"authorization_code"}
			}
			if r.Intn(3) == 0 {
				m["introspection_endpoint_auth_method"] = "client_secret_post"
			}
			if r.Intn(4) == 0 {
				m["custom"] = "v"
			}
			return m
		}
		learn := func(c *dcrClient, m map[string]any) {
			if v, _ := m["client_secret"].(string); v != "" {
				c.secret = v
				c.secrets = append(c.secrets, v)
			}
			if v, _ := m["registration_access_token"].(string); v != "" {
				c.regToken = v
				c.regTokens = append(c.regTokens, v)
			}
		}
		steps := 5 + r.Intn(4)
		for j := 0; j < steps; j++ {
			var live []*dcrClient
			for _, c := range d.clients {
				if !c.deleted {
					live = append(live, c)
				}
			}
			d.hookErr = nil
			var plan map[int]Fault
			if r.Intn(4) == 0 {
				plan = map[int]Fault{r.Intn(3): FErr}
			}
			switch x := r.Intn(10); {
			case x < 3 || len(live) == 0:
				if r.Intn(6) == 0 {
					d.hookErr = errors.New("metadata hook failed: " + plantedFailureSecret)
				}
				bearer := ""
				if r.Intn(8) == 0 {
					bearer = "initial-token-bad"
				}
				code, m := d.do("POST", "/register", meta(), bearer, nil, rotation, plan)
				if code == 201 {
					c := &dcrClient{id: m["client_id"].(string)}
					// what this response minted belongs to the new client; it is learnt AFTER the scan of this response
					learn(c, m)
					d.clients = append(d.clients, c)
				}
			case x < 6:
				c := pick(r, live)
				tok := c.regToken
				var who *dcrClient = c
				switch r.Intn(6) {
				case 0:
					tok = "wrong-token"
				case 1:
					if o := pick(r, live); o != c {
						tok, who = o.regToken, o // another client's token
					}
				}
				d.do("GET", "/register/"+c.id, nil, tok, who, rotation, plan)
			case x < 9:
				c := pick(r, live)
				tok := c.regToken
				if r.Intn(6) == 0 {
					tok = "wrong-token"
				}
				if r.Intn(6) == 0 {
					d.hookErr = errors.New("metadata hook failed: " + plantedFailureSecret)
				}
				body := meta()
				switch r.Intn(4) {
				case 0:
					// a read-modify-write client: the members of the response it received are sent back
					body["client_id"], body["registration_access_token"], body["registration_client_uri"] = c.id, c.regToken, issuer+"/register/"+c.id
					if len(c.secrets) > 0 {
						body["client_secret"] = c.secrets[r.Intn(len(c.secrets))]
					}
					s.stats["dcr:PUT body carries the client's own credentials under the reserved names"]++
				case 1:
					o := pick(r, d.clients)
					body["client_id"], body["registration_access_token"], body["client_secret"] = o.id, o.regToken, "a-secret-chosen-by-the-client-0123456789"
					if o.secret != "" {
						body["client_secret"] = o.secret
					}
					s.stats["dcr:PUT body carries other values under the reserved names"]++
				}
				code, m := d.do("PUT", "/register/"+c.id, body, tok, c, rotation, plan)
				if code == 200 {
					// the previous secret / token must not come back either: keep them in the lists
					learn(c, m)
				}
			default:
				c := pick(r, live)
				code, _ := d.do("DELETE", "/register/"+c.id, nil, c.regToken, c, rotation, plan)
				if code == 204 {
					c.deleted = true
				}
			}
		}
		// the secrets really authenticate nothing else: introspection by a secret client with its secret (also scanned)
		for _, c := range d.clients {
			if c.deleted || c.secret == "" {
				continue
			}
			form := url.Values{"client_id": {c.id}, "client_secret": {c.secret}, "token": {"nothing"}}
			req := httptest.NewRequest("POST", "/introspect", strings.NewReader(form.Encode()))
			req.Header.Set("Content-Type", "application/x-www-form-urlencoded")
			rec := httptest.NewRecorder()
			d.stores.BeginRequest(nil, -1)
			d.h.ServeHTTP(rec, req)
			s.scanGeneric("introspect", responseText(rec), form.Encode(), c.id, map[string]any{"request": "POST /introspect " + form.Encode()})
			break
		}
	}
}

// ---- c. /jwks for every key type x every way of handling keys ----
type c09Key struct {
	jwk  goidc.JSONWebKey
	priv any    // the private material to look for in responses (also when the set holds the public half only)
	coq  string // the key as Model/Artifacts.v jwk
}

func c09KeyOf(kid, alg, use string, key any, privOf any, pair int) c09Key {
	kty, hasPriv := "KtyOct", true
	switch k := key.(type) {
	case *rsa.PrivateKey:
		kty = "KtyRSA"
	case *rsa.PublicKey:
		kty, hasPriv = "KtyRSA", false
	case *ecdsa.PrivateKey:
		kty = fmt.Sprintf("(KtyEC %d)", k.Curve.Params().BitSize)
	case *ecdsa.PublicKey:
		kty, hasPriv = fmt.Sprintf("(KtyEC %d)", k.Curve.Params().BitSize), false
	}
	calg := fmt.Sprintf("(AEnc %d)", c08KalgIx(alg)-100)
	if use == "sig" {
		calg = "(ASig " + alg + ")"
	}
	cuse := map[string]string{"sig": "UseSig", "enc": "UseEnc"}[use]
	return c09Key{jwk: goidc.JSONWebKey{Key: key, KeyID: kid, Algorithm: alg, Use: use}, priv: privOf,
		coq: fmt.Sprintf("mkJwk %s %s %s %s %d %s", cS(kid), calg, cuse, kty, pair, cB(hasPriv))}
}

type c09KeySet struct {
	name string
	keys []c09Key
}

func c09KeySets() []c09KeySet {
	k := c08Keys()
	sym := []byte("planted-symmetric-key-0123456789abcdef")
	return []c09KeySet{
		{"RSA sig keys with private parts", []c09Key{c09KeyOf("r1", "RS256", "sig", k.rsa, k.rsa, pairRSA), c09KeyOf("r2", "PS512", "sig", k.rsa, k.rsa, pairRSA)}},
		{"RSA enc key with private parts", []c09Key{c09KeyOf("s", "ES256", "sig", k.ec256, k.ec256, pairEC256), c09KeyOf("renc", "RSA-OAEP-256", "enc", k.rsaEnc, k.rsaEnc, pairSrvEnc)}},
		{"EC P-256/384/521 sig keys with private parts", []c09Key{c09KeyOf("e1", "ES256", "sig", k.ec256, k.ec256, pairEC256), c09KeyOf("e2", "ES384", "sig", k.ec384, k.ec384, pairEC384), c09KeyOf("e3", "ES512", "sig", k.ec521, k.ec521, pairEC521)}},
		{"EC enc key with private parts", []c09Key{c09KeyOf("s", "ES256", "sig", k.ec256, k.ec256, pairEC256), c09KeyOf("eenc", "ECDH-ES", "enc", k.ecEnc, k.ecEnc, pairSrvECEnc)}},
		{"keys given without private parts", []c09Key{c09KeyOf("r1", "RS256", "sig", &k.rsa.PublicKey, k.rsa, pairRSA), c09KeyOf("e2", "ES384", "sig", &k.ec384.PublicKey, k.ec384, pairEC384), c09KeyOf("e1", "ES256", "sig", k.ec256, k.ec256, pairEC256)}},
		{"a symmetric key beside asymmetric ones", []c09Key{c09KeyOf("e1", "ES256", "sig", k.ec256, k.ec256, pairEC256), c09KeyOf("h1", "HS256", "sig", sym, sym, 7)}},
		{"external-signer layout: public sig keys, private RSA-OAEP and ECDH-ES enc keys", []c09Key{c09KeyOf("r1", "RS256", "sig", &k.rsa.PublicKey, k.rsa, pairRSA), c09KeyOf("e1", "ES256", "sig", &k.ec256.PublicKey, k.ec256, pairEC256),
			c09KeyOf("renc", "RSA-OAEP-256", "enc", k.rsaEnc, k.rsaEnc, pairSrvEnc), c09KeyOf("eenc", "ECDH-ES", "enc", k.ecEnc, k.ecEnc, pairSrvECEnc)}},
		{"private sig and enc keys of every type", []c09Key{c09KeyOf("r1", "PS256", "sig", k.rsa, k.rsa, pairRSA), c09KeyOf("e1", "ES256", "sig", k.ec256, k.ec256, pairEC256), c09KeyOf("e3", "ES512", "sig", k.ec521, k.ec521, pairEC521),
			c09KeyOf("renc", "RSA-OAEP-256", "enc", k.rsaEnc, k.rsaEnc, pairSrvEnc), c09KeyOf("eenc", "ECDH-ES", "enc", k.ecEnc, k.ecEnc, pairSrvECEnc)}},
	}
}

var c09KeyHandlings = []string{"keys from the set", "WithSignFunc", "WithDecryptFunc", "WithSignFunc+WithDecryptFunc"}
var c09EncFeatures = []string{"no encryption", "JAR encryption", "ID token + userinfo encryption", "JARM encryption", "JAR + ID token + userinfo + JARM encryption"}

// c09JWKS returns the CMeta model cases (term, note) of the cells whose /jwks answered 200
func c09JWKS(ctx *RunCtx, s *c09Scan) (cases []string, notes []map[string]any) {
	k := c08Keys()
	allowed := map[string]bool{"kty": true, "kid": true, "use": true, "alg": true, "n": true, "e": true, "crv": true, "x": true, "y": true, "x5c": true, "x5t": true, "x5t#S256": true, "x5u": true, "key_ops": true}
	client := &goidc.Client{ID: c08Client, HashedSecret: bcryptOf(c08Secret)}
	client.TokenAuthnMethod = goidc.ClientAuthnSecretPost
	client.GrantTypes = []goidc.GrantType{goidc.GrantClientCredentials, goidc.GrantAuthorizationCode}
	client.ResponseTypes = []goidc.ResponseType{"code"}
	client.RedirectURIs = []string{c08Redirect}
	client.ScopeIDs = "openid email"
	client.PublicJWKS = k.clientJWKS()
	cell := 0
	for _, ks := range c09KeySets() {
		var set goidc.JSONWebKeySet
		var coqKeys []string
		privByAlg := map[string]any{}
		privByKid := map[string]any{}
		var encKey *goidc.JSONWebKey
		for i := range ks.keys {
			set.Keys = append(set.Keys, ks.keys[i].jwk)
			coqKeys = append(coqKeys, ks.keys[i].coq)
			if ks.keys[i].jwk.Use == "sig" {
				privByAlg[ks.keys[i].jwk.Algorithm] = ks.keys[i].priv
			} else {
				privByKid[ks.keys[i].jwk.KeyID] = ks.keys[i].priv
				if encKey == nil {
					encKey = &ks.keys[i].jwk
				}
			}
		}
		sigAlg := goidc.SignatureAlgorithm(ks.keys[0].jwk.Algorithm)
		for _, prefix := range []string{"", "/auth"} {
			for hi, handling := range c09KeyHandlings {
				for fi, feature := range c09EncFeatures {
					cell++
					opts := []provider.ProviderOption{
						provider.WithIDTokenSignatureAlgs(sigAlg), provider.WithUserInfoSignatureAlgs(sigAlg),
						provider.WithScopes(goidc.ScopeOpenID, goidc.NewScope("email")),
						provider.WithClientCredentialsGrant(), provider.WithAuthorizationCodeGrant(),
						provider.WithTokenAuthnMethods(goidc.ClientAuthnSecretPost),
						provider.WithStaticClient(client),
						provider.WithTokenOptions(func(goidc.GrantInfo, *goidc.Client) goidc.TokenOptions { return goidc.NewJWTTokenOptions(sigAlg, 300) }),
						provider.WithPolicy(goidc.NewPolicy("main",
							func(*http.Request, *goidc.Client, *goidc.AuthnSession) bool { return true },
							func(http.ResponseWriter, *http.Request, *goidc.AuthnSession) (goidc.AuthnStatus, error) {
								return goidc.StatusFailure, errors.New("no user")
							})),
					}
					if prefix != "" {
						opts = append(opts, provider.WithPathPrefix(prefix))
					}
					signer, decrypter := "None", false
					if hi == 1 || hi == 3 {
						opts = append(opts, provider.WithSignFunc(func(_ context.Context, a goidc.SignatureAlgorithm) (string, crypto.Signer, error) {
							for _, key := range ks.keys {
								if key.jwk.Use == "sig" && key.jwk.Algorithm == string(a) {
									if sg, ok := key.priv.(crypto.Signer); ok {
										return key.jwk.KeyID, sg, nil
									}
								}
							}
							return "", nil, errors.New("no signer for " + string(a) + ": " + plantedFailureSecret)
						}))
						var parts []string
						for _, key := range ks.keys {
							if _, ok := key.priv.(crypto.Signer); ok && key.jwk.Use == "sig" {
								parts = append(parts, fmt.Sprintf("(%s, (%s, %d))", key.jwk.Algorithm, cS(key.jwk.KeyID), k.pairOf(c08PublicOf(key.priv))))
							}
						}
						signer = "(Some [" + strings.Join(parts, "; ") + "])"
					}
					if hi == 2 || hi == 3 {
						decrypter = true
						opts = append(opts, provider.WithDecryptFunc(func(_ context.Context, kid string, _ goidc.KeyEncryptionAlgorithm) (crypto.Decrypter, error) {
							if d, ok := privByKid[kid].(crypto.Decrypter); ok {
								return d, nil
							}
							return nil, errors.New("no decrypter for " + kid + ": " + plantedFailureSecret)
						}))
					}
					jarEnc := fi == 1 || fi == 4
					if jarEnc {
						opts = append(opts, provider.WithJAR(goidc.ES256, goidc.RS256), provider.WithJAREncryption(goidc.RSA_OAEP_256, "ECDH-ES"))
					}
					if fi == 2 || fi == 4 {
						opts = append(opts, provider.WithIDTokenEncryption(goidc.RSA_OAEP_256, "ECDH-ES"), provider.WithUserInfoEncryption(goidc.RSA_OAEP_256, "ECDH-ES"))
					}
					if fi == 3 || fi == 4 {
						opts = append(opts, provider.WithJARM(sigAlg), provider.WithJARMEncryption(goidc.RSA_OAEP_256, "ECDH-ES"))
					}
					p, err := provider.New(goidc.ProfileOpenID, issuer, func(context.Context) (goidc.JSONWebKeySet, error) { return set, nil }, opts...)
					if err != nil {
						panic(fmt.Sprintf("c09 jwks matrix: provider.New (%s, %s, %s): %v", ks.name, handling, feature, err))
					}
					h := p.Handler()
					cfgText := fmt.Sprintf("key set %q, %s, %s, prefix %q", ks.name, handling, feature, prefix)
					s.history = []string{"jwks matrix: " + cfgText}
					s.stats["matrix/jwks | "+ks.name+" | "+handling]++
					s.stats["matrix/jwks | "+handling+" | "+feature+fmt.Sprintf(" | prefix=%q", prefix)]++
					do := func(method, target string, form url.Values) *httptest.ResponseRecorder {
						rec := httptest.NewRecorder()
						var body io.Reader
						if form != nil {
							body = strings.NewReader(form.Encode())
						}
						req := httptest.NewRequest(method, target, body)
						if form != nil {
							req.Header.Set("Content-Type", "application/x-www-form-urlencoded")
						}
						func() {
							defer func() { _ = recover() }()
							h.ServeHTTP(rec, req)
						}()
						text := responseText(rec)
						line := method + " " + target + " " + form.Encode()
						s.history = append(s.history, truncate(line, 300))
						s.stats["responses"]++
						ep := endpointOf(target)
						s.stats["responses:"+ep]++
						s.stats[fmt.Sprintf("jwks-matrix:%s:%d", ep, rec.Code)]++
						if ep == "authorize" && strings.Contains(rec.Body.String(), "could not fetch the client public key") {
							s.stats["jwks-matrix:request object decrypted"]++
						}
						replay := map[string]any{"key_set": ks.name, "key_handling": handling, "encryption": feature, "path_prefix": prefix, "request": truncate(line, 400), "response": truncate(text, 3000)}
						for _, key := range ks.keys {
							for name, v := range privateMembers(key.priv) {
								if strings.Contains(text, v) {
									s.fail(ep, "private-jwk-member-"+name, fmt.Sprintf("%s %s (%s): the response carries the private member %q of the server key %q (use %s, alg %s)",
										method, strings.SplitN(target, "?", 2)[0], cfgText, name, key.jwk.KeyID, key.jwk.Use, key.jwk.Algorithm), replay)
								}
							}
							if b, ok := key.priv.([]byte); ok && (strings.Contains(text, string(b)) || strings.Contains(text, base64.RawURLEncoding.EncodeToString(b))) {
								s.fail(ep, "private-jwk-member-k", fmt.Sprintf("%s %s (%s): the symmetric key is published", method, target, cfgText), replay)
							}
						}
						if strings.Contains(text, plantedFailureSecret) {
							s.fail(ep, "error-text", fmt.Sprintf("%s %s (%s): the text of an embedder callback failure is echoed", method, strings.SplitN(target, "?", 2)[0], cfgText), replay)
						}
						if strings.Contains(text, "$2a$") {
							s.fail(ep, "secret-hash", "the response contains a bcrypt hash", replay)
						}
						return rec
					}
					// the key set and the metadata
					rec := do("GET", prefix+"/jwks", nil)
					do("GET", prefix+"/.well-known/openid-configuration", nil)
					var doc struct {
						Keys []map[string]any `json:"keys"`
					}
					if rec.Code == 200 && json.Unmarshal(rec.Body.Bytes(), &doc) == nil {
						replay := map[string]any{"key_set": ks.name, "key_handling": handling, "encryption": feature, "request": "GET " + prefix + "/jwks", "response": truncate(rec.Body.String(), 3000)}
						for _, m := range doc.Keys {
							for name := range m {
								if !allowed[name] {
									cls := "non-public-member"
									switch name {
									case "d", "p", "q", "dp", "dq", "qi", "k", "oth":
										cls = "private-jwk-member-" + name
									}
									s.fail("jwks", cls, fmt.Sprintf("GET %s/jwks (%s): key %v publishes the member %q", prefix, cfgText, m["kid"], name), replay)
								}
							}
						}
						// the served set against the model (a set with a symmetric key is not served at all: go-jose refuses
						// to marshal the zero JWK that Public() yields, the body is the internal_error object - with status 200)
						if parsed, err := parseJWKS(rec.Body.Bytes()); err == nil && len(parsed) > 0 {
							var mo atoms
							mo.S(issuer)
							mo.S(issuer + prefix + "/jwks")
							for _, pk := range parsed {
								priv := 0
								for _, m := range pk.Members {
									switch m {
									case "d", "p", "q", "dp", "dq", "qi", "k", "oth":
										priv = 1
									}
								}
								mo.S(pk.Kid)
								mo.N(c08KalgIx(pk.Alg))
								mo.N(k.pairOf(pk.Pub))
								mo.N(priv)
							}
							acfg := fmt.Sprintf("(mkACfg %s [%s] %s false 600%%Z false %s false false false %s 600%%Z false false false true)",
								cS(issuer), strings.Join(coqKeys, "; "), sigAlg, sigAlg, sigAlg)
							cases = append(cases, fmt.Sprintf("CMeta %s (mkKeyHandling %s %s %s) %s", acfg, cS(prefix), signer, cB(decrypter), mo.coq()))
							notes = append(notes, map[string]any{"Note": "jwks matrix: " + cfgText, "Spec": map[string]any{"key_set": ks.name, "key_handling": handling, "encryption": feature, "path_prefix": prefix}, "Obs": []string(mo)})
						}
					}
					// the signing path (a JWT access token; fails, and must fail silently, when nothing can sign)
					do("POST", prefix+"/token", url.Values{"grant_type": {"client_credentials"}, "scope": {"email"}, "client_id": {c08Client}, "client_secret": {c08Secret}})
					// the decryption path: a request object encrypted to the server's enc key (its content is not a valid request)
					if jarEnc && encKey != nil {
						if enc, err := jose.NewEncrypter(jose.A128CBC_HS256, jose.Recipient{Algorithm: jose.KeyAlgorithm(encKey.Algorithm), Key: c08PublicOf(encKey.Key), KeyID: encKey.KeyID},
							(&jose.EncrypterOptions{}).WithContentType("jwt")); err == nil {
							if obj, err := enc.Encrypt([]byte("eyJhbGciOiJFUzI1NiJ9.e30.c2ln")); err == nil {
								jwe, _ := obj.CompactSerialize()
								q := url.Values{"client_id": {c08Client}, "request": {jwe}, "response_type": {"code"}, "redirect_uri": {c08Redirect}, "scope": {"openid"}}
								do("GET", prefix+"/authorize?"+q.Encode(), nil)
								s.stats["matrix/jwks | encrypted request object | "+handling]++
							}
						}
					}
				}
			}
		}
	}
	s.stats["jwks_matrix_cells"] = cell
	return cases, notes
}

// ---- d. every origin of a pairwise subject x every grant ----
func c09Pairwise(ctx *RunCtx, s *c09Scan) *c08Run {
	r := newC08Run(ctx)
	var cur c08Cfg
	k := c08Keys()
	var plant []planted
	for _, key := range []any{k.rsa, k.rsaEnc, k.ec256, k.ec384, k.ec521} {
		for name, v := range privateMembers(key) {
			plant = append(plant, planted{class: "private-jwk-member-" + name, value: v})
		}
	}
	c08ServeHook = func(method, target string, form url.Values, hdr http.Header, rec *httptest.ResponseRecorder) {
		text := responseText(rec)
		line := method + " " + target + " " + form.Encode()
		s.history = append(s.history, truncate(line, 300))
		ep := endpointOf(target)
		replay := map[string]any{"request": truncate(line, 400), "response": truncate(text, 1500), "subject_configuration": cur.subjectConfig(),
			"token_options": "JWT", "configuration": cur}
		s.static = plant
		s.scanGeneric(ep, text, target+" "+form.Encode()+" "+fmt.Sprint(hdr), c08Client, replay)
		if ep == "token" || ep == "authorize" {
			grant := form.Get("grant_type")
			if ep == "authorize" {
				grant = "implicit"
			}
			s.checkPairwise(ep, text, cur.pairwise(), cur.subjectConfig(), grant, replay)
			if !cur.pairwise() {
				s.stats["matrix/not pairwise | "+cur.subjectConfig()+" | grant="+grant]++
			}
		}
	}
	defer func() { c08ServeHook = nil }()
	n := 0
	for _, sc := range c08Subjects {
		for _, sector := range []bool{false, true} {
			for _, noFn := range []bool{false, true} {
				if noFn && sector {
					continue
				}
				n++
				alg := c08SigAlgs[(n+ctx.R.Intn(7))%len(c08SigAlgs)]
				cur = c08Cfg{SrvAlg: alg, IdtLifetime: 600, TokLifetime: 300, JARM: true, JWTTokens: true,
					SubType: sc.SubType, DefaultPairwise: sc.DefaultPairwise, Sector: sector, NoPairwiseFn: noFn,
					Prefix: c08Prefixes[n%len(c08Prefixes)], SignFunc: n%4 == 0,
					Sub: fmt.Sprintf("raw-subject-%d", ctx.R.Intn(1000)), Scopes: "openid email", State: "st", Nonce: "n"}
				s.cred = map[string]string{}
				s.history = []string{fmt.Sprintf("pairwise matrix %d: %s, token options: JWT (%s), prefix %q", n, cur.subjectConfig(), alg, cur.Prefix)}
				for _, rt := range []string{"code", "token", "id_token token", "code token", "code id_token token"} {
					cf := cur
					cf.RespType = rt
					r.flow(cf) // authorize (implicit / hybrid), code, refresh, userinfo
				}
				r.grants(cur) // client_credentials, jwt-bearer
				cf := cur
				cf.Scopes = "email"
				r.grants(cf) // jwt-bearer without openid
			}
		}
	}
	return r
}

const c09CaseHeader = `From Verif Require Import Base Scope Types Prog Pop Token Authorize System Config Run Monitors.
From Verif.Corr Require Import C09.
Local Open Scope N_scope.
`

func init() {
	register(&Suite{Name: "c09", Run: func(ctx *RunCtx) {
		s := newScan()
		c09Mixed(ctx, s)
		c09DcrHistories(ctx, s)
		c09DcrMatrix(ctx, s)
		metaCases, metaNotes := c09JWKS(ctx, s)
		pw := c09Pairwise(ctx, s)
		// the mixed histories as model cases: correspondence + the theorem's monitor on the implementation's trace
		ctx.writeSysCases("mon_C09", true)
		for _, f := range ctx.Meta.Files {
			p := filepath.Join(ctx.Out, f)
			b, _ := os.ReadFile(p)
			_ = os.WriteFile(p, []byte(strings.Replace(string(b), caseHeader, c09CaseHeader, 1)), 0o644)
		}
		ctx.writeCasesJSON()
		// the two matrices as model cases of the artifact model (Corr/C08.v check_c08): the key set served in every
		// cell against public_jwks_x, every response of the pairwise matrix against make / token_options
		c09ArtifactCases(ctx, append(metaCases, pw.cases...), append(metaNotes, pw.notes...))
		for sig, fd := range pw.findings {
			// of the artifact oracles only those that concern disclosure: subjects and published key members
			if strings.HasSuffix(sig, ":sub") || strings.HasPrefix(sig, "jwks:") {
				fd.Property, fd.Signature = "C09", "pairwise-matrix/"+sig
				s.findings[fd.Signature] = fd
			}
		}

		var sigs []string
		for sig := range s.findings {
			sigs = append(sigs, sig)
		}
		sort.Strings(sigs)
		for _, sig := range sigs {
			ctx.Meta.Findings = append(ctx.Meta.Findings, s.findings[sig])
		}
		for k, v := range s.stats {
			ctx.Meta.Dist["scan/"+k] += v
		}
		ctx.Meta.Rule = "every response (status line, headers, body) of mixed histories incl. a fault round per history (worlds drawn with default subject type public / pairwise and clients spelling subject_type out or not), of DCR create/read/update/delete histories with storage and hook failures, of /jwks, discovery, a token request and an encrypted request object for 8 key sets x {keys from the set, WithSignFunc, WithDecryptFunc, both} x {no encryption, JAR, ID token+userinfo, JARM, all} x path prefix, and of every grant for every subject configuration (subject_type public/pairwise/absent x default public/pairwise x sector identifier x pairwise function) with JWT token options, scanned for planted secrets; input_distribution scan/matrix/... is the covered matrix; distinct by projected trace of the mixed histories"
		ctx.Meta.Extra = map[string]any{"responses_scanned": s.stats["responses"]}
	}})
}

// c09ArtifactCases appends case files of type c08case (evaluated by Corr/C08.v check_c08) after the history files
// and their entries to cases.json, in the same order.
func c09ArtifactCases(ctx *RunCtx, cases []string, notes []map[string]any) {
	if len(cases) == 0 {
		return
	}
	var all []map[string]any
	if b, err := os.ReadFile(filepath.Join(ctx.Out, "cases.json")); err == nil {
		_ = json.Unmarshal(b, &all)
	}
	per := 150
	for k := 0; k*per < len(cases); k++ {
		hi := (k + 1) * per
		if hi > len(cases) {
			hi = len(cases)
		}
		var b strings.Builder
		b.WriteString(c08Header)
		var names []string
		for i, c := range cases[k*per : hi] {
			fmt.Fprintf(&b, "(*CASE %d*)\nDefinition a_%d : c08case :=\n  %s.\n", k*per+i, k*per+i, c)
			names = append(names, fmt.Sprintf("a_%d", k*per+i))
		}
		b.WriteString("Definition cases : list c08case := [" + strings.Join(names, "; ") + "].\n")
		b.WriteString("Definition corr := Eval vm_compute in map check_c08 cases.\nPrint corr.\n")
		name := fmt.Sprintf("cases_art_%03d.v", k)
		if err := os.WriteFile(filepath.Join(ctx.Out, name), []byte(b.String()), 0o644); err != nil {
			panic(err)
		}
		ctx.Meta.Files = append(ctx.Meta.Files, name)
	}
	for _, n := range notes {
		n["Index"] = len(all)
		all = append(all, n)
	}
	jb, _ := json.Marshal(all)
	_ = os.WriteFile(filepath.Join(ctx.Out, "cases.json"), jb, 0o644)
	ctx.Meta.Cases += len(cases)
}
