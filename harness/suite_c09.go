package main

// C09 — no response discloses private keys, secret hashes or another party's secrets.
//
// Recognisable secrets are planted (private JWK members of the server keys; bcrypt hashes of client
// secrets and registration tokens; plain client secrets; codes, tokens and request URIs of other
// clients; a secret embedded in the text of injected storage / callback failures) and EVERY response
// body and header is scanned:
//   a. mixed histories of the system generator (World.serve hook), each followed by a round of
//      re-executed operations with a storage failure injected at every call position;
//   b. DCR create / read / update / delete histories on their own provider, with storage and
//      HandleDynamicClient failures: hashes never, a secret / registration token only in the one
//      response that creates or rotates it, nothing of another client;
//   c. GET /jwks for key sets of every asymmetric type (RSA, EC P-256/384/521), given with and
//      without private parts, sig and enc use, plus a symmetric key: public members only;
//   d. every token response of every grant (code, refresh, implicit, client_credentials,
//      jwt-bearer) for pairwise clients configured for JWT access tokens: opaque, except
//      client_credentials.
// Findings are "<endpoint>:<atom class>".  The mixed histories are also written as model cases and
// the theorem's monitor (Corr/C09.v mon_C09) is evaluated on the implementation's trace.

import (
	"bytes"
	"context"
	"crypto/ecdsa"
	"crypto/elliptic"
	"crypto/rand"
	"encoding/base64"
	"encoding/json"
	"errors"
	"fmt"
	"io"
	"net/http"
	"net/http/httptest"
	"net/url"
	"os"
	"path/filepath"
	"regexp"
	"sort"
	"strings"

	"github.com/go-jose/go-jose/v4"
	"github.com/luikyv/go-oidc/pkg/goidc"
	"github.com/luikyv/go-oidc/pkg/provider"
)

const plantedFailureSecret = "PLANTED-FAILURE-SECRET-dsn-admin-hunter2"

type planted struct {
	class string
	value string
	owner string // "" : nobody may ever see it
}

type c09Scan struct {
	findings map[string]Finding
	static   []planted           // never allowed in any response
	cred     map[string]string   // credential string -> owning client
	stats    map[string]int
	history  []string            // request lines of the current history, for the replay
}

func newScan() *c09Scan {
	return &c09Scan{findings: map[string]Finding{}, cred: map[string]string{}, stats: map[string]int{}}
}

func (s *c09Scan) fail(endpoint, class, what string, replay map[string]any) {
	sig := endpoint + ":" + class
	s.stats["FAILED "+sig]++
	if _, ok := s.findings[sig]; ok {
		return
	}
	if replay == nil {
		replay = map[string]any{}
	}
	h := s.history
	if len(h) > 40 {
		h = h[len(h)-40:]
	}
	replay["requests_so_far"] = append([]string(nil), h...)
	s.findings[sig] = Finding{Property: "C09", Signature: sig, What: endpoint + ": " + what, Replay: replay}
}

// private members of a key as they would appear in a JWK
func privateMembers(key any) map[string]string {
	b, err := json.Marshal(jose.JSONWebKey{Key: key, KeyID: "x"})
	if err != nil {
		return nil
	}
	var m map[string]any
	_ = json.Unmarshal(b, &m)
	out := map[string]string{}
	for _, name := range []string{"d", "p", "q", "dp", "dq", "qi", "k"} {
		if v, ok := m[name].(string); ok && len(v) >= 8 {
			out[name] = v
		}
	}
	return out
}

func endpointOf(target string) string {
	p := target
	if i := strings.IndexAny(p, "?#"); i >= 0 {
		p = p[:i]
	}
	for _, e := range []string{"/authorize", "/token", "/par", "/userinfo", "/introspect", "/revoke", "/bc-authorize", "/register", "/jwks", "/.well-known"} {
		if strings.Contains(p, e) {
			return strings.TrimPrefix(e, "/")
		}
	}
	return "other"
}

func responseText(rec *httptest.ResponseRecorder) string {
	var b strings.Builder
	fmt.Fprintf(&b, "%d\n", rec.Code)
	var names []string
	for k := range rec.Header() {
		names = append(names, k)
	}
	sort.Strings(names)
	for _, k := range names {
		for _, v := range rec.Header()[k] {
			b.WriteString(k + ": " + v + "\n")
			if u, err := url.QueryUnescape(v); err == nil && u != v {
				b.WriteString(k + "(unescaped): " + u + "\n")
			}
		}
	}
	b.WriteString("\n")
	b.Write(rec.Body.Bytes())
	return b.String()
}

var credFields = regexp.MustCompile(`"(access_token|refresh_token|request_uri|auth_req_id)"\s*:\s*"([^"]+)"`)
var navFields = regexp.MustCompile(`[?&#](code|access_token)=([^&#\s"]+)`)
var formFields = regexp.MustCompile(`name="(code|access_token)" value="([^"]+)"`)
var pageField = regexp.MustCompile(`PAGE (cb)=(\S+)`)

// scanGeneric: the checks common to every response
func (s *c09Scan) scanGeneric(endpoint, text string, presented string, requester string, replay map[string]any) {
	s.stats["responses"]++
	s.stats["responses:"+endpoint]++
	for _, p := range s.static {
		if p.value != "" && strings.Contains(text, p.value) {
			if p.owner != "" && p.owner == requester {
				continue
			}
			if p.owner != "" && strings.Contains(presented, p.value) {
				continue
			}
			s.fail(endpoint, p.class, fmt.Sprintf("the response contains a planted %s (%s...)", p.class, truncate(p.value, 12)), replay)
		}
	}
	// bcrypt strings of any origin
	if i := strings.Index(text, "$2a$"); i >= 0 {
		s.fail(endpoint, "secret-hash", "the response contains a bcrypt hash", replay)
	}
	// credentials of other clients
	for c, owner := range s.cred {
		if owner != "" && owner != requester && !strings.Contains(presented, c) && strings.Contains(text, c) {
			s.fail(endpoint, "foreign-credential", fmt.Sprintf("the response to %q contains a credential minted for %q", requester, owner), replay)
		}
	}
	// learn new credentials: they belong to the requester
	for _, re := range []*regexp.Regexp{credFields, navFields, formFields, pageField} {
		for _, m := range re.FindAllStringSubmatch(text, -1) {
			v := m[2]
			if u, err := url.QueryUnescape(v); err == nil {
				v = u
			}
			if _, known := s.cred[v]; !known && len(v) >= 16 {
				s.cred[v] = requester
			}
		}
	}
}

// pairwise clients never receive a JWT access token, except from client_credentials
func (s *c09Scan) checkPairwise(endpoint, text string, pairwise bool, grant string, replay map[string]any) {
	var ats []string
	for _, re := range []*regexp.Regexp{credFields, navFields, formFields} {
		for _, m := range re.FindAllStringSubmatch(text, -1) {
			if m[1] == "access_token" {
				ats = append(ats, m[2])
			}
		}
	}
	for _, at := range ats {
		s.stats["access_tokens_seen"]++
		isJWT := strings.Count(at, ".") == 2
		if pairwise {
			s.stats["access_tokens_seen(pairwise client)"]++
		}
		if pairwise && isJWT && grant != "client_credentials" {
			sub := jwtClaim(at, "sub")
			s.fail(endpoint, "pairwise-jwt", fmt.Sprintf("a client with pairwise subject type received a JWT access token (grant %q) whose sub is the raw subject %q", grant, sub), replay)
		}
	}
}

// ---- a. mixed histories ----
func (s *c09Scan) worldHook(w *World, method, target string, form url.Values, hdr http.Header, rec *httptest.ResponseRecorder) {
	if rec == nil {
		return
	}
	text := responseText(rec)
	presented := target + " " + form.Encode() + " " + fmt.Sprint(hdr)
	if u, err := url.QueryUnescape(presented); err == nil {
		presented += " " + u
	}
	requester := form.Get("client_id")
	if requester == "" {
		if u, err := url.Parse(target); err == nil {
			requester = u.Query().Get("client_id")
		}
	}
	if requester == "" {
		// callback / userinfo: the requester is whoever owns the credential presented
		for c, owner := range s.cred {
			if strings.Contains(presented, c) {
				requester = owner
			}
		}
		if requester == "" && strings.Contains(target, "/authorize/") {
			requester = "user-agent:" + target
		}
	}
	line := method + " " + target + " " + form.Encode()
	s.history = append(s.history, truncate(line, 300))
	replay := map[string]any{"request": line, "response": truncate(text, 1500), "options": cList(w.Spec.Opts, Opt.coq)}
	ep := endpointOf(target)
	s.scanGeneric(ep, text, presented, requester, replay)
	// other clients' plain secrets
	for _, cs := range append(append([]ClientSpec{}, w.Spec.Static...), w.Spec.Dyn...) {
		sec := clientSecret(cs.ID)
		if strings.Contains(text, sec) && !strings.Contains(presented, sec) {
			s.fail(ep, "client-secret", "the response contains a client secret that was not presented", replay)
		}
	}
	if ep == "token" || ep == "authorize" {
		pw := false
		if cs := w.clientSpec(clientNum(requester)); cs != nil {
			pw = cs.Pairwise
		}
		s.checkPairwise(ep, text, pw, form.Get("grant_type"), replay)
	}
	// an internal failure must come out as internal_error without the text (checked by the planted string)
	if strings.Contains(text, "injected storage failure") {
		s.fail(ep, "error-text", "the text of a storage failure is echoed in the response", replay)
	}
}

func (s *c09Scan) plantWorld(w *World) {
	s.static = nil
	for name, v := range privateMembers(serverKeyCache) {
		s.static = append(s.static, planted{class: "private-jwk-member-" + name, value: v})
	}
	s.static = append(s.static, planted{class: "error-text", value: plantedFailureSecret})
	for _, cs := range append(append([]ClientSpec{}, w.Spec.Static...), w.Spec.Dyn...) {
		if !cs.Public {
			s.static = append(s.static, planted{class: "secret-hash", value: bcryptOf(clientSecret(cs.ID))})
		}
	}
	s.cred = map[string]string{}
	s.history = nil
}

func c09Mixed(ctx *RunCtx, s *c09Scan) {
	n := ctx.N(120, 2500)
	saved := errInjected
	errInjected = errors.New("injected storage failure: " + plantedFailureSecret)
	defer func() { errInjected = saved; serveHook = nil }()
	serveHook = s.worldHook
	for i := 0; i < n; i++ {
		fl := []string{"copy", "alias"}[i%2]
		want := map[string]bool{"refresh": i%2 == 0, "implicit": true, "ciba": i%3 == 0, "par": i%2 == 1}
		if i%5 == 0 {
			want["dynamic"] = true
		}
		spec := randomSpec(ctx.R, fl, want)
		g, err := NewSysGen(ctx.R, spec)
		if err != nil {
			panic(err)
		}
		s.plantWorld(g.W)
		g.DevRate = 30
		g.Run(30)
		ctx.AddCase(g.Case(fmt.Sprintf("c09#%d/%s", i, fl)))
		ctx.AddStats(g.stats)
		// fault round: re-execute operations of the history with the k-th storage call failing with a
		// plain error whose text embeds a secret (not part of the model case)
		ops := g.Ops
		for j := 0; j < 14 && len(ops) > 0; j++ {
			o := ops[ctx.R.Intn(len(ops))]
			if o.Kind == "Tick" || o.Kind == "TokenInfo" || o.Kind == "TokenInfoReq" || o.Kind == "NotifyOk" || o.Kind == "NotifyFail" {
				continue
			}
			g.W.step = len(g.Ops) + j
			g.W.Stores.BeginRequest(map[int]Fault{ctx.R.Intn(5): FErr}, -1)
			func() {
				defer func() { _ = recover() }()
				obs := g.W.ExecWith(o)
				s.stats["fault-round:"+obs.Kind+":"+obs.Err]++
			}()
		}
	}
}

// ---- b. DCR ----
type dcrClient struct {
	id, secret, regToken string
	secrets              []string // every secret ever handed out for it
	regTokens            []string
	deleted              bool
}

type c09Dcr struct {
	s       *c09Scan
	stores  *Stores
	h       http.Handler
	hookErr error
	clients []*dcrClient
	once    map[string]int // secret / token -> number of responses that carried it
}

func (d *c09Dcr) do(method, path string, body any, bearer string, who *dcrClient, rotating bool, plan map[int]Fault) (int, map[string]any) {
	var rd io.Reader
	var raw []byte
	if body != nil {
		raw, _ = json.Marshal(body)
		rd = bytes.NewReader(raw)
	}
	req := httptest.NewRequest(method, path, rd)
	if body != nil {
		req.Header.Set("Content-Type", "application/json")
	}
	if bearer != "" {
		req.Header.Set("Authorization", "Bearer "+bearer)
	}
	rec := httptest.NewRecorder()
	d.stores.BeginRequest(plan, -1)
	d.h.ServeHTTP(rec, req)
	text := responseText(rec)
	line := method + " " + path + " " + string(raw) + " bearer=" + truncate(bearer, 12)
	d.s.history = append(d.s.history, truncate(line, 300))
	replay := map[string]any{"request": line, "response": truncate(text, 2000), "fault_plan": fmt.Sprint(plan)}
	requester := ""
	if who != nil {
		requester = who.id
	}
	// hashes now in the store: never in any response
	d.s.static = d.s.static[:0]
	d.s.static = append(d.s.static, planted{class: "error-text", value: plantedFailureSecret})
	d.stores.copyC.each(func(c *goidc.Client) {
		if c.HashedSecret != "" {
			d.s.static = append(d.s.static, planted{class: "secret-hash", value: c.HashedSecret})
		}
		if c.HashedRegistrationAccessToken != "" {
			d.s.static = append(d.s.static, planted{class: "registration-token-hash", value: c.HashedRegistrationAccessToken})
		}
	})
	d.s.scanGeneric("register", text, bearer+" "+string(raw), requester, replay)
	var m map[string]any
	_ = json.Unmarshal(rec.Body.Bytes(), &m)
	// secrets and registration tokens of every client: only in the response that minted them
	for _, c := range d.clients {
		for _, sec := range c.secrets {
			if strings.Contains(text, sec) {
				d.s.fail("register", "client-secret", fmt.Sprintf("a client secret minted earlier appears again (%s %s)", method, path), replay)
			}
		}
		for _, tok := range c.regTokens {
			if strings.Contains(text, tok) {
				d.s.fail("register", "registration-token", fmt.Sprintf("a registration access token minted earlier appears again (%s %s)", method, path), replay)
			}
		}
	}
	sec, _ := m["client_secret"].(string)
	tok, _ := m["registration_access_token"].(string)
	if (sec != "" || tok != "") && !(rec.Code == 201 || (rec.Code == 200 && method == "PUT")) {
		d.s.fail("register", "client-secret", fmt.Sprintf("a secret or registration token is returned by %s (status %d), which neither creates nor rotates it", method, rec.Code), replay)
	}
	if tok != "" && method == "PUT" && !rotating {
		d.s.fail("register", "registration-token", "an update returned a registration token although rotation is off", replay)
	}
	d.s.stats[fmt.Sprintf("dcr:%s:%d", method, rec.Code)]++
	return rec.Code, m
}

func c09DcrHistories(ctx *RunCtx, s *c09Scan) {
	r := ctx.R
	n := ctx.N(16, 300)
	saved := errInjected
	errInjected = errors.New("injected storage failure: " + plantedFailureSecret)
	defer func() { errInjected = saved }()
	k := c08Keys()
	for i := 0; i < n; i++ {
		rotation := i%2 == 0
		d := &c09Dcr{s: s, stores: NewStores("copy")}
		s.cred = map[string]string{}
		s.history = []string{fmt.Sprintf("DCR history %d, rotation=%v", i, rotation)}
		opts := []provider.ProviderOption{
			provider.WithClientStorage(d.stores.Clients()),
			provider.WithScopes(goidc.ScopeOpenID, goidc.NewScope("email")),
			provider.WithAuthorizationCodeGrant(), provider.WithClientCredentialsGrant(),
			provider.WithTokenAuthnMethods(goidc.ClientAuthnSecretPost, goidc.ClientAuthnSecretBasic, goidc.ClientAuthnSecretJWT, goidc.ClientAuthnPrivateKeyJWT, goidc.ClientAuthnNone),
			provider.WithPrivateKeyJWTSignatureAlgs(goidc.ES256),
			provider.WithIDTokenSignatureAlgs(goidc.ES256),
			provider.WithTokenIntrospection(func(*goidc.Client) bool { return true }, goidc.ClientAuthnSecretPost, goidc.ClientAuthnSecretBasic, goidc.ClientAuthnSecretJWT),
			provider.WithDCR(func(_ *http.Request, m *goidc.ClientMetaInfo) error { return d.hookErr },
				func(_ *http.Request, tok string) error {
					if tok == "initial-token-bad" {
						return errors.New("initial token refused: " + plantedFailureSecret)
					}
					return nil
				}),
		}
		if rotation {
			opts = append(opts, provider.WithDCRTokenRotation())
		}
		jwks := goidc.JSONWebKeySet{Keys: []goidc.JSONWebKey{{Key: k.ec256, KeyID: "srv-es256", Algorithm: "ES256", Use: "sig"}}}
		p, err := provider.New(goidc.ProfileOpenID, issuer, func(context.Context) (goidc.JSONWebKeySet, error) { return jwks, nil }, opts...)
		if err != nil {
			panic(err)
		}
		d.h = p.Handler()
		clientJWKS, _ := json.Marshal(jose.JSONWebKeySet{Keys: []jose.JSONWebKey{{Key: &k.clientEC.PublicKey, KeyID: "c-ec", Algorithm: "ES256", Use: "sig"}}})
		meta := func() map[string]any {
			m := map[string]any{"redirect_uris": []string{"https://dyn.example/cb"}, "grant_types": []string{"authorization_code", "client_credentials"},
				"response_types": []string{"code"}, "scope": "openid email", "client_name": fmt.Sprintf("dyn-%d", r.Intn(100))}
			switch r.Intn(5) {
			case 0:
				m["token_endpoint_auth_method"] = "client_secret_post"
			case 1:
				m["token_endpoint_auth_method"] = "client_secret_basic"
			case 2:
				m["token_endpoint_auth_method"] = "client_secret_jwt"
				m["token_endpoint_auth_signing_alg"] = "HS256"
			case 3:
				m["token_endpoint_auth_method"] = "private_key_jwt"
				m["token_endpoint_auth_signing_alg"] = "ES256"
				m["jwks"] = json.RawMessage(clientJWKS)
			default:
				m["token_endpoint_auth_method"] = "none"
				m["grant_types"] = []string{"authorization_code"}
			}
			if r.Intn(3) == 0 {
				m["introspection_endpoint_auth_method"] = "client_secret_post"
			}
			if r.Intn(4) == 0 {
				m["custom"] = "v"
			}
			return m
		}
		learn := func(c *dcrClient, m map[string]any) {
			if v, _ := m["client_secret"].(string); v != "" {
				c.secret = v
				c.secrets = append(c.secrets, v)
			}
			if v, _ := m["registration_access_token"].(string); v != "" {
				c.regToken = v
				c.regTokens = append(c.regTokens, v)
			}
		}
		steps := 5 + r.Intn(4)
		for j := 0; j < steps; j++ {
			var live []*dcrClient
			for _, c := range d.clients {
				if !c.deleted {
					live = append(live, c)
				}
			}
			d.hookErr = nil
			var plan map[int]Fault
			if r.Intn(4) == 0 {
				plan = map[int]Fault{r.Intn(3): FErr}
			}
			switch x := r.Intn(10); {
			case x < 3 || len(live) == 0:
				if r.Intn(6) == 0 {
					d.hookErr = errors.New("metadata hook failed: " + plantedFailureSecret)
				}
				bearer := ""
				if r.Intn(8) == 0 {
					bearer = "initial-token-bad"
				}
				code, m := d.do("POST", "/register", meta(), bearer, nil, rotation, plan)
				if code == 201 {
					c := &dcrClient{id: m["client_id"].(string)}
					// what this response minted belongs to the new client; it is learnt AFTER the scan of this response
					learn(c, m)
					d.clients = append(d.clients, c)
				}
			case x < 6:
				c := pick(r, live)
				tok := c.regToken
				var who *dcrClient = c
				switch r.Intn(6) {
				case 0:
					tok = "wrong-token"
				case 1:
					if o := pick(r, live); o != c {
						tok, who = o.regToken, o // another client's token
					}
				}
				d.do("GET", "/register/"+c.id, nil, tok, who, rotation, plan)
			case x < 9:
				c := pick(r, live)
				tok := c.regToken
				if r.Intn(6) == 0 {
					tok = "wrong-token"
				}
				if r.Intn(6) == 0 {
					d.hookErr = errors.New("metadata hook failed: " + plantedFailureSecret)
				}
				code, m := d.do("PUT", "/register/"+c.id, meta(), tok, c, rotation, plan)
				if code == 200 {
					// the previous secret / token must not come back either: keep them in the lists
					learn(c, m)
				}
			default:
				c := pick(r, live)
				code, _ := d.do("DELETE", "/register/"+c.id, nil, c.regToken, c, rotation, plan)
				if code == 204 {
					c.deleted = true
				}
			}
		}
		// the secrets really authenticate nothing else: introspection by a secret client with its secret (also scanned)
		for _, c := range d.clients {
			if c.deleted || c.secret == "" {
				continue
			}
			form := url.Values{"client_id": {c.id}, "client_secret": {c.secret}, "token": {"nothing"}}
			req := httptest.NewRequest("POST", "/introspect", strings.NewReader(form.Encode()))
			req.Header.Set("Content-Type", "application/x-www-form-urlencoded")
			rec := httptest.NewRecorder()
			d.stores.BeginRequest(nil, -1)
			d.h.ServeHTTP(rec, req)
			s.scanGeneric("introspect", responseText(rec), form.Encode(), c.id, map[string]any{"request": "POST /introspect " + form.Encode()})
			break
		}
	}
}

// ---- c. /jwks for every key type ----
func c09JWKS(ctx *RunCtx, s *c09Scan) {
	k := c08Keys()
	ec := func(c elliptic.Curve) *ecdsa.PrivateKey { x, _ := ecdsa.GenerateKey(c, rand.Reader); return x }
	type keyset struct {
		name string
		keys []goidc.JSONWebKey
		priv []any
	}
	e256, e384, e521 := k.ec256, k.ec384, k.ec521
	encEC := ec(elliptic.P384())
	sets := []keyset{
		{"RSA sig keys with private parts", []goidc.JSONWebKey{{Key: k.rsa, KeyID: "r1", Algorithm: "RS256", Use: "sig"}, {Key: k.rsa, KeyID: "r2", Algorithm: "PS512", Use: "sig"}}, []any{k.rsa}},
		{"RSA enc key with private parts", []goidc.JSONWebKey{{Key: e256, KeyID: "s", Algorithm: "ES256", Use: "sig"}, {Key: k.rsaEnc, KeyID: "renc", Algorithm: "RSA-OAEP-256", Use: "enc"}}, []any{k.rsaEnc, e256}},
		{"EC P-256/384/521 sig keys with private parts", []goidc.JSONWebKey{{Key: e256, KeyID: "e1", Algorithm: "ES256", Use: "sig"}, {Key: e384, KeyID: "e2", Algorithm: "ES384", Use: "sig"}, {Key: e521, KeyID: "e3", Algorithm: "ES512", Use: "sig"}}, []any{e256, e384, e521}},
		{"EC enc key with private parts", []goidc.JSONWebKey{{Key: e256, KeyID: "s", Algorithm: "ES256", Use: "sig"}, {Key: encEC, KeyID: "eenc", Algorithm: "ECDH-ES", Use: "enc"}}, []any{encEC, e256}},
		{"keys given without private parts", []goidc.JSONWebKey{{Key: &k.rsa.PublicKey, KeyID: "r1", Algorithm: "RS256", Use: "sig"}, {Key: &e384.PublicKey, KeyID: "e2", Algorithm: "ES384", Use: "sig"}, {Key: e256, KeyID: "e1", Algorithm: "ES256", Use: "sig"}}, []any{k.rsa, e384, e256}},
		{"a symmetric key beside asymmetric ones", []goidc.JSONWebKey{{Key: e256, KeyID: "e1", Algorithm: "ES256", Use: "sig"}, {Key: []byte("planted-symmetric-key-0123456789abcdef"), KeyID: "h1", Algorithm: "HS256", Use: "sig"}}, []any{e256, []byte("planted-symmetric-key-0123456789abcdef")}},
	}
	allowed := map[string]bool{"kty": true, "kid": true, "use": true, "alg": true, "n": true, "e": true, "crv": true, "x": true, "y": true, "x5c": true, "x5t": true, "x5t#S256": true, "x5u": true, "key_ops": true}
	for _, ks := range sets {
		for _, prefix := range []string{"", "/auth"} {
			set := goidc.JSONWebKeySet{Keys: ks.keys}
			opts := []provider.ProviderOption{provider.WithIDTokenSignatureAlgs(goidc.SignatureAlgorithm(ks.keys[0].Algorithm))}
			if prefix != "" {
				opts = append(opts, provider.WithPathPrefix(prefix))
			}
			p, err := provider.New(goidc.ProfileOpenID, issuer, func(context.Context) (goidc.JSONWebKeySet, error) { return set, nil }, opts...)
			if err != nil {
				panic(err)
			}
			for _, path := range []string{"/jwks", "/.well-known/openid-configuration"} {
				rec := httptest.NewRecorder()
				var pan any
				func() {
					defer func() { pan = recover() }()
					p.Handler().ServeHTTP(rec, httptest.NewRequest("GET", prefix+path, nil))
				}()
				text := responseText(rec)
				s.stats["responses"]++
				s.stats["responses:jwks"]++
				replay := map[string]any{"key_set": ks.name, "request": "GET " + prefix + path, "response": truncate(text, 3000)}
				ep := "jwks"
				if path != "/jwks" {
					ep = "well-known"
				}
				for _, pk := range ks.priv {
					for name, v := range privateMembers(pk) {
						if strings.Contains(text, v) {
							s.fail(ep, "private-jwk-member-"+name, fmt.Sprintf("key set %q: the private member %q of a server key is published", ks.name, name), replay)
						}
					}
					if b, ok := pk.([]byte); ok && (strings.Contains(text, string(b)) || strings.Contains(text, base64.RawURLEncoding.EncodeToString(b))) {
						s.fail(ep, "private-jwk-member-k", "the symmetric key is published", replay)
					}
				}
				if path == "/jwks" && pan == nil {
					var doc struct {
						Keys []map[string]any `json:"keys"`
					}
					if json.Unmarshal(rec.Body.Bytes(), &doc) == nil {
						for _, m := range doc.Keys {
							for name := range m {
								if !allowed[name] {
									cls := "non-public-member"
									switch name {
									case "d", "p", "q", "dp", "dq", "qi", "k", "oth":
										cls = "private-jwk-member-" + name
									}
									s.fail(ep, cls, fmt.Sprintf("key set %q: key %v publishes the member %q", ks.name, m["kid"], name), replay)
								}
							}
						}
					}
				}
			}
		}
	}
}

// ---- d. pairwise clients and token formats, every grant ----
func c09Pairwise(ctx *RunCtx, s *c09Scan) {
	for i, alg := range []string{"ES256", "RS256", "PS384"} {
		for _, pairwise := range []bool{true, false} {
			cf := c08Cfg{SrvAlg: alg, IdtLifetime: 600, TokLifetime: 300, JARM: true, Pairwise: pairwise, JWTTokens: true,
				Sub: fmt.Sprintf("raw-subject-%d", ctx.R.Intn(1000)), Scopes: "openid email", State: "st", Nonce: "n", RespType: "code"}
			h, err := cf.provider()
			if err != nil {
				panic(err)
			}
			s.history = []string{fmt.Sprintf("pairwise matrix %d: alg=%s pairwise=%v, token options: JWT", i, alg, pairwise)}
			post := func(form url.Values) map[string]any {
				form.Set("client_id", c08Client)
				form.Set("client_secret", c08Secret)
				rec := c08Serve(h, "POST", "/token", form, nil)
				text := responseText(rec)
				line := "POST /token " + form.Encode()
				s.history = append(s.history, line)
				s.stats["responses"]++
				s.stats["responses:token"]++
				s.checkPairwise("token", text, pairwise, form.Get("grant_type"), map[string]any{"request": line, "response": truncate(text, 1500), "client_subject_type_pairwise": pairwise})
				var m map[string]any
				_ = json.Unmarshal(rec.Body.Bytes(), &m)
				if rec.Code != 200 {
					panic("c09 pairwise matrix: " + line + " => " + text)
				}
				return m
			}
			for _, rt := range []string{"code", "token", "id_token token", "code token", "code id_token token"} {
				q := url.Values{"client_id": {c08Client}, "redirect_uri": {c08Redirect}, "response_type": {rt}, "scope": {cf.Scopes}, "state": {"st"}, "nonce": {"n"}}
				rec := c08Serve(h, "GET", "/authorize?"+q.Encode(), nil, nil)
				text := responseText(rec)
				line := "GET /authorize?" + q.Encode()
				s.history = append(s.history, line)
				s.stats["responses"]++
				s.checkPairwise("authorize", text, pairwise, "implicit", map[string]any{"request": line, "response": truncate(text, 1500)})
				vals, _ := c08NavParams(rec)
				if code := vals.Get("code"); code != "" {
					m := post(url.Values{"grant_type": {"authorization_code"}, "code": {code}, "redirect_uri": {c08Redirect}})
					if rtok, _ := m["refresh_token"].(string); rtok != "" {
						post(url.Values{"grant_type": {"refresh_token"}, "refresh_token": {rtok}})
					}
				}
			}
			post(url.Values{"grant_type": {"client_credentials"}, "scope": {"email"}})
			post(url.Values{"grant_type": {"urn:ietf:params:oauth:grant-type:jwt-bearer"}, "assertion": {"ok:" + cf.Sub}, "scope": {"openid email"}})
			post(url.Values{"grant_type": {"urn:ietf:params:oauth:grant-type:jwt-bearer"}, "assertion": {"ok:" + cf.Sub}, "scope": {"email"}})
		}
	}
}

const c09CaseHeader = `From Verif Require Import Base Scope Types Prog Pop Token Authorize System Config Run Monitors.
From Verif.Corr Require Import C09.
Local Open Scope N_scope.
`

func init() {
	register(&Suite{Name: "c09", Run: func(ctx *RunCtx) {
		s := newScan()
		c09Mixed(ctx, s)
		c09DcrHistories(ctx, s)
		c09JWKS(ctx, s)
		c09Pairwise(ctx, s)
		// the mixed histories as model cases: correspondence + the theorem's monitor on the implementation's trace
		ctx.writeSysCases("mon_C09", true)
		for _, f := range ctx.Meta.Files {
			p := filepath.Join(ctx.Out, f)
			b, _ := os.ReadFile(p)
			_ = os.WriteFile(p, []byte(strings.Replace(string(b), caseHeader, c09CaseHeader, 1)), 0o644)
		}
		ctx.writeCasesJSON()
		var sigs []string
		for sig := range s.findings {
			sigs = append(sigs, sig)
		}
		sort.Strings(sigs)
		for _, sig := range sigs {
			ctx.Meta.Findings = append(ctx.Meta.Findings, s.findings[sig])
		}
		for k, v := range s.stats {
			ctx.Meta.Dist["scan/"+k] += v
		}
		ctx.Meta.Rule = "every response (status line, headers, body) of mixed histories incl. a fault round per history, of DCR create/read/update/delete histories with storage and hook failures, of /jwks and discovery for six key sets, and of every grant for pairwise/public clients with JWT token options, scanned for planted secrets; distinct by projected trace of the mixed histories"
		ctx.Meta.Extra = map[string]any{"responses_scanned": s.stats["responses"]}
	}})
}
