package main

// Suite c12, two scenario matrices (histories of the same kind as the other families: Model/Dcr.v
// operations, evaluated by Corr/C12.v - correspondence and monitor).
//
// family "lists": the three client authentication method lists of a server - token endpoint,
//   introspection endpoint, revocation endpoint - are three DIFFERENT configuration fields.  The servers
//   of this family have lists that differ pairwise, each with at least one method that is in no other
//   list, and the registrations name, per endpoint, every method of the union of the three lists (and
//   one that is in none): a registration is accepted iff the method is in THAT endpoint's list; the
//   monitor's clause 5 flags an accepted registration reported with a method outside the endpoint's
//   own list.  Creates and updates, both storage flavours, rotation on and off.
//
// family "collide": the life of a read-modify-write client (RFC 7592: the client PUTs back the document
//   it received).  register; an update whose body carries members named like the response's own
//   members - client_id, client_secret, registration_access_token, registration_client_uri,
//   client_secret_expires_at, client_id_issued_at - with the REAL current values; read; a plain update;
//   read; an update carrying OTHER values under those names (another client's credentials, strings the
//   client chose); read; an update carrying the real values that also changes the authentication
//   method; read.  For every authentication method the server offers (secret-bearing or not), with and
//   without token rotation.  Monitor clauses 3 (the credentials of an update response are the freshly
//   issued ones, no registration token without rotation) and 6 (a read shows neither a secret nor a
//   registration token) decide.

import "fmt"

func c12ListsSrv(variant int, rotation bool) c12Srv {
	s := c12Srv{Rotation: rotation, Grants: []string{gCC, gAC}, Scopes: []string{"openid", "email"}, IdtSigAlgs: []string{"ES256"},
		Introspection: true, Revocation: true}
	post, basic, sjwt, pk, none := "client_secret_post", "client_secret_basic", "client_secret_jwt", "private_key_jwt", "none"
	switch variant % 4 {
	case 0:
		s.AuthMethods, s.IntroMethods, s.RevocMethods = []string{post, basic}, []string{post, sjwt}, []string{post, pk}
	case 1:
		s.AuthMethods, s.IntroMethods, s.RevocMethods = []string{sjwt, post}, []string{pk, post}, []string{basic, post}
	case 2:
		s.AuthMethods, s.IntroMethods, s.RevocMethods = []string{pk, none, post}, []string{basic}, []string{sjwt}
	default:
		s.AuthMethods, s.IntroMethods, s.RevocMethods = []string{post}, []string{basic, sjwt}, []string{sjwt, pk}
	}
	return s
}

type c12ListPair struct{ Ep, M string }

var c12ListKey = map[string]string{"token": "token_endpoint_auth_method", "introspection": "introspection_endpoint_auth_method", "revocation": "revocation_endpoint_auth_method"}

// every (endpoint, method) over the union of the three lists plus a method that is in none of them
func c12ListPairs(s c12Srv) []c12ListPair {
	var union []string
	for _, m := range s.allMethods() {
		if !has(union, m) {
			union = append(union, m)
		}
	}
	for _, m := range []string{"client_secret_post", "client_secret_basic", "client_secret_jwt", "private_key_jwt"} {
		if !has(union, m) {
			union = append(union, m) // in no list at all
			break
		}
	}
	var l []c12ListPair
	for _, m := range union {
		for _, ep := range []string{"token", "introspection", "revocation"} {
			l = append(l, c12ListPair{ep, m})
		}
	}
	return l
}

func (g *c12Gen) listDoc(p c12ListPair) []Member {
	s := g.srv
	// the other endpoints: nothing asked for; the token endpoint: a method of its list that needs nothing else
	tm := s.AuthMethods[0]
	if has(s.AuthMethods, "client_secret_post") {
		tm = "client_secret_post"
	}
	if p.Ep == "token" {
		tm = p.M
	}
	d := []Member{{"token_endpoint_auth_method", jStr(tm)}}
	if tm == "none" {
		d = append(d, Member{"grant_types", jArr(gAC)}, Member{"response_types", jArr("code")}, Member{"redirect_uris", jArr(redirectsOK[0])})
	} else {
		d = append(d, Member{"grant_types", jArr(gCC)})
	}
	if p.Ep != "token" {
		d = append(d, Member{c12ListKey[p.Ep], jStr(p.M)})
	}
	if tm == "private_key_jwt" || p.M == "private_key_jwt" {
		d = append(d, Member{"jwks", jObj(1)})
	}
	return append(d, Member{"scope", jStr("openid")})
}

func (g *c12Gen) famLists(k int) {
	pairs := c12ListPairs(g.srv)
	per := 5
	base := ((k / 4) % ((len(pairs) + per - 1) / per)) * per
	at := func(i int) c12ListPair { return pairs[(base+i)%len(pairs)] }
	in := func(p c12ListPair) bool {
		return has(map[string][]string{"token": g.srv.AuthMethods, "introspection": g.srv.IntroMethods, "revocation": g.srv.RevocMethods}[p.Ep], p.M)
	}
	note := func(p c12ListPair) string {
		n := 0
		for _, l := range [][]string{g.srv.AuthMethods, g.srv.IntroMethods, g.srv.RevocMethods} {
			if has(l, p.M) {
				n++
			}
		}
		g.dist[fmt.Sprintf("lists: %s method in its own list=%v, in %d of the three lists", p.Ep, in(p), n)]++
		return fmt.Sprintf("%s endpoint method %s (in that endpoint's list: %v, lists naming it: %d)", p.Ep, p.M, in(p), n)
	}
	var a *c12Client
	for i := 0; i < per; i++ {
		p := at(i)
		if c := g.create(g.listDoc(p), false, Hook{}, note(p)); c != nil && a == nil {
			a = c
		}
	}
	if a == nil {
		a = g.create(g.listDoc(c12ListPair{"token", g.srv.AuthMethods[0]}), false, Hook{}, "a client to update")
	}
	if a == nil {
		return
	}
	// the same question on the update path: the pairs of the next block
	for i := 0; i < 3; i++ {
		p := at(per + 2*i)
		g.update(a, g.tokOf(a, "current"), g.listDoc(p), false, Hook{}, "update: "+note(p))
	}
	g.do(DOp{Kind: "Read", Cid: a.ID, Tok: g.tokOf(a, "current"), Why: "read back"})
}

// ---- family "collide" ----
func (g *c12Gen) famCollide(k int) {
	combos := c12Combos(g.srv)
	// A's token endpoint method walks through the server's list (k%4 is the server variant), its
	// introspection / revocation methods through the combinations the server admits; the method change
	// goes to the next method of the list
	ms := g.srv.AuthMethods
	withT := func(t string, j int) c12Combo {
		var l []c12Combo
		for _, c := range combos {
			if c.T == t {
				l = append(l, c)
			}
		}
		return l[j%len(l)]
	}
	at := func(i int) c12Combo {
		switch i {
		case 0:
			return withT(ms[(k/4)%len(ms)], k/4/len(ms)+k/4)
		case 2:
			return withT(ms[(k/4+1)%len(ms)], k/4+3)
		}
		return combos[(7*k+1)%len(combos)]
	}
	docA, docB, docA2 := g.comboDoc(at(0), 1), g.comboDoc(at(1), 1), g.comboDoc(at(2), 1)
	b := g.create(docB, false, Hook{}, fmt.Sprintf("B %+v (its credentials are used as member values)", at(1)))
	a := g.create(docA, false, Hook{}, fmt.Sprintf("A %+v", at(0)))
	if a == nil {
		return
	}
	g.dist["collide: method of A "+at(0).T]++
	read := func(why string) { g.do(DOp{Kind: "Read", Cid: a.ID, Tok: g.tokOf(a, "current"), Why: why}) }
	cp := func(d []Member) []Member { return append([]Member{}, d...) }
	credOr := func(h Handle, s string) JV {
		if h != 0 {
			return jCred(h)
		}
		return jStr(s)
	}
	// the document a read-modify-write client sends back: what it received, real values
	real := func(d []Member) []Member {
		d = cp(d)
		return append(d, Member{"client_id", jCred(a.ID)}, Member{"client_secret", credOr(a.Secret, "no-secret-was-issued")},
			Member{"registration_access_token", jCred(a.Tok)}, Member{"registration_client_uri", jURI(a.ID)},
			Member{"client_secret_expires_at", jNum(0)}, Member{"client_id_issued_at", jNum(1700000000)})
	}
	other := func(d []Member) []Member {
		d = cp(d)
		var bid, bsec, btok Handle
		if b != nil {
			bid, bsec, btok = b.ID, b.Secret, b.Tok
		}
		if k%2 == 0 {
			return append(d, Member{"client_id", credOr(bid, "another-client")}, Member{"client_secret", credOr(bsec, "s3cret-chosen-by-the-client")},
				Member{"registration_access_token", credOr(btok, "token-chosen-by-the-client")}, Member{"registration_client_uri", jStr("https://evil.example/register/x")},
				Member{"client_secret_expires_at", jNum(7)}, Member{"client_id_issued_at", jStr("yesterday")})
		}
		return append(d, Member{"client_id", jStr("dc-chosen-by-the-client")}, Member{"client_secret", jStr("s3cret-chosen-by-the-client")},
			Member{"registration_access_token", jStr("token-chosen-by-the-client")}, Member{"registration_client_uri", credOr(bid, "x")},
			Member{"client_secret_expires_at", jNull()}, Member{"client_id_issued_at", jNum(1)})
	}
	read("read after registration")
	g.update(a, g.tokOf(a, "current"), real(docA), false, Hook{}, "read-modify-write: the reserved members with their real current values")
	read("read after the read-modify-write update")
	if a.Secret != 0 {
		g.useSecret(a, "current")
	}
	g.update(a, g.tokOf(a, "current"), docA, false, Hook{}, "plain update")
	read("read after the plain update")
	g.update(a, g.tokOf(a, "current"), other(docA), false, Hook{}, "the reserved members with other values")
	read("read after the update with other values")
	g.update(a, g.tokOf(a, "current"), real(docA2), false, Hook{}, fmt.Sprintf("read-modify-write that changes the methods to %+v", at(2)))
	read("read after the method change")
	g.update(a, g.tokOf(a, "current"), real(docA2), false, Hook{}, "read-modify-write again (the secret sent is the one of the previous update)")
	read("last read")
	if a.Secret != 0 {
		g.useSecret(a, "current")
	}
	if b != nil {
		g.do(DOp{Kind: "Read", Cid: b.ID, Tok: g.tokOf(b, "current"), Why: "B unaffected"})
	}
}
