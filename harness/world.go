package main

// The world a history runs in: a real provider built from an option list, harness-owned
// storage, scripted embedder callbacks, keys, certificates and a handle table that names
// every server-minted string the way the model does.

import (
	"bytes"
	"context"
	"crypto/ecdsa"
	"crypto/elliptic"
	"crypto/rand"
	"crypto/sha256"
	"crypto/x509"
	"crypto/x509/pkix"
	"encoding/base64"
	"encoding/json"
	"errors"
	"fmt"
	"io"
	"math/big"
	"net/http"
	"net/http/httptest"
	"net/url"
	"slices"
	"strings"
	"time"

	"github.com/go-jose/go-jose/v4"
	"github.com/luikyv/go-oidc/pkg/goidc"
	"github.com/luikyv/go-oidc/pkg/provider"
	"golang.org/x/crypto/bcrypt"
)

const issuer = "https://as.example"

type WorldSpec struct {
	Profile  string
	Opts     []Opt
	Static   []ClientSpec
	Dyn      []ClientSpec
	Flavour  string // alias | copy
	FreshPer bool   // a fresh provider.New per request
}

type Key struct {
	H    Handle
	Priv *ecdsa.PrivateKey
	Jkt  string
}

type Cert struct {
	H     Handle
	X     *x509.Certificate
	Thumb string
}

type World struct {
	Spec    WorldSpec
	Stores  *Stores
	prov    *provider.Provider
	srvKeys goidc.JSONWebKeySet
	// scripted embedder behaviour for the request being served
	polAvail bool
	pol      Pol
	hg       string
	ba       string
	initOK   bool
	initSub  string
	initGr   string
	initRes  []string
	initDet  []Detail
	// captured
	notifs    []Notif
	lastPage  string
	outbound  []string
	// naming
	str2h map[string]Handle
	h2str map[Handle]string
	keys  []Key
	certs []Cert
	curCert *x509.Certificate
	// clock
	now  int
	step int
	clients map[int]*goidc.Client
	allowed bool
	extraTargets []string
	// state outside the three storages that suite c18 changes between requests (what the clients'
	// jwks_uri / sector_identifier_uri / request_uri / notification endpoints answer); nil elsewhere
	c18 *c18Remote
}

func clientName(id int) string { return fmt.Sprintf("c%d", id) }
func clientSecret(id int) string { return fmt.Sprintf("secret-of-client-%d", id) }
func clientNum(name string) int {
	var n int
	if _, err := fmt.Sscanf(name, "c%d", &n); err != nil {
		return 0
	}
	return n
}

var serverKeyCache *ecdsa.PrivateKey
var keyCache []*ecdsa.PrivateKey
var certCache []*x509.Certificate
var hashCache = map[string]string{}

func genKey() *ecdsa.PrivateKey {
	k, err := ecdsa.GenerateKey(elliptic.P256(), rand.Reader)
	if err != nil {
		panic(err)
	}
	return k
}

func genCert(cn string) *x509.Certificate {
	k := genKey()
	tmpl := &x509.Certificate{SerialNumber: big.NewInt(time.Now().UnixNano()), Subject: pkix.Name{CommonName: cn},
		NotBefore: time.Now().Add(-time.Hour), NotAfter: time.Now().Add(24 * time.Hour), DNSNames: []string{cn}}
	der, err := x509.CreateCertificate(rand.Reader, tmpl, tmpl, &k.PublicKey, k)
	if err != nil {
		panic(err)
	}
	c, _ := x509.ParseCertificate(der)
	return c
}

func thumb(s string) string {
	h := sha256.Sum256([]byte(s))
	return base64.RawURLEncoding.EncodeToString(h[:])
}

func bcryptOf(s string) string {
	if h, ok := hashCache[s]; ok {
		return h
	}
	h, _ := bcrypt.GenerateFromPassword([]byte(s), bcrypt.MinCost)
	hashCache[s] = string(h)
	return string(h)
}

func (cs ClientSpec) build() *goidc.Client {
	c := &goidc.Client{ID: clientName(cs.ID)}
	if cs.Public {
		c.TokenAuthnMethod = goidc.ClientAuthnNone
	} else {
		c.TokenAuthnMethod = goidc.ClientAuthnSecretPost
		c.HashedSecret = bcryptOf(clientSecret(cs.ID))
	}
	for _, g := range cs.Grants {
		c.GrantTypes = append(c.GrantTypes, goidc.GrantType(g))
	}
	for _, r := range cs.RespTypes {
		c.ResponseTypes = append(c.ResponseTypes, goidc.ResponseType(r))
	}
	c.RedirectURIs = append([]string(nil), cs.Redirects...)
	c.ScopeIDs = cs.Scopes
	c.CIBATokenDeliveryMode = goidc.CIBATokenDeliveryMode(cs.CibaMode)
	if cs.CibaMode == "ping" || cs.CibaMode == "push" {
		c.CIBANotificationEndpoint = fmt.Sprintf("https://client%d.example/notify", cs.ID)
	}
	c.PARIsRequired = cs.ParReq
	c.JARIsRequired = cs.JarReq
	if cs.JWT {
		c.SetAttribute("jwt", true)
	}
	if cs.Pairwise && !cs.SubTypeAbsent {
		c.SubIdentifierType = goidc.SubIdentifierPairwise
	}
	if !cs.Pairwise && cs.SubTypePublic {
		c.SubIdentifierType = goidc.SubIdentifierPublic
	}
	c.DPoPTokenBindingIsRequired = cs.DpopReq
	c.TLSTokenBindingIsRequired = cs.TLSReq
	if cs.JarmAlg {
		c.JARMSigAlg = goidc.ES256
	}
	c.CIBAUserCodeIsEnabled = cs.UserCode
	if cs.DetailTypesSet {
		c.AuthDetailTypes = append([]string{}, cs.DetailTypes...)
	}
	if cs.Authn != "" {
		c.TokenAuthnMethod = goidc.ClientAuthnType(cs.Authn)
		c.HashedSecret = ""
	}
	if cs.JwksURI {
		c.PublicJWKSURI = c18JwksURI(cs.ID)
	} else if cs.Authn != "" {
		c.PublicJWKS = c18InlineJWKS(cs.ID)
	}
	return c
}

func NewWorld(spec WorldSpec) (*World, error) {
	if serverKeyCache == nil {
		serverKeyCache = genKey()
		for i := 0; i < 3; i++ {
			keyCache = append(keyCache, genKey())
			certCache = append(certCache, genCert(fmt.Sprintf("client%d.example", i+1)))
		}
	}
	w := &World{Spec: spec, str2h: map[string]Handle{}, h2str: map[Handle]string{}, clients: map[int]*goidc.Client{}}
	if jwtbSpecHasGrant(spec) {
		// one provider per process, as far as the package-level anonymous jwt-bearer client goes (jwtb_anon.go)
		jwtbResetAnonymousClient()
	}
	w.Stores = NewStores(spec.Flavour)
	w.srvKeys = goidc.JSONWebKeySet{Keys: []goidc.JSONWebKey{{Key: serverKeyCache, KeyID: "srv-es256", Algorithm: "ES256", Use: "sig"}}}
	for i, k := range keyCache {
		pub := jose.JSONWebKey{Key: &k.PublicKey}
		tp, _ := pub.Thumbprint(0x5) // crypto.SHA256
		jkt := base64.RawURLEncoding.EncodeToString(tp)
		h := unknownBase + 7001 + Handle(i)
		w.keys = append(w.keys, Key{H: h, Priv: k, Jkt: jkt})
		w.name(jkt, h)
	}
	for i, c := range certCache {
		h := unknownBase + 8001 + Handle(i)
		t := thumb(string(c.Raw))
		w.certs = append(w.certs, Cert{H: h, X: c, Thumb: t})
		w.name(t, h)
	}
	for _, cs := range spec.Static {
		w.clients[cs.ID] = cs.build()
	}
	for _, cs := range spec.Dyn {
		c := cs.build()
		w.clients[cs.ID] = c
		if err := w.Stores.C.Save(context.Background(), c); err != nil {
			return nil, err
		}
	}
	p, err := w.newProvider()
	if err != nil {
		return nil, err
	}
	w.prov = p
	return w, nil
}

func (w *World) name(s string, h Handle) { w.str2h[s] = h; w.h2str[h] = s }

// handleOf names a string seen in a response at the current step: an already known string keeps
// its handle, a new one gets mint(step, kind).
func (w *World) handleOf(s string, kind int) Handle {
	if s == "" {
		return 0
	}
	if h, ok := w.str2h[s]; ok {
		return h
	}
	h := mint(w.step, kind)
	if _, taken := w.h2str[h]; taken {
		// a second fresh string of the same kind in one operation: the model cannot name it
		h = unknownBase + 100000 + Handle(len(w.str2h))
	}
	w.name(s, h)
	return h
}

// concrete string for a handle the generator wants to present
func (w *World) concrete(h Handle) string {
	if h == 0 {
		return ""
	}
	if s, ok := w.h2str[h]; ok {
		return s
	}
	// identifiers made of white space only (blankBase + k): never issued, and not empty
	if h >= blankBase && h < blankBase+Handle(len(blankIDs)) {
		return blankIDs[h-blankBase]
	}
	// never-issued value: an opaque-looking string of 50 chars
	s := fmt.Sprintf("unknown-%d-", uint64(h))
	for len(s) < 50 {
		s += "x"
	}
	w.name(s, h)
	return s
}

func (p PK) concrete() string {
	switch p.Kind {
	case 1:
		s := fmt.Sprintf("verifier-%d-", p.N)
		if p.LenOK {
			for len(s) < 50 {
				s += "v"
			}
		}
		return s
	case 2:
		return thumb(p.Inner.concrete())
	}
	return ""
}

func (w *World) newProvider() (*provider.Provider, error) {
	spec := w.Spec
	tokenLifetime := 300
	opts := []provider.ProviderOption{
		provider.WithIDTokenSignatureAlgs(goidc.ES256),
		provider.WithTokenAuthnMethods(goidc.ClientAuthnSecretPost, goidc.ClientAuthnNone),
		provider.WithClientStorage(w.Stores.Clients()),
		provider.WithAuthnSessionStorage(w.Stores.Authn()),
		provider.WithGrantSessionStorage(w.Stores.Grants()),
		provider.WithHandleGrantFunc(func(r *http.Request, gi *goidc.GrantInfo) error {
			switch w.hg {
			case "HgDeny":
				return goidc.NewError(goidc.ErrorCodeAccessDenied, "grant denied by the embedder")
			case "HgFail":
				return errors.New("embedder failure")
			}
			return nil
		}),
		provider.WithHTTPClientFunc(func(context.Context) *http.Client { return &http.Client{Transport: rt{w}} }),
		provider.WithPolicy(goidc.NewPolicy("main",
			func(*http.Request, *goidc.Client, *goidc.AuthnSession) bool { return w.polAvail },
			func(rw http.ResponseWriter, r *http.Request, s *goidc.AuthnSession) (goidc.AuthnStatus, error) {
				switch w.pol.Kind {
				case "PolSuccess":
					s.SetUserID(w.pol.Sub)
					s.GrantScopes(w.pol.Granted)
					if len(w.pol.Resources) > 0 {
						s.GrantResources(append([]string(nil), w.pol.Resources...))
					} else {
						s.GrantResources(nil)
					}
					s.GrantAuthorizationDetails(authdConcrete(w.pol.Details))
					return goidc.StatusSuccess, nil
				case "PolInProgress":
					n, _ := s.StoredParameter("steps").(float64)
					if m, ok := s.StoredParameter("steps").(int); ok {
						n = float64(m)
					}
					s.StoreParameter("steps", int(n)+1)
					rw.WriteHeader(200)
					fmt.Fprintf(rw, "PAGE cb=%s", s.CallbackID)
					return goidc.StatusInProgress, nil
				case "PolFailWith":
					for k, v := range ecodeCoq {
						if v == w.pol.Err {
							return goidc.StatusFailure, goidc.NewError(goidc.ErrorCode(k), "policy refused")
						}
					}
				}
				return goidc.StatusFailure, nil
			})),
	}
	for _, c := range spec.Static {
		sc := w.clients[c.ID]
		if spec.FreshPer {
			// another instance (another process) has its own objects for the static clients
			cp := *sc
			cp.RedirectURIs = append([]string(nil), sc.RedirectURIs...)
			sc = &cp
		}
		opts = append(opts, provider.WithStaticClient(sc))
	}
	for _, o := range spec.Opts {
		switch o.Name {
		case "WithAuthorizationCodeGrant":
			opts = append(opts, provider.WithAuthorizationCodeGrant())
		case "WithImplicitGrant":
			opts = append(opts, provider.WithImplicitGrant())
		case "WithClientCredentialsGrant":
			opts = append(opts, provider.WithClientCredentialsGrant())
		case "WithRefreshTokenGrant":
			opts = append(opts, provider.WithRefreshTokenGrant(issuePolicy(o.S), o.Z))
		case "WithRefreshTokenRotation":
			opts = append(opts, provider.WithRefreshTokenRotation())
		case "WithJWTBearerGrant":
			opts = append(opts, provider.WithJWTBearerGrant(func(r *http.Request, a string) (goidc.JWTBearerGrantInfo, error) {
				if strings.HasPrefix(a, "ok:") {
					return goidc.JWTBearerGrantInfo{Subject: strings.TrimPrefix(a, "ok:")}, nil
				}
				return goidc.JWTBearerGrantInfo{}, errors.New("bad assertion")
			}))
		case "WithJWTBearerGrantClientAuthnRequired":
			opts = append(opts, provider.WithJWTBearerGrantClientAuthnRequired())
		case "WithCIBAGrant":
			opts = append(opts, provider.WithCIBAGrant(
				func(_ context.Context, s *goidc.AuthnSession) error {
					if !w.initOK {
						return goidc.NewError(goidc.ErrorCodeAccessDenied, "backchannel request refused")
					}
					s.SetUserID(w.initSub)
					s.GrantScopes(w.initGr)
					if len(w.initRes) > 0 {
						s.GrantResources(append([]string(nil), w.initRes...))
					}
					if len(w.initDet) > 0 {
						s.GrantAuthorizationDetails(authdConcrete(w.initDet))
					}
					return nil
				},
				func(_ context.Context, s *goidc.AuthnSession) error {
					switch w.ba {
					case "BaApprove":
						return nil
					case "BaNarrow":
						// the user approved less than was asked for: the grant is fixed at this moment
						s.GrantScopes("openid")
						return nil
					case "BaPending":
						return goidc.NewError(goidc.ErrorCodeAuthPending, "pending")
					case "BaSlowDown":
						return goidc.NewError(goidc.ErrorCodeSlowDown, "slow down")
					case "BaDeny":
						return goidc.NewError(goidc.ErrorCodeAccessDenied, "denied")
					}
					return errors.New("embedder failure")
				},
				goidc.CIBATokenDeliveryModePoll, goidc.CIBATokenDeliveryModePing, goidc.CIBATokenDeliveryModePush))
		case "WithCIBALifetime":
			opts = append(opts, provider.WithCIBALifetime(o.Z))
		case "WithCIBAUserCode":
			opts = append(opts, provider.WithCIBAUserCode())
		case "WithCIBAJAR":
			opts = append(opts, provider.WithCIBAJAR(goidc.ES256))
		case "WithCIBAJARRequired":
			opts = append(opts, provider.WithCIBAJARRequired(goidc.ES256))
		case "WithScopes":
			var ss []goidc.Scope
			for _, s := range o.Scopes {
				if s.Dyn {
					p := s.Prefix
					ss = append(ss, goidc.NewDynamicScope(s.ID, func(r string) bool { return strings.HasPrefix(r, p) }))
				} else {
					ss = append(ss, goidc.NewScope(s.ID))
				}
			}
			opts = append(opts, provider.WithScopes(ss...))
		case "WithOpenIDScopeRequired":
			opts = append(opts, provider.WithOpenIDScopeRequired())
		case "WithPAR":
			opts = append(opts, provider.WithPAR(o.Z))
		case "WithPARRequired":
			opts = append(opts, provider.WithPARRequired(o.Z))
		case "WithUnregisteredRedirectURIsForPAR":
			opts = append(opts, provider.WithUnregisteredRedirectURIsForPAR())
		case "WithJAR":
			opts = append(opts, provider.WithJAR(goidc.ES256))
		case "WithJARRequired":
			opts = append(opts, provider.WithJARRequired(goidc.ES256))
		case "WithJARByReference":
			opts = append(opts, provider.WithJARByReference(false))
		case "WithJARM":
			opts = append(opts, provider.WithJARM(goidc.ES256))
		case "WithPKCE", "WithPKCERequired":
			var ms []goidc.CodeChallengeMethod
			for _, m := range o.L {
				ms = append(ms, goidc.CodeChallengeMethod(m))
			}
			if o.Name == "WithPKCE" {
				opts = append(opts, provider.WithPKCE(goidc.CodeChallengeMethod(o.S), ms...))
			} else {
				opts = append(opts, provider.WithPKCERequired(goidc.CodeChallengeMethod(o.S), ms...))
			}
		case "WithDPoP":
			opts = append(opts, provider.WithDPoP(goidc.ES256))
		case "WithDPoPRequired":
			opts = append(opts, provider.WithDPoPRequired(goidc.ES256))
		case "WithMTLS":
			opts = append(opts, provider.WithMTLS("https://mtls.as.example", func(r *http.Request) (*x509.Certificate, error) {
				if w.curCert == nil {
					return nil, errors.New("no client certificate")
				}
				return w.curCert, nil
			}))
		case "WithTLSCertTokenBinding":
			opts = append(opts, provider.WithTLSCertTokenBinding())
		case "WithTLSCertTokenBindingRequired":
			opts = append(opts, provider.WithTLSCertTokenBindingRequired())
		case "WithTokenBindingRequired":
			opts = append(opts, provider.WithTokenBindingRequired())
		case "WithTokenIntrospection":
			opts = append(opts, provider.WithTokenIntrospection(func(c *goidc.Client) bool { return w.allowed }, goidc.ClientAuthnSecretPost, goidc.ClientAuthnNone))
		case "WithTokenRevocation":
			opts = append(opts, provider.WithTokenRevocation(func(c *goidc.Client) bool { return w.allowed }, goidc.ClientAuthnSecretPost, goidc.ClientAuthnNone))
		case "WithDCR":
			opts = append(opts, provider.WithDCR(nil, nil))
		case "WithDCRTokenRotation":
			opts = append(opts, provider.WithDCRTokenRotation())
		case "WithAuthenticationSessionTimeout":
			opts = append(opts, provider.WithAuthenticationSessionTimeout(o.Z))
		case "WithResourceIndicators":
			opts = append(opts, provider.WithResourceIndicators(o.S, append([]string(nil), o.L...)...))
		case "WithResourceIndicatorsRequired":
			opts = append(opts, provider.WithResourceIndicatorsRequired(o.S, append([]string(nil), o.L...)...))
		case "WithAuthorizationDetails":
			opts = append(opts, provider.WithAuthorizationDetails(authdCompareFunc(o.Cmp), o.S, append([]string(nil), o.L...)...))
		case "WithIssuerResponseParameter":
			opts = append(opts, provider.WithIssuerResponseParameter())
		case "WithPathPrefix":
			opts = append(opts, provider.WithPathPrefix(o.S))
		case "WithTokenLifetime":
			tokenLifetime = o.Z
		default:
			return nil, fmt.Errorf("unknown option %s", o.Name)
		}
	}
	opts = append(opts, provider.WithTokenOptions(func(gi goidc.GrantInfo, c *goidc.Client) goidc.TokenOptions {
		if c.Attribute("jwt") == true {
			return goidc.NewJWTTokenOptions(goidc.ES256, tokenLifetime)
		}
		return goidc.NewOpaqueTokenOptions(goidc.DefaultOpaqueTokenLength, tokenLifetime)
	}))
	opts = append(opts, provider.WithGeneratePairwiseSubIDFunc(func(_ context.Context, sub string, c *goidc.Client) string {
		return "pw:" + c.ID + ":" + sub
	}), provider.WithSubIdentifierTypes(goidc.SubIdentifierPublic, goidc.SubIdentifierPairwise))
	if extraProviderOpts != nil {
		opts = append(opts, extraProviderOpts(w)...)
	}
	p, err := provider.New(goidc.Profile(spec.Profile), issuer, func(context.Context) (goidc.JSONWebKeySet, error) { return w.srvKeys, nil }, opts...)
	if err != nil {
		return nil, err
	}
	return &p, nil
}

// issuePolicy: the ShouldIssueRefreshTokenFunc of the world (Model/Types.v issue_pol).  The last two are
// the shapes the library's documentation suggests and are not constant over the life of a grant.
func issuePolicy(kind string) goidc.ShouldIssueRefreshTokenFunc {
	switch kind {
	case "", "IssueAlways":
		return func(*goidc.Client, goidc.GrantInfo) bool { return true }
	case "IssueIfOffline":
		return func(_ *goidc.Client, gi goidc.GrantInfo) bool {
			return slices.Contains(strings.Fields(gi.ActiveScopes), "offline_access")
		}
	case "IssueCodeOnly":
		return func(_ *goidc.Client, gi goidc.GrantInfo) bool { return gi.GrantType == goidc.GrantAuthorizationCode }
	}
	panic("unknown issue policy " + kind)
}

var _ = bytes.NewBuffer

func (w *World) provider() *provider.Provider {
	if w.Spec.FreshPer {
		p, err := w.newProvider()
		if err != nil {
			panic(err)
		}
		return p
	}
	return w.prov
}

// hooks for suites that need provider options or outbound answers the generic world does not know
// (set by the suite around NewWorld / Exec; nil otherwise)
var extraProviderOpts func(w *World) []provider.ProviderOption
var extraRoundTrip func(w *World, r *http.Request) *http.Response

// outbound HTTP: CIBA notifications are captured, nothing touches the network
type rt struct{ w *World }

func (t rt) RoundTrip(r *http.Request) (*http.Response, error) {
	w := t.w
	var body []byte
	if r.Body != nil {
		body, _ = io.ReadAll(r.Body)
	}
	w.outbound = append(w.outbound, r.Method+" "+r.URL.String())
	if extraRoundTrip != nil {
		if resp := extraRoundTrip(w, r); resp != nil {
			return resp, nil
		}
	}
	if strings.HasSuffix(r.URL.Path, "/notify") {
		var m map[string]any
		_ = json.Unmarshal(body, &m)
		n := Notif{}
		var cid int
		fmt.Sscanf(r.URL.Host, "client%d.example", &cid)
		n.EP = notifEP(cid)
		bearer := strings.TrimPrefix(r.Header.Get("Authorization"), "Bearer ")
		n.Bearer = w.handleOf(bearer, KSecret)
		if s, ok := m["auth_req_id"].(string); ok {
			n.AuthReq = w.handleOf(s, KAuthReq)
		}
		if s, ok := m["access_token"].(string); ok {
			n.At = w.handleOf(s, atKind(s))
		}
		if s, ok := m["refresh_token"].(string); ok {
			n.Rt = w.handleOf(s, KRefresh)
		}
		if _, ok := m["error"].(string); ok {
			n.Err = true
		}
		if l := authdAbstract(m["authorization_details"]); len(l) > 0 {
			n.DetailsCoq = cList(l, Detail.coq)
		}
		w.notifs = append(w.notifs, n)
		return &http.Response{StatusCode: 204, Body: io.NopCloser(strings.NewReader("")), Header: http.Header{}}, nil
	}
	return &http.Response{StatusCode: 404, Body: io.NopCloser(strings.NewReader("")), Header: http.Header{}}, nil
}

func atKind(s string) int {
	if strings.Count(s, ".") == 2 {
		return KAtJwt
	}
	return KAtOpaque
}

// serve one HTTP request against the real handler; panics are recovered and reported
func (w *World) serve(method, target string, form url.Values, hdr http.Header) (rec *httptest.ResponseRecorder, panicked any) {
	var body io.Reader
	if form != nil {
		body = strings.NewReader(form.Encode())
	}
	req := httptest.NewRequest(method, target, body)
	if form != nil {
		req.Header.Set("Content-Type", "application/x-www-form-urlencoded")
	}
	for k, vs := range hdr {
		for _, v := range vs {
			req.Header.Add(k, v)
		}
	}
	rec = httptest.NewRecorder()
	defer func() {
		if r := recover(); r != nil {
			panicked = r
		}
		if serveHook != nil {
			serveHook(w, method, target, form, hdr, rec)
		}
	}()
	w.provider().Handler().ServeHTTP(rec, req)
	return rec, nil
}

// serveHook, when set, sees every raw request/response pair served by a World (suite c09 scans them)
var serveHook func(w *World, method, target string, form url.Values, hdr http.Header, rec *httptest.ResponseRecorder)

// white-space-only identifiers a client may send where a server-issued one belongs
const blankBase = unknownBase + 90000

var blankIDs = []string{" ", "\t", "  ", " \t "}
