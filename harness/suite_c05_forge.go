package main

// C05, suite c05forge: JWT access tokens that are NOT "exactly an access-token string this server
// issued" although they verify under (or pretend to verify under) the server's own published keys.
//
// The forging family of the system harness (sysops.go, PForged ... FOtherIss) re-signs with a foreign
// key, so the signature guard refuses before any claim is looked at.  Here the forger holds what a
// sibling tenant of a multi-tenant deployment holds: the signing keys (one KMS key) and the grant
// table.  On REAL providers (provider.New, JWT access tokens obtained through the code flow with the
// openid scope and through client_credentials, two tenants that share keys and grant storage but
// have different issuers) every live token is presented at the FOUR acceptors
//     POST /introspect, GET /userinfo, Provider.TokenInfo, Provider.TokenInfoFromRequest
// (plus token.ExtractID on the provider's own configuration: the verdict of validClaims alone)
// as issued (control) and under every forgery kind of c05fKinds: claims re-signed with the server
// key under a foreign issuer / an issuer that differs by a trailing slash, letter case, scheme, a
// path suffix / iss absent, empty, a JSON array containing the right issuer, a number / a token of
// the other tenant / time claims moved out of their window / kid absent, unknown, naming another
// server key, naming the encryption key / foreign key under the server's kid / alg none / edited
// payload / non-canonical signature / the ID token / lifetime elapsed with exp pushed into the
// future / an unknown jti.
//
// Each presented string is abstracted INDEPENDENTLY of how it was forged (c05fAbstract decodes the
// bytes and finds the signing key by actually verifying the signature under every key of the
// universe) into the record of Model/AtClaims.v; Corr/C05Forge.v compares the implementation's five
// answers with the model (valid_claims, then liveness of the jti in the grant storage as read by the
// harness) and evaluates the monitor mon_C05F: an acceptor answered "live access token" although the
// record violates one of the clauses of Props/C05.v at_claims_issuer_bound.  Acceptances of judged
// kinds are also reported Go-side through meta.Findings (signature c05forge:<acceptor>:<kind>).
//
// Three kinds are presented but NOT judged, because the unchanged code accepts them and the model says
// so (at_claims_key_holder_mints): claims re-signed by the holder of the server's signing key under
// the RIGHT issuer with a live jti (same claims; the jti of another live token; exp pushed on a live
// token).  Whoever holds the signing key is the server; they are listed in meta.extra.

import (
	"bytes"
	"context"
	"crypto/ecdsa"
	"crypto/elliptic"
	"crypto/rand"
	"crypto/rsa"
	"encoding/base64"
	"encoding/json"
	"fmt"
	"net/http"
	"net/http/httptest"
	"net/url"
	"os"
	"path/filepath"
	"reflect"
	"sort"
	"strings"
	"time"
	"unsafe"

	"github.com/go-jose/go-jose/v4"
	"github.com/google/uuid"
	"github.com/luikyv/go-oidc/internal/joseutil"
	"github.com/luikyv/go-oidc/internal/oidc"
	"github.com/luikyv/go-oidc/internal/token"
	"github.com/luikyv/go-oidc/pkg/goidc"
	"github.com/luikyv/go-oidc/pkg/provider"
)

const c05fHeader = `From Coq Require Import NArith ZArith List Bool.
Import ListNotations.
From Verif Require Import AtClaims.
Require Import Verif.Corr.C05Forge.
Local Open Scope N_scope.
`

const (
	c05fClientID = "c05f_client"
	c05fSecret   = "c05f_secret"
	c05fRedirect = "https://client.example/cb"
)

// ---- keys ----

// a key of the universe: the server's keys and one foreign key
type c05fKey struct {
	Kid   string
	Alg   string // JWK alg member
	Use   string
	Priv  any
	Pub   any
	Ident int // identity of the key material (1..), independent of the kid
}

type c05fKeySet struct {
	Name string
	Keys []c05fKey // the server's JWKS, in order
}

var c05fUniverse struct {
	es, es2, enc *ecdsa.PrivateKey
	rsa          *rsa.PrivateKey
	foreign      *ecdsa.PrivateKey
}

func c05fInitKeys() {
	if c05fUniverse.es != nil {
		return
	}
	ec := func() *ecdsa.PrivateKey {
		k, err := ecdsa.GenerateKey(elliptic.P256(), rand.Reader)
		if err != nil {
			panic(err)
		}
		return k
	}
	c05fUniverse.es, c05fUniverse.es2, c05fUniverse.enc, c05fUniverse.foreign = ec(), ec(), ec(), ec()
	k, err := rsa.GenerateKey(rand.Reader, 2048)
	if err != nil {
		panic(err)
	}
	c05fUniverse.rsa = k
}

func c05fKeySets() []c05fKeySet {
	u := c05fUniverse
	return []c05fKeySet{
		{Name: "es256", Keys: []c05fKey{{Kid: "k-es", Alg: "ES256", Use: "sig", Priv: u.es, Pub: &u.es.PublicKey, Ident: 1}}},
		{Name: "ps256+es256+es256b+enc", Keys: []c05fKey{
			{Kid: "k-ps", Alg: "PS256", Use: "sig", Priv: u.rsa, Pub: &u.rsa.PublicKey, Ident: 2},
			{Kid: "k-es", Alg: "ES256", Use: "sig", Priv: u.es, Pub: &u.es.PublicKey, Ident: 1},
			{Kid: "k-es-b", Alg: "ES256", Use: "sig", Priv: u.es2, Pub: &u.es2.PublicKey, Ident: 3},
			{Kid: "k-enc", Alg: "ECDH-ES", Use: "enc", Priv: u.enc, Pub: &u.enc.PublicKey, Ident: 4},
		}},
	}
}

func c05fForeignKey() c05fKey {
	return c05fKey{Kid: "k-foreign", Alg: "ES256", Use: "sig", Priv: c05fUniverse.foreign, Pub: &c05fUniverse.foreign.PublicKey, Ident: 9}
}

func (ks c05fKeySet) jwks() goidc.JSONWebKeySet {
	var out goidc.JSONWebKeySet
	for _, k := range ks.Keys {
		out.Keys = append(out.Keys, goidc.JSONWebKey{Key: k.Priv, KeyID: k.Kid, Algorithm: k.Alg, Use: k.Use})
	}
	return out
}

func (ks c05fKeySet) byAlg(alg string) c05fKey {
	for _, k := range ks.Keys {
		if k.Alg == alg && k.Use == "sig" {
			return k
		}
	}
	panic("c05forge: no key for " + alg)
}

// ---- providers ----

type c05fConfig struct {
	Name     string
	KeySet   string
	TokenAlg string
	Leeway   int
	Storage  string // alias = /repo's in-memory storage; copy = JSON round-trip storage of the harness
	IssuerA  string
	IssuerB  string
}

type c05fTenant struct {
	Issuer string
	op     provider.Provider
	h      http.Handler
	cfg    *oidc.Configuration // the provider's own configuration (nil if it could not be reached)
	cfgHow string
}

func c05fNewTenant(cf c05fConfig, issuer string, ks c05fKeySet, st *Stores) (*c05fTenant, error) {
	client := &goidc.Client{
		ID:           c05fClientID,
		HashedSecret: bcryptOf(c05fSecret),
		ClientMetaInfo: goidc.ClientMetaInfo{
			TokenAuthnMethod: goidc.ClientAuthnSecretPost,
			RedirectURIs:     []string{c05fRedirect},
			ScopeIDs:         "openid scope1 short",
			GrantTypes:       []goidc.GrantType{goidc.GrantAuthorizationCode, goidc.GrantClientCredentials},
			ResponseTypes:    []goidc.ResponseType{goidc.ResponseTypeCode},
		},
	}
	jwks := ks.jwks()
	alg := goidc.SignatureAlgorithm(cf.TokenAlg)
	op, err := provider.New(goidc.ProfileOpenID, issuer,
		func(context.Context) (goidc.JSONWebKeySet, error) { return jwks, nil },
		provider.WithScopes(goidc.ScopeOpenID, goidc.NewScope("scope1"), goidc.NewScope("short")),
		provider.WithIDTokenSignatureAlgs(alg),
		provider.WithUserInfoSignatureAlgs(alg),
		provider.WithAuthnSessionStorage(st.Authn()),
		provider.WithGrantSessionStorage(st.Grants()),
		provider.WithStaticClient(client),
		provider.WithAuthorizationCodeGrant(),
		provider.WithClientCredentialsGrant(),
		provider.WithJWTLeewayTime(cf.Leeway),
		provider.WithTokenOptions(func(gi goidc.GrantInfo, _ *goidc.Client) goidc.TokenOptions {
			life := 600
			if strings.Contains(" "+gi.ActiveScopes+" ", " short ") {
				life = 1
			}
			return goidc.NewJWTTokenOptions(alg, life)
		}),
		provider.WithTokenAuthnMethods(goidc.ClientAuthnSecretPost),
		provider.WithTokenIntrospection(func(*goidc.Client) bool { return true }, goidc.ClientAuthnSecretPost),
		provider.WithPolicy(goidc.NewPolicy("c05f_policy",
			func(*http.Request, *goidc.Client, *goidc.AuthnSession) bool { return true },
			func(_ http.ResponseWriter, _ *http.Request, as *goidc.AuthnSession) (goidc.AuthnStatus, error) {
				as.SetUserID("c05f_user")
				as.GrantScopes(as.Scopes)
				return goidc.StatusSuccess, nil
			})),
	)
	if err != nil {
		return nil, err
	}
	t := &c05fTenant{Issuer: issuer, op: op, h: op.Handler()}
	t.cfg, t.cfgHow = c05fConfigOf(op)
	if t.cfg == nil {
		// the provider keeps its configuration elsewhere: ExtractID runs on a configuration built by hand
		t.cfg = &oidc.Configuration{Profile: goidc.ProfileOpenID, Host: issuer, JWTLeewayTimeSecs: cf.Leeway,
			JWKSFunc: func(context.Context) (goidc.JSONWebKeySet, error) { return jwks, nil }}
		t.cfgHow = "hand-built"
	}
	return t, nil
}

// the *oidc.Configuration the provider works with (unexported field `config`)
func c05fConfigOf(op provider.Provider) (cfg *oidc.Configuration, how string) {
	defer func() {
		if recover() != nil {
			cfg, how = nil, ""
		}
	}()
	v := reflect.ValueOf(&op).Elem()
	for i := 0; i < v.NumField(); i++ {
		f := v.Field(i)
		if f.Type() == reflect.TypeOf((*oidc.Configuration)(nil)) {
			p := reflect.NewAt(f.Type(), unsafe.Pointer(f.UnsafeAddr())).Elem().Interface().(*oidc.Configuration)
			if p != nil {
				return p, "provider." + v.Type().Field(i).Name
			}
		}
	}
	return nil, ""
}

// the endpoints are mounted at the root of the handler whatever path the issuer identifier has
func (t *c05fTenant) origin() string {
	u, err := url.Parse(t.Issuer)
	if err != nil {
		return t.Issuer
	}
	return u.Scheme + "://" + u.Host
}

func (t *c05fTenant) post(path string, form url.Values) *httptest.ResponseRecorder {
	form.Set("client_id", c05fClientID)
	form.Set("client_secret", c05fSecret)
	req := httptest.NewRequest(http.MethodPost, t.origin()+path, strings.NewReader(form.Encode()))
	req.Header.Set("Content-Type", "application/x-www-form-urlencoded")
	rec := httptest.NewRecorder()
	t.h.ServeHTTP(rec, req)
	return rec
}

type c05fIssued struct {
	Tenant  string // "A" / "B"
	Grant   string
	Scopes  string
	Access  string
	IDToken string
	Short   bool
	At      time.Time
}

func (t *c05fTenant) tokenOf(rec *httptest.ResponseRecorder) (string, string, error) {
	var resp struct {
		AccessToken string `json:"access_token"`
		IDToken     string `json:"id_token"`
	}
	if err := json.Unmarshal(rec.Body.Bytes(), &resp); err != nil || rec.Code != http.StatusOK || strings.Count(resp.AccessToken, ".") != 2 {
		return "", "", fmt.Errorf("%s issued no JWT access token: status=%d body=%s", t.Issuer, rec.Code, truncate(rec.Body.String(), 300))
	}
	return resp.AccessToken, resp.IDToken, nil
}

func (t *c05fTenant) clientCredentials(scopes string) (string, error) {
	at, _, err := t.tokenOf(t.post("/token", url.Values{"grant_type": {"client_credentials"}, "scope": {scopes}}))
	return at, err
}

func (t *c05fTenant) authorizationCode(scopes, state string) (string, string, error) {
	params := url.Values{"client_id": {c05fClientID}, "redirect_uri": {c05fRedirect}, "response_type": {"code"}, "scope": {scopes}, "state": {state}}
	req := httptest.NewRequest(http.MethodGet, t.origin()+"/authorize?"+params.Encode(), nil)
	rec := httptest.NewRecorder()
	t.h.ServeHTTP(rec, req)
	loc, err := url.Parse(rec.Header().Get("Location"))
	if err != nil || loc.Query().Get("code") == "" {
		return "", "", fmt.Errorf("%s issued no code: status=%d location=%q body=%s", t.Issuer, rec.Code, rec.Header().Get("Location"), truncate(rec.Body.String(), 300))
	}
	return t.tokenOf(t.post("/token", url.Values{"grant_type": {"authorization_code"}, "code": {loc.Query().Get("code")}, "redirect_uri": {c05fRedirect}}))
}

// ---- the five observations ----

type c05fAnswer struct {
	Acceptor string
	Accepted bool
	Status   int    `json:",omitempty"`
	Answer   string // body excerpt / error
}

func c05fSafely(name string, f func() (bool, int, string)) (a c05fAnswer) {
	a.Acceptor = name
	defer func() {
		if r := recover(); r != nil {
			a.Accepted, a.Answer = false, fmt.Sprintf("panic: %v", r)
		}
	}()
	a.Accepted, a.Status, a.Answer = f()
	return a
}

func (t *c05fTenant) present(tok string) []c05fAnswer {
	var out []c05fAnswer
	out = append(out, c05fSafely("introspect", func() (bool, int, string) {
		rec := t.post("/introspect", url.Values{"token": {tok}})
		var info struct {
			Active    bool   `json:"active"`
			TokenType string `json:"token_type"`
		}
		_ = json.Unmarshal(rec.Body.Bytes(), &info)
		return rec.Code == http.StatusOK && info.Active, rec.Code, truncate(rec.Body.String(), 240)
	}))
	out = append(out, c05fSafely("userinfo", func() (bool, int, string) {
		req := httptest.NewRequest(http.MethodGet, t.origin()+"/userinfo", nil)
		req.Header.Set("Authorization", "Bearer "+tok)
		rec := httptest.NewRecorder()
		t.h.ServeHTTP(rec, req)
		return rec.Code == http.StatusOK, rec.Code, truncate(rec.Body.String(), 240)
	}))
	out = append(out, c05fSafely("TokenInfo", func() (bool, int, string) {
		ti, err := t.op.TokenInfo(context.Background(), tok)
		if err != nil {
			return false, 0, "error: " + err.Error()
		}
		return ti.IsActive && ti.Type != goidc.TokenHintRefresh, 0, fmt.Sprintf("active=%v type=%s grant=%s client=%s scopes=%q", ti.IsActive, ti.Type, ti.GrantID, ti.ClientID, ti.Scopes)
	}))
	out = append(out, c05fSafely("TokenInfoFromRequest", func() (bool, int, string) {
		req := httptest.NewRequest(http.MethodGet, "https://resource.example/api", nil)
		req.Header.Set("Authorization", "Bearer "+tok)
		ti, err := t.op.TokenInfoFromRequest(httptest.NewRecorder(), req)
		if err != nil {
			return false, 0, "error: " + err.Error()
		}
		return ti.IsActive && ti.Type != goidc.TokenHintRefresh, 0, fmt.Sprintf("active=%v type=%s grant=%s client=%s scopes=%q", ti.IsActive, ti.Type, ti.GrantID, ti.ClientID, ti.Scopes)
	}))
	out = append(out, c05fSafely("ExtractID", func() (bool, int, string) {
		// the verdict of validClaims alone; a string that is not JWS-shaped never reaches validClaims
		// (ExtractID hands it back as an opaque token id), which counts as "validClaims did not accept"
		id, err := token.ExtractID(oidc.FromContext(context.Background(), t.cfg), tok)
		if err != nil {
			return false, 0, "error: " + err.Error()
		}
		if !joseutil.IsJWS(tok) {
			return false, 0, "not JWS-shaped, taken for an opaque token: id=" + truncate(id, 60)
		}
		return true, 0, "id=" + id
	}))
	return out
}

// ---- forging ----

type c05fParts struct {
	Header map[string]any
	Claims map[string]any
	Segs   []string
}

func c05fDecode(tok string) (c05fParts, bool) {
	p := c05fParts{Segs: strings.Split(tok, ".")}
	if len(p.Segs) != 3 {
		return p, false
	}
	hb, err1 := base64.RawURLEncoding.DecodeString(p.Segs[0])
	pb, err2 := base64.RawURLEncoding.DecodeString(p.Segs[1])
	if err1 != nil || err2 != nil {
		return p, false
	}
	d := json.NewDecoder(bytes.NewReader(pb))
	d.UseNumber()
	if json.Unmarshal(hb, &p.Header) != nil || d.Decode(&p.Claims) != nil {
		return p, false
	}
	return p, true
}

func c05fB64(v any) string {
	b, err := json.Marshal(v)
	if err != nil {
		panic(err)
	}
	return base64.RawURLEncoding.EncodeToString(b)
}

// compact JWS over the claims: protected header {alg, typ, kid (unless nil)}, signed with the key
func c05fSign(k c05fKey, alg string, kid *string, typ string, claims map[string]any) string {
	opts := &jose.SignerOptions{}
	if typ != "" {
		opts = opts.WithType(jose.ContentType(typ))
	}
	if kid != nil {
		opts = opts.WithHeader("kid", *kid)
	}
	sg, err := jose.NewSigner(jose.SigningKey{Algorithm: jose.SignatureAlgorithm(alg), Key: k.Priv}, opts)
	if err != nil {
		panic(err)
	}
	payload, _ := json.Marshal(claims)
	obj, err := sg.Sign(payload)
	if err != nil {
		panic(err)
	}
	out, err := obj.CompactSerialize()
	if err != nil {
		panic(err)
	}
	return out
}

func c05fCopyClaims(m map[string]any) map[string]any {
	out := map[string]any{}
	for k, v := range m {
		out[k] = v
	}
	return out
}

func c05fSwapCase(s string) string {
	// letters of the authority only: the scheme stays as it is
	i := strings.Index(s, "://")
	if i < 0 {
		i = -3
	}
	b := []byte(s)
	for j := i + 3; j < len(b); j++ {
		switch {
		case b[j] >= 'a' && b[j] <= 'z':
			b[j] -= 32
		case b[j] >= 'A' && b[j] <= 'Z':
			b[j] += 32
		}
	}
	return string(b)
}

func c05fSwapScheme(s string) string {
	if strings.HasPrefix(s, "https://") {
		return "http://" + strings.TrimPrefix(s, "https://")
	}
	return "https://" + strings.TrimPrefix(s, "http://")
}

type c05fEnv struct {
	cf      c05fConfig
	ks      c05fKeySet
	self    *c05fTenant // the tenant the string is presented to
	other   *c05fTenant
	base    c05fIssued  // a live token of `self`
	sibling *c05fIssued // another live token of `self` (same grant type)
	cross   *c05fIssued // the token of the same grant type issued by `other`
	expired *c05fIssued // a token of `self` (same grant type) whose lifetime has elapsed
	now     int64
}

// a forgery kind; Judged: the string is not an issued live access-token string and the unchanged code must refuse
// it at the four acceptors.  Make returns "" when the kind does not apply to the configuration.
type c05fKind struct {
	Name   string
	Code   int
	Judged bool
	Make   func(e *c05fEnv) string
}

func c05fResign(e *c05fEnv, src string, edit func(claims map[string]any)) string {
	p, ok := c05fDecode(src)
	if !ok {
		return ""
	}
	claims := c05fCopyClaims(p.Claims)
	edit(claims)
	k := e.ks.byAlg(e.cf.TokenAlg)
	return c05fSign(k, k.Alg, &k.Kid, "at+jwt", claims)
}

func c05fIssKind(name string, code int, iss func(e *c05fEnv) (any, bool)) c05fKind {
	return c05fKind{Name: name, Code: code, Judged: true, Make: func(e *c05fEnv) string {
		return c05fResign(e, e.base.Access, func(c map[string]any) {
			if v, keep := iss(e); keep {
				c["iss"] = v
			} else {
				delete(c, "iss")
			}
		})
	}}
}

func c05fKinds() []c05fKind {
	withKey := func(pick func(e *c05fEnv) (c05fKey, string, *string, bool)) func(e *c05fEnv) string {
		return func(e *c05fEnv) string {
			k, alg, kid, ok := pick(e)
			if !ok {
				return ""
			}
			p, okd := c05fDecode(e.base.Access)
			if !okd {
				return ""
			}
			return c05fSign(k, alg, kid, "at+jwt", p.Claims)
		}
	}
	str := func(s string) *string { return &s }
	return []c05fKind{
		{Name: "genuine", Code: 0, Make: func(e *c05fEnv) string { return e.base.Access }},
		// --- the issuer ---
		c05fIssKind("iss-foreign", 1, func(e *c05fEnv) (any, bool) { return "https://other.example", true }),
		c05fIssKind("iss-trailing-slash", 2, func(e *c05fEnv) (any, bool) { return e.self.Issuer + "/", true }),
		c05fIssKind("iss-letter-case", 3, func(e *c05fEnv) (any, bool) { return c05fSwapCase(e.self.Issuer), true }),
		c05fIssKind("iss-scheme", 4, func(e *c05fEnv) (any, bool) { return c05fSwapScheme(e.self.Issuer), true }),
		c05fIssKind("iss-path-suffix", 5, func(e *c05fEnv) (any, bool) { return e.self.Issuer + "/tenant", true }),
		c05fIssKind("iss-absent", 6, func(e *c05fEnv) (any, bool) { return nil, false }),
		c05fIssKind("iss-empty", 7, func(e *c05fEnv) (any, bool) { return "", true }),
		c05fIssKind("iss-array-of-right-issuer", 8, func(e *c05fEnv) (any, bool) { return []string{e.self.Issuer}, true }),
		c05fIssKind("iss-array-right-and-foreign", 9, func(e *c05fEnv) (any, bool) { return []string{e.self.Issuer, "https://other.example"}, true }),
		c05fIssKind("iss-number", 10, func(e *c05fEnv) (any, bool) { return 7, true }),
		c05fIssKind("iss-other-tenant-resigned", 11, func(e *c05fEnv) (any, bool) { return e.other.Issuer, true }),
		{Name: "other-tenant-token", Code: 12, Judged: true, Make: func(e *c05fEnv) string {
			if e.cross == nil {
				return ""
			}
			return e.cross.Access
		}},
		// --- the time claims ---
		{Name: "exp-in-the-past", Code: 13, Judged: true, Make: func(e *c05fEnv) string {
			return c05fResign(e, e.base.Access, func(c map[string]any) { c["exp"] = e.now - 600 })
		}},
		{Name: "nbf-in-the-future", Code: 14, Judged: true, Make: func(e *c05fEnv) string {
			return c05fResign(e, e.base.Access, func(c map[string]any) { c["nbf"] = e.now + 600 })
		}},
		{Name: "iat-in-the-future", Code: 15, Judged: true, Make: func(e *c05fEnv) string {
			return c05fResign(e, e.base.Access, func(c map[string]any) { c["iat"] = e.now + 600 })
		}},
		// --- the key ---
		{Name: "kid-absent", Code: 16, Judged: true, Make: withKey(func(e *c05fEnv) (c05fKey, string, *string, bool) {
			k := e.ks.byAlg(e.cf.TokenAlg)
			return k, k.Alg, nil, true
		})},
		{Name: "kid-unknown", Code: 17, Judged: true, Make: withKey(func(e *c05fEnv) (c05fKey, string, *string, bool) {
			k := e.ks.byAlg(e.cf.TokenAlg)
			return k, k.Alg, str("k-unknown"), true
		})},
		{Name: "kid-of-another-server-key", Code: 18, Judged: true, Make: withKey(func(e *c05fEnv) (c05fKey, string, *string, bool) {
			k := e.ks.byAlg(e.cf.TokenAlg)
			for _, o := range e.ks.Keys {
				// the kid names another signing key of the server (same family when there is one)
				if o.Use == "sig" && o.Kid != k.Kid && (o.Alg == k.Alg || len(e.ks.Keys) == 2) {
					return k, k.Alg, str(o.Kid), true
				}
			}
			for _, o := range e.ks.Keys {
				if o.Use == "sig" && o.Kid != k.Kid {
					return k, k.Alg, str(o.Kid), true
				}
			}
			return k, "", nil, false
		})},
		{Name: "signed-by-server-encryption-key", Code: 19, Judged: true, Make: withKey(func(e *c05fEnv) (c05fKey, string, *string, bool) {
			for _, o := range e.ks.Keys {
				if o.Use == "enc" {
					return o, "ES256", str(o.Kid), true
				}
			}
			return c05fKey{}, "", nil, false
		})},
		{Name: "foreign-key-under-server-kid", Code: 20, Judged: true, Make: withKey(func(e *c05fEnv) (c05fKey, string, *string, bool) {
			k := e.ks.byAlg("ES256")
			return c05fForeignKey(), "ES256", str(k.Kid), true
		})},
		{Name: "alg-none", Code: 21, Judged: true, Make: func(e *c05fEnv) string {
			p, ok := c05fDecode(e.base.Access)
			if !ok {
				return ""
			}
			return c05fB64(map[string]any{"alg": "none", "typ": "at+jwt", "kid": p.Header["kid"]}) + "." + p.Segs[1] + "."
		}},
		{Name: "payload-edited", Code: 22, Judged: true, Make: func(e *c05fEnv) string {
			p, ok := c05fDecode(e.base.Access)
			if !ok {
				return ""
			}
			c := c05fCopyClaims(p.Claims)
			c["scope"] = "openid admin"
			return p.Segs[0] + "." + c05fB64(c) + "." + p.Segs[2]
		}},
		{Name: "signature-not-canonical", Code: 23, Judged: true, Make: func(e *c05fEnv) string {
			s := e.base.Access
			const alpha = "ABCDEFGHIJKLMNOPQRSTUVWXYZabcdefghijklmnopqrstuvwxyz0123456789-_"
			i := strings.IndexByte(alpha, s[len(s)-1])
			sig := s[strings.LastIndex(s, ".")+1:]
			// only when the last character has unused bits (length mod 4 = 2 or 3)
			if i < 0 || len(sig)%4 == 0 {
				return ""
			}
			return s[:len(s)-1] + string(alpha[i^1])
		}},
		// --- server-issued strings that are not live access tokens ---
		{Name: "id-token", Code: 24, Judged: true, Make: func(e *c05fEnv) string { return e.base.IDToken }},
		{Name: "jti-unknown", Code: 25, Judged: true, Make: func(e *c05fEnv) string {
			return c05fResign(e, e.base.Access, func(c map[string]any) { c["jti"] = uuid.NewString() })
		}},
		{Name: "jti-absent", Code: 26, Judged: true, Make: func(e *c05fEnv) string {
			return c05fResign(e, e.base.Access, func(c map[string]any) { delete(c, "jti") })
		}},
		{Name: "expired-genuine", Code: 27, Judged: true, Make: func(e *c05fEnv) string {
			if e.expired == nil {
				return ""
			}
			return e.expired.Access
		}},
		{Name: "expired-exp-pushed", Code: 28, Judged: true, Make: func(e *c05fEnv) string {
			if e.expired == nil {
				return ""
			}
			return c05fResign(e, e.expired.Access, func(c map[string]any) { c["exp"] = e.now + 600 })
		}},
		{Name: "expired-exp-removed", Code: 29, Judged: true, Make: func(e *c05fEnv) string {
			if e.expired == nil {
				return ""
			}
			return c05fResign(e, e.expired.Access, func(c map[string]any) { delete(c, "exp") })
		}},
		// --- minted by the holder of the signing key under the RIGHT issuer with a live jti: accepted by the
		//     unchanged code, predicted by the model (at_claims_key_holder_mints), listed, not judged ---
		{Name: "mint:same-claims-resigned", Code: 40, Make: func(e *c05fEnv) string {
			return c05fResign(e, e.base.Access, func(c map[string]any) {})
		}},
		{Name: "mint:jti-of-another-live-token", Code: 41, Make: func(e *c05fEnv) string {
			if e.sibling == nil {
				return ""
			}
			sp, ok := c05fDecode(e.sibling.Access)
			if !ok {
				return ""
			}
			return c05fResign(e, e.base.Access, func(c map[string]any) { c["jti"] = sp.Claims["jti"] })
		}},
		{Name: "mint:exp-pushed-on-live-token", Code: 42, Make: func(e *c05fEnv) string {
			return c05fResign(e, e.base.Access, func(c map[string]any) { c["exp"] = e.now + 86400 })
		}},
	}
}

// ---- abstraction of a presented string (independent of how it was made) ----

type c05fAbs struct {
	WF       bool
	Alg      int  // 0 = none / unknown
	Kid      *int // code of the kid string
	Signer   *int // identity of the key under which the signature verifies with the header's alg
	Canon    bool
	IssKind  string // absent | one | array | other
	Iss      []int  // codes of the issuer strings (0 = "", 1 = the configured issuer)
	Exp      *int64 // offsets from now, seconds
	Nbf      *int64
	Iat      *int64
	Typed    bool // exp/nbf/iat numeric, jti a string
	Jti      *int
	JtiStr   string
	HeaderJS string
	ClaimsJS string
}

var c05fAlgCodes = map[string]int{"ES256": 1, "PS256": 2, "RS256": 3, "ES384": 4, "ECDH-ES": 5, "HS256": 6}

type c05fIntern struct {
	m    map[string]int
	next int
}

func (t *c05fIntern) code(s string) int {
	if c, ok := t.m[s]; ok {
		return c
	}
	t.m[s] = t.next
	t.next++
	return t.m[s]
}

func c05fAbstract(tok string, host string, universe []c05fKey, kids, jtis *c05fIntern, now int64) c05fAbs {
	a := c05fAbs{Typed: true}
	p, ok := c05fDecode(tok)
	if !ok {
		return a
	}
	sigBytes, err := base64.RawURLEncoding.DecodeString(p.Segs[2])
	if err != nil {
		return a
	}
	a.WF = true
	_, errStrict := base64.RawURLEncoding.Strict().DecodeString(p.Segs[2])
	a.Canon = errStrict == nil
	hb, _ := json.Marshal(p.Header)
	cb, _ := json.Marshal(p.Claims)
	a.HeaderJS, a.ClaimsJS = string(hb), string(cb)
	alg, _ := p.Header["alg"].(string)
	a.Alg = c05fAlgCodes[alg]
	if k, ok := p.Header["kid"].(string); ok && k != "" {
		c := kids.code(k)
		a.Kid = &c
	}
	// who signed: verify the bytes under every key of the universe with the header's algorithm
	if a.Alg != 0 && len(sigBytes) > 0 {
		if obj, err := jose.ParseSigned(tok, []jose.SignatureAlgorithm{jose.ES256, jose.PS256, jose.RS256, jose.ES384}); err == nil {
			for _, k := range universe {
				if _, err := obj.Verify(k.Pub); err == nil {
					id := k.Ident
					a.Signer = &id
					break
				}
			}
		}
	}
	return a
}

// ---- cases ----

type c05fCase struct {
	Note     string
	Config   c05fConfig
	Tenant   string
	Grant    string
	Scopes   string
	Kind     c05fKind
	Token    string
	Abs      c05fAbs
	HostCode int
	Keys     []c05fKey
	KidCodes []int
	Live     bool
	OpenID   bool
	Answers  []c05fAnswer
}

func c05fOptN(p *int) string {
	if p == nil {
		return "None"
	}
	return fmt.Sprintf("(Some %d)", *p)
}

func c05fOptZ(p *int64) string {
	if p == nil {
		return "None"
	}
	return fmt.Sprintf("(Some (%d)%%Z)", *p)
}

func (c *c05fCase) coq() string {
	var keys []string
	for i, k := range c.Keys {
		use := "UseSig"
		if k.Use != "sig" {
			use = "UseEnc"
		}
		keys = append(keys, fmt.Sprintf("mkSKey %d %d %d %s", c.KidCodes[i], k.Ident, c05fAlgCodes[k.Alg], use))
	}
	iss := "IssAbsent"
	switch c.Abs.IssKind {
	case "one":
		iss = fmt.Sprintf("(IssOne %d)", c.Abs.Iss[0])
	case "array":
		var vs []string
		for _, v := range c.Abs.Iss {
			vs = append(vs, fmt.Sprint(v))
		}
		iss = "(IssArray [" + strings.Join(vs, "; ") + "])"
	case "other":
		iss = "IssOther"
	}
	var obs []string
	for _, a := range c.Answers {
		obs = append(obs, cB(a.Accepted))
	}
	return fmt.Sprintf("mkFCase (mkAtCfg %d [%s] (%d)%%Z)\n  (mkJwt %s %d %s %s %s %s %s %s %s %s %s)\n  %d %s %s [%s]",
		c.HostCode, strings.Join(keys, "; "), c.Config.Leeway,
		cB(c.Abs.WF), c.Abs.Alg, c05fOptN(c.Abs.Kid), c05fOptN(c.Abs.Signer), cB(c.Abs.Canon), iss,
		c05fOptZ(c.Abs.Exp), c05fOptZ(c.Abs.Nbf), c05fOptZ(c.Abs.Iat), cB(c.Abs.Typed), c05fOptN(c.Abs.Jti),
		c.Kind.Code, cB(c.Live), cB(c.OpenID), strings.Join(obs, "; "))
}

func c05fNum(v any) (int64, bool) {
	switch n := v.(type) {
	case json.Number:
		if i, err := n.Int64(); err == nil {
			return i, true
		}
		if f, err := n.Float64(); err == nil {
			return int64(f), true
		}
	case float64:
		return int64(n), true
	}
	return 0, false
}

// fills the claim part of the abstraction; iss strings are interned per case: "" = 0, the configured issuer = 1
func c05fAbstractClaims(a *c05fAbs, tok, host string, jtis *c05fIntern, now int64) {
	p, ok := c05fDecode(tok)
	if !ok {
		return
	}
	isses := &c05fIntern{m: map[string]int{"": 0, host: 1}, next: 2}
	switch v := p.Claims["iss"].(type) {
	case nil:
		a.IssKind = "absent"
	case string:
		a.IssKind, a.Iss = "one", []int{isses.code(v)}
	case []any:
		a.IssKind = "array"
		for _, x := range v {
			s, isStr := x.(string)
			if !isStr {
				a.IssKind, a.Iss = "other", nil
				break
			}
			a.Iss = append(a.Iss, isses.code(s))
		}
	default:
		a.IssKind = "other"
	}
	tm := func(name string) *int64 {
		v, present := p.Claims[name]
		if !present || v == nil {
			return nil
		}
		n, isNum := c05fNum(v)
		if !isNum {
			a.Typed = false
			return nil
		}
		off := n - now
		return &off
	}
	a.Exp, a.Nbf, a.Iat = tm("exp"), tm("nbf"), tm("iat")
	switch v := p.Claims["jti"].(type) {
	case nil:
	case string:
		c := jtis.code(v)
		a.Jti, a.JtiStr = &c, v
	default:
		a.Typed = false
	}
}

func c05fConfigs(ctx *RunCtx) []c05fConfig {
	r := ctx.R
	label := func() string {
		const al = "abcdefghijklmnopqrstuvwxyz"
		b := make([]byte, 5+r.Intn(4))
		for i := range b {
			b[i] = al[r.Intn(len(al))]
		}
		return string(b)
	}
	host := func(shape int) (string, string) {
		a, b := label(), label()
		for b == a {
			b = label()
		}
		switch shape % 4 {
		case 0:
			return "https://" + a + ".example.com", "https://" + b + ".example.com"
		case 1:
			return "https://as.example.com/" + a, "https://as.example.com/" + b
		case 2:
			return "https://" + a + ".example.com:8443", "https://" + b + ".example.com:8443"
		default:
			return "https://id.example.org/realms/" + a, "https://id.example.org/realms/" + b
		}
	}
	base := []c05fConfig{
		{KeySet: "es256", TokenAlg: "ES256", Leeway: 0, Storage: "alias"},
		{KeySet: "ps256+es256+es256b+enc", TokenAlg: "PS256", Leeway: 1, Storage: "copy"},
		{KeySet: "ps256+es256+es256b+enc", TokenAlg: "ES256", Leeway: 0, Storage: "copy"},
		{KeySet: "es256", TokenAlg: "ES256", Leeway: 1, Storage: "alias"},
	}
	var out []c05fConfig
	n := ctx.N(len(base), 16)
	for i := 0; i < n; i++ {
		c := base[i%len(base)]
		if i >= len(base) {
			c.Leeway = r.Intn(3)
			c.Storage = []string{"alias", "copy"}[r.Intn(2)]
			if c.KeySet != "es256" {
				c.TokenAlg = []string{"PS256", "ES256"}[r.Intn(2)]
			}
		}
		c.IssuerA, c.IssuerB = host(i)
		c.Name = fmt.Sprintf("cfg%d %s alg=%s leeway=%d storage=%s issuer=%s", i, c.KeySet, c.TokenAlg, c.Leeway, c.Storage, c.IssuerA)
		out = append(out, c)
	}
	return out
}

func init() {
	register(&Suite{Name: "c05forge", Run: func(ctx *RunCtx) {
		c05fInitKeys()
		keySets := map[string]c05fKeySet{}
		for _, ks := range c05fKeySets() {
			keySets[ks.Name] = ks
		}
		kinds := c05fKinds()
		stats := map[string]int{}
		var cases []*c05fCase
		type world struct {
			cf     c05fConfig
			ks     c05fKeySet
			st     *Stores
			a, b   *c05fTenant
			issued []c05fIssued
		}
		var worlds []*world
		fail := func(sig, what string, replay any) {
			ctx.Meta.Findings = append(ctx.Meta.Findings, Finding{Property: "C05", Signature: sig, What: what, Replay: replay})
		}
		// phase 1: build the tenants and issue every token (the short-lived ones included)
		maxLeeway := 0
		var lastShort time.Time
		for _, cf := range c05fConfigs(ctx) {
			ks := keySets[cf.KeySet]
			st := NewStores(cf.Storage)
			st.BeginRequest(nil, -1)
			a, errA := c05fNewTenant(cf, cf.IssuerA, ks, st)
			b, errB := c05fNewTenant(cf, cf.IssuerB, ks, st)
			if errA != nil || errB != nil {
				fail("c05forge:setup:provider.New", fmt.Sprintf("provider.New refused the configuration %s: %v %v", cf.Name, errA, errB), cf)
				continue
			}
			w := &world{cf: cf, ks: ks, st: st, a: a, b: b}
			if cf.Leeway > maxLeeway {
				maxLeeway = cf.Leeway
			}
			for _, tn := range []struct {
				name string
				t    *c05fTenant
			}{{"A", a}, {"B", b}} {
				issue := func(grant, scopes string, short bool, n int) {
					var at, idt string
					var err error
					if grant == "client_credentials" {
						at, err = tn.t.clientCredentials(scopes)
					} else {
						at, idt, err = tn.t.authorizationCode(scopes, fmt.Sprintf("st-%d", n))
					}
					if err != nil {
						fail("c05forge:setup:"+grant, "no JWT access token could be obtained: "+err.Error(), map[string]any{"config": cf, "tenant": tn.name, "grant": grant, "scopes": scopes})
						return
					}
					w.issued = append(w.issued, c05fIssued{Tenant: tn.name, Grant: grant, Scopes: scopes, Access: at, IDToken: idt, Short: short, At: time.Now()})
					if short {
						lastShort = time.Now()
					}
					stats["issued "+grant+map[bool]string{true: " short-lived", false: ""}[short]]++
				}
				issue("authorization_code", "openid scope1", false, 1)
				issue("authorization_code", "openid scope1", false, 2)
				issue("client_credentials", "scope1", false, 3)
				issue("client_credentials", "scope1", false, 4)
				issue("authorization_code", "openid scope1 short", true, 5)
				issue("client_credentials", "scope1 short", true, 6)
			}
			worlds = append(worlds, w)
		}
		// the short-lived tokens (1 s) must be past exp + leeway with a margin of a full second
		if !lastShort.IsZero() {
			wait := time.Until(lastShort.Add(time.Duration(1+maxLeeway)*time.Second + 2200*time.Millisecond))
			if wait > 0 {
				time.Sleep(wait)
			}
		}
		// phase 2: the matrix
		seenFinding := map[string]int{}
		type mintNote struct {
			Config, Tenant, Grant, Kind, Token, Header, Claims string
			AcceptedAt                                         []string
		}
		var mints []mintNote
		for _, w := range worlds {
			universe := append(append([]c05fKey{}, w.ks.Keys...), c05fForeignKey())
			for _, side := range []string{"A", "B"} {
				self, other := w.a, w.b
				if side == "B" {
					self, other = w.b, w.a
				}
				pick := func(tenant, grant string, short bool, nth int) *c05fIssued {
					k := 0
					for i := range w.issued {
						is := &w.issued[i]
						if is.Tenant == tenant && is.Grant == grant && is.Short == short {
							if k == nth {
								return is
							}
							k++
						}
					}
					return nil
				}
				otherSide := map[string]string{"A": "B", "B": "A"}[side]
				for _, grant := range []string{"authorization_code", "client_credentials"} {
					base := pick(side, grant, false, 0)
					if base == nil {
						continue
					}
					for _, kind := range kinds {
						now := time.Now().Unix()
						env := &c05fEnv{cf: w.cf, ks: w.ks, self: self, other: other, base: *base, sibling: pick(side, grant, false, 1),
							cross: pick(otherSide, grant, false, 0), expired: pick(side, grant, true, 0), now: now}
						tok := kind.Make(env)
						if tok == "" {
							stats["kind not applicable: "+kind.Name]++
							continue
						}
						kids := &c05fIntern{m: map[string]int{}, next: 1}
						var kidCodes []int
						for _, k := range w.ks.Keys {
							kidCodes = append(kidCodes, kids.code(k.Kid))
						}
						jtis := &c05fIntern{m: map[string]int{}, next: 1}
						abs := c05fAbstract(tok, self.Issuer, universe, kids, jtis, now)
						c05fAbstractClaims(&abs, tok, self.Issuer, jtis, now)
						// liveness of the presented jti, read from the grant storage by the harness itself
						live, openid := false, false
						if abs.Jti != nil {
							if gs, err := w.st.G.SessionByTokenID(context.Background(), abs.JtiStr); err == nil && gs != nil {
								live = !gs.HasLastTokenExpired()
								openid = strings.Contains(" "+gs.ActiveScopes+" ", " openid ")
							}
						}
						cs := &c05fCase{Config: w.cf, Tenant: side, Grant: grant, Scopes: base.Scopes, Kind: kind, Token: tok, Abs: abs,
							HostCode: 1, Keys: w.ks.Keys, KidCodes: kidCodes, Live: live, OpenID: openid,
							Note: fmt.Sprintf("%s tenant=%s grant=%s kind=%s", w.cf.Name, side, grant, kind.Name)}
						cs.Answers = self.present(tok)
						cases = append(cases, cs)
						ctx.Meta.Ops += len(cs.Answers)
						var acceptedAt []string
						for _, a := range cs.Answers {
							cell := kind.Name + " @" + a.Acceptor
							if a.Accepted {
								stats[cell+" accepted"]++
								acceptedAt = append(acceptedAt, a.Acceptor)
							} else {
								stats[cell+" refused"]++
							}
							replay := map[string]any{
								"provider":       map[string]any{"profile": "openid", "issuer": self.Issuer, "other_tenant_issuer": other.Issuer, "jwks": w.cf.KeySet, "token_alg": w.cf.TokenAlg, "jwt_leeway_secs": w.cf.Leeway, "storage": w.cf.Storage, "shared_between_tenants": "signing keys, grant storage, client"},
								"grant_type":     grant,
								"scopes":         base.Scopes,
								"forgery_kind":   kind.Name,
								"base_token":     base.Access,
								"presented":      tok,
								"decoded_header": abs.HeaderJS,
								"decoded_claims": abs.ClaimsJS,
								"acceptor":       a.Acceptor,
								"answer":         a,
								"all_answers":    cs.Answers,
								"extract_id_on":  self.cfgHow,
							}
							switch {
							case kind.Code == 0:
								want := a.Acceptor != "userinfo" || strings.Contains(base.Scopes, "openid")
								if a.Accepted != want {
									sig := "c05forge:control:" + a.Acceptor
									if seenFinding[sig]++; seenFinding[sig] == 1 {
										fail(sig, fmt.Sprintf("control: the genuine %s token is %s at %s (expected %s) - the suite cannot judge forgeries on this configuration",
											grant, map[bool]string{true: "accepted", false: "refused"}[a.Accepted], a.Acceptor, map[bool]string{true: "accepted", false: "refused"}[want]), replay)
									}
								}
							case kind.Judged && a.Accepted && a.Acceptor != "ExtractID":
								sig := "c05forge:" + a.Acceptor + ":" + kind.Name
								if seenFinding[sig]++; seenFinding[sig] == 1 {
									fail(sig, fmt.Sprintf("%s took a string that is not a live access token issued by this server for a live access token: forgery kind %s on a %s token (issuer %s, header %s, claims %s)",
										a.Acceptor, kind.Name, grant, self.Issuer, abs.HeaderJS, abs.ClaimsJS), replay)
								}
							}
						}
						if !kind.Judged && kind.Code != 0 && len(acceptedAt) > 0 && len(mints) < 12 {
							mints = append(mints, mintNote{w.cf.Name, side, grant, kind.Name, tok, abs.HeaderJS, abs.ClaimsJS, acceptedAt})
						}
					}
				}
			}
		}
		for sig, n := range seenFinding {
			if n > 1 {
				stats["finding repeated: "+sig] = n
			}
		}
		c05fWrite(ctx, cases, stats)
		c05fHow := "n/a"
		if len(worlds) > 0 {
			c05fHow = worlds[0].a.cfgHow
		}
		ctx.Meta.Extra = map[string]any{
			"key_holder_mints_accepted_by_the_unchanged_code": mints,
			"extract_id_runs_on_configuration":                c05fHow,
		}
		ctx.Meta.Rule = "real providers (two tenants sharing signing keys and grant storage, different issuers) x {ES256-only JWKS, PS256+ES256+ES256+encryption-key JWKS} x token alg x JWT leeway x storage flavour x issuer shape (host, path, port) x {authorization_code with openid, client_credentials} x every forgery kind (issuer: foreign, trailing slash, letter case, scheme, path suffix, absent, empty, array, number, other tenant; time claims out of window; kid absent/unknown/other key/encryption key; foreign key; alg none; edited payload; non-canonical signature; ID token; unknown/absent jti; elapsed lifetime with exp pushed/removed; key-holder mints) x the four acceptors + token.ExtractID; distinct by (kind, grant, key set, verdict vector); non-trivial = the genuine token is accepted and the forgery refused"
	}})
}

func c05fWrite(ctx *RunCtx, cases []*c05fCase, stats map[string]int) {
	per := 200
	for k := 0; k*per < len(cases); k++ {
		hi := (k + 1) * per
		if hi > len(cases) {
			hi = len(cases)
		}
		var b strings.Builder
		b.WriteString(c05fHeader)
		var names []string
		for i, cs := range cases[k*per : hi] {
			fmt.Fprintf(&b, "(*CASE %d %s*)\nDefinition c_%d : fcase :=\n  %s.\n", k*per+i, strings.ReplaceAll(cs.Note, "*)", ""), k*per+i, cs.coq())
			names = append(names, fmt.Sprintf("c_%d", k*per+i))
		}
		b.WriteString("(*END*)\nDefinition cases : list fcase := [" + strings.Join(names, "; ") + "].\n")
		b.WriteString("Definition corr := Eval vm_compute in map check_fcase cases.\nPrint corr.\n")
		b.WriteString("Definition mon := Eval vm_compute in map mon_C05F cases.\nPrint mon.\n")
		name := fmt.Sprintf("cases_%03d.v", k)
		if err := os.WriteFile(filepath.Join(ctx.Out, name), []byte(b.String()), 0o644); err != nil {
			panic(err)
		}
		ctx.Meta.Files = append(ctx.Meta.Files, name)
	}
	ctx.Meta.Cases = len(cases)
	type jc struct {
		Index int
		Note  string
		Spec  any
		Ops   any
		Obs   any
	}
	var all []jc
	seen := map[string]bool{}
	genuineOK := map[string]bool{}
	for _, cs := range cases {
		if cs.Kind.Code == 0 && len(cs.Answers) > 0 && cs.Answers[0].Accepted {
			genuineOK[cs.Config.Name+cs.Tenant+cs.Grant] = true
		}
	}
	for i, cs := range cases {
		var v strings.Builder
		refused := true
		for _, a := range cs.Answers {
			v.WriteString(cB(a.Accepted)[:1])
			if a.Accepted && a.Acceptor != "ExtractID" {
				refused = false
			}
		}
		if cs.Kind.Code != 0 && refused && genuineOK[cs.Config.Name+cs.Tenant+cs.Grant] {
			seen[cs.Kind.Name+"|"+cs.Grant+"|"+cs.Config.KeySet+"|"+v.String()] = true
		}
		all = append(all, jc{i, cs.Note,
			map[string]any{"profile": "openid", "issuer": map[string]string{"A": cs.Config.IssuerA, "B": cs.Config.IssuerB}[cs.Tenant], "config": cs.Config,
				"shared_between_tenants": "signing keys, grant storage, client", "presented_to_tenant": cs.Tenant},
			[]map[string]any{{"grant_type": cs.Grant, "scopes": cs.Scopes, "forgery_kind": cs.Kind.Name, "presented": cs.Token,
				"decoded_header": cs.Abs.HeaderJS, "decoded_claims": cs.Abs.ClaimsJS, "jti_live_in_grant_storage": cs.Live,
				"operation_index": "1 = /introspect, 2 = /userinfo, 3 = TokenInfo, 4 = TokenInfoFromRequest, 5 = token.ExtractID"}},
			cs.Answers})
	}
	ctx.Meta.Distinct = len(seen)
	for _, want := range []string{"iss-foreign", "other-tenant-token"} {
		for _, cs := range cases {
			if cs.Kind.Name == want {
				var ans []string
				for _, a := range cs.Answers {
					ans = append(ans, fmt.Sprintf("%s:%v", a.Acceptor, a.Accepted))
				}
				ctx.Meta.Samples = append(ctx.Meta.Samples, map[string]any{"note": cs.Note, "header": cs.Abs.HeaderJS, "claims": cs.Abs.ClaimsJS, "abstract": cs.coq(), "answers": strings.Join(ans, " ")})
				break
			}
		}
	}
	keys := make([]string, 0, len(stats))
	for k := range stats {
		keys = append(keys, k)
	}
	sort.Strings(keys)
	for _, k := range keys {
		ctx.Meta.Dist[k] += stats[k]
	}
	b, _ := json.Marshal(all)
	_ = os.WriteFile(filepath.Join(ctx.Out, "cases.json"), b, 0o644)
}
