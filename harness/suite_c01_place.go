package main

// C01, two further dimensions of the single-deviation catalogue (suite c01):
//
//  1. PLACEMENT: where each member of the credential travels.  Every form-carried member
//     (client_id, client_secret, client_assertion, client_assertion_type) in the body (normal), in
//     the query string of the request URI only, in both with equal / with different values; for
//     client_secret_basic / client_secret_post the secret in the Authorization header vs. in the
//     form.  The model (Model/AuthnWire.v) reads form-carried members from the body only.
//  2. IDENTIFICATION IN SEVERAL PLACES: Basic user, body client_id and assertion issuer, agreeing
//     or disagreeing (header vs body, body vs assertion, all three), each with the right, a wrong
//     or no proof of identity - at every entry point, and for the jwt-bearer grant with client
//     authentication required and not required (the anonymous path must be taken only when the
//     request names nobody at all).

import (
	"fmt"
	"strings"
)

// placement deviations of the valid request of a client registered with `method`
func c01PlacementDevs(method string) []c01Dev {
	var d []c01Dev
	add := func(name string, f func(k *c01Case)) { d = append(d, c01Dev{name, f}) }

	// ---- client_id ----
	if method == "MNone" || method == "MSecretPost" || isTLS(method) { // the valid request carries client_id in the body
		add("client_id in the query string only", func(k *c01Case) { k.Req.FormID = 0; k.Req.QID = pI(1) })
		add("client_id in the body and in the query string, equal", func(k *c01Case) { k.Req.QID = pI(1) })
		add("client_id in the body, the other client's in the query string", func(k *c01Case) { k.Req.QID = pI(2) })
		add("the other client's client_id in the body, this client's in the query string", func(k *c01Case) {
			k.Req.FormID = 2
			k.Req.QID = pI(1)
			if method == "MNone" { // that would be the other public client's own valid request
				k.Clients[1].Method, k.Clients[1].Hashed = "MSecretPost", hSec2
			}
		})
		if method != "MNone" {
			add("client_id as Basic user and in the query string, not in the body", func(k *c01Case) {
				k.Req.FormID = 0
				k.Req.Basic = &[2]int{1, 0}
				k.Req.QID = pI(1)
			})
		}
	} else { // Basic user / assertion issuer identify the client
		add("client_id in the query string on top, naming this client", func(k *c01Case) { k.Req.QID = pI(1) })
		add("client_id in the query string on top, naming the other client", func(k *c01Case) { k.Req.QID = pI(2) })
	}

	// ---- client_secret ----
	switch method {
	case "MSecretPost":
		add("client_secret in the query string only", func(k *c01Case) { k.Req.FormSecret = 0; k.Req.QSecret = pI(hSec1) })
		add("client_secret in the body and in the query string, equal", func(k *c01Case) { k.Req.QSecret = pI(hSec1) })
		add("right client_secret in the body, a wrong one in the query string", func(k *c01Case) { k.Req.QSecret = pI(hSecWrong) })
		add("wrong client_secret in the body, the right one in the query string", func(k *c01Case) {
			k.Req.FormSecret = hSecWrong
			k.Req.QSecret = pI(hSec1)
		})
		add("client_id and client_secret both in the query string only", func(k *c01Case) {
			k.Req.FormID, k.Req.FormSecret = 0, 0
			k.Req.QID, k.Req.QSecret = pI(1), pI(hSec1)
		})
		add("wrong client_secret in the body, the right one as Basic password", func(k *c01Case) {
			k.Req.FormSecret = hSecWrong
			k.Req.Basic = &[2]int{1, hSec1}
		})
		add("no client_secret in the body, the right one as Basic password, client_id in the body", func(k *c01Case) {
			k.Req.FormSecret = 0
			k.Req.Basic = &[2]int{1, hSec1}
		})
	case "MSecretBasic":
		add("Basic password empty, the right secret as client_secret in the query string", func(k *c01Case) {
			k.Req.Basic[1] = 0
			k.Req.QSecret = pI(hSec1)
		})
		add("Basic password empty, the right secret as client_secret in the body", func(k *c01Case) {
			k.Req.Basic[1] = 0
			k.Req.FormSecret = hSec1
		})
		add("Basic password wrong, the right secret as client_secret in the body with client_id", func(k *c01Case) {
			k.Req.Basic[1] = hSecWrong
			k.Req.FormID, k.Req.FormSecret = 1, hSec1
		})
		add("valid Basic header and a wrong client_secret in the body", func(k *c01Case) { k.Req.FormSecret = hSecWrong })
		add("valid Basic header and a wrong client_secret in the query string", func(k *c01Case) { k.Req.QSecret = pI(hSecWrong) })
		add("no Basic header, client_id and client_secret in the query string", func(k *c01Case) {
			k.Req.Basic = nil
			k.Req.QID, k.Req.QSecret = pI(1), pI(hSec1)
		})
	}

	// ---- client_assertion and client_assertion_type ----
	if isJWT(method) {
		add("client_assertion in the query string only", func(k *c01Case) {
			k.Req.QAKind, k.Req.QA = "AJws", k.Req.A
			k.Req.AKind, k.Req.A = "ANone", nil
		})
		add("client_assertion in the query string only, client_id in the body", func(k *c01Case) {
			k.Req.QAKind, k.Req.QA = "AJws", k.Req.A
			k.Req.AKind, k.Req.A = "ANone", nil
			k.Req.FormID = 1
		})
		add("client_assertion and its type in the query string only, client_id in the body", func(k *c01Case) {
			k.Req.QAKind, k.Req.QA = "AJws", k.Req.A
			k.Req.AKind, k.Req.A = "ANone", nil
			k.Req.QType, k.Req.TypeOK, k.Req.TypeAbsent = "ok", false, true
			k.Req.FormID = 1
		})
		add("the same client_assertion in the body and in the query string", func(k *c01Case) { k.Req.QAKind = "Same" })
		add("valid client_assertion in the body, garbage in the query string", func(k *c01Case) { k.Req.QAKind = "AGarbage" })
		add("valid client_assertion in the body, one issued by the other client in the query string", func(k *c01Case) {
			k.Req.QAKind = "AJws"
			k.Req.QA = &aAssertion{Signer: "priv", SignerKey: kC2, Alg: "ES256", Kid: 21, Iss: pI(2), Sub: 2, Aud: []string{"AudTokenURL"}, Exp: pI(60), Jti: true}
		})
		add("garbage client_assertion in the body, the valid one in the query string", func(k *c01Case) {
			k.Req.QAKind, k.Req.QA = "AJws", k.Req.A
			k.Req.AKind, k.Req.A = "AGarbage", nil
		})
		add("forged client_assertion in the body, the valid one in the query string", func(k *c01Case) {
			q := *k.Req.A
			k.Req.QAKind, k.Req.QA = "AJws", &q
			if k.Req.A.Signer == "hsecret" {
				k.Req.A.SignerKey = hPlainWrong
			} else {
				k.Req.A.SignerKey = kForeign
			}
		})
		add("client_assertion_type in the query string only", func(k *c01Case) {
			k.Req.QType, k.Req.TypeOK, k.Req.TypeAbsent = "ok", false, true
		})
		add("client_assertion_type in the body and in the query string, equal", func(k *c01Case) { k.Req.QType = "ok" })
		add("right client_assertion_type in the body, another URN in the query string", func(k *c01Case) { k.Req.QType = "other" })
		add("another URN as client_assertion_type in the body, the right one in the query string", func(k *c01Case) {
			k.Req.QType, k.Req.TypeOK, k.Req.TypeAbsent = "ok", false, false
		})
	}

	// ---- everything the valid request does not need, in the query string ----
	add("query string carries the other client's client_id, a wrong client_secret, a garbage client_assertion and a foreign assertion type", func(k *c01Case) {
		k.Req.QID, k.Req.QSecret, k.Req.QAKind, k.Req.QType = pI(2), pI(hSecWrong), "AGarbage", "other"
	})
	add("query string carries a private_key_jwt credential of the other client", func(k *c01Case) {
		k.Req.QAKind, k.Req.QType = "AJws", "ok"
		k.Req.QA = &aAssertion{Signer: "priv", SignerKey: kC2, Alg: "ES256", Kid: 21, Iss: pI(2), Sub: 2, Aud: []string{"AudTokenURL"}, Exp: pI(60), Jti: true}
	})
	return d
}

// per-endpoint override client_secret_post with a misplaced secret (introspection / revocation)
func c01PlacementOverrideDevs(method, entry string) []c01Dev {
	if entry != "EpIntrospect" && entry != "EpRevoke" {
		return nil
	}
	setM := func(c *aClient, m string) {
		if entry == "EpIntrospect" {
			c.IntroMethod = m
		} else {
			c.RevokeMethod = m
		}
	}
	return []c01Dev{
		{"endpoint method override client_secret_post, client_secret in the query string only", func(k *c01Case) {
			setM(&k.Clients[0], "MSecretPost")
			k.Clients[0].Hashed = hSec1
			k.Req = c01ValidReq("MSecretPost")
			k.Req.FormSecret, k.Req.QSecret = 0, pI(hSec1)
		}},
		{"endpoint method override client_secret_post, wrong client_secret in the body, right one in the query string", func(k *c01Case) {
			setM(&k.Clients[0], "MSecretPost")
			k.Clients[0].Hashed = hSec1
			k.Req = c01ValidReq("MSecretPost")
			k.Req.FormSecret, k.Req.QSecret = hSecWrong, pI(hSec1)
		}},
		{"endpoint method override client_secret_basic, the secret as client_secret in the body", func(k *c01Case) {
			setM(&k.Clients[0], "MSecretBasic")
			k.Clients[0].Hashed = hSec1
			k.Req = c01ValidReq("MSecretPost")
		}},
		{"endpoint method override private_key_jwt, client_assertion in the query string only", func(k *c01Case) {
			setM(&k.Clients[0], "MPrivateKeyJWT")
			k.Clients[0].Jwks, k.Clients[0].Keys = "value", c01Keys()
			k.Req = c01ValidReq("MPrivateKeyJWT")
			k.Req.QAKind, k.Req.QA = "AJws", k.Req.A
			k.Req.AKind, k.Req.A = "ANone", nil
			k.Req.FormID = 1
		}},
	}
}

// ---------- identification present in several places ----------

// an identification pattern: the client each place names (0 = the place is not used)
type c01IdPattern struct {
	name    string
	h, b, a int
}

var c01IdPatterns = []c01IdPattern{
	{"header and body agree", 1, 1, 0},
	{"header names this client, body the other", 1, 2, 0},
	{"header names the other client, body this one", 2, 1, 0},
	{"body and assertion issuer agree", 0, 1, 1},
	{"body names this client, assertion issuer the other", 0, 1, 2},
	{"body names the other client, assertion issuer this one", 0, 2, 1},
	{"header and assertion issuer agree", 1, 0, 1},
	{"header names the other client, assertion issuer this one", 2, 0, 1},
	{"all three agree", 1, 1, 1},
	{"header and body name this client, assertion issuer the other", 1, 1, 2},
	{"header names the other client, body and assertion issuer this one", 2, 1, 1},
	{"body names the other client, header and assertion issuer this one", 1, 2, 1},
	{"all three differ (this, the other, an unknown client)", 1, 2, 9},
	{"header and body name two unknown clients", 8, 9, 0},
}

// the request of pattern p for a client registered with `method`, with the right / a wrong / no proof
// of being client 1
func c01IdReq(method string, p c01IdPattern, proof string) aReq {
	r := aReq{AKind: "ANone", TypeAbsent: true, JtiOK: true}
	sec := map[string]int{"right": hSec1, "wrong": hSecWrong, "absent": 0}[proof]
	if p.h != 0 {
		r.Basic = &[2]int{p.h, 0}
		if method == "MSecretBasic" {
			r.Basic[1] = sec
		}
	}
	if p.b != 0 {
		r.FormID = p.b
		if method == "MSecretPost" {
			r.FormSecret = sec
		}
	}
	if p.a != 0 {
		r.AKind, r.TypeOK, r.TypeAbsent = "AJws", true, false
		m := method
		if !isJWT(m) {
			m = "MPrivateKeyJWT" // the assertion is a carrier of identification only
		}
		a := c01ValidAssertion(m)
		a.Iss, a.Sub = pI(p.a), p.a
		switch proof {
		case "wrong":
			if a.Signer == "hsecret" {
				a.SignerKey = hPlainWrong
			} else {
				a.SignerKey = kForeign
			}
		case "absent":
			a.Signer = "unsigned"
		}
		r.A = a
	}
	if isTLS(method) {
		switch proof {
		case "right":
			r.Cert = c01AbsCert(ctC1)
		case "wrong":
			r.Cert = c01AbsCert(ctF)
		}
	}
	return r
}

// the family for one (entry, method) cell; anon = jwt-bearer with client authentication not required
func c01IdentFamily(ctx *RunCtx, method, entry string, anon bool) []*c01Case {
	var out []*c01Case
	seen := map[string]bool{}
	for _, p := range c01IdPatterns {
		for _, proof := range []string{"right", "wrong", "absent"} {
			k := c01BaseCase(method, entry)
			k.Anon = anon
			k.Clients[0].Static = ctx.R.Intn(2) == 0
			k.Clients[1].Static = ctx.R.Intn(2) == 0
			if method == "MNone" {
				// with two public clients every disagreement would still be two valid requests' worth of
				// identification; keep the other client confidential so that nothing but c1 can be served
				k.Clients[1].Method, k.Clients[1].Hashed = "MSecretPost", hSec2
			}
			k.Req = c01IdReq(method, p, proof)
			key := k.Req.coq()
			if seen[key] {
				continue
			}
			seen[key] = true
			mode := ""
			if entry == "EpJwtBearer" {
				mode = ", client authentication required"
				if anon {
					mode = ", anonymous use allowed"
				}
			}
			k.Note = fmt.Sprintf("%s / %s / ids in several places: %s; %s proof%s", strings.TrimPrefix(entry, "Ep"), strings.TrimPrefix(method, "M"), p.name, proof, mode)
			out = append(out, k)
		}
	}
	return out
}

// the anonymous jwt-bearer path and the placement dimension: identification that sits in the query
// string only is no identification (the request goes the anonymous way when that is allowed, and is
// refused when it is not); a Basic header with an empty user names nobody
func c01AnonPlacement(method string) []*c01Case {
	var out []*c01Case
	mk := func(name string, anon bool, f func(r *aReq)) {
		k := c01BaseCase(method, "EpJwtBearer")
		k.Anon = anon
		k.Clients[0].Static = true
		k.Req = aReq{AKind: "ANone", TypeAbsent: true, JtiOK: true}
		f(&k.Req)
		mode := "client authentication required"
		if anon {
			mode = "anonymous use allowed"
		}
		k.Note = fmt.Sprintf("JwtBearer / %s / %s, %s", strings.TrimPrefix(method, "M"), mode, name)
		out = append(out, k)
	}
	for _, anon := range []bool{true, false} {
		mk("client_id in the query string only", anon, func(r *aReq) { r.QID = pI(1) })
		mk("Basic header with an empty user", anon, func(r *aReq) { r.Basic = &[2]int{0, hSecWrong} })
		mk("client_assertion in the query string only", anon, func(r *aReq) {
			r.QAKind, r.QType = "AJws", "ok"
			r.QA = c01ValidAssertion("MPrivateKeyJWT")
		})
		mk("garbage client_assertion in the body", anon, func(r *aReq) { r.AKind = "AGarbage" })
		mk("client_assertion without iss in the body", anon, func(r *aReq) {
			r.AKind, r.TypeOK, r.TypeAbsent = "AJws", true, false
			r.A = c01ValidAssertion("MPrivateKeyJWT")
			r.A.Iss = nil
		})
		mk("client_assertion with an unsupported algorithm in the body", anon, func(r *aReq) {
			r.AKind, r.TypeOK, r.TypeAbsent = "AJws", true, false
			r.A = c01ValidAssertion("MPrivateKeyJWT")
			r.A.Signer, r.A.Alg = "unsigned", "AlgNone"
		})
	}
	return out
}
